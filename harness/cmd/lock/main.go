// Driver for C16: real `blackdagger start` / `retry` processes on one marker-file DAG, each under
// `strace -f -ttt -T -e trace=execve,flock,connect,bind,unlinkat` (optionally with a syscall delay injected to widen a window),
// launched at chosen phases of the first run's life.  Per scenario it records, for every process: exit code, the
// kind of refusal, the times of its socket system calls (probe = connect, unlink before bind, bind, shutdown unlink,
// late unlink - effective times, i.e. entry + injected delay), its marker lines (which steps it executed, when), the
// history files, and the answers of the status endpoint to the driver's own probes.
//
//	lock <out.jsonl> <tier> <workdir> <blackdagger binary>
//
// Scenarios (one JSON object each):
//
//	seq            second start and retry while steps run / during the exit handler / after the end
//	probe-bind     first start delayed before its unlink (after probe, history open, first status); second start inside
//	bind-first     first start delayed before its bind; second start binds first
//	save           first start delayed inside its locked section; the DAG definition is saved (real UpdateSpec); second start after the save
//	accept-error   first start with EMFILE injected into its first accept4; status requests and a second start afterwards
//	late-unlink    first start with every unlinkat delayed; second start after its shutdown unlink; third after its exit
//	sweep-<ms>     second start <ms> after the first, no injection
package main

import (
	"bufio"
	"encoding/json"
	"fmt"
	"net"
	"net/http"
	"os"
	"os/exec"
	"path/filepath"
	"regexp"
	"sort"
	"strconv"
	"strings"
	"sync"
	"syscall"
	"time"

	"github.com/ErdemOzgen/blackdagger/internal/dag"
	"github.com/ErdemOzgen/blackdagger/internal/persistence/local"
	"github.com/ErdemOzgen/blackdagger/verifh/vh"
)

type Anchor struct {
	Act     string  `json:"act"` // lock | probe | unlink | bind | shutunlink | lateunlink (lock: T = the instant the flock was granted)
	T       float64 `json:"t"`   // effective time (epoch seconds): entry + injected delay
	Dur     float64 `json:"dur"` // time from entry to exit of the call as strace saw it (-T), minus the injected delay
	Ok      bool    `json:"ok"`  // the system call succeeded (probe: connected)
	Delayed bool    `json:"delayed"`
}

type Marker struct {
	Step string  `json:"step"`
	T    float64 `json:"t"`
}

type Proc struct {
	I        int      `json:"i"`
	Pid      int      `json:"pid"` // process id of the traced blackdagger process (the child of strace)
	Tag      string   `json:"tag"`
	Kind     string   `json:"kind"` // start | retry
	Path     string   `json:"path"` // the DAG file as given on the command line
	Inject   string   `json:"inject"`
	Launched float64  `json:"launched"`
	Exited   float64  `json:"exited"`
	Code     int      `json:"code"`
	Refusal  string   `json:"refusal"` // "" | running | socket | other
	Out      string   `json:"out"`
	Anchors  []Anchor `json:"anchors"`
	Markers  []Marker `json:"markers"`
	HistNew  int      `json:"hist_new"` // runs that appeared in the history directory between its launch and its exit (launches the driver waited for)
	cmd      *exec.Cmd
	done     chan struct{}
	straceF  string
	outBuf   *strings.Builder
}

type Probe struct {
	T        float64 `json:"t"`  // just before dialing
	T2       float64 `json:"t2"` // after the answer (or the failure)
	Label    string  `json:"label"`
	Answered bool    `json:"answered"`
	Status   string  `json:"status"`
	ReqID    string  `json:"reqid"`
	Pid      int     `json:"pid"`
}

type HistFile struct {
	File   string `json:"file"`
	Pid    int    `json:"pid"`    // Pid recorded in its last status line
	Status string `json:"status"` // StatusText of its last status line
	Lines  int    `json:"lines"`
}

type Scenario struct {
	Name      string     `json:"name"`
	Hist      []HistFile `json:"hist"`
	Procs     []*Proc    `json:"procs"`
	Probes    []Probe    `json:"probes"`
	HistFiles []string   `json:"hist_files"`
	Saves     []float64  `json:"saves"` // instants at which the driver saved the DAG definition through the real DAGStore.UpdateSpec
	Sock      string     `json:"sock"`
	SockLeft  bool       `json:"sock_left"`
	DelayUs   int        `json:"delay_us"`
	Infra     string     `json:"infra,omitempty"`
	dir       string
	mu        sync.Mutex
}

var (
	binPath string
	sleepA  = "1.3"
	sleepX  = "0.7"
)

func now() float64 { return float64(time.Now().UnixNano()) / 1e9 }

func (s *Scenario) dagFile() string { return filepath.Join(s.dir, "dags", "lock.yaml") }
func (s *Scenario) dataDir() string { return filepath.Join(s.dir, "home", ".bd", "data") }
func (s *Scenario) mdir() string    { return filepath.Join(s.dir, "m") }

func (s *Scenario) setup() error {
	for _, d := range []string{"dags", "home", "m"} {
		if err := os.MkdirAll(filepath.Join(s.dir, d), 0o755); err != nil {
			return err
		}
	}
	m := s.mdir()
	y := fmt.Sprintf(`name: lock
steps:
  - name: a
    command: sh -c 'echo $VERIF_TAG $(date +%%s%%N) >> %s/a; sleep %s'
  - name: b
    command: sh -c 'echo $VERIF_TAG $(date +%%s%%N) >> %s/b'
    depends:
      - a
handlerOn:
  exit:
    command: sh -c 'echo $VERIF_TAG $(date +%%s%%N) >> %s/exit_begin; sleep %s; echo $VERIF_TAG $(date +%%s%%N) >> %s/exit_end'
`, m, sleepA, m, m, sleepX, m)
	if err := os.WriteFile(s.dagFile(), []byte(y), 0o644); err != nil {
		return err
	}
	s.Sock = (&dag.DAG{Location: s.dagFile()}).SockAddr()
	_ = os.Remove(s.Sock)
	return nil
}

func (s *Scenario) env(tag string) []string {
	return []string{"PATH=" + os.Getenv("PATH"), "HOME=" + filepath.Join(s.dir, "home"),
		"BLACKDAGGER_HOME=" + filepath.Join(s.dir, "home", ".bd"), "VERIF_TAG=" + tag, "TZ=UTC"}
}

func (s *Scenario) histFiles() []string {
	out := []string{}
	_ = filepath.Walk(s.dataDir(), func(p string, info os.FileInfo, err error) error {
		if err == nil && !info.IsDir() {
			out = append(out, filepath.Base(p))
		}
		return nil
	})
	sort.Strings(out)
	return out
}

// launch starts a process under strace; inject = "" or e.g. "unlinkat:delay_enter=2000000:when=1"
func (s *Scenario) launch(kind, inject, reqid string) *Proc {
	return s.launchP(kind, inject, reqid, "")
}

// spellings of the DAG file's absolute path that are not clean; they name the same file
func (s *Scenario) spelling(k int) string {
	d, f := filepath.Dir(s.dagFile()), filepath.Base(s.dagFile())
	switch k % 3 {
	case 0:
		return d + "//" + f
	case 1:
		return d + "/./" + f
	}
	return d + "/../" + filepath.Base(d) + "/" + f
}

// launchP: as launch, with the DAG file given under another spelling of its path ("" = the clean one)
func (s *Scenario) launchP(kind, inject, reqid, path string) *Proc {
	if path == "" {
		path = s.dagFile()
	}
	s.mu.Lock()
	i := len(s.Procs)
	p := &Proc{I: i, Tag: fmt.Sprintf("P%d", i), Kind: kind, Inject: inject, done: make(chan struct{}), outBuf: &strings.Builder{}}
	p.straceF = filepath.Join(s.dir, fmt.Sprintf("strace-%d.txt", i))
	s.Procs = append(s.Procs, p)
	s.mu.Unlock()
	args := []string{"-f", "-ttt", "-T", "-e", "trace=execve,flock,connect,bind,unlinkat,accept4", "-o", p.straceF}
	if inject != "" {
		args = append(args, "-e", "inject="+inject)
	}
	args = append(args, binPath)
	if kind == "retry" {
		args = append(args, "retry", "--req="+reqid, path)
	} else {
		args = append(args, "start", "-q", path)
	}
	p.Path = path
	cmd := exec.Command("strace", args...)
	cmd.Env = s.env(p.Tag)
	cmd.Dir = s.dir
	cmd.Stdout = p.outBuf
	cmd.Stderr = p.outBuf
	cmd.SysProcAttr = &syscall.SysProcAttr{Setpgid: true}
	p.cmd = cmd
	p.Launched = now()
	if err := cmd.Start(); err != nil {
		p.Code = -1
		p.Out = err.Error()
		close(p.done)
		return p
	}
	// the traced blackdagger process is the only child of strace
	for k := 0; k < 3000 && p.Pid == 0; k++ {
		p.Pid = childOf(cmd.Process.Pid)
		if p.Pid == 0 {
			time.Sleep(time.Millisecond)
		}
	}
	go func() {
		err := cmd.Wait()
		p.Exited = now()
		if err != nil {
			if ee, ok := err.(*exec.ExitError); ok {
				p.Code = ee.ExitCode()
			} else {
				p.Code = -1
			}
		}
		close(p.done)
	}()
	return p
}

// childOf finds the traced program among the children of strace (strace forks short-lived helpers of its own
// at start-up, so the child is recognised by its command name) by scanning /proc
func childOf(ppid int) int {
	want := filepath.Base(binPath)
	if len(want) > 15 {
		want = want[:15]
	}
	ents, _ := os.ReadDir("/proc")
	for _, e := range ents {
		pid, err := strconv.Atoi(e.Name())
		if err != nil {
			continue
		}
		b, err := os.ReadFile(fmt.Sprintf("/proc/%d/stat", pid))
		if err != nil {
			continue
		}
		// pid (comm) state ppid ...
		st := string(b)
		i, j := strings.Index(st, "("), strings.LastIndex(st, ")")
		if i < 0 || j < i {
			continue
		}
		f := strings.Fields(st[j+1:])
		if len(f) >= 2 && st[i+1:j] == want {
			if pp, _ := strconv.Atoi(f[1]); pp == ppid {
				return pid
			}
		}
	}
	return 0
}

func (p *Proc) wait(d time.Duration) bool {
	select {
	case <-p.done:
		return true
	case <-time.After(d):
		if p.cmd != nil && p.cmd.Process != nil {
			_ = syscall.Kill(-p.cmd.Process.Pid, syscall.SIGKILL)
		}
		<-p.done
		return false
	}
}

// launch and wait, counting the history files that appear meanwhile
func (s *Scenario) launchWait(kind, inject, reqid string) *Proc {
	return s.launchWaitP(kind, inject, reqid, "")
}

func (s *Scenario) launchWaitP(kind, inject, reqid, path string) *Proc {
	before := s.histIDs()
	p := s.launchP(kind, inject, reqid, path)
	p.wait(30 * time.Second)
	for id := range s.histIDs() {
		if !before[id] {
			p.HistNew++
		}
	}
	return p
}

// run identities present in the history directory (file names without the compaction suffix)
func (s *Scenario) histIDs() map[string]bool {
	out := map[string]bool{}
	for _, f := range s.histFiles() {
		out[strings.TrimSuffix(strings.TrimSuffix(f, ".dat"), "_c")] = true
	}
	return out
}

func (s *Scenario) probe(label string) Probe {
	pr := Probe{T: now(), Label: label}
	conn, err := net.DialTimeout("unix", s.Sock, 2*time.Second)
	if err == nil {
		defer conn.Close()
		_ = conn.SetDeadline(time.Now().Add(2 * time.Second))
		req, _ := http.NewRequest("GET", "/status", nil)
		if err = req.Write(conn); err == nil {
			resp, err2 := http.ReadResponse(bufio.NewReader(conn), req)
			if err2 == nil {
				var st struct {
					RequestID string `json:"RequestId"`
					Status    int    `json:"Status"`
					Text      string `json:"StatusText"`
					Pid       int    `json:"Pid"`
				}
				b := new(strings.Builder)
				sc := bufio.NewScanner(resp.Body)
				sc.Buffer(make([]byte, 1<<20), 1<<24)
				for sc.Scan() {
					b.WriteString(sc.Text())
				}
				resp.Body.Close()
				if json.Unmarshal([]byte(b.String()), &st) == nil {
					pr.Answered, pr.Status, pr.ReqID, pr.Pid = true, st.Text, st.RequestID, st.Pid
				}
			}
		}
	}
	pr.T2 = now()
	s.mu.Lock()
	s.Probes = append(s.Probes, pr)
	s.mu.Unlock()
	return pr
}

func (p *Proc) isDone() bool {
	select {
	case <-p.done:
		return true
	default:
		return false
	}
}

func waitUntil(d time.Duration, f func() bool) bool {
	dl := time.Now().Add(d)
	for time.Now().Before(dl) {
		if f() {
			return true
		}
		time.Sleep(2 * time.Millisecond)
	}
	return false
}

func (s *Scenario) markerHas(step, tag string) bool {
	b, err := os.ReadFile(filepath.Join(s.mdir(), step))
	if err != nil {
		return false
	}
	for _, l := range strings.Split(string(b), "\n") {
		f := strings.Fields(l)
		if len(f) == 2 && f[0] == tag {
			return true
		}
	}
	return false
}

func sockExists(p string) bool { _, err := os.Lstat(p); return err == nil }

var durRe = regexp.MustCompile(`<(\d+\.\d+)>\s*$`)
var lineRe = regexp.MustCompile(`^(\d+)\s+(\d+\.\d+)\s+(connect|bind|unlinkat|flock)\((.*)$`)

// parse the socket system calls of one process out of its strace log
func (s *Scenario) anchors(p *Proc, delayUs int) {
	f, err := os.Open(p.straceF)
	if err != nil {
		return
	}
	defer f.Close()
	sc := bufio.NewScanner(f)
	sc.Buffer(make([]byte, 1<<20), 1<<24)
	bound := false
	nUnlinkAfter := 0
	seenFirstUnlink := false
	pending := map[string]struct {
		t    float64
		call string
	}{}
	locked := false
	handle := func(t float64, call, rest string) {
		if call == "flock" { // the only exclusive flock of a start / retry is lockSocket's; it is granted when the call returns
			if !locked && strings.Contains(rest, "LOCK_EX") && strings.Contains(rest, " = 0") {
				locked = true
				d := 0.0
				if m := durRe.FindStringSubmatch(rest); m != nil {
					d, _ = strconv.ParseFloat(m[1], 64)
				}
				p.Anchors = append(p.Anchors, Anchor{"lock", t + d, 0, true, false})
			}
			return
		}
		if !strings.Contains(rest, s.Sock) {
			return
		}
		if call == "unlinkat" && strings.Contains(rest, "AT_REMOVEDIR") {
			return // the rmdir half of os.Remove
		}
		ok := strings.Contains(rest, " = 0")
		delayed := strings.Contains(rest, "(DELAYED)")
		dur := 0.0
		if m := durRe.FindStringSubmatch(rest); m != nil {
			dur, _ = strconv.ParseFloat(m[1], 64)
		}
		if delayed {
			t += float64(delayUs) / 1e6
			dur -= float64(delayUs) / 1e6
		}
		if dur < 0 {
			dur = 0
		}
		switch call {
		case "connect":
			p.Anchors = append(p.Anchors, Anchor{"probe", t, dur, ok, delayed})
		case "bind":
			p.Anchors = append(p.Anchors, Anchor{"bind", t, dur, ok, delayed})
			bound = ok
		case "unlinkat":
			switch {
			case !seenFirstUnlink && !bound:
				seenFirstUnlink = true
				p.Anchors = append(p.Anchors, Anchor{"unlink", t, dur, ok, delayed})
			case bound && nUnlinkAfter == 0:
				nUnlinkAfter++
				p.Anchors = append(p.Anchors, Anchor{"shutunlink", t, dur, ok, delayed})
			case bound && nUnlinkAfter == 1:
				nUnlinkAfter++
				p.Anchors = append(p.Anchors, Anchor{"lateunlink", t, dur, ok, delayed})
			}
		}
	}
	first := true
	for sc.Scan() {
		line := sc.Text()
		if first { // the first traced call is the execve of the program itself, by the process whose pid we want
			first = false
			if f := strings.Fields(line); len(f) > 2 && strings.HasPrefix(f[2], "execve(") {
				if n, err := strconv.Atoi(f[0]); err == nil {
					p.Pid = n
				}
			}
		}
		// "<pid> <t> call(args <unfinished ...>" / "<pid> <t> <... call resumed>rest"
		if m := lineRe.FindStringSubmatch(line); m != nil {
			t, _ := strconv.ParseFloat(m[2], 64)
			if strings.Contains(m[4], "<unfinished ...>") {
				pending[m[1]+m[3]] = struct {
					t    float64
					call string
				}{t, m[4]}
				continue
			}
			handle(t, m[3], m[4])
			continue
		}
		if i := strings.Index(line, "<... "); i >= 0 {
			f := strings.Fields(line)
			if len(f) >= 4 {
				call := strings.TrimSuffix(f[3], "")
				for _, c := range []string{"connect", "bind", "unlinkat", "flock"} {
					if call == c {
						if pe, ok := pending[f[0]+c]; ok {
							delete(pending, f[0]+c)
							handle(pe.t, c, pe.call+" "+line[i:])
						}
					}
				}
			}
		}
	}
}

func (s *Scenario) finish(delayUs int) {
	s.DelayUs = delayUs
	for _, p := range s.Procs {
		p.wait(40 * time.Second)
		p.Out = p.outBuf.String()
		switch {
		case strings.Contains(p.Out, "already running"):
			p.Refusal = "running"
		case strings.Contains(p.Out, "failed to start the unix socket"):
			p.Refusal = "socket"
		case p.Code != 0:
			p.Refusal = "other"
		}
		if len(p.Out) > 600 {
			p.Out = p.Out[len(p.Out)-600:]
		}
		s.anchors(p, delayUs)
		for _, step := range []string{"a", "b", "exit_begin", "exit_end"} {
			b, err := os.ReadFile(filepath.Join(s.mdir(), step))
			if err != nil {
				continue
			}
			for _, l := range strings.Split(string(b), "\n") {
				f := strings.Fields(l)
				if len(f) == 2 && f[0] == p.Tag {
					ns, _ := strconv.ParseFloat(f[1], 64)
					p.Markers = append(p.Markers, Marker{step, ns / 1e9})
				}
			}
		}
		if p.Anchors == nil {
			p.Anchors = []Anchor{}
		}
		if p.Markers == nil {
			p.Markers = []Marker{}
		}
	}
	s.HistFiles = s.histFiles()
	s.Hist = []HistFile{}
	_ = filepath.Walk(s.dataDir(), func(pth string, info os.FileInfo, err error) error {
		if err != nil || info.IsDir() {
			return nil
		}
		h := HistFile{File: filepath.Base(pth)}
		if b, err := os.ReadFile(pth); err == nil {
			for _, l := range strings.Split(string(b), "\n") {
				if strings.TrimSpace(l) == "" {
					continue
				}
				h.Lines++
				var st struct {
					Text string `json:"StatusText"`
					Pid  int    `json:"Pid"`
				}
				if json.Unmarshal([]byte(l), &st) == nil {
					h.Pid, h.Status = st.Pid, st.Text
				}
			}
		}
		s.Hist = append(s.Hist, h)
		return nil
	})
	s.SockLeft = sockExists(s.Sock)
	_ = os.Remove(s.Sock)
	_ = os.Remove(s.Sock + ".lock")
	if s.Probes == nil {
		s.Probes = []Probe{}
	}
	if s.Saves == nil {
		s.Saves = []float64{}
	}
}

// ---------------------------------------------------------------------------------------------
func scnSeq(s *Scenario) {
	p0 := s.launch("start", "", "")
	if !waitUntil(15*time.Second, func() bool { return s.markerHas("a", p0.Tag) }) {
		s.Infra = "first run never started its steps"
		return
	}
	pr := s.probe("steps-before")
	s.launchWait("start", "", "")
	s.launchWait("retry", "", pr.ReqID)
	// the same file under non-clean spellings of its absolute path: still the same DAG
	s.launchWaitP("start", "", "", s.spelling(0))
	s.launchWaitP("start", "", "", s.spelling(1))
	s.probe("steps-after")
	if !waitUntil(15*time.Second, func() bool { return s.markerHas("exit_begin", p0.Tag) }) {
		s.Infra = "first run never reached its exit handler"
		return
	}
	s.probe("handler-before")
	s.launchWait("start", "", "")
	s.launchWait("retry", "", pr.ReqID)
	s.launchWaitP("start", "", "", s.spelling(2))
	s.probe("handler-after")
	p0.wait(30 * time.Second)
	s.probe("after-exit")
	s.launchWait("start", "", "")
}

func scnProbeBind(s *Scenario, delayUs int) {
	p0 := s.launch("start", fmt.Sprintf("unlinkat:delay_enter=%d:when=1", delayUs), "")
	if !waitUntil(15*time.Second, func() bool { return len(s.histFiles()) >= 1 }) {
		s.Infra = "first run never recorded its start"
		return
	}
	time.Sleep(30 * time.Millisecond)
	p1 := s.launch("start", "", "")
	waitUntil(15*time.Second, func() bool { return s.markerHas("a", p1.Tag) || p1.isDone() })
	s.probe("second-running")
	if waitUntil(15*time.Second, func() bool { return s.markerHas("a", p0.Tag) || p0.isDone() }) {
		s.probe("both-running")
		s.launchWait("start", "", "")
		s.probe("after-third")
	}
}

// the first start is held between its probe and its unlink (inside its locked section); the definition is saved through the
// real DAGStore.UpdateSpec (temp file + rename: a new inode at the path); the second start is issued after the save
func scnSave(s *Scenario, delayUs int) {
	p0 := s.launch("start", fmt.Sprintf("unlinkat:delay_enter=%d:when=1", delayUs), "")
	if !waitUntil(15*time.Second, func() bool { return len(s.histFiles()) >= 1 }) {
		s.Infra = "first run never recorded its start"
		return
	}
	time.Sleep(30 * time.Millisecond)
	spec, err := os.ReadFile(s.dagFile())
	if err == nil {
		err = local.NewDAGStore(&local.NewDAGStoreArgs{Dir: filepath.Join(s.dir, "dags")}).UpdateSpec("lock", spec)
	}
	if err != nil {
		s.Infra = "UpdateSpec: " + err.Error()
		return
	}
	s.Saves = append(s.Saves, now())
	p1 := s.launch("start", "", "")
	waitUntil(15*time.Second, func() bool { return s.markerHas("a", p1.Tag) || p1.isDone() })
	s.probe("second-started")
	if waitUntil(15*time.Second, func() bool { return s.markerHas("a", p0.Tag) || p0.isDone() }) {
		s.probe("first-running")
		s.launchWait("start", "", "")
		s.probe("after-third")
	}
}

// one transient failure of the first run's accept (EMFILE injected into its first accept4 of every thread): the run must keep
// its status socket - the endpoint still answers and a second start is still refused
func scnAcceptError(s *Scenario) {
	p0 := s.launch("start", "accept4:error=EMFILE:when=1", "")
	if !waitUntil(15*time.Second, func() bool { return s.markerHas("a", p0.Tag) }) {
		s.Infra = "first run never started its steps"
		return
	}
	s.probe("first-connection") // its accept fails
	time.Sleep(50 * time.Millisecond)
	s.probe("second-connection")
	s.launchWait("start", "", "")
	s.probe("after-second-start")
}

func scnBindFirst(s *Scenario, delayUs int) {
	s.launch("start", fmt.Sprintf("bind:delay_enter=%d:when=1", delayUs), "")
	if !waitUntil(15*time.Second, func() bool { return len(s.histFiles()) >= 1 }) {
		s.Infra = "first run never recorded its start"
		return
	}
	time.Sleep(150 * time.Millisecond)
	p1 := s.launch("start", "", "")
	waitUntil(15*time.Second, func() bool { return s.markerHas("a", p1.Tag) || p1.isDone() })
	s.probe("second-running")
}

func scnLateUnlink(s *Scenario, delayUs int) {
	p0 := s.launch("start", fmt.Sprintf("unlinkat:delay_enter=%d:when=1+", delayUs), "")
	if !waitUntil(20*time.Second, func() bool { return sockExists(s.Sock) }) {
		s.Infra = "first run never bound"
		return
	}
	if !waitUntil(30*time.Second, func() bool { return !sockExists(s.Sock) }) {
		s.Infra = "first run never shut down"
		return
	}
	p1 := s.launch("start", "", "")
	waitUntil(15*time.Second, func() bool { return s.markerHas("a", p1.Tag) || p1.isDone() })
	s.probe("second-running-first-late")
	p0.wait(30 * time.Second)
	s.probe("second-running-first-gone")
	select {
	case <-p1.done:
	default:
		s.launchWait("start", "", "")
	}
}

func scnSweep(s *Scenario, ms int) {
	s.launch("start", "", "")
	time.Sleep(time.Duration(ms) * time.Millisecond)
	p1 := s.launch("start", "", "")
	p1.wait(30 * time.Second)
	s.probe("after-second")
}

func main() {
	out, err := vh.NewOut(os.Args[1])
	if err != nil {
		panic(err)
	}
	tier, work := os.Args[2], os.Args[3]
	binPath = os.Args[4]
	rng := vh.NewRng(vh.SeedFromEnv())
	type job struct {
		name  string
		delay int
		f     func(*Scenario)
	}
	var jobs []job
	D := 2200000
	add := func(name string, delay int, f func(*Scenario)) { jobs = append(jobs, job{name, delay, f}) }
	reps := 1
	if tier == "thorough" {
		reps = 4
	}
	for r := 0; r < reps; r++ {
		add("seq", 0, scnSeq)
		add("probe-bind", D, func(s *Scenario) { scnProbeBind(s, D) })
		add("bind-first", D, func(s *Scenario) { scnBindFirst(s, D) })
		add("save", D, func(s *Scenario) { scnSave(s, D) })
		add("accept-error", 0, scnAcceptError)
		add("late-unlink", 600000, func(s *Scenario) { scnLateUnlink(s, 600000) })
	}
	offs := []int{0, 3, 40, 600, 1700, 2080}
	if tier == "thorough" {
		offs = nil
		for ms := 0; ms <= 2400; ms += 40 {
			offs = append(offs, ms+rng.Below(40))
		}
		for i := 0; i < 40; i++ {
			offs = append(offs, rng.Below(12))
		}
	} else {
		offs = append(offs, rng.Below(10), 2000+rng.Below(200))
	}
	for _, ms := range offs {
		ms := ms
		add(fmt.Sprintf("sweep-%d", ms), 0, func(s *Scenario) { scnSweep(s, ms) })
	}
	if len(os.Args) > 5 && os.Args[5] != "" { // only the named scenarios (replay)
		var sel []job
		for _, nm := range strings.Split(os.Args[5], ",") {
			found := false
			for _, j := range jobs {
				if j.name == nm && !found {
					sel = append(sel, j)
					found = true
				}
			}
			if !found && strings.HasPrefix(nm, "sweep-") {
				if ms, err := strconv.Atoi(nm[6:]); err == nil {
					sel = append(sel, job{nm, 0, func(s *Scenario) { scnSweep(s, ms) }})
				}
			}
		}
		jobs = sel
	}
	res := make([]*Scenario, len(jobs))
	sem := make(chan struct{}, 6)
	var wg sync.WaitGroup
	for k, j := range jobs {
		wg.Add(1)
		sem <- struct{}{}
		go func(k int, j job) {
			defer wg.Done()
			defer func() { <-sem }()
			s := &Scenario{Name: j.name, dir: filepath.Join(work, fmt.Sprintf("s%d", k))}
			res[k] = s
			if err := s.setup(); err != nil {
				s.Infra = err.Error()
				return
			}
			j.f(s)
			s.finish(j.delay)
		}(k, j)
	}
	wg.Wait()
	for _, s := range res {
		if s.Procs == nil {
			s.Procs = []*Proc{}
		}
		out.Put(s)
	}
	out.Close()
}
