// Driver for the Sched family (C01 C02 C03 C15): runs generated DAGs on the REAL scheduler
// (scheduler.New / NewExecutionGraph / Schedule) with a scripted in-process executor registered through
// executor.Register, and records what the implementation did: the visible event trace (entry and exit of every
// executor Run call, monotonic microsecond stamps, a snapshot of all node states at every entry), the final
// (status, retryCount, doneCount) of every node, Schedule's error and Status(g).
//
//	sched <out.jsonl> <tier> [focus]        tier = quick | thorough | search ; focus = C01 | C02 | C03 | C15
//	sched <out.jsonl> replay <in.jsonl>     re-run given cases (inputs only are read)
//
// Only the polling pause of the loop is shortened (hook VerifSetPause, build tag verif).
package main

import (
	"bufio"
	"context"
	"encoding/json"
	"errors"
	"fmt"
	"io"
	"log"
	"os"
	"os/exec"
	"path/filepath"
	"runtime"
	"strings"
	"sync"
	"sync/atomic"
	"syscall"
	"time"

	"github.com/ErdemOzgen/blackdagger/internal/dag"
	"github.com/ErdemOzgen/blackdagger/internal/dag/executor"
	"github.com/ErdemOzgen/blackdagger/internal/dag/scheduler"
	"github.com/ErdemOzgen/blackdagger/internal/logger"
	"github.com/ErdemOzgen/blackdagger/verifh/vh"
)

// ---------------------------------------------------------------------------------------------
// case format
// ---------------------------------------------------------------------------------------------

type StepC struct {
	Deps       []int  `json:"deps"`
	Cof        bool   `json:"cof"`
	Cos        bool   `json:"cos"`
	Retry      bool   `json:"retry"`  // a retryPolicy is present
	Rlimit     int    `json:"rlimit"` // its limit
	IntervalUs int    `json:"ivl"`    // its interval
	Pre        bool   `json:"pre"`    // outcome of the step's precondition
	HasPre     bool   `json:"haspre"`
	Pres       []bool `json:"pres,omitempty"`   // several preconditions, in this order (met / unmet); pre = all of them met
	PreK       []int  `json:"prek,omitempty"`   // how each of them is written (preKinds); decides pres when present
	Sfail      bool   `json:"sfail"`            // node.setup fails (stdout file in a directory that does not exist)
	CFails     int    `json:"cfails,omitempty"` // the creation of the command (executor.NewExecutor in node.setupExec) fails in the first CFails attempts; -1: always
	Fails      int    `json:"fails"`            // the first Fails attempts fail; -1: every attempt fails
	Out        bool   `json:"out,omitempty"`    // the step has an `output:` variable; the executor prints a few bytes
	// stop / timeout streams
	Repeat       bool   `json:"repeat,omitempty"`     // repeatPolicy.repeat
	RepeatIvlUs  int    `json:"rivl,omitempty"`       // repeatPolicy.interval
	SigOnStop    string `json:"sigonstop,omitempty"`  // signalOnStop (e.g. SIGINT)
	Ignore       bool   `json:"ignore,omitempty"`     // the command ignores the stop signal (ends only by itself or by SIGKILL)
	DurUs        int    `json:"dur,omitempty"`        // policy hold: how long the command runs if nobody ends it
	SlowPreUs    int    `json:"slowpre,omitempty"`    // the (met) precondition takes this long to evaluate
	SlowCreateUs int    `json:"slowcreate,omitempty"` // the executor's creation takes this long (under the node lock)
}

// HandC: one lifecycle handler
type HandC struct {
	On    bool `json:"on"`
	Fail  bool `json:"fail,omitempty"`
	Sfail bool `json:"sfail,omitempty"` // node.setup of the handler fails (stdout file in a directory that does not exist)
	DurUs int  `json:"dur,omitempty"`
}

// StopC: a stop request injected by the driver (Scheduler.Signal, as the agent does)
type StopC struct {
	At           int `json:"at"`                   // fire when the visible log has reached this many events (0 = at once)
	DelayUs      int `json:"delay"`                // ... plus this delay
	Again        int `json:"again,omitempty"`      // further Signal calls: 1 = SIGKILL escalation (allowOverride=false)
	AgainDelayUs int `json:"againdelay,omitempty"` // ... this long after the first returned
}

type Ev struct {
	E string `json:"e"` // "s" Run entered, "e" Run returned, "k" Kill called, "x" Run refused (expired context),
	// "hs"/"he" handler Run entered/returned (I = 0 exit, 1 success, 2 failure, 3 cancel), "sc"/"sr" Signal called/returned
	Sig  int   `json:"sig,omitempty"` // for "k" and "sc": signal number
	I    int   `json:"i"`
	A    int   `json:"a,omitempty"`  // attempt number (1-based)
	Ok   bool  `json:"ok,omitempty"` // for "e"
	T    int64 `json:"t"`            // microseconds since the start of the run (monotonic clock)
	Snap []int `json:"snap,omitempty"`
}

type Fin struct {
	St int `json:"st"`
	Rc int `json:"rc"`
	Dc int `json:"dc"`
}

type Case struct {
	K         int     `json:"k"`
	Stream    string  `json:"stream"`
	Steps     []StepC `json:"steps"`
	MaxActive int     `json:"maxactive"`
	Dry       bool    `json:"dry"`
	Done      bool    `json:"done"`   // Schedule is given a done channel (as the agent does)
	Policy    string  `json:"policy"` // imm | rnd | quiet
	PauseUs   int     `json:"pause"`
	Rs        uint64  `json:"rs"`                 // seed of the run's own random choices
	Fresh     bool    `json:"fresh,omitempty"`    // run in a fresh process (node ids 1..n as in an agent process)
	Handlers  []HandC `json:"handlers,omitempty"` // exit, success, failure, cancel
	Stop      *StopC  `json:"stop,omitempty"`
	TimeoutUs int     `json:"timeout,omitempty"`
	// observed
	Events     []Ev   `json:"events"`
	Final      []Fin  `json:"final"`
	Err        bool   `json:"err"`
	Status     int    `json:"status"`
	HFinal     []int  `json:"hfinal,omitempty"` // final status of the handler nodes (exit, success, failure, cancel; -1 = not configured)
	StatusEnd  int    `json:"status_end"`       // Status(g) after a late stop request (if any) has returned
	StartedUs  int64  `json:"started"`          // when Schedule started the graph (the DAG deadline is this + timeout)
	Hung       bool   `json:"hung,omitempty"`
	Terminated bool   `json:"terminated"` // Schedule returned by itself within the watchdog time
	WallUs     int64  `json:"wall"`
	Note       string `json:"note,omitempty"`
}

// ---------------------------------------------------------------------------------------------
// scripted executor
// ---------------------------------------------------------------------------------------------

type world struct {
	mu        sync.Mutex
	t0        time.Time
	evs       []Ev
	att       map[int]int
	c         *Case
	g         *scheduler.ExecutionGraph
	rng       *vh.Rng
	blocked   []chan struct{}
	lastLen   int
	stop      chan struct{}
	sc        *scheduler.Scheduler
	stopFired bool
	stopDone  chan struct{}
	catt      map[int]int // calls of the executor's Creator per step (= attempts), for steps with CFails
}

var worlds sync.Map // run id -> *world

type scripted struct {
	w       *world
	idx     int // step index, or -1-h for handler h
	ctx     context.Context
	stdout  io.Writer
	mu      sync.Mutex
	killed  chan struct{}
	kdone   bool
	started bool
	pending bool
}

func (s *scripted) SetStdout(o io.Writer) { s.stdout = o }
func (s *scripted) SetStderr(io.Writer)   {}

func signum(sig os.Signal) int {
	if x, ok := sig.(syscall.Signal); ok {
		return int(x)
	}
	return -1
}

func (s *scripted) Kill(sig os.Signal) error {
	w := s.w
	w.log(Ev{E: "k", I: s.idx, Sig: signum(sig)})
	ignore := s.idx >= 0 && w.c.Steps[s.idx].Ignore && signum(sig) != int(syscall.SIGKILL)
	s.mu.Lock()
	if !s.started && !ignore { // like the command executor (fix fc2d5bb): no process yet, the signal is delivered at start
		s.pending = true
		ignore = true
	}
	s.mu.Unlock()
	if !ignore {
		s.mu.Lock()
		if !s.kdone {
			s.kdone = true
			close(s.killed)
		}
		s.mu.Unlock()
	}
	return nil
}

func (w *world) snapshot() []int {
	ns := w.g.Nodes()
	out := make([]int, len(ns))
	for i, n := range ns {
		out[i] = int(n.State().Status)
	}
	return out
}

// log appends an event (stamped under the lock) and fires the scripted stop when its instant is reached
func (w *world) log(e Ev) {
	w.mu.Lock()
	e.T = time.Since(w.t0).Microseconds()
	w.evs = append(w.evs, e)
	fire := w.c.Stop != nil && !w.stopFired && len(w.evs) >= w.c.Stop.At
	if fire {
		w.stopFired = true
	}
	w.mu.Unlock()
	if fire {
		go w.doStop()
	}
}

func (w *world) doStop() {
	st := w.c.Stop
	time.Sleep(time.Duration(st.DelayUs) * time.Microsecond)
	w.log(Ev{E: "sc", Sig: int(syscall.SIGTERM)})
	w.sc.Signal(w.g, syscall.SIGTERM, nil, true)
	w.log(Ev{E: "sr"})
	for k := 0; k < st.Again; k++ {
		time.Sleep(time.Duration(st.AgainDelayUs) * time.Microsecond)
		w.log(Ev{E: "sc", Sig: int(syscall.SIGKILL)})
		w.sc.Signal(w.g, syscall.SIGKILL, nil, false)
		w.log(Ev{E: "sr"})
	}
	close(w.stopDone)
}

func (s *scripted) Run() error {
	w := s.w
	if s.ctx.Err() != nil { // like os/exec: a command is not started with an expired context
		w.log(Ev{E: "x", I: s.idx})
		return s.ctx.Err()
	}
	if s.idx < 0 {
		return s.runHandler()
	}
	snap := w.snapshot() // takes the node locks: never under w.mu (Signal holds a node lock while it logs a Kill)
	w.mu.Lock()
	w.att[s.idx]++
	a := w.att[s.idx]
	var wait chan struct{}
	var d time.Duration
	switch w.c.Policy {
	case "rnd":
		d = time.Duration(w.rng.Below(1500)) * time.Microsecond
	case "quiet":
		wait = make(chan struct{})
		w.blocked = append(w.blocked, wait)
	case "hold":
		d = time.Duration(w.c.Steps[s.idx].DurUs) * time.Microsecond
	}
	w.mu.Unlock()
	s.mu.Lock()
	s.started = true
	if s.pending && !s.kdone {
		s.kdone = true
		close(s.killed)
	}
	s.mu.Unlock()
	w.log(Ev{E: "s", I: s.idx, A: a, Snap: snap})
	var err error
	if wait != nil {
		select {
		case <-wait:
		case <-s.ctx.Done():
			err = s.ctx.Err()
		case <-s.killed:
			err = errors.New("killed")
		}
	} else if d > 0 {
		select {
		case <-time.After(d):
		case <-s.ctx.Done():
			err = s.ctx.Err()
		case <-s.killed:
			err = errors.New("killed")
		}
	}
	if w.c.Steps[s.idx].Out && s.stdout != nil {
		fmt.Fprintf(s.stdout, "out-of-step-%d attempt %d\n", s.idx, a)
	}
	f := w.c.Steps[s.idx].Fails
	if err == nil && (f < 0 || a <= f) {
		err = errors.New("scripted failure")
	}
	w.log(Ev{E: "e", I: s.idx, A: a, Ok: err == nil})
	return err
}

func (s *scripted) runHandler() error {
	w := s.w
	h := -1 - s.idx
	st := int(w.sc.Status(w.g))
	w.log(Ev{E: "hs", I: h, A: st})
	var err error
	d := time.Duration(w.c.Handlers[h].DurUs) * time.Microsecond
	if d > 0 {
		select {
		case <-time.After(d):
		case <-s.ctx.Done():
			err = s.ctx.Err()
		}
	}
	if err == nil && w.c.Handlers[h].Fail {
		err = errors.New("scripted handler failure")
	}
	w.log(Ev{E: "he", I: h, Ok: err == nil})
	return err
}

// releaser of the "quiet" policy: when nothing has happened for a while, let one blocked Run return
func (w *world) releaser(quiet time.Duration) {
	for {
		select {
		case <-w.stop:
			w.mu.Lock()
			for _, ch := range w.blocked {
				close(ch)
			}
			w.blocked = nil
			w.mu.Unlock()
			return
		case <-time.After(quiet):
		}
		w.mu.Lock()
		if len(w.evs) == w.lastLen && len(w.blocked) > 0 {
			j := w.rng.Below(len(w.blocked))
			close(w.blocked[j])
			w.blocked = append(w.blocked[:j], w.blocked[j+1:]...)
		}
		w.lastLen = len(w.evs)
		w.mu.Unlock()
	}
}

var quietLogger = logger.NewLogger(logger.NewLoggerArgs{Quiet: true})

var handlerNames = []string{"onExit", "onSuccess", "onFailure", "onCancel"}
var handlerTypes = []dag.HandlerType{dag.HandlerOnExit, dag.HandlerOnSuccess, dag.HandlerOnFailure, dag.HandlerOnCancel}

// watchdog: ordinary runs take milliseconds; a run that has not returned after this long is recorded as not terminated
// (with the trace so far), unblocked with a stop request if possible, otherwise abandoned.  After maxHung such runs
// (or when the driver's own time limit is reached) the remaining cases are skipped: the driver always ends.
var (
	watchdog   = 8 * time.Second
	hungCount  int32
	maxHung    int32 = 6
	driverStop time.Time
)

// The watchdog counts time in which THIS PROCESS was running, in ticks: a tick that arrives late (the process was
// stopped, frozen or starved of CPU for seconds, as seen under heavy machine load: all timers then fire at once when it
// resumes) counts as one tick, not as the wall-clock time that went by.
const tick = 50 * time.Millisecond

// waitTicks waits for a value on ch for at most d of process time; ok = false: d went by
func waitTicks(ch <-chan error, d time.Duration) (err error, ok bool) {
	for waited := time.Duration(0); waited < d; waited += tick {
		select {
		case err = <-ch:
			return err, true
		case <-time.After(tick):
		}
	}
	select { // the run may have ended during the last tick
	case err = <-ch:
		return err, true
	default:
		return nil, false
	}
}

// stalls: intervals in which the process did not get to run for stallMin or more (heartbeat of 20 ms).  A run that
// overlaps one is not judged: its time stamps say nothing about the scheduler.
const stallMin = time.Second

var (
	stallMu sync.Mutex
	stalls  [][2]time.Time
)

func heartbeat() {
	for {
		t := time.Now()
		time.Sleep(20 * time.Millisecond)
		if n := time.Now(); n.Sub(t) >= stallMin {
			stallMu.Lock()
			stalls = append(stalls, [2]time.Time{t, n})
			stallMu.Unlock()
			fmt.Fprintf(os.Stderr, "sched driver: the process was stalled for %d ms\n", n.Sub(t).Milliseconds())
		}
	}
}

func stalledSince(t0 time.Time) time.Duration {
	stallMu.Lock()
	defer stallMu.Unlock()
	var worst time.Duration
	for _, iv := range stalls {
		if iv[1].After(t0) && iv[1].Sub(iv[0]) > worst {
			worst = iv[1].Sub(iv[0])
		}
	}
	return worst
}

func driverExhausted() string {
	if atomic.LoadInt32(&hungCount) >= maxHung {
		return "skipped: too many runs of this driver did not terminate"
	}
	if !driverStop.IsZero() && time.Now().After(driverStop) {
		return "skipped: the driver's time limit was reached"
	}
	return ""
}

// the ways a precondition is written: environment variables, and back-tick commands evaluated by the real
// dag.EvalConditions (exit status 0 or not, output equal to the expected value or not).  A command that exits non-zero
// is an evaluation error: the condition is unmet whatever it printed.
var preKindsMet = []int{0, 2, 5}
var preKindsUnmet = []int{1, 3, 4, 6, 7}

func preCond(kind int) (dag.Condition, bool) {
	switch kind {
	case 0:
		return dag.Condition{Condition: "$VERIF_PRE_MET", Expected: "1"}, true
	case 2: // exit 0, output equal
		return dag.Condition{Condition: "`echo 1`", Expected: "1"}, true
	case 5: // exit 0, no output, none expected
		return dag.Condition{Condition: "`true`", Expected: ""}, true
	case 3: // exit 0, output differs
		return dag.Condition{Condition: "`echo 0`", Expected: "1"}, false
	case 4: // exit 1, no output, none expected (the shape of "`test -e FILE`" expected "")
		return dag.Condition{Condition: "`false`", Expected: ""}, false
	case 6: // exit 1 although the file is missing: test -e
		return dag.Condition{Condition: "`test -e /proc/verif-no-such-file`", Expected: ""}, false
	case 7: // exit 3, output equal to the expected value
		return dag.Condition{Condition: fmt.Sprintf("`%s - preout 3 1`", os.Args[0]), Expected: "1"}, false
	default:
		return dag.Condition{Condition: "$VERIF_PRE_UNMET", Expected: "1"}, false
	}
}

func cleanRun(caseDir string) {
	prefix := caseDir + string(os.PathSeparator)
	for _, e := range os.Environ() {
		if !strings.HasPrefix(e, "STEP_") {
			continue
		}
		if k := strings.IndexByte(e, '='); k > 0 && strings.HasSuffix(e[:k], "_DAG_EXECUTION_LOG_PATH") && strings.HasPrefix(e[k+1:], prefix) {
			os.Unsetenv(e[:k])
		}
	}
	os.RemoveAll(caseDir)
}

func runCase(c *Case, id int, logDir string) {
	c.Events, c.Final, c.Err, c.Status, c.Hung, c.Note, c.HFinal, c.Terminated = nil, nil, false, 0, false, "", nil, false
	if why := driverExhausted(); why != "" {
		c.Note = why
		return
	}
	n := len(c.Steps)
	steps := make([]dag.Step, n)
	for i, sc := range c.Steps {
		s := dag.Step{Name: fmt.Sprintf("s%d", i),
			ExecutorConfig: dag.ExecutorConfig{Type: "verifscript", Config: map[string]any{"w": id, "i": i}}}
		for _, d := range sc.Deps {
			s.Depends = append(s.Depends, fmt.Sprintf("s%d", d))
		}
		s.ContinueOn.Failure = sc.Cof
		s.ContinueOn.Skipped = sc.Cos
		if sc.Retry {
			s.RetryPolicy = &dag.RetryPolicy{Limit: sc.Rlimit, Interval: time.Duration(sc.IntervalUs) * time.Microsecond}
		}
		if sc.Repeat {
			s.RepeatPolicy = dag.RepeatPolicy{Repeat: true, Interval: time.Duration(sc.RepeatIvlUs) * time.Microsecond}
		}
		s.SignalOnStop = sc.SigOnStop
		if len(sc.PreK) > 0 {
			all := true
			c.Steps[i].Pres = nil
			for _, kind := range sc.PreK {
				cond, met := preCond(kind)
				s.Preconditions = append(s.Preconditions, cond)
				c.Steps[i].Pres = append(c.Steps[i].Pres, met)
				all = all && met
			}
			c.Steps[i].HasPre, c.Steps[i].Pre = true, all
		} else if len(sc.Pres) > 0 {
			all := true
			for _, met := range sc.Pres {
				kind := 0
				if !met {
					kind, all = 1, false
				}
				cond, _ := preCond(kind)
				s.Preconditions = append(s.Preconditions, cond)
			}
			c.Steps[i].HasPre, c.Steps[i].Pre = true, all
		} else if sc.HasPre {
			switch {
			case sc.Pre && sc.SlowPreUs > 0: // evaluated by running this binary: prints 1 after the given time
				s.Preconditions = []dag.Condition{{Condition: fmt.Sprintf("`%s - slowpre %d`", os.Args[0], sc.SlowPreUs), Expected: "1"}}
			case sc.Pre:
				s.Preconditions = []dag.Condition{{Condition: "$VERIF_PRE_MET", Expected: "1"}}
			default:
				s.Preconditions = []dag.Condition{{Condition: "$VERIF_PRE_UNMET", Expected: "1"}}
			}
		}
		if sc.Sfail {
			s.Stdout = "/proc/verif-no-such-dir/out"
		}
		if sc.Out {
			s.Output = fmt.Sprintf("VERIF_OUT_%d", i)
		}
		steps[i] = s
	}
	g, err := scheduler.NewExecutionGraph(quietLogger, steps...)
	if err != nil {
		c.Note = "graph refused: " + err.Error()
		return
	}
	w := &world{t0: time.Now(), att: map[int]int{}, catt: map[int]int{}, c: c, g: g, rng: vh.NewRng(c.Rs), stop: make(chan struct{}),
		stopDone: make(chan struct{})}
	worlds.Store(id, w)
	defer worlds.Delete(id)
	pause := time.Duration(c.PauseUs) * time.Microsecond
	// every run gets its own log directory: when the run is over the directory goes, and so do the per-node environment
	// variables node.setup leaves behind (STEP_<node id>_DAG_EXECUTION_LOG_PATH, never unset by the code: bounded in an
	// agent process, which runs one DAG, but not in this driver - after ~34 000 runs the environment exceeded what execve
	// accepts and every back-tick precondition failed to evaluate)
	caseDir := filepath.Join(logDir, fmt.Sprintf("c%d", id))
	defer func() {
		if !strings.HasSuffix(c.Note, "abandoned") {
			cleanRun(caseDir)
		}
	}()
	cfg := &scheduler.Config{LogDir: caseDir, MaxActiveRuns: c.MaxActive, Dry: c.Dry, Logger: quietLogger,
		Timeout: time.Duration(c.TimeoutUs) * time.Microsecond}
	for h := range c.Handlers {
		if !c.Handlers[h].On {
			continue
		}
		st := &dag.Step{Name: handlerNames[h],
			ExecutorConfig: dag.ExecutorConfig{Type: "verifscript", Config: map[string]any{"w": id, "i": -1 - h}}}
		if c.Handlers[h].Sfail {
			st.Stdout = "/proc/verif-no-such-dir/out"
		}
		switch h {
		case 0:
			cfg.OnExit = st
		case 1:
			cfg.OnSuccess = st
		case 2:
			cfg.OnFailure = st
		case 3:
			cfg.OnCancel = st
		}
	}
	sc := scheduler.New(cfg)
	sc.VerifSetPause(pause)
	w.sc = sc
	ctx, cancel := context.WithCancel(dag.NewContext(context.Background(), nil, nil, "", ""))
	defer cancel()
	var done chan *scheduler.Node
	if c.Done {
		done = make(chan *scheduler.Node)
		go func() {
			for range done {
			}
		}()
	}
	if c.Policy == "quiet" {
		go w.releaser(4*pause + 400*time.Microsecond)
	}
	fin := make(chan error, 1)
	go func() { fin <- sc.Schedule(ctx, g, done) }()
	if c.Stop != nil && c.Stop.At == 0 {
		w.mu.Lock()
		fire := !w.stopFired
		w.stopFired = true
		w.mu.Unlock()
		if fire {
			go w.doStop()
		}
	}
	serr, ended := waitTicks(fin, watchdog)
	if !ended {
		c.Hung = true
		atomic.AddInt32(&hungCount, 1)
		close(w.stop)
		go sc.Signal(g, syscall.SIGKILL, nil, false) // try to unblock: a stopped run must end
		cancel()
		if serr, ended = waitTicks(fin, 3*time.Second); ended {
			c.Note = "did not terminate by itself within the watchdog time; ended after a stop request"
		} else {
			c.Note = "did not terminate within the watchdog time, not even after a stop request: run abandoned"
		}
	}
	c.Terminated = !c.Hung
	if !c.Hung {
		close(w.stop)
	}
	if done != nil && !strings.HasSuffix(c.Note, "abandoned") {
		close(done)
	}
	c.Status = int(sc.Status(g)) // before a late stop can change it: the stop below is waited for afterwards
	w.mu.Lock()
	fired := w.stopFired
	w.mu.Unlock()
	if fired {
		select {
		case <-w.stopDone:
		case <-time.After(10 * time.Second):
			c.Note = "Signal did not return"
		}
	}
	c.WallUs = time.Since(w.t0).Microseconds()
	w.mu.Lock()
	c.Events = append([]Ev{}, w.evs...)
	w.mu.Unlock()
	for _, nd := range g.Nodes() {
		st := nd.State()
		c.Final = append(c.Final, Fin{St: int(st.Status), Rc: st.RetryCount, Dc: st.DoneCount})
	}
	c.Err = serr != nil
	c.StatusEnd = int(sc.Status(g))
	c.StartedUs = g.StartAt().Sub(w.t0).Microseconds()
	// a run during which this process was stalled (stopped / frozen / starved for a second or more) is not judged
	if d := stalledSince(w.t0); d > 0 {
		if c.Hung {
			atomic.AddInt32(&hungCount, -1)
		}
		wasAbandoned := strings.HasSuffix(c.Note, "abandoned")
		c.Final, c.Events, c.Hung = nil, []Ev{}, false
		c.Note = fmt.Sprintf("skipped: the driver process was stalled for %d ms during this run: run not judged", d.Milliseconds())
		if wasAbandoned {
			c.Note += ", abandoned"
		}
		return
	}
	// a run whose preconditions spawn processes is only judged if this process can still spawn one (resource limits of
	// the driver itself must not be read as behaviour of the scheduler)
	for _, sc0 := range c.Steps {
		if len(sc0.PreK) > 0 || sc0.SlowPreUs > 0 {
			if _, xerr := exec.Command("true").Output(); xerr != nil {
				c.Final, c.Events = nil, []Ev{}
				c.Note = "skipped: the driver cannot spawn processes any more (" + xerr.Error() + "): run not judged"
				return
			}
			break
		}
	}
	if len(c.Handlers) == 4 {
		for h := range c.Handlers {
			if hn := sc.HandlerNode(handlerTypes[h]); hn != nil {
				c.HFinal = append(c.HFinal, int(hn.State().Status))
			} else {
				c.HFinal = append(c.HFinal, -1)
			}
		}
	}
}

// ---------------------------------------------------------------------------------------------
// generators
// ---------------------------------------------------------------------------------------------

func mkStep(deps []int) StepC { return StepC{Deps: deps, Pre: true} }

// bounded-exhaustive family: DAGs on <= 3 steps (dependencies on lower indices), per step
// cof, cos, pre in {met, unmet}, retry limit in {0,1}, script in {ok, fail once, fail always}; maxActive in {0,1,2}.
// The space is indexed; quick samples it, thorough sweeps the 1- and 2-step part and samples the 3-step part.
const perStep = 2 * 2 * 2 * 2 * 3

func smallSpace(n int) uint64 {
	shapes := uint64(1)
	for i := 0; i < n; i++ {
		shapes *= 1 << uint(i)
	}
	sz := shapes * 3
	for i := 0; i < n; i++ {
		sz *= perStep
	}
	return sz
}

func smallCase(n int, idx uint64) Case {
	c := Case{Stream: fmt.Sprintf("small%d", n)}
	c.MaxActive = int(idx % 3)
	idx /= 3
	for i := 0; i < n; i++ {
		m := idx % (1 << uint(i))
		idx /= 1 << uint(i)
		s := StepC{Deps: []int{}}
		for j := 0; j < i; j++ {
			if m>>uint(j)&1 == 1 {
				s.Deps = append(s.Deps, j)
			}
		}
		f := idx % perStep
		idx /= perStep
		s.Cof = f&1 == 1
		s.Cos = f&2 == 2
		s.HasPre = f&4 == 4
		s.Pre = !s.HasPre
		if f&8 == 8 {
			s.Retry, s.Rlimit, s.IntervalUs = true, 1, 3000
		}
		switch f / 16 {
		case 1:
			s.Fails = 1
		case 2:
			s.Fails = -1
		}
		c.Steps = append(c.Steps, s)
	}
	return c
}

type weights struct {
	edgeNum, edgeDen   int // probability of an edge
	failNum, failDen   int
	retryNum, retryDen int
	preNum, preDen     int // unmet precondition
	wide               bool
	deep               bool
}

func focusWeights(focus string) weights {
	switch focus {
	case "C15":
		return weights{1, 5, 1, 5, 1, 3, 1, 12, true, false}
	case "C03":
		return weights{1, 3, 1, 2, 2, 3, 1, 10, false, false}
	case "C02":
		return weights{2, 5, 2, 5, 1, 4, 1, 5, false, false}
	default: // C01
		return weights{1, 2, 1, 4, 1, 3, 1, 8, false, true}
	}
}

func randomCase(r *vh.Rng, nmin, nmax int, w weights) Case {
	return randomCaseN(r, nmin+r.Below(nmax-nmin+1), w, r.Bool())
}

func randomCaseN(r *vh.Rng, n int, w weights, shuffle bool) Case {
	c := Case{Stream: "random"}
	// a random topological position for every step: deps may point to higher indices
	perm := make([]int, n)
	for i := range perm {
		perm[i] = i
	}
	if shuffle {
		for i := n - 1; i > 0; i-- {
			j := r.Below(i + 1)
			perm[i], perm[j] = perm[j], perm[i]
		}
	}
	// pos[k] = step index placed at topological position k
	steps := make([]StepC, n)
	for k := 0; k < n; k++ {
		s := StepC{Deps: []int{}, Pre: true}
		for j := 0; j < k; j++ {
			p := r.Chance(w.edgeNum, w.edgeDen)
			if w.wide && j < k-2 {
				p = p && r.Bool()
			}
			if w.deep && j == k-1 {
				p = p || r.Bool()
			}
			if p {
				s.Deps = append(s.Deps, perm[j])
			}
		}
		s.Cof = r.Chance(1, 3)
		s.Cos = r.Chance(1, 3)
		if r.Chance(w.retryNum, w.retryDen) {
			s.Retry = true
			s.Rlimit = r.Below(4)
			s.IntervalUs = 3000 + r.Below(8)*1000
		}
		if r.Chance(w.failNum, w.failDen) {
			// k below / at / above the limit, or always
			switch r.Below(4) {
			case 0: // strictly below the limit when the limit allows it
				if s.Rlimit > 1 {
					s.Fails = 1 + r.Below(s.Rlimit-1)
				} else {
					s.Fails = 1
				}
			case 1:
				s.Fails = s.Rlimit
			case 2:
				s.Fails = s.Rlimit + 1
			default:
				s.Fails = -1
			}
		}
		if r.Chance(w.preNum, w.preDen) {
			s.HasPre, s.Pre = true, false
		} else if r.Chance(1, 6) {
			s.HasPre, s.Pre = true, true
		}
		if s.HasPre && r.Chance(1, 2) { // two or three preconditions, every met/unmet order
			m := 2 + r.Below(2)
			for {
				s.Pres = s.Pres[:0]
				all := true
				for j := 0; j < m; j++ {
					met := s.Pre || r.Chance(1, 2)
					s.Pres = append(s.Pres, met)
					all = all && met
				}
				if all == s.Pre {
					break
				}
			}
		}
		if s.HasPre && r.Chance(1, 3) { // written as back-tick commands (evaluated by the real EvalConditions)
			ps := s.Pres
			if len(ps) == 0 {
				ps = []bool{s.Pre}
			}
			for _, met := range ps {
				if met {
					s.PreK = append(s.PreK, preKindsMet[r.Below(len(preKindsMet))])
				} else if r.Chance(1, 10) {
					s.PreK = append(s.PreK, 7)
				} else {
					s.PreK = append(s.PreK, preKindsUnmet[r.Below(len(preKindsUnmet)-1)])
				}
			}
			s.Pres = append([]bool{}, ps...)
		}
		if r.Chance(1, 40) {
			s.Sfail = true
		}
		if r.Chance(1, 10) { // the creation of the step's command fails: once, twice, always
			s.CFails = []int{1, 1, 2, -1}[r.Below(4)]
		}
		if r.Chance(1, 4) {
			s.Out = true
		}
		steps[perm[k]] = s
	}
	c.Steps = steps
	if w.wide {
		c.MaxActive = r.Below(n + 2)
	} else {
		c.MaxActive = r.Below(5)
	}
	return c
}

// wide DAGs (12-30 steps, always a random declaration order, so early-declared steps depend on late-declared ones
// and vice versa), run in a FRESH process each: node ids are 1..n as in an agent process
func wideCase(r *vh.Rng) Case {
	w := weights{1, 3, 1, 15, 1, 8, 1, 50, false, false}
	n := 12 + r.Below(19)
	c := randomCaseN(r, n, w, true)
	c.Stream = "wide"
	c.Fresh = true
	c.MaxActive = 0
	if r.Chance(1, 4) {
		c.MaxActive = 2 + r.Below(n)
	}
	return c
}

// ---------------------------------------------------------------------------------------------
// streams with handlers, stop requests and timeouts (C04, C05)
// ---------------------------------------------------------------------------------------------

func hold(deps []int, durUs int) StepC { return StepC{Deps: deps, Pre: true, DurUs: durUs} }

func handlerSet(mask int, r *vh.Rng, durUs int) []HandC {
	hs := make([]HandC, 4)
	for h := 0; h < 4; h++ {
		hs[h] = HandC{On: mask>>uint(h)&1 == 1, Fail: r.Chance(1, 3), DurUs: durUs}
	}
	return hs
}

func prep(c *Case, r *vh.Rng, stream string) {
	c.Stream = stream
	c.Done = true
	if c.PauseUs == 0 {
		c.PauseUs = []int{200, 300, 500}[r.Below(3)]
	}
	c.Rs = r.Next()
}

// quiet runs with every subset of the four handlers
func handlerCases(r *vh.Rng, perSubset int) []Case {
	var out []Case
	w := weights{2, 5, 1, 3, 1, 4, 1, 6, false, false}
	for mask := 0; mask < 16; mask++ {
		for k := 0; k < perSubset; k++ {
			c := randomCaseN(r, 1+r.Below(4), w, r.Bool())
			c.Handlers = handlerSet(mask, r, 0)
			for h := range c.Handlers { // a handler whose node cannot be set up: marked failed, not run, the others still run
				if c.Handlers[h].On && r.Chance(1, 5) {
					c.Handlers[h].Sfail = true
				}
			}
			c.MaxActive = r.Below(3)
			c.Policy = []string{"imm", "rnd", "quiet"}[r.Below(3)]
			prep(&c, r, "handlers")
			out = append(out, c)
		}
	}
	return out
}

// attempts that fail in the CREATION of the command (not inside Run): with a retry policy whose interval spans several
// polls of the loop, continueOn.failure and dependents (the node must stay running until its last attempt is over);
// with maxActiveRuns = k and k or more steps failing that way while others are still pending (the slot must be freed)
func cfailCase(r *vh.Rng) Case {
	var steps []StepC
	k := 0
	switch r.Below(3) {
	case 0: // a retried creation failure with a dependent that may proceed on failure
		a := StepC{Deps: []int{}, Pre: true, Cof: true, Retry: true, Rlimit: 1 + r.Below(2), IntervalUs: 3000 + r.Below(4)*1000}
		a.CFails = []int{1, 1, 2, -1}[r.Below(4)]
		if r.Chance(1, 3) {
			a.Fails = 1
		}
		steps = []StepC{a, {Deps: []int{0}, Pre: true}}
		if r.Bool() {
			steps = append(steps, StepC{Deps: []int{}, Pre: true})
		}
		k = r.Below(3)
	case 1: // k slots, k or more steps that fail at creation for good, others pending
		k = 1 + r.Below(2)
		nf := k + r.Below(2)
		for j := 0; j < nf; j++ {
			steps = append(steps, StepC{Deps: []int{}, Pre: true, Cof: r.Bool(), CFails: -1})
		}
		steps = append(steps, StepC{Deps: []int{}, Pre: true}, StepC{Deps: []int{0}, Pre: true})
		if r.Bool() {
			steps = append(steps, StepC{Deps: []int{nf}, Pre: true})
		}
	default: // k slots, creation failures that are retried (own retry pending)
		k = 1 + r.Below(2)
		for j := 0; j < 2+r.Below(2); j++ {
			steps = append(steps, StepC{Deps: []int{}, Pre: true, Retry: true, Rlimit: 1 + r.Below(2), IntervalUs: 2000 + r.Below(3)*1000,
				CFails: 1 + r.Below(2), Cof: r.Bool()})
		}
		steps = append(steps, StepC{Deps: []int{0, 1}, Pre: true})
	}
	return Case{Stream: "cfail", Steps: steps, MaxActive: k}
}

// small DAGs whose commands run for a few milliseconds unless somebody ends them
func stopBases(r *vh.Rng) []Case {
	d := func() int { return 3000 + r.Below(6)*1000 }
	mk := func(steps ...StepC) Case { return Case{Steps: steps, Policy: "hold"} }
	retry := hold([]int{}, d())
	retry.Retry, retry.Rlimit, retry.IntervalUs, retry.Fails = true, 1, 4000, 1
	cof := hold([]int{}, d())
	cof.Cof, cof.Fails = true, -1
	unmet := hold([]int{0}, d())
	unmet.HasPre, unmet.Pre = true, false
	ign := hold([]int{}, 9000)
	ign.Ignore = true
	sos := hold([]int{}, d())
	sos.SigOnStop = "SIGINT"
	bases := []Case{
		mk(hold([]int{}, d())),
		mk(hold([]int{}, d()), hold([]int{}, d())),
		mk(hold([]int{}, d()), hold([]int{0}, d())),
		mk(hold([]int{}, d()), hold([]int{0}, d()), hold([]int{1}, d())),
		mk(hold([]int{}, d()), hold([]int{0}, d()), hold([]int{0}, d()), hold([]int{1, 2}, d())),
		mk(retry, hold([]int{0}, d())),
		mk(cof, hold([]int{0}, d())),
		mk(hold([]int{}, d()), unmet, hold([]int{1}, d())),
		mk(ign, hold([]int{}, d())),
		mk(sos, hold([]int{0}, d())),
		mk(hold([]int{1}, d()), hold([]int{}, d()), sos),
	}
	for i := range bases {
		bases[i].MaxActive = r.Below(3)
		bases[i].Handlers = handlerSet(8|1|r.Below(16), r, 0) // onCancel and onExit always configured here
	}
	return bases
}

// a stop at every visible event index of the unstopped run of each base
func stopCases(r *vh.Rng, logDir string, reps int) []Case {
	var out []Case
	for bi, b := range stopBases(r) {
		probe := b
		prep(&probe, r, "stopprobe")
		runCase(&probe, 900000+bi, logDir)
		e := len(probe.Events)
		for rep := 0; rep < reps; rep++ {
			for at := 0; at <= e; at++ {
				c := b
				c.Steps = append([]StepC{}, b.Steps...)
				c.Stop = &StopC{At: at, DelayUs: []int{0, 100, 500, 1500}[r.Below(4)]}
				prep(&c, r, "stop")
				out = append(out, c)
			}
		}
	}
	return out
}

// a stop that interrupts nothing: it is fired the instant the last command ends (delay 0), while other steps are
// skipped; either the worker wins (every step finished/skipped: the run is finished, onSuccess) or the Signal pass
// wins (the step is flipped: canceled, onCancel) - both are legitimate, a finished/skipped table reported canceled is not
func lateStopCases(r *vh.Rng, k int) []Case {
	var out []Case
	for i := 0; i < k; i++ {
		a := hold([]int{}, 1500+r.Below(3)*500)
		skip := hold([]int{}, 2000)
		skip.HasPre, skip.Pre = true, false
		dep := hold([]int{1}, 2000)
		steps := []StepC{a, skip, dep}
		if r.Bool() {
			steps = []StepC{a, skip}
		}
		c := Case{Steps: steps, Policy: "hold", Handlers: handlerSet(15, r, 0), Stop: &StopC{At: 2, DelayUs: r.Below(3) * 30}}
		prep(&c, r, "latestop")
		out = append(out, c)
	}
	return out
}

// a stop that arrives while the handlers run (F4a)
func stopHandlerCases(r *vh.Rng, logDir string, k int) []Case {
	var out []Case
	for i := 0; i < k; i++ {
		s := hold([]int{}, 2000)
		if r.Bool() {
			s.Fails = -1
		}
		b := Case{Steps: []StepC{s}, Policy: "hold", Handlers: handlerSet(15, r, 6000)}
		probe := b
		prep(&probe, r, "stopprobe")
		runCase(&probe, 910000+i, logDir)
		at := -1
		for j, e := range probe.Events {
			if e.E == "hs" {
				at = j + 1
				break
			}
		}
		if at < 0 {
			continue
		}
		c := b
		c.Stop = &StopC{At: at, DelayUs: 500 + r.Below(1500)}
		prep(&c, r, "stophandler")
		out = append(out, c)
	}
	return out
}

// the two windows: stop during a slow step precondition (loop between commit and launch), stop during a slow
// executor creation (worker between its cancel test and Run)
func windowCases(r *vh.Rng, k int) []Case {
	var out []Case
	for i := 0; i < k; i++ {
		sp := hold([]int{}, 3000)
		sp.HasPre, sp.SlowPreUs = true, 30000
		c1 := Case{Steps: []StepC{sp}, Policy: "hold", Handlers: handlerSet(15, r, 0), Stop: &StopC{At: 0, DelayUs: 6000 + r.Below(8000)}}
		prep(&c1, r, "slowpre")
		sp2 := hold([]int{0}, 3000)
		sp2.HasPre, sp2.SlowPreUs = true, 30000
		c2 := Case{Steps: []StepC{hold([]int{}, 2000), sp2, hold([]int{}, 4000)}, Policy: "hold", Handlers: handlerSet(9, r, 0),
			Stop: &StopC{At: 3, DelayUs: 12000 + r.Below(6000)}}
		prep(&c2, r, "slowpre")
		sc := hold([]int{}, 4000)
		sc.SlowCreateUs = 20000
		c3 := Case{Steps: []StepC{sc, hold([]int{0}, 2000)}, Policy: "hold", Handlers: handlerSet(9, r, 0), Stop: &StopC{At: 0, DelayUs: 4000 + r.Below(8000)}}
		prep(&c3, r, "slowcreate")
		c4 := failInStop(r, i%2 == 1)
		out = append(out, c1, c2, c3, c4)
	}
	return out
}

// a command that fails by itself between the stop flag and its node's flip (Signal is held up at step 0, whose
// executor is being created): with and without the done channel (fix 614b59e)
func failInStop(r *vh.Rng, done bool) Case {
	sc := hold([]int{}, 3000)
	sc.SlowCreateUs = 20000
	fl := hold([]int{}, 6000)
	fl.Fails = -1
	c := Case{Steps: []StepC{sc, fl}, Policy: "hold", Handlers: handlerSet(15, r, 0), Stop: &StopC{At: 0, DelayUs: 2500 + r.Below(1500)}}
	prep(&c, r, "failinstop")
	c.Done = done
	return c
}

func failInStopCases(r *vh.Rng, k int) []Case {
	var out []Case
	for i := 0; i < k; i++ {
		out = append(out, failInStop(r, i%3 == 2))
	}
	return out
}

// escalation: a command that ignores the stop signal, then SIGKILL
func escalateCases(r *vh.Rng, k int) []Case {
	var out []Case
	for i := 0; i < k; i++ {
		ig := hold([]int{}, 40000)
		ig.Ignore = true
		c := Case{Steps: []StepC{ig, hold([]int{}, 5000)}, Policy: "hold", Handlers: handlerSet(9, r, 0),
			Stop: &StopC{At: 1 + r.Below(2), DelayUs: 300 + r.Below(1500), Again: 1, AgainDelayUs: 3000}}
		prep(&c, r, "escalate")
		out = append(out, c)
	}
	return out
}

// repeating steps: the stop lands inside an iteration or between two iterations
func repeatCases(r *vh.Rng, k int) []Case {
	var out []Case
	for i := 0; i < k; i++ {
		rp := hold([]int{}, 2000)
		rp.Repeat, rp.RepeatIvlUs = true, 5000
		steps := []StepC{rp}
		if r.Bool() {
			steps = append(steps, hold([]int{}, 3000))
		}
		c := Case{Steps: steps, Policy: "hold", Handlers: handlerSet(9, r, 0),
			Stop: &StopC{At: 1 + r.Below(6), DelayUs: []int{0, 500, 2500, 4000}[r.Below(4)]}}
		prep(&c, r, "repeat")
		out = append(out, c)
	}
	return out
}

// DAG timeouts that strike in the middle of the run
func timeoutCases(r *vh.Rng, k int) []Case {
	var out []Case
	for i := 0; i < k; i++ {
		d := func() int { return 5000 + r.Below(6)*1000 }
		var steps []StepC
		switch r.Below(3) {
		case 0:
			steps = []StepC{hold([]int{}, d())}
		case 1:
			steps = []StepC{hold([]int{}, d()), hold([]int{0}, d())}
		default:
			steps = []StepC{hold([]int{}, d()), hold([]int{}, d()), hold([]int{0, 1}, d())}
		}
		if i%2 == 1 { // the step running at the deadline has retries left (some had a failed attempt before it)
			for j := range steps {
				steps[j].Retry, steps[j].Rlimit, steps[j].IntervalUs = true, 1+r.Below(3), 1000+r.Below(3)*1000
				if r.Chance(1, 3) {
					steps[j].Fails, steps[j].DurUs = 1, 2000+r.Below(3)*1000
				}
			}
		}
		c := Case{Steps: steps, Policy: "hold", Handlers: handlerSet(4|1|r.Below(16), r, 0), TimeoutUs: 3000 + r.Below(12)*1000}
		prep(&c, r, "timeout")
		out = append(out, c)
	}
	return out
}

func finishCase(c *Case, r *vh.Rng, focus string) {
	switch r.Below(6) {
	case 0:
		c.Policy = "imm"
	case 1, 2:
		c.Policy = "rnd"
	default:
		c.Policy = "quiet"
	}
	if focus == "C15" && r.Chance(1, 2) {
		c.Policy = "quiet"
	}
	c.PauseUs = []int{200, 300, 500, 1000}[r.Below(4)]
	// Schedule is given a done channel, as the agent always does; one run in 16 passes nil like the package's own tests
	c.Done = c.Dry || !r.Chance(1, 16)
	c.Rs = r.Next()
}

// runFresh re-executes this binary for one case, so that the scheduler package's global node-id counter starts at 1
func runFresh(c *Case, id int, logDir string) {
	in := fmt.Sprintf("%s/fresh-%d-in.jsonl", logDir, id)
	outp := fmt.Sprintf("%s/fresh-%d-out.jsonl", logDir, id)
	b, _ := json.Marshal(c)
	if err := os.WriteFile(in, append(b, '\n'), 0644); err != nil {
		c.Note = "fresh: " + err.Error()
		return
	}
	cctx, ccancel := context.WithTimeout(context.Background(), 40*time.Second)
	defer ccancel()
	cmd := exec.CommandContext(cctx, os.Args[0], outp, "child", in)
	cmd.Env = startEnv // the scheduler exports one variable per node id into this process; children get the original
	if why := driverExhausted(); why != "" {
		c.Note = why
		return
	}
	if o, err := cmd.CombinedOutput(); err != nil {
		c.Note = fmt.Sprintf("fresh process failed: %v %s", err, string(o))
		if cctx.Err() != nil {
			atomic.AddInt32(&hungCount, 1)
		}
		return
	}
	res := readCases(outp)
	if len(res) != 1 {
		c.Note = "fresh process wrote no result"
		return
	}
	k := c.K
	*c = res[0]
	c.K = k
	if c.Hung {
		atomic.AddInt32(&hungCount, 1)
	}
	os.Remove(in)
	os.Remove(outp)
}

func readCases(path string) []Case {
	f, err := os.Open(path)
	if err != nil {
		panic(err)
	}
	defer f.Close()
	var out []Case
	sc := bufio.NewScanner(f)
	sc.Buffer(make([]byte, 1<<20), 1<<26)
	for sc.Scan() {
		var c Case
		if json.Unmarshal(sc.Bytes(), &c) != nil {
			continue
		}
		out = append(out, c)
	}
	return out
}

var startEnv []string

func main() {
	if len(os.Args) > 3 && os.Args[2] == "slowpre" { // helper of slow preconditions: <self> - slowpre <us>
		var us int
		fmt.Sscanf(os.Args[3], "%d", &us)
		time.Sleep(time.Duration(us) * time.Microsecond)
		fmt.Println("1")
		return
	}
	if len(os.Args) > 4 && os.Args[2] == "preout" { // helper of preconditions: <self> - preout <exit code> <output>
		var code int
		fmt.Sscanf(os.Args[3], "%d", &code)
		fmt.Println(os.Args[4])
		os.Exit(code)
	}
	startEnv = os.Environ()
	go heartbeat()
	log.SetOutput(io.Discard)
	if len(os.Args) > 3 && os.Args[2] == "agentreal" {
		agentRealMain(os.Args[1], os.Args[3])
		return
	}
	if len(os.Args) > 3 && os.Args[2] == "agentstop" {
		agentStopMain(os.Args[1], os.Args[3])
		return
	}
	os.Setenv("VERIF_PRE_MET", "1")
	os.Unsetenv("VERIF_PRE_UNMET")
	executor.Register("verifscript", func(ctx context.Context, step dag.Step) (executor.Executor, error) {
		id, _ := step.ExecutorConfig.Config["w"].(int)
		idx, _ := step.ExecutorConfig.Config["i"].(int)
		w, ok := worlds.Load(id)
		if !ok {
			return nil, errors.New("no such run")
		}
		ww := w.(*world)
		if idx >= 0 && ww.c.Steps[idx].SlowCreateUs > 0 {
			time.Sleep(time.Duration(ww.c.Steps[idx].SlowCreateUs) * time.Microsecond)
		}
		if idx >= 0 && ww.c.Steps[idx].CFails != 0 { // the command of this attempt cannot be created
			ww.mu.Lock()
			ww.catt[idx]++
			a := ww.catt[idx]
			ww.mu.Unlock()
			if cf := ww.c.Steps[idx].CFails; cf < 0 || a <= cf {
				ww.log(Ev{E: "x", I: idx, A: a})
				return nil, errors.New("scripted failure of the creation of the command")
			}
		}
		return &scripted{w: ww, idx: idx, ctx: ctx, killed: make(chan struct{})}, nil
	})
	out, err := vh.NewOut(os.Args[1])
	if err != nil {
		panic(err)
	}
	defer out.Close()
	tier := os.Args[2]
	focus := "C01"
	if len(os.Args) > 3 {
		focus = os.Args[3]
	}
	rng := vh.NewRng(vh.SeedFromEnv())
	limit := 300 * time.Second
	if tier == "thorough" {
		limit = 1500 * time.Second
	}
	if v := os.Getenv("VERIF_SCHED_LIMIT_S"); v != "" {
		var s int
		fmt.Sscanf(v, "%d", &s)
		limit = time.Duration(s) * time.Second
	}
	driverStop = time.Now().Add(limit)
	if v := os.Getenv("VERIF_SCHED_WATCHDOG_MS"); v != "" {
		var ms int
		fmt.Sscanf(v, "%d", &ms)
		watchdog = time.Duration(ms) * time.Millisecond
	}
	var cases []Case
	if tier == "replay" || tier == "child" {
		cases = readCases(os.Args[3])
	} else {
		if focus == "C04" || focus == "C05" {
			logDir0, _ := os.MkdirTemp("", "verif-sched-probe")
			mult := 3
			if tier == "thorough" {
				mult = 40
			}
			if tier == "search" {
				mult = 6
			}
			if focus == "C04" {
				cases = append(cases, handlerCases(rng, 8*mult)...)
				cases = append(cases, stopHandlerCases(rng, logDir0, 6*mult)...)
				cases = append(cases, stopCases(rng, logDir0, 1*mult)...)
				cases = append(cases, windowCases(rng, 2*mult)...)
				cases = append(cases, lateStopCases(rng, 40*mult)...)
				cases = append(cases, failInStopCases(rng, 8*mult)...)
			} else {
				cases = append(cases, stopCases(rng, logDir0, 2*mult)...)
				cases = append(cases, windowCases(rng, 4*mult)...)
				cases = append(cases, escalateCases(rng, 6*mult)...)
				cases = append(cases, repeatCases(rng, 16*mult)...)
				cases = append(cases, timeoutCases(rng, 16*mult)...)
				cases = append(cases, stopHandlerCases(rng, logDir0, 2*mult)...)
			}
			os.RemoveAll(logDir0)
			for i := range cases {
				cases[i].K = i
			}
		} else {
			nSmall, nRandom, nmax, nDry := 1500, 3600, 8, 120
			if tier == "thorough" {
				nSmall, nRandom, nmax, nDry = 20000, 60000, 12, 1500
			}
			if tier == "search" {
				nSmall, nRandom, nmax, nDry = 1500, 4000, 10, 0
			}
			w := focusWeights(focus)
			if tier == "thorough" { // the whole 1- and 2-step space
				for n := 1; n <= 2; n++ {
					for idx := uint64(0); idx < smallSpace(n); idx++ {
						cases = append(cases, smallCase(n, idx))
					}
				}
			}
			for i := 0; i < nSmall; i++ {
				n := 1 + rng.Below(3)
				if rng.Chance(2, 3) {
					n = 3
				}
				cases = append(cases, smallCase(n, rng.Next()%smallSpace(n)))
			}
			for i := 0; i < nRandom; i++ {
				cases = append(cases, randomCase(rng, 4, nmax, w))
			}
			nWide := 100
			if tier == "thorough" {
				nWide = 800
			}
			if tier == "search" {
				nWide = 200
			}
			for i := 0; i < nWide; i++ {
				cases = append(cases, wideCase(rng))
			}
			nCf := 200
			if tier == "thorough" {
				nCf = 3000
			}
			for i := 0; i < nCf; i++ {
				cases = append(cases, cfailCase(rng))
			}
			// the scenario of the (fixed) done == nil stale-worker flip: retries with interval 0, a spinning loop
			nFlip := 0
			if focus == "C01" && tier != "search" {
				nFlip = 2500
			}
			for i := 0; i < nFlip; i++ {
				s0 := StepC{Deps: []int{}, Pre: true, Retry: true, Rlimit: 30, IntervalUs: 0, Fails: -1}
				s1 := StepC{Deps: []int{0}, Pre: true}
				cases = append(cases, Case{Stream: "flip", Steps: []StepC{s0, s1}})
			}
			for i := 0; i < nDry; i++ {
				c := randomCase(rng, 2, 7, w)
				c.Stream = "dry"
				c.Dry = true
				cases = append(cases, c)
			}
			for i := range cases {
				finishCase(&cases[i], rng, focus)
				cases[i].K = i
				if cases[i].Stream == "flip" {
					cases[i].Policy, cases[i].PauseUs, cases[i].Done = "imm", 1, false
				}
			}
		}
	}
	logDir, err := os.MkdirTemp("", "verif-sched-logs")
	if err != nil {
		panic(err)
	}
	defer os.RemoveAll(logDir)
	par := runtime.NumCPU()
	if par > 12 {
		par = 12
	}
	if v := os.Getenv("VERIF_SCHED_PAR"); v != "" {
		fmt.Sscanf(v, "%d", &par)
	}
	if os.Getenv("VERIF_SCHED_DIAG") != "" { // resource diagnostics on stderr
		go func() {
			for {
				time.Sleep(10 * time.Second)
				fds, _ := os.ReadDir("/proc/self/fd")
				eb := 0
				for _, e := range os.Environ() {
					eb += len(e) + 1
				}
				_, xerr := exec.Command("true").Output()
				fmt.Fprintf(os.Stderr, "diag: fds=%d goroutines=%d env=%d vars/%d bytes exec(true)=%v\n", len(fds), runtime.NumGoroutine(), len(os.Environ()), eb, xerr)
			}
		}()
	}
	var wg sync.WaitGroup
	next := make(chan int)
	for p := 0; p < par; p++ {
		wg.Add(1)
		go func() {
			defer wg.Done()
			for i := range next {
				if cases[i].Fresh && tier != "child" {
					runFresh(&cases[i], i, logDir)
				} else {
					runCase(&cases[i], i, logDir)
				}
			}
		}()
	}
	for i := range cases {
		next <- i
	}
	close(next)
	wg.Wait()
	for i := range cases {
		out.Put(cases[i])
	}
}
