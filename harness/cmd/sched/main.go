// Driver for the Sched family (C01 C02 C03 C15): runs generated DAGs on the REAL scheduler
// (scheduler.New / NewExecutionGraph / Schedule) with a scripted in-process executor registered through
// executor.Register, and records what the implementation did: the visible event trace (entry and exit of every
// executor Run call, monotonic microsecond stamps, a snapshot of all node states at every entry), the final
// (status, retryCount, doneCount) of every node, Schedule's error and Status(g).
//
//	sched <out.jsonl> <tier> [focus]        tier = quick | thorough | search ; focus = C01 | C02 | C03 | C15
//	sched <out.jsonl> replay <in.jsonl>     re-run given cases (inputs only are read)
//
// Only the polling pause of the loop is shortened (hook VerifSetPause, build tag verif).
package main

import (
	"bufio"
	"context"
	"encoding/json"
	"errors"
	"fmt"
	"io"
	"log"
	"os"
	"os/exec"
	"runtime"
	"sync"
	"time"

	"github.com/ErdemOzgen/blackdagger/internal/dag"
	"github.com/ErdemOzgen/blackdagger/internal/dag/executor"
	"github.com/ErdemOzgen/blackdagger/internal/dag/scheduler"
	"github.com/ErdemOzgen/blackdagger/internal/logger"
	"github.com/ErdemOzgen/blackdagger/verifh/vh"
)

// ---------------------------------------------------------------------------------------------
// case format
// ---------------------------------------------------------------------------------------------

type StepC struct {
	Deps       []int `json:"deps"`
	Cof        bool  `json:"cof"`
	Cos        bool  `json:"cos"`
	Retry      bool  `json:"retry"`  // a retryPolicy is present
	Rlimit     int   `json:"rlimit"` // its limit
	IntervalUs int   `json:"ivl"`    // its interval
	Pre        bool  `json:"pre"`    // outcome of the step's precondition
	HasPre     bool  `json:"haspre"`
	Sfail      bool  `json:"sfail"` // node.setup fails (stdout file in a directory that does not exist)
	Fails      int   `json:"fails"` // the first Fails attempts fail; -1: every attempt fails
	Out        bool  `json:"out,omitempty"` // the step has an `output:` variable; the executor prints a few bytes
}

type Ev struct {
	E    string `json:"e"` // "s" Run entered, "e" Run returned, "k" Kill called
	I    int    `json:"i"`
	A    int    `json:"a,omitempty"`  // attempt number (1-based)
	Ok   bool   `json:"ok,omitempty"` // for "e"
	T    int64  `json:"t"`            // microseconds since the start of the run (monotonic clock)
	Snap []int  `json:"snap,omitempty"`
}

type Fin struct {
	St int `json:"st"`
	Rc int `json:"rc"`
	Dc int `json:"dc"`
}

type Case struct {
	K         int     `json:"k"`
	Stream    string  `json:"stream"`
	Steps     []StepC `json:"steps"`
	MaxActive int     `json:"maxactive"`
	Dry       bool    `json:"dry"`
	Done      bool    `json:"done"`   // Schedule is given a done channel (as the agent does)
	Policy    string  `json:"policy"` // imm | rnd | quiet
	PauseUs   int     `json:"pause"`
	Rs        uint64  `json:"rs"` // seed of the run's own random choices
	Fresh     bool    `json:"fresh,omitempty"` // run in a fresh process (node ids 1..n as in an agent process)
	// observed
	Events []Ev  `json:"events"`
	Final  []Fin `json:"final"`
	Err    bool  `json:"err"`
	Status int   `json:"status"`
	Hung   bool  `json:"hung,omitempty"`
	WallUs int64 `json:"wall"`
	Note   string `json:"note,omitempty"`
}

// ---------------------------------------------------------------------------------------------
// scripted executor
// ---------------------------------------------------------------------------------------------

type world struct {
	mu      sync.Mutex
	t0      time.Time
	evs     []Ev
	att     map[int]int
	c       *Case
	g       *scheduler.ExecutionGraph
	rng     *vh.Rng
	blocked []chan struct{}
	lastLen int
	stop    chan struct{}
}

var worlds sync.Map // run id -> *world

type scripted struct {
	w      *world
	idx    int
	ctx    context.Context
	stdout io.Writer
}

func (s *scripted) SetStdout(o io.Writer) { s.stdout = o }
func (s *scripted) SetStderr(io.Writer) {}
func (s *scripted) Kill(sig os.Signal) error {
	w := s.w
	w.mu.Lock()
	w.evs = append(w.evs, Ev{E: "k", I: s.idx, T: time.Since(w.t0).Microseconds()})
	w.mu.Unlock()
	return nil
}

func (w *world) snapshot() []int {
	ns := w.g.Nodes()
	out := make([]int, len(ns))
	for i, n := range ns {
		out[i] = int(n.State().Status)
	}
	return out
}

func (s *scripted) Run() error {
	w := s.w
	w.mu.Lock()
	w.att[s.idx]++
	a := w.att[s.idx]
	snap := w.snapshot()
	w.evs = append(w.evs, Ev{E: "s", I: s.idx, A: a, T: time.Since(w.t0).Microseconds(), Snap: snap})
	var wait chan struct{}
	var d time.Duration
	switch w.c.Policy {
	case "rnd":
		d = time.Duration(w.rng.Below(1500)) * time.Microsecond
	case "quiet":
		wait = make(chan struct{})
		w.blocked = append(w.blocked, wait)
	}
	w.mu.Unlock()
	if wait != nil {
		select {
		case <-wait:
		case <-s.ctx.Done():
		}
	} else if d > 0 {
		time.Sleep(d)
	}
	if w.c.Steps[s.idx].Out && s.stdout != nil {
		fmt.Fprintf(s.stdout, "out-of-step-%d attempt %d\n", s.idx, a)
	}
	w.mu.Lock()
	var err error
	f := w.c.Steps[s.idx].Fails
	if f < 0 || a <= f {
		err = errors.New("scripted failure")
	}
	w.evs = append(w.evs, Ev{E: "e", I: s.idx, A: a, Ok: err == nil, T: time.Since(w.t0).Microseconds()})
	w.mu.Unlock()
	return err
}

// releaser of the "quiet" policy: when nothing has happened for a while, let one blocked Run return
func (w *world) releaser(quiet time.Duration) {
	for {
		select {
		case <-w.stop:
			w.mu.Lock()
			for _, ch := range w.blocked {
				close(ch)
			}
			w.blocked = nil
			w.mu.Unlock()
			return
		case <-time.After(quiet):
		}
		w.mu.Lock()
		if len(w.evs) == w.lastLen && len(w.blocked) > 0 {
			j := w.rng.Below(len(w.blocked))
			close(w.blocked[j])
			w.blocked = append(w.blocked[:j], w.blocked[j+1:]...)
		}
		w.lastLen = len(w.evs)
		w.mu.Unlock()
	}
}

var quietLogger = logger.NewLogger(logger.NewLoggerArgs{Quiet: true})

func runCase(c *Case, id int, logDir string) {
	n := len(c.Steps)
	steps := make([]dag.Step, n)
	for i, sc := range c.Steps {
		s := dag.Step{Name: fmt.Sprintf("s%d", i),
			ExecutorConfig: dag.ExecutorConfig{Type: "verifscript", Config: map[string]any{"w": id, "i": i}}}
		for _, d := range sc.Deps {
			s.Depends = append(s.Depends, fmt.Sprintf("s%d", d))
		}
		s.ContinueOn.Failure = sc.Cof
		s.ContinueOn.Skipped = sc.Cos
		if sc.Retry {
			s.RetryPolicy = &dag.RetryPolicy{Limit: sc.Rlimit, Interval: time.Duration(sc.IntervalUs) * time.Microsecond}
		}
		if sc.HasPre {
			if sc.Pre {
				s.Preconditions = []dag.Condition{{Condition: "$VERIF_PRE_MET", Expected: "1"}}
			} else {
				s.Preconditions = []dag.Condition{{Condition: "$VERIF_PRE_UNMET", Expected: "1"}}
			}
		}
		if sc.Sfail {
			s.Stdout = "/proc/verif-no-such-dir/out"
		}
		if sc.Out {
			s.Output = fmt.Sprintf("VERIF_OUT_%d", i)
		}
		steps[i] = s
	}
	c.Events, c.Final, c.Err, c.Status, c.Hung, c.Note = nil, nil, false, 0, false, ""
	g, err := scheduler.NewExecutionGraph(quietLogger, steps...)
	if err != nil {
		c.Note = "graph refused: " + err.Error()
		return
	}
	w := &world{t0: time.Now(), att: map[int]int{}, c: c, g: g, rng: vh.NewRng(c.Rs), stop: make(chan struct{})}
	worlds.Store(id, w)
	defer worlds.Delete(id)
	pause := time.Duration(c.PauseUs) * time.Microsecond
	sc := scheduler.New(&scheduler.Config{LogDir: logDir, MaxActiveRuns: c.MaxActive, Dry: c.Dry, Logger: quietLogger})
	sc.VerifSetPause(pause)
	ctx, cancel := context.WithCancel(dag.NewContext(context.Background(), nil, nil, "", ""))
	defer cancel()
	var done chan *scheduler.Node
	if c.Done {
		done = make(chan *scheduler.Node)
		go func() {
			for range done {
			}
		}()
	}
	if c.Policy == "quiet" {
		go w.releaser(4*pause + 400*time.Microsecond)
	}
	fin := make(chan error, 1)
	go func() { fin <- sc.Schedule(ctx, g, done) }()
	var serr error
	select {
	case serr = <-fin:
	case <-time.After(20 * time.Second):
		c.Hung = true
		close(w.stop)
		cancel()
		select {
		case serr = <-fin:
		case <-time.After(5 * time.Second):
			c.Note = "run abandoned"
		}
	}
	if !c.Hung {
		close(w.stop)
	}
	if done != nil && c.Note == "" {
		close(done)
	}
	c.WallUs = time.Since(w.t0).Microseconds()
	w.mu.Lock()
	c.Events = append([]Ev{}, w.evs...)
	w.mu.Unlock()
	for _, nd := range g.Nodes() {
		st := nd.State()
		c.Final = append(c.Final, Fin{St: int(st.Status), Rc: st.RetryCount, Dc: st.DoneCount})
	}
	c.Err = serr != nil
	c.Status = int(sc.Status(g))
}

// ---------------------------------------------------------------------------------------------
// generators
// ---------------------------------------------------------------------------------------------

func mkStep(deps []int) StepC { return StepC{Deps: deps, Pre: true} }

// bounded-exhaustive family: DAGs on <= 3 steps (dependencies on lower indices), per step
// cof, cos, pre in {met, unmet}, retry limit in {0,1}, script in {ok, fail once, fail always}; maxActive in {0,1,2}.
// The space is indexed; quick samples it, thorough sweeps the 1- and 2-step part and samples the 3-step part.
const perStep = 2 * 2 * 2 * 2 * 3

func smallSpace(n int) uint64 {
	shapes := uint64(1)
	for i := 0; i < n; i++ {
		shapes *= 1 << uint(i)
	}
	sz := shapes * 3
	for i := 0; i < n; i++ {
		sz *= perStep
	}
	return sz
}

func smallCase(n int, idx uint64) Case {
	c := Case{Stream: fmt.Sprintf("small%d", n)}
	c.MaxActive = int(idx % 3)
	idx /= 3
	for i := 0; i < n; i++ {
		m := idx % (1 << uint(i))
		idx /= 1 << uint(i)
		s := StepC{Deps: []int{}}
		for j := 0; j < i; j++ {
			if m>>uint(j)&1 == 1 {
				s.Deps = append(s.Deps, j)
			}
		}
		f := idx % perStep
		idx /= perStep
		s.Cof = f&1 == 1
		s.Cos = f&2 == 2
		s.HasPre = f&4 == 4
		s.Pre = !s.HasPre
		if f&8 == 8 {
			s.Retry, s.Rlimit, s.IntervalUs = true, 1, 3000
		}
		switch f / 16 {
		case 1:
			s.Fails = 1
		case 2:
			s.Fails = -1
		}
		c.Steps = append(c.Steps, s)
	}
	return c
}

type weights struct {
	edgeNum, edgeDen   int // probability of an edge
	failNum, failDen   int
	retryNum, retryDen int
	preNum, preDen     int // unmet precondition
	wide               bool
	deep               bool
}

func focusWeights(focus string) weights {
	switch focus {
	case "C15":
		return weights{1, 5, 1, 5, 1, 3, 1, 12, true, false}
	case "C03":
		return weights{1, 3, 1, 2, 2, 3, 1, 10, false, false}
	case "C02":
		return weights{2, 5, 2, 5, 1, 4, 1, 5, false, false}
	default: // C01
		return weights{1, 2, 1, 4, 1, 3, 1, 8, false, true}
	}
}

func randomCase(r *vh.Rng, nmin, nmax int, w weights) Case {
	return randomCaseN(r, nmin+r.Below(nmax-nmin+1), w, r.Bool())
}

func randomCaseN(r *vh.Rng, n int, w weights, shuffle bool) Case {
	c := Case{Stream: "random"}
	// a random topological position for every step: deps may point to higher indices
	perm := make([]int, n)
	for i := range perm {
		perm[i] = i
	}
	if shuffle {
		for i := n - 1; i > 0; i-- {
			j := r.Below(i + 1)
			perm[i], perm[j] = perm[j], perm[i]
		}
	}
	// pos[k] = step index placed at topological position k
	steps := make([]StepC, n)
	for k := 0; k < n; k++ {
		s := StepC{Deps: []int{}, Pre: true}
		for j := 0; j < k; j++ {
			p := r.Chance(w.edgeNum, w.edgeDen)
			if w.wide && j < k-2 {
				p = p && r.Bool()
			}
			if w.deep && j == k-1 {
				p = p || r.Bool()
			}
			if p {
				s.Deps = append(s.Deps, perm[j])
			}
		}
		s.Cof = r.Chance(1, 3)
		s.Cos = r.Chance(1, 3)
		if r.Chance(w.retryNum, w.retryDen) {
			s.Retry = true
			s.Rlimit = r.Below(4)
			s.IntervalUs = 3000 + r.Below(8)*1000
		}
		if r.Chance(w.failNum, w.failDen) {
			// k below / at / above the limit, or always
			switch r.Below(4) {
			case 0: // strictly below the limit when the limit allows it
				if s.Rlimit > 1 {
					s.Fails = 1 + r.Below(s.Rlimit-1)
				} else {
					s.Fails = 1
				}
			case 1:
				s.Fails = s.Rlimit
			case 2:
				s.Fails = s.Rlimit + 1
			default:
				s.Fails = -1
			}
		}
		if r.Chance(w.preNum, w.preDen) {
			s.HasPre, s.Pre = true, false
		} else if r.Chance(1, 6) {
			s.HasPre, s.Pre = true, true
		}
		if r.Chance(1, 40) {
			s.Sfail = true
		}
		if r.Chance(1, 4) {
			s.Out = true
		}
		steps[perm[k]] = s
	}
	c.Steps = steps
	if w.wide {
		c.MaxActive = r.Below(n + 2)
	} else {
		c.MaxActive = r.Below(5)
	}
	return c
}

// wide DAGs (12-30 steps, always a random declaration order, so early-declared steps depend on late-declared ones
// and vice versa), run in a FRESH process each: node ids are 1..n as in an agent process
func wideCase(r *vh.Rng) Case {
	w := weights{1, 3, 1, 15, 1, 8, 1, 50, false, false}
	n := 12 + r.Below(19)
	c := randomCaseN(r, n, w, true)
	c.Stream = "wide"
	c.Fresh = true
	c.MaxActive = 0
	if r.Chance(1, 4) {
		c.MaxActive = 2 + r.Below(n)
	}
	return c
}

func finishCase(c *Case, r *vh.Rng, focus string) {
	switch r.Below(6) {
	case 0:
		c.Policy = "imm"
	case 1, 2:
		c.Policy = "rnd"
	default:
		c.Policy = "quiet"
	}
	if focus == "C15" && r.Chance(1, 2) {
		c.Policy = "quiet"
	}
	c.PauseUs = []int{200, 300, 500, 1000}[r.Below(4)]
	// Schedule is given a done channel, as the agent always does; one run in 16 passes nil like the package's own tests
	c.Done = c.Dry || !r.Chance(1, 16)
	c.Rs = r.Next()
}

// runFresh re-executes this binary for one case, so that the scheduler package's global node-id counter starts at 1
func runFresh(c *Case, id int, logDir string) {
	in := fmt.Sprintf("%s/fresh-%d-in.jsonl", logDir, id)
	outp := fmt.Sprintf("%s/fresh-%d-out.jsonl", logDir, id)
	b, _ := json.Marshal(c)
	if err := os.WriteFile(in, append(b, '\n'), 0644); err != nil {
		c.Note = "fresh: " + err.Error()
		return
	}
	cmd := exec.Command(os.Args[0], outp, "child", in)
	cmd.Env = os.Environ()
	if o, err := cmd.CombinedOutput(); err != nil {
		c.Note = fmt.Sprintf("fresh process failed: %v %s", err, string(o))
		return
	}
	res := readCases(outp)
	if len(res) != 1 {
		c.Note = "fresh process wrote no result"
		return
	}
	k := c.K
	*c = res[0]
	c.K = k
	os.Remove(in)
	os.Remove(outp)
}

func readCases(path string) []Case {
	f, err := os.Open(path)
	if err != nil {
		panic(err)
	}
	defer f.Close()
	var out []Case
	sc := bufio.NewScanner(f)
	sc.Buffer(make([]byte, 1<<20), 1<<26)
	for sc.Scan() {
		var c Case
		if json.Unmarshal(sc.Bytes(), &c) != nil {
			continue
		}
		out = append(out, c)
	}
	return out
}

func main() {
	log.SetOutput(io.Discard)
	os.Setenv("VERIF_PRE_MET", "1")
	os.Unsetenv("VERIF_PRE_UNMET")
	executor.Register("verifscript", func(ctx context.Context, step dag.Step) (executor.Executor, error) {
		id, _ := step.ExecutorConfig.Config["w"].(int)
		idx, _ := step.ExecutorConfig.Config["i"].(int)
		w, ok := worlds.Load(id)
		if !ok {
			return nil, errors.New("no such run")
		}
		return &scripted{w: w.(*world), idx: idx, ctx: ctx}, nil
	})
	out, err := vh.NewOut(os.Args[1])
	if err != nil {
		panic(err)
	}
	defer out.Close()
	tier := os.Args[2]
	focus := "C01"
	if len(os.Args) > 3 {
		focus = os.Args[3]
	}
	rng := vh.NewRng(vh.SeedFromEnv())
	var cases []Case
	if tier == "replay" || tier == "child" {
		cases = readCases(os.Args[3])
	} else {
		nSmall, nRandom, nmax, nDry := 1500, 3600, 8, 120
		if tier == "thorough" {
			nSmall, nRandom, nmax, nDry = 20000, 60000, 12, 1500
		}
		if tier == "search" {
			nSmall, nRandom, nmax, nDry = 1500, 4000, 10, 0
		}
		w := focusWeights(focus)
		if tier == "thorough" { // the whole 1- and 2-step space
			for n := 1; n <= 2; n++ {
				for idx := uint64(0); idx < smallSpace(n); idx++ {
					cases = append(cases, smallCase(n, idx))
				}
			}
		}
		for i := 0; i < nSmall; i++ {
			n := 1 + rng.Below(3)
			if rng.Chance(2, 3) {
				n = 3
			}
			cases = append(cases, smallCase(n, rng.Next()%smallSpace(n)))
		}
		for i := 0; i < nRandom; i++ {
			cases = append(cases, randomCase(rng, 4, nmax, w))
		}
		nWide := 100
		if tier == "thorough" {
			nWide = 800
		}
		if tier == "search" {
			nWide = 200
		}
		for i := 0; i < nWide; i++ {
			cases = append(cases, wideCase(rng))
		}
		for i := 0; i < nDry; i++ {
			c := randomCase(rng, 2, 7, w)
			c.Stream = "dry"
			c.Dry = true
			cases = append(cases, c)
		}
		for i := range cases {
			finishCase(&cases[i], rng, focus)
			cases[i].K = i
		}
	}
	logDir, err := os.MkdirTemp("", "verif-sched-logs")
	if err != nil {
		panic(err)
	}
	defer os.RemoveAll(logDir)
	par := runtime.NumCPU()
	if par > 12 {
		par = 12
	}
	if v := os.Getenv("VERIF_SCHED_PAR"); v != "" {
		fmt.Sscanf(v, "%d", &par)
	}
	var wg sync.WaitGroup
	next := make(chan int)
	for p := 0; p < par; p++ {
		wg.Add(1)
		go func() {
			defer wg.Done()
			for i := range next {
				if cases[i].Fresh && tier != "child" {
					runFresh(&cases[i], i, logDir)
				} else {
					runCase(&cases[i], i, logDir)
				}
			}
		}()
	}
	for i := range cases {
		next <- i
	}
	close(next)
	wg.Wait()
	for i := range cases {
		out.Put(cases[i])
	}
}
