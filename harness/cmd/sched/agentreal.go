package main

// Agent-level runs with REAL `script:` steps and retries (C02 / C03): the real agent.New(...).Run over a scratch data
// directory, steps run by the real command executor through node.setupScript / teardown (the scripted executor of the
// other streams never goes through them).
//
//	sched <out.jsonl> agentreal <workdir>
//
// Every case is one DAG: s1 = `command: sh` + `script:` that fails its first F runs (a counter file) and then
// succeeds, with retryPolicy limit L, interval 0; s2 = `touch marker`, depends on s1.
// Observed: how often the script really ran (the counter), the final node table (state, retry count), whether s2 ran.
import (
	"context"
	"fmt"
	"os"
	"path/filepath"
	"strings"
	"sync"
	"time"

	"github.com/ErdemOzgen/blackdagger/internal/agent"
	"github.com/ErdemOzgen/blackdagger/internal/client"
	"github.com/ErdemOzgen/blackdagger/internal/dag"
	dsclient "github.com/ErdemOzgen/blackdagger/internal/persistence/client"
	"github.com/ErdemOzgen/blackdagger/verifh/vh"
)

type AgentReal struct {
	Class    string `json:"class"`
	Sub      string `json:"sub"`
	K        int    `json:"k"`
	Fails    int    `json:"fails"`  // the script fails its first Fails runs; -1: always
	Limit    int    `json:"rlimit"` // retryPolicy.limit
	Script   bool   `json:"script"` // a `script:` step (false: the same as a plain command, the control)
	Attempts int    `json:"attempts"`
	S1       string `json:"s1"`
	S1Retry  int    `json:"s1_retry"`
	S2       string `json:"s2"`
	DepRan   bool   `json:"dep_ran"`
	Status   string `json:"status"`
	Err      string `json:"err"`
	Hung     bool   `json:"hung"`
	Infra    string `json:"infra,omitempty"`
	// the other kinds of case ("yamlpre", "retryrun"): per step its final state / retry count, and whether its command ran
	Kind  string          `json:"kind,omitempty"`
	Nodes map[string]NObs `json:"nodes,omitempty"`
	Ran   map[string]bool `json:"ran,omitempty"`
	More  int             `json:"more,omitempty"`  // retryrun: the step fails this many more times in the retry run
	Run1  map[string]NObs `json:"run1,omitempty"`  // retryrun: the recorded run
	Runs1 int             `json:"runs1,omitempty"` // retryrun: executions of s1 in the recorded run
}

type NObs struct {
	St string `json:"st"`
	Rc int    `json:"rc"`
}

// newAgent loads the YAML file through dag.Load (the real start path) and builds the agent over a scratch data directory
func newAgent(dir, name, reqID string, opts *agent.Options) (*agent.Agent, error) {
	file := filepath.Join(dir, "dags", name+".yaml")
	wf, err := dag.Load("", file, "")
	if err != nil {
		return nil, fmt.Errorf("load: %w", err)
	}
	wf.LogDir = filepath.Join(dir, "logs")
	ds := dsclient.NewDataStores(filepath.Join(dir, "dags"), filepath.Join(dir, "data"), filepath.Join(dir, "suspend"), dsclient.DataStoreOptions{})
	cli := client.New(ds, "", dir, quietLogger)
	return agent.New(reqID, wf, quietLogger, filepath.Join(dir, "logs"), filepath.Join(dir, "logs", "agent.log"), cli, ds, opts), nil
}

func runToEnd(agt *agent.Agent, res *AgentReal) bool {
	done := make(chan error, 1)
	go func() { done <- agt.Run(context.Background()) }()
	select {
	case err := <-done:
		if err != nil {
			res.Err = err.Error()
		}
		return true
	case <-time.After(40 * time.Second):
		res.Hung = true
		return false
	}
}

func observe(agt *agent.Agent) map[string]NObs {
	out := map[string]NObs{}
	for _, n := range agt.Status().Nodes {
		out[n.Step.Name] = NObs{St: n.Status.String(), Rc: n.RetryCount}
	}
	return out
}

// A DAG loaded from YAML whose step preconditions refer to the output variable of an upstream step (a value that exists
// only at run time): produce (echo go -> $VAR); met (condition "$VAR" expected "go") with child met-child; unmet
// (condition "${VAR}" expected "", unmet because VAR = go) with child unmet-child.  Each step touches a marker.
func runYamlPre(work string, k int) AgentReal {
	res := AgentReal{Class: "agentreal", Kind: "yamlpre", Sub: "yamlpre", K: k}
	dir := filepath.Join(work, fmt.Sprintf("ar-%d", k))
	for _, d := range []string{"dags", "data", "logs", "suspend"} {
		_ = os.MkdirAll(filepath.Join(dir, d), 0o755)
	}
	v := fmt.Sprintf("VERIF_YP_%d_%d", os.Getpid(), k)
	os.Unsetenv(v)
	defer os.Unsetenv(v)
	mk := func(n string) string { return filepath.Join(dir, "ran-"+n) }
	name := fmt.Sprintf("ar%d", k)
	yaml := fmt.Sprintf(`name: %[1]s
steps:
  - name: produce
    command: echo go
    output: %[2]s
  - name: met
    command: touch %[3]s
    depends:
      - produce
    preconditions:
      - condition: "$%[2]s"
        expected: "go"
  - name: met-child
    command: touch %[4]s
    depends:
      - met
  - name: unmet
    command: touch %[5]s
    depends:
      - produce
    preconditions:
      - condition: "${%[2]s}"
        expected: ""
  - name: unmet-child
    command: touch %[6]s
    depends:
      - unmet
`, name, v, mk("met"), mk("met-child"), mk("unmet"), mk("unmet-child"))
	if err := os.WriteFile(filepath.Join(dir, "dags", name+".yaml"), []byte(yaml), 0o644); err != nil {
		res.Infra = err.Error()
		return res
	}
	agt, err := newAgent(dir, name, fmt.Sprintf("req-yp-%d", k), &agent.Options{})
	if err != nil {
		res.Infra = err.Error()
		return res
	}
	if !runToEnd(agt, &res) {
		return res
	}
	res.Status = agt.Status().Status.String()
	res.Nodes = observe(agt)
	res.Ran = map[string]bool{}
	for _, n := range []string{"met", "met-child", "unmet", "unmet-child"} {
		_, err := os.Stat(mk(n))
		res.Ran[n] = err == nil
	}
	return res
}

// A recorded run plus its retry run: s1 (script, retryPolicy limit L) fails every attempt of run 1 (L+1 executions,
// retry count L, s2 canceled); in the retry run it fails `more` more times (more <= L) and then succeeds: the budget is
// per run - s1 ends finished with retry count `more`, s2 executes.
func runRetryRun(work string, k, limit, more int) AgentReal {
	res := AgentReal{Class: "agentreal", Kind: "retryrun", Sub: fmt.Sprintf("retryrun-l%d-m%d", limit, more), K: k, Limit: limit, More: more}
	dir := filepath.Join(work, fmt.Sprintf("ar-%d", k))
	for _, d := range []string{"dags", "data", "logs", "suspend"} {
		_ = os.MkdirAll(filepath.Join(dir, d), 0o755)
	}
	counter := filepath.Join(dir, "counter")
	marker := filepath.Join(dir, "dep-ran")
	failUntil := limit + 1 + more
	lines := []string{
		fmt.Sprintf("n=$(cat %s 2>/dev/null || echo 0)", counter),
		"n=$((n+1))",
		fmt.Sprintf("echo $n > %s", counter),
		fmt.Sprintf("if [ $n -le %d ]; then exit 1; fi", failUntil),
		"exit 0",
	}
	name := fmt.Sprintf("ar%d", k)
	yaml := fmt.Sprintf("name: %s\nsteps:\n  - name: s1\n    command: sh\n    script: |\n      %s\n    retryPolicy:\n      limit: %d\n      intervalSec: 0\n  - name: s2\n    command: touch %s\n    depends:\n      - s1\n",
		name, strings.Join(lines, "\n      "), limit, marker)
	if err := os.WriteFile(filepath.Join(dir, "dags", name+".yaml"), []byte(yaml), 0o644); err != nil {
		res.Infra = err.Error()
		return res
	}
	a1, err := newAgent(dir, name, fmt.Sprintf("req-rr1-%d", k), &agent.Options{})
	if err != nil {
		res.Infra = err.Error()
		return res
	}
	if !runToEnd(a1, &res) {
		return res
	}
	res.Run1 = observe(a1)
	if b, err := os.ReadFile(counter); err == nil {
		fmt.Sscanf(strings.TrimSpace(string(b)), "%d", &res.Runs1)
	}
	if res.Run1["s1"].St != "failed" || res.Runs1 != limit+1 {
		res.Infra = fmt.Sprintf("the recorded run is not the intended one: s1 %v after %d execution(s)", res.Run1["s1"], res.Runs1)
		return res
	}
	res.Err = ""
	a2, err := newAgent(dir, name, fmt.Sprintf("req-rr2-%d", k), &agent.Options{RetryTarget: a1.Status()})
	if err != nil {
		res.Infra = err.Error()
		return res
	}
	if !runToEnd(a2, &res) {
		return res
	}
	res.Status = a2.Status().Status.String()
	res.Nodes = observe(a2)
	total := 0
	if b, err := os.ReadFile(counter); err == nil {
		fmt.Sscanf(strings.TrimSpace(string(b)), "%d", &total)
	}
	res.Attempts = total - res.Runs1
	_, serr := os.Stat(marker)
	res.Ran = map[string]bool{"s2": serr == nil}
	return res
}

func runAgentReal(work string, k int, script bool, fails, limit int) AgentReal {
	res := AgentReal{Class: "agentreal", Sub: fmt.Sprintf("f%d-l%d", fails, limit), K: k, Fails: fails, Limit: limit, Script: script}
	dir := filepath.Join(work, fmt.Sprintf("ar-%d", k))
	for _, d := range []string{"dags", "data", "logs", "suspend"} {
		_ = os.MkdirAll(filepath.Join(dir, d), 0o755)
	}
	counter := filepath.Join(dir, "counter")
	marker := filepath.Join(dir, "dep-ran")
	f := fails
	if f < 0 {
		f = 1 << 20
	}
	lines := []string{
		fmt.Sprintf("n=$(cat %s 2>/dev/null || echo 0)", counter),
		"n=$((n+1))",
		fmt.Sprintf("echo $n > %s", counter),
		fmt.Sprintf("if [ $n -le %d ]; then exit 1; fi", f),
		"exit 0",
	}
	name := fmt.Sprintf("ar%d", k)
	var yaml string
	if script {
		yaml = fmt.Sprintf("name: %s\nsteps:\n  - name: s1\n    command: sh\n    script: |\n      %s\n", name, strings.Join(lines, "\n      "))
	} else {
		file := filepath.Join(dir, "step.sh")
		if err := writeScript(file, strings.Join(lines, "\n")); err != nil {
			res.Infra = err.Error()
			return res
		}
		yaml = fmt.Sprintf("name: %s\nsteps:\n  - name: s1\n    command: sh %s\n", name, file)
	}
	yaml += fmt.Sprintf("    retryPolicy:\n      limit: %d\n      intervalSec: 0\n  - name: s2\n    command: touch %s\n    depends:\n      - s1\n", limit, marker)
	file := filepath.Join(dir, "dags", name+".yaml")
	if err := os.WriteFile(file, []byte(yaml), 0o644); err != nil {
		res.Infra = err.Error()
		return res
	}
	wf, err := dag.Load("", file, "")
	if err != nil {
		res.Infra = "load: " + err.Error()
		return res
	}
	wf.LogDir = filepath.Join(dir, "logs")
	ds := dsclient.NewDataStores(filepath.Join(dir, "dags"), filepath.Join(dir, "data"), filepath.Join(dir, "suspend"), dsclient.DataStoreOptions{})
	cli := client.New(ds, "", dir, quietLogger)
	agt := agent.New(fmt.Sprintf("req-ar-%d", k), wf, quietLogger, filepath.Join(dir, "logs"), filepath.Join(dir, "logs", "agent.log"), cli, ds, &agent.Options{})
	done := make(chan error, 1)
	go func() { done <- agt.Run(context.Background()) }()
	select {
	case err := <-done:
		if err != nil {
			res.Err = err.Error()
		}
	case <-time.After(40 * time.Second):
		res.Hung = true
		return res
	}
	st := agt.Status()
	res.Status = st.Status.String()
	for _, n := range st.Nodes {
		switch n.Step.Name {
		case "s1":
			res.S1, res.S1Retry = n.Status.String(), n.RetryCount
		case "s2":
			res.S2 = n.Status.String()
		}
	}
	if b, err := os.ReadFile(counter); err == nil {
		fmt.Sscanf(strings.TrimSpace(string(b)), "%d", &res.Attempts)
	}
	if _, err := os.Stat(marker); err == nil {
		res.DepRan = true
	}
	return res
}

func agentRealMain(outPath, work string) {
	out, err := vh.NewOut(outPath)
	if err != nil {
		panic(err)
	}
	defer out.Close()
	type job struct {
		script     bool
		fails, lim int
	}
	var jobs []job
	for _, script := range []bool{true, false} {
		for _, fl := range [][2]int{{0, 0}, {0, 2}, {1, 2}, {2, 2}, {1, 1}, {3, 2}, {-1, 1}, {1, 0}} {
			jobs = append(jobs, job{script, fl[0], fl[1]})
		}
	}
	res := make([]AgentReal, len(jobs))
	var wg sync.WaitGroup
	for k, j := range jobs {
		wg.Add(1)
		go func(k int, j job) {
			defer wg.Done()
			res[k] = runAgentReal(work, k, j.script, j.fails, j.lim)
		}(k, j)
	}
	// DAGs loaded from YAML with preconditions on an upstream step's output variable; recorded run + retry run
	extra := []func(k int) AgentReal{
		func(k int) AgentReal { return runYamlPre(work, k) },
		func(k int) AgentReal { return runYamlPre(work, k) },
		func(k int) AgentReal { return runRetryRun(work, k, 1, 1) },
		func(k int) AgentReal { return runRetryRun(work, k, 2, 1) },
		func(k int) AgentReal { return runRetryRun(work, k, 2, 2) },
		func(k int) AgentReal { return runRetryRun(work, k, 1, 0) },
	}
	xres := make([]AgentReal, len(extra))
	for x, f := range extra {
		wg.Add(1)
		go func(x int, f func(int) AgentReal) {
			defer wg.Done()
			xres[x] = f(len(jobs) + x)
		}(x, f)
	}
	wg.Wait()
	res = append(res, xres...)
	for _, r := range res {
		out.Put(r)
	}
}
