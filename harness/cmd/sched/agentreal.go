package main

// Agent-level runs with REAL `script:` steps and retries (C02 / C03): the real agent.New(...).Run over a scratch data
// directory, steps run by the real command executor through node.setupScript / teardown (the scripted executor of the
// other streams never goes through them).
//
//	sched <out.jsonl> agentreal <workdir>
//
// Every case is one DAG: s1 = `command: sh` + `script:` that fails its first F runs (a counter file) and then
// succeeds, with retryPolicy limit L, interval 0; s2 = `touch marker`, depends on s1.
// Observed: how often the script really ran (the counter), the final node table (state, retry count), whether s2 ran.
import (
	"context"
	"fmt"
	"os"
	"path/filepath"
	"strings"
	"sync"
	"time"

	"github.com/ErdemOzgen/blackdagger/internal/agent"
	"github.com/ErdemOzgen/blackdagger/internal/client"
	"github.com/ErdemOzgen/blackdagger/internal/dag"
	dsclient "github.com/ErdemOzgen/blackdagger/internal/persistence/client"
	"github.com/ErdemOzgen/blackdagger/verifh/vh"
)

type AgentReal struct {
	Class    string `json:"class"`
	Sub      string `json:"sub"`
	K        int    `json:"k"`
	Fails    int    `json:"fails"`  // the script fails its first Fails runs; -1: always
	Limit    int    `json:"rlimit"` // retryPolicy.limit
	Script   bool   `json:"script"` // a `script:` step (false: the same as a plain command, the control)
	Attempts int    `json:"attempts"`
	S1       string `json:"s1"`
	S1Retry  int    `json:"s1_retry"`
	S2       string `json:"s2"`
	DepRan   bool   `json:"dep_ran"`
	Status   string `json:"status"`
	Err      string `json:"err"`
	Hung     bool   `json:"hung"`
	Infra    string `json:"infra,omitempty"`
}

func runAgentReal(work string, k int, script bool, fails, limit int) AgentReal {
	res := AgentReal{Class: "agentreal", Sub: fmt.Sprintf("f%d-l%d", fails, limit), K: k, Fails: fails, Limit: limit, Script: script}
	dir := filepath.Join(work, fmt.Sprintf("ar-%d", k))
	for _, d := range []string{"dags", "data", "logs", "suspend"} {
		_ = os.MkdirAll(filepath.Join(dir, d), 0o755)
	}
	counter := filepath.Join(dir, "counter")
	marker := filepath.Join(dir, "dep-ran")
	f := fails
	if f < 0 {
		f = 1 << 20
	}
	lines := []string{
		fmt.Sprintf("n=$(cat %s 2>/dev/null || echo 0)", counter),
		"n=$((n+1))",
		fmt.Sprintf("echo $n > %s", counter),
		fmt.Sprintf("if [ $n -le %d ]; then exit 1; fi", f),
		"exit 0",
	}
	name := fmt.Sprintf("ar%d", k)
	var yaml string
	if script {
		yaml = fmt.Sprintf("name: %s\nsteps:\n  - name: s1\n    command: sh\n    script: |\n      %s\n", name, strings.Join(lines, "\n      "))
	} else {
		file := filepath.Join(dir, "step.sh")
		if err := writeScript(file, strings.Join(lines, "\n")); err != nil {
			res.Infra = err.Error()
			return res
		}
		yaml = fmt.Sprintf("name: %s\nsteps:\n  - name: s1\n    command: sh %s\n", name, file)
	}
	yaml += fmt.Sprintf("    retryPolicy:\n      limit: %d\n      intervalSec: 0\n  - name: s2\n    command: touch %s\n    depends:\n      - s1\n", limit, marker)
	file := filepath.Join(dir, "dags", name+".yaml")
	if err := os.WriteFile(file, []byte(yaml), 0o644); err != nil {
		res.Infra = err.Error()
		return res
	}
	wf, err := dag.Load("", file, "")
	if err != nil {
		res.Infra = "load: " + err.Error()
		return res
	}
	wf.LogDir = filepath.Join(dir, "logs")
	ds := dsclient.NewDataStores(filepath.Join(dir, "dags"), filepath.Join(dir, "data"), filepath.Join(dir, "suspend"), dsclient.DataStoreOptions{})
	cli := client.New(ds, "", dir, quietLogger)
	agt := agent.New(fmt.Sprintf("req-ar-%d", k), wf, quietLogger, filepath.Join(dir, "logs"), filepath.Join(dir, "logs", "agent.log"), cli, ds, &agent.Options{})
	done := make(chan error, 1)
	go func() { done <- agt.Run(context.Background()) }()
	select {
	case err := <-done:
		if err != nil {
			res.Err = err.Error()
		}
	case <-time.After(40 * time.Second):
		res.Hung = true
		return res
	}
	st := agt.Status()
	res.Status = st.Status.String()
	for _, n := range st.Nodes {
		switch n.Step.Name {
		case "s1":
			res.S1, res.S1Retry = n.Status.String(), n.RetryCount
		case "s2":
			res.S2 = n.Status.String()
		}
	}
	if b, err := os.ReadFile(counter); err == nil {
		fmt.Sscanf(strings.TrimSpace(string(b)), "%d", &res.Attempts)
	}
	if _, err := os.Stat(marker); err == nil {
		res.DepRan = true
	}
	return res
}

func agentRealMain(outPath, work string) {
	out, err := vh.NewOut(outPath)
	if err != nil {
		panic(err)
	}
	defer out.Close()
	type job struct {
		script     bool
		fails, lim int
	}
	var jobs []job
	for _, script := range []bool{true, false} {
		for _, fl := range [][2]int{{0, 0}, {0, 2}, {1, 2}, {2, 2}, {1, 1}, {3, 2}, {-1, 1}, {1, 0}} {
			jobs = append(jobs, job{script, fl[0], fl[1]})
		}
	}
	res := make([]AgentReal, len(jobs))
	var wg sync.WaitGroup
	for k, j := range jobs {
		wg.Add(1)
		go func(k int, j job) {
			defer wg.Done()
			res[k] = runAgentReal(work, k, j.script, j.fails, j.lim)
		}(k, j)
	}
	wg.Wait()
	for _, r := range res {
		out.Put(r)
	}
}
