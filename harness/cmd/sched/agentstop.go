package main

// Agent-level stop cases with REAL child processes (C05): the real agent.New(...).Run over a scratch data directory,
// steps run by the real command executor, the stop delivered through the public Agent.Signal (what cmd/signal.go
// and the /stop endpoint call).  Observed: the wall-clock time from the stop to the end of the run, the final status,
// whether a forked child of a step is still alive afterwards.
//
//	sched <out.jsonl> agentstop <workdir>
//
//	plain       `sleep 30`                              ends at once, canceled
//	ignoreterm  `trap "" TERM; sleep 8`, MaxCleanUpTime=1s  must be force-killed: the run ends ~1 s (+ poll) after the stop
//	group       `sleep 30 & echo $! > pidfile; wait`    the forked child must not survive the stop
//	httpsos     step with `signalOnStop: SIGINT` running `trap "" INT; sleep 9`, MaxCleanUpTime=1s, onExit handler; the stop
//	            arrives over the agent's socket handler (POST /stop through Agent.HandleHTTP, i.e. with allowOverride):
//	            the first signal is swapped to SIGINT and ignored; the force-kill after MaxCleanUpTime must be a real
//	            SIGKILL: the run ends ~1 s (+ poll) after the stop, canceled, onExit ran
//	orphan      `sleep 12 & echo $! > pidfile; exit 0`  the shell has exited, its background child still holds the step's
//	                                                    output (the step is still running: Wait blocks until the pipe
//	                                                    closes); the stop arrives after the shell's exit: the signal
//	                                                    must still reach the process group - the run ends, the child is gone
import (
	"context"
	"fmt"
	"net/http/httptest"
	"os"
	"path/filepath"
	"strings"
	"sync"
	"syscall"
	"time"

	"github.com/ErdemOzgen/blackdagger/internal/agent"
	"github.com/ErdemOzgen/blackdagger/internal/client"
	"github.com/ErdemOzgen/blackdagger/internal/dag"
	"github.com/ErdemOzgen/blackdagger/internal/dag/executor"
	dsclient "github.com/ErdemOzgen/blackdagger/internal/persistence/client"
	"github.com/ErdemOzgen/blackdagger/verifh/vh"
)

type AgentStop struct {
	Class       string `json:"class"`
	Sub         string `json:"sub"`
	K           int    `json:"k"`
	MaxCleanUpS int    `json:"max_cleanup_s"`
	SleepS      int    `json:"sleep_s"`
	Started     bool   `json:"started"`        // the step's process was seen running before the stop
	StopToEndMs int64  `json:"stop_to_end_ms"` // from Agent.Signal to the return of Agent.Run
	SignalRetMs int64  `json:"signal_ret_ms"`  // how long Agent.Signal itself took
	Status      string `json:"status"`
	Err         string `json:"err"`
	ChildAlive  bool   `json:"child_alive"`
	ExitRan     bool   `json:"exit_ran"` // the onExit handler ran (httpsos)
	Hung        bool   `json:"hung"`
	Infra       string `json:"infra,omitempty"`
}

func writeScript(path, body string) error {
	return os.WriteFile(path, []byte("#!/bin/sh\n"+body+"\n"), 0o755)
}

func runAgentStop(work string, k int, sub string, sleepS, cleanupS int) AgentStop {
	res := AgentStop{Class: "agentstop", Sub: sub, K: k, MaxCleanUpS: cleanupS, SleepS: sleepS}
	dir := filepath.Join(work, fmt.Sprintf("as-%d-%s", k, sub))
	for _, d := range []string{"dags", "data", "logs", "suspend"} {
		_ = os.MkdirAll(filepath.Join(dir, d), 0o755)
	}
	marker := filepath.Join(dir, "started")
	pidfile := filepath.Join(dir, "childpid")
	script := filepath.Join(dir, "step.sh")
	var body string
	switch sub {
	case "plain":
		body = fmt.Sprintf("echo x > %s\nexec sleep %d", marker, sleepS)
	case "ignoreterm":
		body = fmt.Sprintf("trap '' TERM\necho x > %s\nsleep %d", marker, sleepS)
	case "group":
		body = fmt.Sprintf("sleep %d &\necho $! > %s\necho x > %s\nwait", sleepS, pidfile, marker)
	case "httpsos":
		body = fmt.Sprintf("trap '' INT\necho x > %s\nsleep %d", marker, sleepS)
	case "orphan":
		body = fmt.Sprintf("sleep %d &\necho $! > %s\necho x > %s\nexit 0", sleepS, pidfile, marker)
	}
	if err := writeScript(script, body); err != nil {
		res.Infra = err.Error()
		return res
	}
	name := fmt.Sprintf("as%d%s", k, sub)
	yaml := fmt.Sprintf("name: %s\nmaxCleanUpTimeSec: %d\nsteps:\n  - name: s1\n    command: sh %s\n", name, cleanupS, script)
	exitMarker := filepath.Join(dir, "exit-ran")
	if sub == "httpsos" {
		yaml += fmt.Sprintf("    signalOnStop: SIGINT\nhandlerOn:\n  exit:\n    command: touch %s\n", exitMarker)
	}
	file := filepath.Join(dir, "dags", name+".yaml")
	if err := os.WriteFile(file, []byte(yaml), 0o644); err != nil {
		res.Infra = err.Error()
		return res
	}
	wf, err := dag.Load("", file, "")
	if err != nil {
		res.Infra = "load: " + err.Error()
		return res
	}
	wf.LogDir = filepath.Join(dir, "logs")
	ds := dsclient.NewDataStores(filepath.Join(dir, "dags"), filepath.Join(dir, "data"), filepath.Join(dir, "suspend"), dsclient.DataStoreOptions{})
	cli := client.New(ds, "", dir, quietLogger)
	agt := agent.New(fmt.Sprintf("req-%d-%s", k, sub), wf, quietLogger, filepath.Join(dir, "logs"), filepath.Join(dir, "logs", "agent.log"), cli, ds, &agent.Options{})
	done := make(chan error, 1)
	go func() { done <- agt.Run(context.Background()) }()
	for i := 0; i < 300; i++ {
		if _, err := os.Stat(marker); err == nil {
			res.Started = true
			break
		}
		time.Sleep(10 * time.Millisecond)
	}
	if !res.Started {
		res.Infra = "the step's process never started"
	}
	if sub == "orphan" { // let the shell exit (and be reaped) first
		time.Sleep(400 * time.Millisecond)
	}
	t0 := time.Now()
	sigDone := make(chan struct{})
	if sub == "httpsos" { // what the socket server calls for `blackdagger stop` / the web UI
		rec := httptest.NewRecorder()
		agt.HandleHTTP(rec, httptest.NewRequest("POST", "/stop", nil))
		if rec.Code != 200 {
			res.Infra = fmt.Sprintf("POST /stop answered %d", rec.Code)
		}
		close(sigDone)
	} else {
		go func() { agt.Signal(syscall.SIGTERM); close(sigDone) }()
	}
	select {
	case err := <-done:
		if err != nil {
			res.Err = err.Error()
		}
	case <-time.After(time.Duration(sleepS+15) * time.Second):
		res.Hung = true
	}
	res.StopToEndMs = time.Since(t0).Milliseconds()
	select {
	case <-sigDone:
		res.SignalRetMs = time.Since(t0).Milliseconds()
	case <-time.After(12 * time.Second):
		res.SignalRetMs = -1
	}
	res.Status = agt.Status().Status.String()
	if _, err := os.Stat(exitMarker); err == nil {
		res.ExitRan = true
	}
	if b, err := os.ReadFile(pidfile); err == nil {
		var pid int
		fmt.Sscanf(strings.TrimSpace(string(b)), "%d", &pid)
		if pid > 0 {
			time.Sleep(100 * time.Millisecond)
			if syscall.Kill(pid, 0) == nil {
				res.ChildAlive = true
				_ = syscall.Kill(pid, syscall.SIGKILL)
			}
		}
	}
	return res
}

// the contract of the command executor the scripted executor relies on: a Kill that arrives before Run has started the
// process is delivered when the process starts (fix fc2d5bb)
func killBeforeRun(k int) AgentStop {
	res := AgentStop{Class: "agentstop", Sub: "killbeforerun", K: k, SleepS: 5, Started: true}
	ctx := dag.NewContext(context.Background(), nil, nil, "", "")
	ex, err := executor.NewExecutor(ctx, dag.Step{Name: "kbr", Command: "sleep", Args: []string{"5"}, OutputVariables: &dag.SyncMap{}})
	if err != nil {
		res.Infra = err.Error()
		return res
	}
	_ = ex.Kill(syscall.SIGTERM)
	t0 := time.Now()
	rerr := ex.Run()
	res.StopToEndMs = time.Since(t0).Milliseconds()
	if rerr != nil {
		res.Err = rerr.Error()
	}
	return res
}

func agentStopMain(outPath, work string) {
	out, err := vh.NewOut(outPath)
	if err != nil {
		panic(err)
	}
	defer out.Close()
	type job struct {
		sub             string
		sleepS, cleanup int
	}
	jobs := []job{{"plain", 30, 5}, {"group", 30, 5}, {"ignoreterm", 9, 1}, {"plain", 30, 1}, {"group", 30, 1}, {"ignoreterm", 9, 1},
		{"orphan", 12, 5}, {"orphan", 12, 1}, {"httpsos", 9, 1}}
	res := make([]AgentStop, len(jobs))
	var wg sync.WaitGroup
	for k, j := range jobs {
		wg.Add(1)
		go func(k int, j job) {
			defer wg.Done()
			res[k] = runAgentStop(work, k, j.sub, j.sleepS, j.cleanup)
		}(k, j)
	}
	wg.Wait()
	for _, r := range res {
		out.Put(r)
	}
	out.Put(killBeforeRun(len(jobs)))
}
