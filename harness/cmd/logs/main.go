// Driver for C12 (a finished step's log holds everything the step printed).
//
//	logs <out.jsonl> <tier>              generate the configuration matrix, run every case on the real scheduler
//	logs <out.jsonl> replay <in.jsonl>   re-run the inputs of the given cases on the current tree
//	logs worker                          (internal) one case on stdin, observation on stdout, in a fresh process
//	logs emit <counter> <failfirst> <out> <err> <blk>
//	                                     (child of `sh`) prints <out> bytes on stdout and <err> bytes on stderr in
//	                                     alternating blocks of <blk> bytes; the bytes depend on (attempt, stream,
//	                                     position); exits 1 during the first <failfirst> attempts (counter file)
//
// A case = one step - or one lifecycle handler (onExit / onSuccess / onFailure / onCancel; Handler field), which is a
// step with a status and a log as well - with {stdout: file, stderr: file, output: variable, script:} x retry limit x streams x size,
// run by the real scheduler.Scheduler (pause shortened through the verif hook) with real `sh` children.
// Observed: which files exist afterwards, their length, the number of stdout-/stderr-pattern bytes in them and
// SHA-256 of the whole content and of the two projections - the check rebuilds the expected bytes from the model.
package main

import (
	"bufio"
	"bytes"
	"context"
	"crypto/sha256"
	"encoding/hex"
	"encoding/json"
	"fmt"
	"io"
	"log"
	"os"
	"os/exec"
	"path/filepath"
	"sort"
	"strconv"
	"strings"
	"sync"
	"syscall"
	"time"

	"github.com/ErdemOzgen/blackdagger/internal/dag"
	"github.com/ErdemOzgen/blackdagger/internal/dag/scheduler"
	"github.com/ErdemOzgen/blackdagger/internal/logger"
	"github.com/ErdemOzgen/blackdagger/verifh/vh"
)

// Run: bytes [Start, Start+Len) of the pattern of (Attempt, stream); Attempt -1 = bytes that fit no pattern
type Run struct {
	Attempt int `json:"a"`
	Start   int `json:"s"`
	Len     int `json:"n"`
}

type FileObs struct {
	Exists bool   `json:"exists"`
	RunsO  []Run  `json:"runs_out"` // the stdout-alphabet bytes of the file, in order, as pattern runs
	RunsE  []Run  `json:"runs_err"`
	Len    int    `json:"len"`
	NOut   int    `json:"n_out"` // bytes of the stdout alphabet (a-z)
	NErr   int    `json:"n_err"` // bytes of the stderr alphabet (A-Z)
	Sha    string `json:"sha"`
	ShaOut string `json:"sha_out"`
	ShaErr string `json:"sha_err"`
	Head   string `json:"head,omitempty"`
}

type Case struct {
	K      int    `json:"k"`
	Stream string `json:"stream"` // matrix | random | slowdone
	// configuration
	Stdout   bool   `json:"stdout"`
	Stderr   bool   `json:"stderr"`
	Output   bool   `json:"output"`
	Script   bool   `json:"script"`
	Retries  int    `json:"retries"`  // retry limit
	Fails    int    `json:"fails"`    // attempts that exit 1 before one exits 0 (Fails > Retries: the step ends failed)
	Emit     string `json:"emit"`     // out | err | both
	Size     int    `json:"size"`     // bytes per emitting stream and attempt
	Blk      int    `json:"blk"`      // emitter block size
	SlowDone int    `json:"slowdone"` // ms the reader of the done channel takes per node (0: prompt reader / no channel)
	Done     int    `json:"done"`     // 1: Schedule gets a done channel with a prompt reader, as the agent passes one
	Handler  string `json:"handler"`  // "": the printing node is a step; exit | success | failure | cancel: that handler
	Same     int    `json:"same"`     // 1: `stdout:` and `stderr:` name the SAME file (both set); 2: ... and the file exists before the run
	Full     int    `json:"full"`     // 1: the `stdout:` target is /dev/full (every write fails, ENOSPC); 2: the `stderr:` target is
	// observations
	Hang       bool                `json:"hang"`
	Err        string              `json:"err,omitempty"`
	NodeStatus string              `json:"node_status,omitempty"`
	RetryCount int                 `json:"retry_count"`
	Attempts   int                 `json:"attempts"` // how often the child ran (counter file)
	Log        FileObs             `json:"log"`      // the file named by State.Log
	LogName    string              `json:"log_name,omitempty"`
	OutFile    FileObs             `json:"out_file"`
	ErrFile    FileObs             `json:"err_file"`
	OutVar     *FileObs            `json:"out_var,omitempty"` // the captured variable (as bytes)
	OtherLogs  map[string]*FileObs `json:"other_logs,omitempty"`
	Ms         int                 `json:"ms"`
}

// ---------------------------------------------------------------------------------------------
// the pattern
// ---------------------------------------------------------------------------------------------

func patByte(attempt int, errStream bool, i int) byte {
	base := byte('a')
	if errStream {
		base = 'A'
	}
	// a different stride per attempt: the tail of one attempt's stream never looks like the head of another's
	stride := []int{1, 3, 5, 7, 9, 11}[attempt%6]
	return base + byte((i*stride+i/26+i/676+i/17576+11*attempt)%26)
}

func emitMain(args []string) {
	counter, failFirst := args[0], atoi(args[1])
	outN, errN, blk := atoi(args[2]), atoi(args[3]), atoi(args[4])
	attempt := 0
	if b, err := os.ReadFile(counter); err == nil {
		attempt = atoi(strings.TrimSpace(string(b)))
	}
	_ = os.WriteFile(counter, []byte(strconv.Itoa(attempt+1)), 0644)
	if blk <= 0 {
		blk = 1 << 30
	}
	od, ed := 0, 0
	buf := make([]byte, 0, 1<<16)
	for od < outN || ed < errN {
		if od < outN {
			n := min(blk, outN-od)
			buf = buf[:0]
			for j := 0; j < n; j++ {
				buf = append(buf, patByte(attempt, false, od+j))
			}
			if _, err := os.Stdout.Write(buf); err != nil {
				os.Exit(4)
			}
			od += n
		}
		if ed < errN {
			n := min(blk, errN-ed)
			buf = buf[:0]
			for j := 0; j < n; j++ {
				buf = append(buf, patByte(attempt, true, ed+j))
			}
			if _, err := os.Stderr.Write(buf); err != nil {
				os.Exit(4)
			}
			ed += n
		}
	}
	if attempt < failFirst {
		time.Sleep(3 * time.Millisecond) // attempts (and so their log names) start in different milliseconds
		os.Exit(1)
	}
}

func atoi(s string) int {
	n, err := strconv.Atoi(s)
	if err != nil {
		panic(err)
	}
	return n
}

// ---------------------------------------------------------------------------------------------
// worker
// ---------------------------------------------------------------------------------------------

func self() string {
	p, err := os.Executable()
	if err != nil {
		panic(err)
	}
	return p
}

func observe(b []byte, exists bool) FileObs {
	o := FileObs{Exists: exists, Len: len(b)}
	var lo, up []byte
	for _, c := range b {
		if c >= 'a' && c <= 'z' {
			lo = append(lo, c)
		} else if c >= 'A' && c <= 'Z' {
			up = append(up, c)
		}
	}
	h := func(x []byte) string { s := sha256.Sum256(x); return hex.EncodeToString(s[:]) }
	o.NOut, o.NErr, o.Sha, o.ShaOut, o.ShaErr = len(lo), len(up), h(b), h(lo), h(up)
	o.RunsO, o.RunsE = decode(lo, false), decode(up, true)
	if len(b) > 0 {
		o.Head = string(b[:min(len(b), 24)])
	}
	return o
}

const maxAttempts = 4

// decode parses a projection as a concatenation of pattern runs, each starting at offset 0 of some attempt's
// stream (longest run first, back-tracking on failure, failed offsets memoised).  What cannot be parsed that way is
// reported as one run with Attempt -1.
func decode(b []byte, errStream bool) []Run {
	failed := map[int]bool{}
	var parse func(o int) ([]Run, bool)
	parse = func(o int) ([]Run, bool) {
		if o == len(b) {
			return []Run{}, true
		}
		if failed[o] {
			return nil, false
		}
		for a := 0; a < maxAttempts; a++ {
			l := 0
			for o+l < len(b) && b[o+l] == patByte(a, errStream, l) {
				l++
			}
			for n, tries := l, 0; n >= 1 && tries < 40; n, tries = n-1, tries+1 {
				if rest, ok := parse(o + n); ok {
					return append([]Run{{Attempt: a, Start: 0, Len: n}}, rest...), true
				}
			}
		}
		failed[o] = true
		return nil, false
	}
	if rs, ok := parse(0); ok {
		return rs
	}
	// longest parsable prefix, then garbage
	best := 0
	for o := range failed {
		if o > best {
			best = o
		}
	}
	var rs []Run
	o := 0
	for o < best {
		adv := false
		for a := 0; a < maxAttempts && !adv; a++ {
			l := 0
			for o+l < best && b[o+l] == patByte(a, errStream, l) {
				l++
			}
			if l > 0 && (o+l == best || !failed[o+l]) {
				rs = append(rs, Run{Attempt: a, Start: 0, Len: l})
				o += l
				adv = true
			}
		}
		if !adv {
			break
		}
	}
	return append(rs, Run{Attempt: -1, Start: o, Len: len(b) - o})
}

func observeFile(p string) FileObs {
	b, err := os.ReadFile(p)
	return observe(b, err == nil)
}

type Job struct {
	Case Case   `json:"case"`
	Dir  string `json:"dir"`
}

func workerMain() {
	log.SetOutput(io.Discard)
	var j Job
	if err := json.NewDecoder(os.Stdin).Decode(&j); err != nil {
		panic(err)
	}
	c := j.Case
	dir := j.Dir
	put := func() {
		b, _ := json.Marshal(c)
		os.Stdout.Write(b)
	}
	outN, errN := 0, 0
	if c.Emit == "out" || c.Emit == "both" {
		outN = c.Size
	}
	if c.Emit == "err" || c.Emit == "both" {
		errN = c.Size
	}
	counter := filepath.Join(dir, "counter")
	emit := fmt.Sprintf("exec %s emit %s %d %d %d %d", self(), counter, c.Fails, outN, errN, c.Blk)
	var y strings.Builder
	switch c.Handler {
	case "":
		y.WriteString("name: c12\nsteps:\n  - name: st\n")
	case "failure":
		y.WriteString("name: c12\nsteps:\n  - name: main\n    command: \"false\"\nhandlerOn:\n  failure:\n")
	case "cancel":
		y.WriteString("name: c12\nsteps:\n  - name: main\n    command: sleep 5\nhandlerOn:\n  cancel:\n")
	default:
		y.WriteString("name: c12\nsteps:\n  - name: main\n    command: \"true\"\nhandlerOn:\n  " + c.Handler + ":\n")
	}
	if c.Script {
		y.WriteString("    command: sh\n    script: |\n      " + emit + "\n")
	} else {
		y.WriteString("    command: sh -c \"" + emit + "\"\n")
	}
	if c.Stdout {
		if c.Full == 1 {
			y.WriteString("    stdout: /dev/full\n")
		} else {
			y.WriteString("    stdout: " + filepath.Join(dir, "stdout.txt") + "\n")
		}
	}
	if c.Stderr {
		if c.Full == 2 {
			y.WriteString("    stderr: /dev/full\n")
		} else if c.Same > 0 {
			y.WriteString("    stderr: " + filepath.Join(dir, "stdout.txt") + "\n")
		} else {
			y.WriteString("    stderr: " + filepath.Join(dir, "stderr.txt") + "\n")
		}
	}
	if c.Same == 2 { // content outside both pattern alphabets
		_ = os.WriteFile(filepath.Join(dir, "stdout.txt"), []byte("0123456789\n"), 0644)
	}
	if c.Output {
		y.WriteString("    output: OUTV\n")
	}
	if c.Retries > 0 {
		y.WriteString(fmt.Sprintf("    retryPolicy:\n      limit: %d\n      intervalSec: 0\n", c.Retries))
	}
	f := filepath.Join(dir, "c12.yaml")
	if err := os.WriteFile(f, []byte(y.String()), 0644); err != nil {
		panic(err)
	}
	d, err := dag.Load("", f, "")
	if err != nil {
		c.Err = "load: " + err.Error()
		put()
		return
	}
	lg := logger.NewLogger(logger.NewLoggerArgs{Quiet: true})
	g, err := scheduler.NewExecutionGraph(lg, d.Steps...)
	if err != nil {
		c.Err = "graph: " + err.Error()
		put()
		return
	}
	logDir := filepath.Join(dir, "logs")
	cfg := &scheduler.Config{LogDir: logDir, Logger: lg, ReqID: "c12c12c12", MaxActiveRuns: 1,
		OnExit: d.HandlerOn.Exit, OnSuccess: d.HandlerOn.Success, OnFailure: d.HandlerOn.Failure, OnCancel: d.HandlerOn.Cancel}
	sc := scheduler.New(cfg)
	sc.VerifSetPause(time.Millisecond)
	if c.Handler == "cancel" {
		go func() { // a stop request while the step sleeps
			time.Sleep(150 * time.Millisecond)
			sc.Signal(g, syscall.SIGTERM, nil, false)
		}()
	}
	ctx := dag.NewContext(context.Background(), d, nil, "c12c12c12", filepath.Join(dir, "sched.log"))
	var done chan *scheduler.Node
	var rd sync.WaitGroup
	if c.SlowDone > 0 || c.Done == 1 {
		done = make(chan *scheduler.Node)
		rd.Add(1)
		go func() {
			defer rd.Done()
			for { // the agent writes the status file / sends a report mail between two receives
				if c.SlowDone > 0 {
					time.Sleep(time.Duration(c.SlowDone) * time.Millisecond)
				}
				if _, ok := <-done; !ok {
					return
				}
			}
		}()
	}
	_ = sc.Schedule(ctx, g, done)
	if done != nil {
		close(done)
		rd.Wait()
	}
	nd := g.NodeData()[0]
	if c.Handler != "" {
		ht := map[string]dag.HandlerType{"exit": dag.HandlerOnExit, "success": dag.HandlerOnSuccess, "failure": dag.HandlerOnFailure, "cancel": dag.HandlerOnCancel}[c.Handler]
		hn := sc.HandlerNode(ht)
		if hn == nil {
			c.Err = "the handler did not run"
			put()
			return
		}
		nd = hn.Data()
	}
	c.NodeStatus = nd.State.Status.String()
	c.RetryCount = nd.State.RetryCount
	c.LogName = filepath.Base(nd.State.Log)
	c.Log = observeFile(nd.State.Log)
	c.OutFile = observeFile(filepath.Join(dir, "stdout.txt"))
	c.ErrFile = observeFile(filepath.Join(dir, "stderr.txt"))
	if b, err := os.ReadFile(counter); err == nil {
		c.Attempts = atoi(strings.TrimSpace(string(b)))
	}
	if c.Output {
		if v, ok := os.LookupEnv("OUTV"); ok {
			o := observe([]byte(v), true)
			c.OutVar = &o
		} else {
			c.OutVar = &FileObs{}
		}
	}
	c.OtherLogs = map[string]*FileObs{}
	if es, err := os.ReadDir(logDir); err == nil {
		var names []string
		for _, e := range es {
			names = append(names, e.Name())
		}
		sort.Strings(names)
		for i, n := range names {
			if n != c.LogName {
				o := observeFile(filepath.Join(logDir, n))
				c.OtherLogs[fmt.Sprintf("%d", i)] = &o
			}
		}
	}
	put()
}

func cleanEnv() []string {
	var e []string
	for _, kv := range os.Environ() {
		if strings.HasPrefix(kv, "OUTV=") {
			continue
		}
		e = append(e, kv)
	}
	return e
}

// watchdog: no configuration is expected to block any more (f5eca82); generous, so that a loaded machine is not
// mistaken for a hang
func watchdog(c *Case) time.Duration { return 25 * time.Second }

func runCase(c *Case, base string) {
	t0 := time.Now()
	dir, err := os.MkdirTemp(base, "l")
	if err != nil {
		panic(err)
	}
	defer os.RemoveAll(dir)
	in, _ := json.Marshal(Job{Case: *c, Dir: dir})
	cmd := exec.Command(self(), "worker")
	cmd.Stdin = bytes.NewReader(in)
	var out bytes.Buffer
	cmd.Stdout = &out
	cmd.Stderr = io.Discard
	cmd.Env = cleanEnv()
	cmd.SysProcAttr = &syscall.SysProcAttr{Setpgid: true}
	if err := cmd.Start(); err != nil {
		c.Err = "spawn: " + err.Error()
		return
	}
	doneCh := make(chan error, 1)
	go func() { doneCh <- cmd.Wait() }()
	select {
	case <-doneCh:
		var r Case
		if err := json.Unmarshal(out.Bytes(), &r); err != nil {
			c.Err = "worker output: " + err.Error()
		} else {
			k := c.K
			*c = r
			c.K = k
		}
	case <-time.After(watchdog(c)):
		_ = syscall.Kill(-cmd.Process.Pid, syscall.SIGKILL)
		<-doneCh
		c.Hang = true
		// what is on disk when the watchdog fires
		if es, err := os.ReadDir(filepath.Join(dir, "logs")); err == nil && len(es) > 0 {
			var names []string
			for _, e := range es {
				names = append(names, e.Name())
			}
			sort.Strings(names)
			c.LogName = names[len(names)-1]
			c.Log = observeFile(filepath.Join(dir, "logs", c.LogName))
		}
		c.OutFile = observeFile(filepath.Join(dir, "stdout.txt"))
		c.ErrFile = observeFile(filepath.Join(dir, "stderr.txt"))
		if b, err := os.ReadFile(filepath.Join(dir, "counter")); err == nil {
			c.Attempts = atoi(strings.TrimSpace(string(b)))
		}
	}
	c.Ms = int(time.Since(t0) / time.Millisecond)
}

// ---------------------------------------------------------------------------------------------
// the matrix
// ---------------------------------------------------------------------------------------------

var sizes = []int{0, 1, 4095, 4096, 4097, 65535, 65536, 65537, 1 << 20}
var emits = []string{"out", "err", "both"}
var blks = []int{0, 4096, 1000, 32768}

type row [9]int // stdout stderr output script retries emit size failall done

var dims = [9]int{2, 2, 2, 2, 3, 3, 9, 2, 2}

func rowCase(r row, rng *vh.Rng) *Case {
	c := &Case{Stream: "matrix", Stdout: r[0] == 1, Stderr: r[1] == 1, Output: r[2] == 1, Script: r[3] == 1,
		Retries: r[4], Emit: emits[r[5]], Size: sizes[r[6]], Blk: blks[rng.Below(len(blks))]}
	c.Fails = c.Retries
	if r[7] == 1 {
		c.Fails = c.Retries + 1 // every attempt fails: the step ends failed
	}
	c.Done = r[8]
	return c
}

// greedy pairwise covering rows, then random rows up to n
func pairwise(rng *vh.Rng, n int) []row {
	type pr struct{ i, a, j, b int }
	unc := map[pr]bool{}
	for i := 0; i < 9; i++ {
		for j := i + 1; j < 9; j++ {
			for a := 0; a < dims[i]; a++ {
				for b := 0; b < dims[j]; b++ {
					unc[pr{i, a, j, b}] = true
				}
			}
		}
	}
	randRow := func() row {
		var r row
		for i := range r {
			r[i] = rng.Below(dims[i])
		}
		return r
	}
	gain := func(r row) int {
		g := 0
		for i := 0; i < 9; i++ {
			for j := i + 1; j < 9; j++ {
				if unc[pr{i, r[i], j, r[j]}] {
					g++
				}
			}
		}
		return g
	}
	var rows []row
	for len(unc) > 0 {
		best, bg := randRow(), -1
		for t := 0; t < 40; t++ {
			r := randRow()
			if g := gain(r); g > bg {
				best, bg = r, g
			}
		}
		if bg == 0 {
			for p := range unc { // force one uncovered pair
				best[p.i], best[p.j] = p.a, p.b
				break
			}
		}
		for i := 0; i < 9; i++ {
			for j := i + 1; j < 9; j++ {
				delete(unc, pr{i, best[i], j, best[j]})
			}
		}
		rows = append(rows, best)
	}
	for len(rows) < n {
		rows = append(rows, randRow())
	}
	return rows
}

func main() {
	if len(os.Args) >= 2 {
		switch os.Args[1] {
		case "worker":
			workerMain()
			return
		case "emit":
			emitMain(os.Args[2:])
			return
		}
	}
	log.SetOutput(io.Discard)
	out, err := vh.NewOut(os.Args[1])
	if err != nil {
		panic(err)
	}
	defer out.Close()
	tier := os.Args[2]
	absOut, err := filepath.Abs(os.Args[1])
	if err != nil {
		panic(err)
	}
	base, err := os.MkdirTemp(filepath.Dir(absOut), "c12run")
	if err != nil {
		panic(err)
	}
	defer os.RemoveAll(base)
	var cases []*Case
	add := func(c *Case) { c.K = len(cases); cases = append(cases, c) }
	if tier == "replay" {
		f, err := os.Open(os.Args[3])
		if err != nil {
			panic(err)
		}
		sc := bufio.NewScanner(f)
		sc.Buffer(make([]byte, 1<<20), 1<<26)
		for sc.Scan() {
			var c Case
			if json.Unmarshal(sc.Bytes(), &c) != nil || c.Emit == "" {
				continue
			}
			in := Case{Stream: c.Stream, Stdout: c.Stdout, Stderr: c.Stderr, Output: c.Output, Script: c.Script, Retries: c.Retries,
				Fails: c.Fails, Emit: c.Emit, Size: c.Size, Blk: c.Blk, SlowDone: c.SlowDone, Done: c.Done, Handler: c.Handler, Same: c.Same, Full: c.Full}
			add(&in)
		}
	} else {
		rng := vh.NewRng(vh.SeedFromEnv())
		if tier == "thorough" {
			var r row
			var rec func(i int)
			rec = func(i int) {
				if i == 7 { // failall and the done channel are sampled, the rest in full
					r[7] = 0
					r[8] = rng.Below(2)
					add(rowCase(r, rng))
					return
				}
				for v := 0; v < dims[i]; v++ {
					r[i] = v
					rec(i + 1)
				}
			}
			rec(0)
			for _, rr := range pairwise(rng, 300) {
				add(rowCase(rr, rng))
			}
		} else {
			for _, rr := range pairwise(rng, 130) {
				add(rowCase(rr, rng))
			}
		}
		// random sizes
		nr := 20
		if tier == "thorough" {
			nr = 300
		}
		for i := 0; i < nr; i++ {
			var r row
			for j := range r {
				r[j] = rng.Below(dims[j])
			}
			c := rowCase(r, rng)
			c.Stream = "random"
			c.Size = []int{rng.Below(10000), rng.Below(70000), 4096*rng.Below(20) + rng.Below(3) - 1, rng.Below(300000)}[rng.Below(4)]
			if c.Size < 0 {
				c.Size = 0
			}
			c.Blk = []int{0, 1 + rng.Below(9000), 4096, 512}[rng.Below(4)]
			add(c)
		}
		// lifecycle handlers are steps too: each kind, exit 0 / non-zero, plain / stdout: / output: / both
		hk := []string{"exit", "success", "failure", "cancel"}
		for i, kind := range hk {
			for fails := 0; fails <= 1; fails++ {
				for w := 0; w < 4; w++ {
					if tier != "thorough" && (i+fails+w)%2 == 1 { // quick: half of the 32 combinations, every kind x exit code x wiring pair-wise
						continue
					}
					c := &Case{Stream: "handler", Handler: kind, Stdout: w&1 == 1, Output: w&2 == 2, Stderr: rng.Chance(1, 4), Script: rng.Chance(1, 4),
						Fails: fails, Emit: emits[rng.Below(3)], Size: []int{1, 10, 4095, 4096, 4097, 70000}[rng.Below(6)], Blk: blks[rng.Below(len(blks))],
						Done: rng.Below(2)}
					add(c)
				}
			}
		}
		// a redirect target whose writes fail (/dev/full): whatever happens to the redirect, the step's own log must hold
		// what the step printed: output below one buffer (everything still buffered at teardown) and above it (the
		// redirect's writes fail while the step prints; the child must not die of SIGPIPE, so a failing stderr: target
		// gets at most a pipeful)
		nfull := 10
		if tier == "thorough" {
			nfull = 96
		}
		for i := 0; i < nfull; i++ {
			c := &Case{Stream: "fullredirect", Full: 1 + i%2, Output: rng.Chance(1, 3), Script: rng.Chance(1, 5),
				Retries: []int{0, 0, 1, 2}[rng.Below(4)], Emit: []string{"both", "out", "out", "err"}[rng.Below(4)],
				Size: []int{1, 100, 3000}[rng.Below(3)], Blk: []int{0, 1000}[rng.Below(2)], Done: rng.Below(2)}
			if c.Full == 1 {
				c.Size = []int{1, 100, 3000, 3000, 4097, 5000, 70000}[rng.Below(7)]
				c.Stdout, c.Stderr = true, rng.Chance(1, 4)
			} else {
				c.Stderr, c.Stdout = true, !c.Output || rng.Bool()
			}
			c.Fails = c.Retries + rng.Below(2)
			add(c)
		}
		// stdout: and stderr: naming the same file (fresh, or existing before the run), with and without retries
		nsame := 10
		if tier == "thorough" {
			nsame = 120
		}
		for i := 0; i < nsame; i++ {
			c := &Case{Stream: "samefile", Stdout: true, Stderr: true, Same: 1 + i%2, Output: rng.Chance(1, 3), Script: rng.Chance(1, 4),
				Retries: []int{0, 1, 2}[rng.Below(3)], Emit: []string{"both", "both", "out", "err"}[rng.Below(4)],
				Size: []int{1, 10, 100, 4095, 4096, 4097, 5000, 70000}[rng.Below(8)], Blk: blks[rng.Below(len(blks))], Done: rng.Below(2)}
			c.Fails = c.Retries
			if rng.Chance(1, 3) {
				c.Fails = c.Retries + 1
			}
			add(c)
		}
		// a slow reader of the done channel (the agent writes the status file there): the stale worker of a
		// failed attempt is still before its teardown when the next attempt is set up
		ns := 6
		if tier == "thorough" {
			ns = 60
		}
		for i := 0; i < ns; i++ {
			c := &Case{Stream: "slowdone", Stdout: rng.Bool(), Stderr: rng.Chance(1, 4), Output: false, Script: rng.Chance(1, 4),
				Retries: 1, Fails: 1, Emit: emits[rng.Below(3)], Size: []int{10, 3000, 5000, 70000, 300000}[rng.Below(5)], Blk: 4096,
				SlowDone: []int{3, 8, 12, 15, 18, 22, 30}[rng.Below(7)]}
			add(c)
		}
	}
	var wg sync.WaitGroup
	sem := make(chan struct{}, 8)
	for _, c := range cases {
		wg.Add(1)
		sem <- struct{}{}
		go func(c *Case) {
			defer func() { <-sem; wg.Done() }()
			runCase(c, base)
		}(c)
	}
	wg.Wait()
	for _, c := range cases {
		out.Put(c)
	}
}
