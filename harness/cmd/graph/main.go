// Driver for C14: feeds dependency graphs to the real scheduler.NewExecutionGraph and records
// its verdict (0 admitted, 1 step not found, 2 cycle detected, 3 other error).
//
//	graph <out.jsonl> <tier>
//
// Streams: exhaustive digraphs with self-loops on n<=3 (all) and n=4 (sampled in quick, all in
// thorough), loop-free on 5 nodes (thorough: all 2^20, quick: sample), random graphs up to 40
// nodes with duplicate edges and dangling names.  A second opinion (DFS) is computed here too.
package main

import (
	"bufio"
	"encoding/json"
	"fmt"
	"os"
	"os/exec"
	"strings"

	"github.com/ErdemOzgen/blackdagger/internal/dag"
	"github.com/ErdemOzgen/blackdagger/internal/dag/scheduler"
	"github.com/ErdemOzgen/blackdagger/verifh/vh"
)

type Case struct {
	K       int        `json:"k"`
	Stream  string     `json:"stream"`
	Names   []string   `json:"names"`
	Deps    [][]string `json:"deps"`
	Verdict int        `json:"verdict"`
	Err     string     `json:"err,omitempty"`
	DFS     int        `json:"dfs"`
}

// Block: a run of consecutive edge masks of one exhaustive stream, one verdict character per graph.
type Block struct {
	Stream   string `json:"stream"`
	Compact  bool   `json:"compact"`
	N        int    `json:"n"`
	Loops    bool   `json:"loops"`
	Start    uint64 `json:"start"`
	Verdicts string `json:"verdicts"`
	DFS      string `json:"dfs"`
}

func verdict(names []string, deps [][]string) (int, string) {
	steps := make([]dag.Step, len(names))
	for i := range names {
		steps[i] = dag.Step{Name: names[i], Depends: deps[i]}
	}
	_, err := scheduler.NewExecutionGraph(nil, steps...)
	if err == nil {
		return 0, ""
	}
	switch {
	case strings.Contains(err.Error(), "step not found"):
		return 1, err.Error()
	case strings.Contains(err.Error(), "cycle detected"):
		return 2, err.Error()
	}
	return 3, err.Error()
}

// verdictYAML takes the same verdict on the path a DAG file takes: the graph is written as YAML, loaded by the real
// loader (dag.LoadYAML builds the steps, incl. their depends lists) and the loaded steps are handed to NewExecutionGraph.
// A loader that rewrites the depends lists (drops or adds an edge) shows up as a verdict that differs from the graph in the file.
func verdictYAML(names []string, deps [][]string) (int, string) {
	var b strings.Builder
	b.WriteString("steps:\n")
	for i := range names {
		fmt.Fprintf(&b, "  - name: %q\n    command: \"true\"\n", names[i])
		if len(deps[i]) > 0 {
			b.WriteString("    depends:\n")
			for _, d := range deps[i] {
				fmt.Fprintf(&b, "      - %q\n", d)
			}
		}
	}
	d, err := dag.LoadYAML([]byte(b.String()))
	if err != nil {
		return 3, "loader: " + err.Error()
	}
	if len(d.Steps) != len(names) {
		return 3, fmt.Sprintf("loader: %d steps loaded from a file with %d", len(d.Steps), len(names))
	}
	_, err = scheduler.NewExecutionGraph(nil, d.Steps...)
	if err == nil {
		return 0, ""
	}
	switch {
	case strings.Contains(err.Error(), "step not found"):
		return 1, err.Error()
	case strings.Contains(err.Error(), "cycle detected"):
		return 2, err.Error()
	}
	return 3, err.Error()
}

// verdictFresh takes the verdict in a process of its own, as `start` does: node ids are process-global counters, so only the
// first graph of a process has the ids 1..n a real run has.
func verdictFresh(names []string, deps [][]string, yaml bool) (int, string) {
	in, _ := json.Marshal(Case{Names: names, Deps: deps})
	mode := "one"
	if yaml {
		mode = "oneyaml"
	}
	outb, err := exec.Command(os.Args[0], "-", mode, string(in)).Output()
	if err != nil {
		return 3, "fresh process failed: " + err.Error()
	}
	var c Case
	if json.Unmarshal(outb, &c) != nil {
		return 3, "fresh process: unreadable answer"
	}
	return c.Verdict, c.Err
}

// independent oracle: missing name first, else DFS three-colour cycle search
func dfsVerdict(names []string, deps [][]string) int {
	idx := map[string]int{}
	for i, n := range names {
		idx[n] = i
	}
	for _, ds := range deps {
		for _, d := range ds {
			if _, ok := idx[d]; !ok {
				return 1
			}
		}
	}
	col := make([]int, len(names))
	var visit func(i int) bool
	visit = func(i int) bool {
		col[i] = 1
		for _, d := range deps[i] {
			j := idx[d]
			if col[j] == 1 {
				return true
			}
			if col[j] == 0 && visit(j) {
				return true
			}
		}
		col[i] = 2
		return false
	}
	for i := range names {
		if col[i] == 0 && visit(i) {
			return 2
		}
	}
	return 0
}

func nm(i int) string { return fmt.Sprintf("s%d", i) }

func main() {
	if len(os.Args) > 3 && (os.Args[2] == "one" || os.Args[2] == "oneyaml") { // graph - one <case json>: one verdict, printed
		var c Case
		if json.Unmarshal([]byte(os.Args[3]), &c) != nil {
			os.Exit(2)
		}
		if os.Args[2] == "one" {
			c.Verdict, c.Err = verdict(c.Names, c.Deps)
		} else {
			c.Verdict, c.Err = verdictYAML(c.Names, c.Deps)
		}
		b, _ := json.Marshal(c)
		os.Stdout.Write(b)
		return
	}
	out, err := vh.NewOut(os.Args[1])
	if err != nil {
		panic(err)
	}
	defer out.Close()
	tier := os.Args[2]
	rng := vh.NewRng(vh.SeedFromEnv())
	k := 0
	if tier == "replay" { // graph <out> replay <in.jsonl>: re-take the verdicts of given cases
		f, err := os.Open(os.Args[3])
		if err != nil {
			panic(err)
		}
		sc := bufio.NewScanner(f)
		sc.Buffer(make([]byte, 1<<20), 1<<26)
		for sc.Scan() {
			var c Case
			if json.Unmarshal(sc.Bytes(), &c) != nil {
				continue
			}
			v, e := verdict(c.Names, c.Deps)
			switch {
			case strings.HasPrefix(c.Stream, "fresh-yaml"):
				v, e = verdictFresh(c.Names, c.Deps, true)
			case strings.HasPrefix(c.Stream, "fresh"):
				v, e = verdictFresh(c.Names, c.Deps, false)
			case strings.HasPrefix(c.Stream, "yaml"):
				v, e = verdictYAML(c.Names, c.Deps)
			}
			c.Verdict, c.Err, c.DFS = v, e, dfsVerdict(c.Names, c.Deps)
			out.Put(c)
		}
		return
	}
	emit := func(stream string, names []string, deps [][]string) {
		v, e := verdict(names, deps)
		out.Put(Case{K: k, Stream: stream, Names: names, Deps: deps, Verdict: v, Err: e, DFS: dfsVerdict(names, deps)})
		k++
	}
	fromMask := func(n int, mask uint64, loops bool) ([]string, [][]string) {
		names := make([]string, n)
		deps := make([][]string, n)
		bit := 0
		for i := 0; i < n; i++ {
			names[i] = nm(i)
			deps[i] = []string{}
		}
		for i := 0; i < n; i++ { // i depends on j
			for j := 0; j < n; j++ {
				if i == j && !loops {
					continue
				}
				if mask>>uint(bit)&1 == 1 {
					deps[i] = append(deps[i], nm(j))
				}
				bit++
			}
		}
		return names, deps
	}
	// exhaustive with self-loops, n = 0..3
	for n := 0; n <= 3; n++ {
		for m := uint64(0); m < 1<<uint(n*n); m++ {
			a, b := fromMask(n, m, true)
			emit(fmt.Sprintf("all%d", n), a, b)
			// the same graph as a DAG file, through the real loader
			v, e := verdictYAML(a, b)
			out.Put(Case{K: k, Stream: fmt.Sprintf("yaml-all%d", n), Names: a, Deps: b, Verdict: v, Err: e, DFS: dfsVerdict(a, b)})
			k++
		}
	}
	// fresh processes (node ids 1..n as in a real start): one 2-cycle {u,v} whose two edges are both essential, the other nodes
	// ordered by a complete acyclic relation (ascending or descending) - every edge but the cycle's is harmless, none may be lost
	freshCase := func(n, u, v int, desc bool, yaml bool) {
		names := make([]string, n)
		deps := make([][]string, n)
		for i := 0; i < n; i++ {
			names[i] = fmt.Sprintf("s%02d", i+1)
			deps[i] = []string{}
		}
		deps[u] = append(deps[u], names[v])
		for y := 0; y < n; y++ {
			if y == u || y == v {
				continue
			}
			for x := 0; x < n; x++ {
				if x == u || x == v || x == y {
					continue
				}
				if (desc && x > y) || (!desc && x < y) {
					deps[y] = append(deps[y], names[x])
				}
			}
		}
		deps[v] = append(deps[v], names[u])
		vd, e := verdictFresh(names, deps, yaml)
		st := "fresh"
		if yaml {
			st = "fresh-yaml"
		}
		out.Put(Case{K: k, Stream: fmt.Sprintf("%s%d", st, n), Names: names, Deps: deps, Verdict: vd, Err: e, DFS: dfsVerdict(names, deps)})
		k++
	}
	for _, n := range []int{12, 23} {
		for u := 0; u < n; u++ {
			for v := u + 1; v < n; v++ {
				if tier != "thorough" && n > 12 && !rng.Chance(1, 6) {
					continue
				}
				desc := rng.Chance(1, 2)
				if tier == "thorough" || n == 12 {
					freshCase(n, u, v, true, false)
					freshCase(n, u, v, false, false)
				} else {
					freshCase(n, u, v, desc, false)
				}
				if rng.Chance(1, 8) {
					freshCase(n, u, v, desc, true)
				}
			}
		}
	}
	// n = 4 with self-loops: 2^16
	if tier == "thorough" {
		// exhaustive blocks in compact form: the model rebuilds graph #mask itself (AcceptCheck.mask_graph)
		block := func(stream string, n int, loops bool, total uint64) {
			const B = 1 << 12 // small blocks: the list literal of a block must not be deep enough to overflow coqc's parser stack
			for start := uint64(0); start < total; start += B {
				vs := make([]byte, 0, B)
				ds := make([]byte, 0, B)
				for m := start; m < start+B && m < total; m++ {
					a, b := fromMask(n, m, loops)
					v, _ := verdict(a, b)
					vs = append(vs, byte('0'+v))
					ds = append(ds, byte('0'+dfsVerdict(a, b)))
				}
				out.Put(Block{Stream: stream, Compact: true, N: n, Loops: loops, Start: start, Verdicts: string(vs), DFS: string(ds)})
			}
		}
		block("all4", 4, true, 1<<16)
		block("loopfree5", 5, false, 1<<20)
	} else {
		for c := 0; c < 600; c++ {
			a, b := fromMask(4, rng.Next()&0xFFFF, true)
			emit("all4s", a, b)
		}
		for c := 0; c < 400; c++ {
			a, b := fromMask(5, rng.Next()&0xFFFFF, false)
			emit("loopfree5s", a, b)
		}
	}
	// random graphs up to 40 nodes: mostly forward edges (acyclic by construction) with a few
	// back edges, duplicate entries and dangling names thrown in.
	nr := 300
	if tier == "thorough" {
		nr = 100000
	}
	for c := 0; c < nr; c++ {
		n := 1 + rng.Below(40)
		names := make([]string, n)
		deps := make([][]string, n)
		perm := make([]int, n)
		for i := range perm {
			perm[i] = i
		}
		for i := n - 1; i > 0; i-- {
			j := rng.Below(i + 1)
			perm[i], perm[j] = perm[j], perm[i]
		}
		for i := 0; i < n; i++ {
			names[i] = nm(i)
			deps[i] = []string{}
		}
		kind := rng.Below(4) // 0: dag, 1: dag+dup, 2: few back edges, 3: dangling
		for a := 1; a < n; a++ {
			ne := rng.Below(3)
			for e := 0; e < ne; e++ {
				b := rng.Below(a)
				deps[perm[a]] = append(deps[perm[a]], nm(perm[b]))
				if kind == 1 && rng.Chance(1, 4) {
					deps[perm[a]] = append(deps[perm[a]], nm(perm[b]))
				}
			}
		}
		if kind == 2 {
			nb := 1 + rng.Below(2)
			for e := 0; e < nb; e++ {
				a := rng.Below(n)
				b := rng.Below(n)
				deps[a] = append(deps[a], nm(b))
			}
		}
		if kind == 3 {
			a := rng.Below(n)
			bad := []string{"zz", "", "S0", "s0 ", nm(n)}[rng.Below(5)]
			pos := rng.Below(len(deps[a]) + 1)
			deps[a] = append(deps[a][:pos:pos], append([]string{bad}, deps[a][pos:]...)...)
			if rng.Chance(1, 3) { // plus a cycle somewhere: which error is reported first?
				b := rng.Below(n)
				deps[b] = append(deps[b], nm(b))
			}
		}
		emit(fmt.Sprintf("rand-k%d", kind), names, deps)
		if kind != 3 && (tier != "thorough" || c%20 == 0) {
			// the same graph as a DAG file; plus, for a third of them, one step that also lists ITSELF among several
			// dependencies (a self-loop hidden in a longer list)
			if rng.Chance(1, 3) && n >= 2 {
				a := rng.Below(n)
				if len(deps[a]) == 0 {
					deps[a] = append(deps[a], nm((a+1)%n))
				}
				pos := rng.Below(len(deps[a]) + 1)
				deps[a] = append(deps[a][:pos:pos], append([]string{nm(a)}, deps[a][pos:]...)...)
			}
			v, e := verdictYAML(names, deps)
			out.Put(Case{K: k, Stream: fmt.Sprintf("yaml-rand-k%d", kind), Names: names, Deps: deps, Verdict: v, Err: e, DFS: dfsVerdict(names, deps)})
			k++
		}
	}
}
