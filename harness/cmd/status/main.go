// Driver for C08 (reported status is truthful: live while running, final afterwards, never stuck).
//
//	status inproc <out.jsonl> <tier> <workdir> [specs.jsonl]   in-process agent cases (generated, or the given ones) (real agent.New(...).Run, scripted executor)
//	status latest <dagfile> <home>                 what a fresh process is told: client.GetLatestStatus / GetCurrentStatus
//	status tick   <dagfile> <home> <executable>    one daemon tick (real internal/scheduler + real client) for the next minute
//
// inproc: every case is a generated DAG run by the real agent over a scratch data directory.  Recorded, all with
// monotonic time stamps (microseconds since the case started):
//   - the scripted executor's ground truth: every Run entry / exit per step and attempt, with the outcome;
//   - every status the agent hands to the history store (a recording wrapper around the real jsondb store),
//     the raw lines of the run's .dat file just before Close compacts it, and the file(s) left afterwards;
//   - every answer of the real client.GetLatestStatus polled during the run (through the real unix socket while
//     it is bound), and the answers of GetLatestStatus / FindByRequestID after the run;
//   - the agent's own final in-memory status.
//
// Cases of kind "race" ask the recording wrapper to hold the first-status goroutine's Write call BEFORE it reaches the
// store (the snapshot has been computed by the agent) until the main thread's final Write has happened, or a timeout:
// the window of DESIGN.md F8b/F8c made wide enough to be hit deterministically.  Since 7f2c2d0 the agent collects and
// appends under one lock, so the final Write cannot happen while the held one is pending (the hold then times out).
package main

import (
	"context"
	"encoding/json"
	"errors"
	"fmt"
	"io"
	"net"
	"os"
	"path/filepath"
	"runtime"
	"sort"
	"strings"
	"sync"
	"sync/atomic"
	"time"

	"github.com/ErdemOzgen/blackdagger/internal/agent"
	"github.com/ErdemOzgen/blackdagger/internal/client"
	"github.com/ErdemOzgen/blackdagger/internal/config"
	"github.com/ErdemOzgen/blackdagger/internal/dag"
	"github.com/ErdemOzgen/blackdagger/internal/dag/executor"
	"github.com/ErdemOzgen/blackdagger/internal/logger"
	"github.com/ErdemOzgen/blackdagger/internal/persistence"
	dsclient "github.com/ErdemOzgen/blackdagger/internal/persistence/client"
	"github.com/ErdemOzgen/blackdagger/internal/persistence/model"
	dagsched "github.com/ErdemOzgen/blackdagger/internal/dag/scheduler"
	"github.com/ErdemOzgen/blackdagger/internal/scheduler"
	"github.com/ErdemOzgen/blackdagger/verifh/vh"
)

// ---------------------------------------------------------------------------------------------
// projections of a status

type NodeP struct {
	Name      string `json:"name"`
	St        int    `json:"st"`
	Text      string `json:"text"`
	Rc        int    `json:"rc"`
	Dc        int    `json:"dc"`
	Log       string `json:"log"`
	LogExists bool   `json:"log_exists"`
	Started   string `json:"started"`
	Finished  string `json:"finished"`
	Err       string `json:"err"`
}

type Proj struct {
	St       int               `json:"st"`
	Text     string            `json:"text"`
	Pid      int               `json:"pid"`
	Req      string            `json:"req"`
	Started  string            `json:"started"`
	Finished string            `json:"finished"`
	Nodes    []NodeP           `json:"nodes"`
	H        map[string]*NodeP `json:"h"`
}

func projNode(n *model.Node, stat bool) *NodeP {
	if n == nil {
		return nil
	}
	p := &NodeP{Name: n.Step.Name, St: int(n.Status), Text: n.StatusText, Rc: n.RetryCount, Dc: n.DoneCount,
		Log: n.Log, Started: n.StartedAt, Finished: n.FinishedAt, Err: n.Error}
	if stat && n.Log != "" {
		if _, err := os.Stat(n.Log); err == nil {
			p.LogExists = true
		}
	}
	return p
}

func proj(s *model.Status, stat bool) *Proj {
	if s == nil {
		return nil
	}
	p := &Proj{St: int(s.Status), Text: s.StatusText, Pid: int(s.PID), Req: s.RequestID, Started: s.StartedAt,
		Finished: s.FinishedAt, Nodes: []NodeP{}, H: map[string]*NodeP{}}
	for _, n := range s.Nodes {
		p.Nodes = append(p.Nodes, *projNode(n, stat))
	}
	p.H["exit"] = projNode(s.OnExit, stat)
	p.H["success"] = projNode(s.OnSuccess, stat)
	p.H["failure"] = projNode(s.OnFailure, stat)
	p.H["cancel"] = projNode(s.OnCancel, stat)
	return p
}

func projLines(path string) []*Proj {
	out := []*Proj{}
	b, err := os.ReadFile(path)
	if err != nil {
		return out
	}
	for _, ln := range strings.Split(string(b), "\n") {
		if ln == "" {
			continue
		}
		st, err := model.StatusFromJSON(ln)
		if err != nil {
			out = append(out, &Proj{St: -1, Text: "unparseable"})
			continue
		}
		out = append(out, proj(st, false))
	}
	return out
}

// ---------------------------------------------------------------------------------------------
// case description and observation

type StepS struct {
	Name    string   `json:"name"`
	Depends []string `json:"depends"`
	Fails   int      `json:"fails"`  // the first Fails attempts fail (99 = always)
	Rlimit  int      `json:"rlimit"` // retryPolicy.limit
	Cof     bool     `json:"cof"`
	Cos     bool     `json:"cos"`
	Pre     bool     `json:"pre"` // false: the step's precondition is unmet
	HoldMs  int      `json:"hold_ms"`
	SlowPre int      `json:"slow_pre_ms"` // > 0: a MET precondition whose evaluation takes that long (a script)
	DescLen int      `json:"desc_len"`    // > 0: a description of that many characters (makes the status line long)
}

type ExecEv struct {
	Name    string `json:"name"`
	Attempt int    `json:"attempt"`
	T0      int64  `json:"t0"`
	T1      int64  `json:"t1"` // -1: never returned
	Ok      bool   `json:"ok"`
	Killed  bool   `json:"killed"`
}

type WriteEv struct {
	Seq     int    `json:"seq"`
	T0      int64  `json:"t0"` // Write called by the agent (snapshot already computed)
	T1      int64  `json:"t1"` // handed to the real store (after the injected hold, if any)
	T2      int64  `json:"t2"` // real Write returned
	Held    bool   `json:"held"`
	Role    string `json:"role"` // function of the agent that called Write (from the call stack): ...Run = main thread, ...Run.funcN = a goroutine of Run
	Dropped string `json:"dropped,omitempty"` // not handed to the store: the store had been closed meanwhile
	Err     string `json:"err,omitempty"`
	St      *Proj  `json:"st"`
}

type Poll struct {
	T0  int64  `json:"t0"`
	T1  int64  `json:"t1"`
	Err string `json:"err,omitempty"`
	St  *Proj  `json:"st"`
}

type Case struct {
	K          int               `json:"k"`
	Kind       string            `json:"kind"` // plain | stop | race
	Steps      []StepS           `json:"steps"`
	Handlers   []string          `json:"handlers"`
	HandlerBad map[string]bool   `json:"handler_fails"`
	StopAtMs   int               `json:"stop_at_ms"`
	HoldMs     int               `json:"hold_ms"`
	Req        string            `json:"req"`
	Pid        int               `json:"pid"`
	Exec       []ExecEv          `json:"exec"`
	Writes     []WriteEv         `json:"writes"`
	RawLines   []*Proj           `json:"raw_lines"`  // the run's .dat just before Close (file order)
	RawAfter   map[string][]*Proj `json:"raw_after"` // data files after the run -> their lines
	Polls      []Poll            `json:"polls"`
	Final      *Proj             `json:"final"`      // agent.Status() after Run returned
	Latest     *Proj             `json:"latest"`     // client.GetLatestStatus after Run returned
	LatestErr  string            `json:"latest_err"` //
	ByReq      *Proj             `json:"by_req"`     // FindByRequestID
	ByReqErr   string            `json:"by_req_err"`
	RunErr     string            `json:"run_err"`
	TOpen      int64             `json:"t_open"`
	TClose0    int64             `json:"t_close0"`
	TClose1    int64             `json:"t_close1"`
	TRun0      int64             `json:"t_run0"`
	TRun1      int64             `json:"t_run1"`
	TStop      int64             `json:"t_stop"`
	SockAfter  bool              `json:"sock_after"`
	IdleConnT  int64             `json:"idle_conn_t"`    // kind idle: when the idle connection to the run's socket was opened (-1 never)
	Cache      *CacheObs         `json:"cache,omitempty"` // kind cache: the long-lived reader stream
	RecentHas  bool              `json:"recent_has_run"` // the run is listed by GetRecentHistory after it has ended
	LineBytes  int               `json:"line_bytes"`     // size of the final status as JSON
	Infra      string            `json:"infra,omitempty"`
}

// ---------------------------------------------------------------------------------------------
// scripted executor

type runCtx struct {
	mu    sync.Mutex
	t0    time.Time
	att   map[string]int
	exec  []ExecEv
	fails map[string]int
	hold  map[string]int
}

func (r *runCtx) now() int64 { return time.Since(r.t0).Microseconds() }

var (
	runsMu sync.Mutex
	runs   = map[string]*runCtx{}
)

type scripted struct {
	name string
	rc   *runCtx
	kill chan struct{}
	once sync.Once
	ctx  context.Context
}

func (e *scripted) SetStdout(io.Writer) {}
func (e *scripted) SetStderr(io.Writer) {}
func (e *scripted) Kill(os.Signal) error {
	e.once.Do(func() { close(e.kill) })
	return nil
}
func (e *scripted) Run() error {
	rc := e.rc
	if rc == nil {
		return nil
	}
	rc.mu.Lock()
	rc.att[e.name]++
	a := rc.att[e.name]
	idx := len(rc.exec)
	rc.exec = append(rc.exec, ExecEv{Name: e.name, Attempt: a, T0: rc.now(), T1: -1})
	hold := time.Duration(rc.hold[e.name]) * time.Millisecond
	fails := rc.fails[e.name]
	rc.mu.Unlock()
	var err error
	killed := false
	select {
	case <-time.After(hold):
	case <-e.kill:
		err, killed = errors.New("killed"), true
	case <-e.ctx.Done():
		err, killed = e.ctx.Err(), true
	}
	if err == nil && a <= fails {
		err = errors.New("scripted failure")
	}
	rc.mu.Lock()
	rc.exec[idx].T1 = rc.now()
	rc.exec[idx].Ok = err == nil
	rc.exec[idx].Killed = killed
	rc.mu.Unlock()
	return err
}

func init() {
	executor.Register("verifscript", func(ctx context.Context, step dag.Step) (executor.Executor, error) {
		tag, _ := step.ExecutorConfig.Config["tag"].(string)
		runsMu.Lock()
		rc := runs[tag]
		runsMu.Unlock()
		return &scripted{name: step.Name, rc: rc, kill: make(chan struct{}), ctx: ctx}, nil
	})
}

// ---------------------------------------------------------------------------------------------
// recording history store

type recStores struct {
	persistence.DataStores
	hs *recHist
	mu sync.Mutex
}

func (s *recStores) HistoryStore() persistence.HistoryStore {
	s.mu.Lock()
	defer s.mu.Unlock()
	if s.hs.HistoryStore == nil {
		s.hs.HistoryStore = s.DataStores.HistoryStore()
	}
	return s.hs
}

type recHist struct {
	persistence.HistoryStore
	rc      *runCtx
	dataDir string
	holdFor time.Duration

	mu      sync.Mutex
	seq     int
	writes  []WriteEv
	held    bool
	finalCh chan struct{} // closed when the main thread's second Write (the final status) has reached the file
	mainN   int
	gate   sync.RWMutex // Close is exclusive with the hand-over of a Write to the real store
	closed bool
	raw    []*Proj
	tOpen  int64
	tC0    int64
	tC1    int64
}

func (h *recHist) Open(f string, t time.Time, id string) error {
	err := h.HistoryStore.Open(f, t, id)
	h.mu.Lock()
	h.tOpen = h.rc.now()
	h.mu.Unlock()
	return err
}

// caller returns the agent function on whose behalf the history store was called (skipping this wrapper and the agent's
// own writeStatus helper, through which every snapshot goes since 7f2c2d0).
func caller() string {
	pc := make([]uintptr, 16)
	n := runtime.Callers(3, pc)
	fr := runtime.CallersFrames(pc[:n])
	for {
		f, more := fr.Next()
		if strings.Contains(f.Function, "/internal/agent.") && !strings.HasSuffix(f.Function, ".writeStatus") {
			i := strings.LastIndex(f.Function, "/internal/agent.")
			return f.Function[i+len("/internal/agent."):]
		}
		if !more {
			return "?"
		}
	}
}

func isMain(role string) bool { return strings.HasSuffix(role, ").Run") }

func (h *recHist) Write(st *model.Status) error {
	t0 := h.rc.now()
	role := caller()
	h.mu.Lock()
	h.seq++
	seq := h.seq
	hold := false
	// race cases: hold the "first status" goroutine's write (the only write of a goroutine that falls into the
	// window around 100 ms after Open in these cases) until the final status has been written
	if h.holdFor > 0 && !h.held && !isMain(role) && t0-h.tOpen >= 90000 && t0-h.tOpen <= 150000 {
		h.held, hold = true, true
	}
	h.mu.Unlock()
	ev := WriteEv{Seq: seq, T0: t0, St: proj(st, false), Role: role, Held: hold}
	if hold {
		select {
		case <-h.finalCh:
		case <-time.After(h.holdFor):
		}
	}
	var err error
	h.gate.RLock()
	if h.closed {
		// the real store would dereference its nil writer here (jsondb.go Write after Close): do not crash the driver
		ev.Dropped = "store closed before the held write was handed over"
		ev.T1 = h.rc.now()
		ev.T2 = ev.T1
	} else {
		ev.T1 = h.rc.now()
		err = h.HistoryStore.Write(st)
		ev.T2 = h.rc.now()
	}
	h.gate.RUnlock()
	if err != nil {
		ev.Err = err.Error()
	}
	h.mu.Lock()
	h.writes = append(h.writes, ev)
	if isMain(role) {
		h.mainN++
		if h.mainN == 2 {
			close(h.finalCh)
		}
	}
	h.mu.Unlock()
	return err
}

func datFiles(dir string) []string {
	out := []string{}
	_ = filepath.Walk(dir, func(p string, info os.FileInfo, err error) error {
		if err == nil && !info.IsDir() && strings.HasSuffix(p, ".dat") {
			out = append(out, p)
		}
		return nil
	})
	sort.Strings(out)
	return out
}

func (h *recHist) Close() error {
	h.gate.Lock()
	defer h.gate.Unlock()
	h.mu.Lock()
	h.tC0 = h.rc.now()
	h.mu.Unlock()
	for _, f := range datFiles(h.dataDir) {
		if !strings.HasSuffix(f, "_c.dat") {
			h.raw = projLines(f)
		}
	}
	err := h.HistoryStore.Close()
	h.closed = true
	h.mu.Lock()
	h.tC1 = h.rc.now()
	h.mu.Unlock()
	return err
}

// ---------------------------------------------------------------------------------------------

var lg = logger.NewLogger(logger.NewLoggerArgs{Quiet: true})

func yamlOf(c *Case, name, tag, dir string) string {
	var b strings.Builder
	fmt.Fprintf(&b, "name: %s\nhistRetentionDays: 30\nmaxCleanUpTimeSec: 5\n", name)
	ex := func(ind string) {
		fmt.Fprintf(&b, "%scommand: \"true\"\n%sexecutor:\n%s  type: verifscript\n%s  config:\n%s    tag: \"%s\"\n", ind, ind, ind, ind, ind, tag)
	}
	if len(c.Handlers) > 0 {
		b.WriteString("handlerOn:\n")
		for _, h := range c.Handlers {
			fmt.Fprintf(&b, "  %s:\n", h)
			ex("    ")
		}
	}
	b.WriteString("steps:\n")
	for _, s := range c.Steps {
		fmt.Fprintf(&b, "  - name: %s\n", s.Name)
		if s.DescLen > 0 {
			fmt.Fprintf(&b, "    description: \"%s\"\n", strings.Repeat("d", s.DescLen))
		}
		ex("    ")
		if len(s.Depends) > 0 {
			b.WriteString("    depends:\n")
			for _, d := range s.Depends {
				fmt.Fprintf(&b, "      - \"%s\"\n", d)
			}
		}
		if s.Cof || s.Cos {
			fmt.Fprintf(&b, "    continueOn:\n      failure: %v\n      skipped: %v\n", s.Cof, s.Cos)
		}
		if s.Rlimit > 0 {
			fmt.Fprintf(&b, "    retryPolicy:\n      limit: %d\n      intervalSec: 0\n", s.Rlimit)
		}
		if !s.Pre {
			b.WriteString("    preconditions:\n      - condition: \"verif-a\"\n        expected: \"verif-b\"\n")
		} else if s.SlowPre > 0 {
			script := filepath.Join(dir, "slow-"+s.Name+".sh")
			_ = os.WriteFile(script, []byte(fmt.Sprintf("#!/bin/sh\nsleep %d.%03d\necho 1\n", s.SlowPre/1000, s.SlowPre%1000)), 0o755)
			fmt.Fprintf(&b, "    preconditions:\n      - condition: \"`%s`\"\n        expected: \"1\"\n", script)
		}
	}
	return b.String()
}

func handlerStepName(h string) string { return "on" + strings.ToUpper(h[:1]) + h[1:] }

func runCase(c *Case, work string) {
	dir := filepath.Join(work, fmt.Sprintf("c%d", c.K))
	name := fmt.Sprintf("d%d", c.K)
	tag := fmt.Sprintf("t%d-%d", os.Getpid(), c.K)
	dags, data, logs := filepath.Join(dir, "dags"), filepath.Join(dir, "data"), filepath.Join(dir, "logs")
	for _, d := range []string{dags, data, logs} {
		if err := os.MkdirAll(d, 0o755); err != nil {
			c.Infra = err.Error()
			return
		}
	}
	file := filepath.Join(dags, name+".yaml")
	if err := os.WriteFile(file, []byte(yamlOf(c, name, tag, dir)), 0o644); err != nil {
		c.Infra = err.Error()
		return
	}
	wf, err := dag.Load("", file, "")
	if err != nil {
		c.Infra = "load: " + err.Error()
		return
	}
	wf.LogDir = logs
	rc := &runCtx{t0: time.Now(), att: map[string]int{}, fails: map[string]int{}, hold: map[string]int{}}
	for _, s := range c.Steps {
		rc.fails[s.Name] = s.Fails
		rc.hold[s.Name] = s.HoldMs
	}
	for _, h := range c.Handlers {
		rc.hold[handlerStepName(h)] = 8
		if c.HandlerBad[h] {
			rc.fails[handlerStepName(h)] = 99
		}
	}
	runsMu.Lock()
	runs[tag] = rc
	runsMu.Unlock()
	defer func() {
		runsMu.Lock()
		delete(runs, tag)
		runsMu.Unlock()
	}()
	mk := func() persistence.DataStores {
		return dsclient.NewDataStores(dags, data, filepath.Join(dir, "suspend"), dsclient.DataStoreOptions{LatestStatusToday: true})
	}
	hist := &recHist{rc: rc, dataDir: data, holdFor: time.Duration(c.HoldMs) * time.Millisecond, finalCh: make(chan struct{})}
	ds := &recStores{DataStores: mk(), hs: hist}
	cli := client.New(ds, "", dir, lg)
	c.Req = "req-" + tag
	c.Pid = os.Getpid()
	agt := agent.New(c.Req, wf, lg, logs, filepath.Join(logs, tag+".log"), cli, ds, &agent.Options{})

	// the observer: a separate client with its own store instance (reader role)
	obs := client.New(mk(), "", dir, lg)
	var stop atomic.Bool
	var polls []Poll
	var pwg sync.WaitGroup
	pwg.Add(1)
	go func() {
		defer pwg.Done()
		r := vh.NewRng(vh.SeedFromEnv()).Fork(uint64(c.K) + 7777)
		for !stop.Load() {
			p := Poll{T0: rc.now()}
			st, err := obs.GetLatestStatus(wf)
			p.T1 = rc.now()
			if err != nil {
				p.Err = err.Error()
			}
			p.St = proj(st, false)
			polls = append(polls, p)
			time.Sleep(time.Duration(1500+r.Below(4000)) * time.Microsecond)
		}
	}()
	c.TStop = -1
	c.IdleConnT = -1
	var idle net.Conn
	var idleMu sync.Mutex
	if c.Kind == "idle" {
		// a client that connects to the run's socket and sends nothing, for as long as the run lasts
		go func() {
			for i := 0; i < 4000 && !stop.Load(); i++ {
				if _, err := os.Lstat(wf.SockAddr()); err == nil {
					break
				}
				time.Sleep(500 * time.Microsecond)
			}
			time.Sleep(60 * time.Millisecond)
			if conn, err := net.Dial("unix", wf.SockAddr()); err == nil {
				idleMu.Lock()
				idle = conn
				c.IdleConnT = rc.now()
				idleMu.Unlock()
			}
		}()
	}
	defer func() {
		idleMu.Lock()
		if idle != nil {
			_ = idle.Close()
		}
		idleMu.Unlock()
	}()
	if c.Kind == "stop" || c.Kind == "stopcommit" {
		go func() {
			time.Sleep(time.Duration(c.StopAtMs) * time.Millisecond)
			if stop.Load() {
				return
			}
			t := rc.now()
			if err := obs.Stop(wf); err == nil {
				c.TStop = t
			}
		}()
	}
	c.TRun0 = rc.now()
	var runErr error
	func() {
		defer func() {
			if p := recover(); p != nil {
				runErr = fmt.Errorf("PANIC: %v", p)
			}
		}()
		runErr = agt.Run(context.Background())
	}()
	c.TRun1 = rc.now()
	if runErr != nil {
		c.RunErr = runErr.Error()
	}
	// a few more observations after the run, then let a held write land
	time.Sleep(12 * time.Millisecond)
	stop.Store(true)
	pwg.Wait()
	time.Sleep(10 * time.Millisecond)
	c.Polls = polls
	rc.mu.Lock()
	c.Exec = append([]ExecEv{}, rc.exec...)
	rc.mu.Unlock()
	hist.mu.Lock()
	c.Writes = append([]WriteEv{}, hist.writes...)
	c.RawLines = hist.raw
	c.TOpen, c.TClose0, c.TClose1 = hist.tOpen, hist.tC0, hist.tC1
	hist.mu.Unlock()
	sort.Slice(c.Writes, func(i, j int) bool { return c.Writes[i].Seq < c.Writes[j].Seq })
	c.RawAfter = map[string][]*Proj{}
	for _, f := range datFiles(data) {
		c.RawAfter[filepath.Base(f)] = projLines(f)
	}
	func() {
		defer func() { _ = recover() }()
		c.Final = proj(agt.Status(), true)
	}()
	fresh := client.New(mk(), "", dir, lg)
	st, err := fresh.GetLatestStatus(wf)
	if err != nil {
		c.LatestErr = err.Error()
	}
	c.Latest = proj(st, true)
	for _, sf := range fresh.GetRecentHistory(wf, 10) {
		if sf != nil && sf.Status != nil && sf.Status.RequestID == c.Req {
			c.RecentHas = true
		}
	}
	func() {
		defer func() { _ = recover() }()
		if b, err := agt.Status().ToJSON(); err == nil {
			c.LineBytes = len(b)
		}
	}()
	st2, err := fresh.GetStatusByRequestID(wf, c.Req)
	if err != nil {
		c.ByReqErr = err.Error()
	}
	c.ByReq = proj(st2, true)
	if _, err := os.Lstat(wf.SockAddr()); err == nil {
		c.SockAfter = true
		_ = os.Remove(wf.SockAddr())
	}
	// the start lock file next to the socket address is created on demand and never removed by the agent
	_ = os.Remove(wf.SockAddr() + ".lock")
}

// ---------------------------------------------------------------------------------------------
// generators

func nm(i int) string { return fmt.Sprintf("s%d", i) }

func genSteps(r *vh.Rng, n int, chainy bool) []StepS {
	st := make([]StepS, n)
	for i := 0; i < n; i++ {
		s := StepS{Name: nm(i), Depends: []string{}, Pre: true, HoldMs: 2 + r.Below(40)}
		if chainy {
			if i > 0 {
				s.Depends = []string{nm(i - 1)}
			}
		} else {
			for j := 0; j < i; j++ {
				if r.Chance(2, 5) {
					s.Depends = append(s.Depends, nm(j))
				}
			}
		}
		st[i] = s
	}
	return st
}

func genCase(k int, r *vh.Rng, kind string) *Case {
	c := &Case{K: k, Kind: kind, Handlers: []string{}, HandlerBad: map[string]bool{}}
	switch kind {
	case "plain", "stop":
		n := 1 + r.Below(5)
		c.Steps = genSteps(r, n, r.Chance(1, 3))
		for i := range c.Steps {
			s := &c.Steps[i]
			if r.Chance(1, 4) {
				s.Fails = []int{1, 2, 99}[r.Below(3)]
			}
			if r.Chance(1, 3) {
				s.Rlimit = 1 + r.Below(2)
			}
			s.Cof = r.Chance(1, 4)
			s.Cos = r.Chance(1, 4)
			s.Pre = !r.Chance(1, 8)
			if r.Chance(1, 4) {
				s.HoldMs = 60 + r.Below(120) // straddles the 100 ms "first status" instant
			}
		}
		for _, h := range []string{"exit", "success", "failure", "cancel"} {
			if r.Chance(2, 5) {
				c.Handlers = append(c.Handlers, h)
				if r.Chance(1, 5) {
					c.HandlerBad[h] = true
				}
			}
		}
		if kind == "stop" {
			c.StopAtMs = 5 + r.Below(260)
			for i := range c.Steps {
				if r.Chance(1, 2) {
					c.Steps[i].HoldMs += 80 + r.Below(150)
				}
			}
		}
	case "idle":
		// one long step (longer than the socket client's 3 s timeout) while an idle connection to the run's socket is held open
		c.Steps = genSteps(r, 1, true)
		c.Steps[0].HoldMs = 4200 + r.Below(300)
	case "huge":
		// every status line exceeds 64 KiB (long step descriptions): readers with a line-length limit lose the run
		c.Steps = genSteps(r, 2, true)
		for i := range c.Steps {
			c.Steps[i].HoldMs = 3 + r.Below(10)
			c.Steps[i].DescLen = 34000 + r.Below(4000)
		}
		if r.Chance(1, 2) {
			c.Steps[1].Fails, c.Steps[1].Rlimit = 1, 1
		}
	case "stopcommit":
		// DESIGN.md F5c: the stop request arrives while the loop thread evaluates a (slow) step precondition, i.e. after
		// it has passed its cancel check for that step
		c.Steps = genSteps(r, 1+r.Below(2), true)
		c.Steps[0].SlowPre = 250 + r.Below(100)
		c.StopAtMs = 60 + r.Below(100)
	case "race":
		// a chain a -> b (-> c): a ends at once, b is launched one polling period (100 ms) later and runs past the
		// "first status" instant, so that the snapshot taken ~100 ms in differs from the final one; that
		// goroutine's Write is held between "snapshot computed" and "handed to the store" until the final status
		// has been written (the window of F8b, made wide enough to be hit every time)
		n := 2 + r.Below(2)
		c.Steps = genSteps(r, n, true)
		c.Steps[0].HoldMs = 1 + r.Below(8)
		for i := 1; i < n; i++ {
			c.Steps[i].HoldMs = 75 + r.Below(60)
		}
		if r.Chance(1, 2) {
			c.Handlers = []string{"exit"}
		}
		c.HoldMs = 1200
	}
	return c
}

// readSpecs: cases given by the caller (replay / shrinking) instead of generated ones: one JSON object per line with the
// input fields of Case (k, kind, steps, handlers, handler_fails, stop_at_ms, hold_ms)
func readSpecs(path string) []*Case {
	b, err := os.ReadFile(path)
	if err != nil {
		panic(err)
	}
	var out []*Case
	for _, ln := range strings.Split(string(b), "\n") {
		if strings.TrimSpace(ln) == "" {
			continue
		}
		c := &Case{}
		if err := json.Unmarshal([]byte(ln), c); err != nil {
			panic(err)
		}
		if c.Handlers == nil {
			c.Handlers = []string{}
		}
		if c.HandlerBad == nil {
			c.HandlerBad = map[string]bool{}
		}
		out = append(out, c)
	}
	return out
}

func inproc(outPath, tier, work, specs string) {
	out, err := vh.NewOut(outPath)
	if err != nil {
		panic(err)
	}
	defer out.Close()
	seed := vh.SeedFromEnv()
	nPlain, nStop, nRace, nCommit, nHuge := 44, 10, 10, 2, 2
	if tier == "thorough" {
		nPlain, nStop, nRace, nCommit, nHuge = 700, 150, 150, 20, 12
	}
	var cases []*Case
	k := 0
	add := func(n int, kind string) {
		for i := 0; i < n; i++ {
			cases = append(cases, genCase(k, vh.NewRng(seed).Fork(uint64(k)), kind))
			k++
		}
	}
	if specs != "" {
		cases = readSpecs(specs)
	} else {
		add(1, "idle") // first: it lasts longest
		add(nPlain, "plain")
		add(nStop, "stop")
		add(nRace, "race")
		add(nCommit, "stopcommit")
		add(nHuge, "huge")
	}
	sem := make(chan struct{}, 8)
	var wg sync.WaitGroup
	for _, c := range cases {
		wg.Add(1)
		sem <- struct{}{}
		go func(c *Case) {
			defer wg.Done()
			defer func() { <-sem }()
			runCase(c, work)
		}(c)
	}
	var cacheCases []*Case
	if specs == "" {
		nCache := 3
		if tier == "thorough" {
			nCache = 12
		}
		wg.Add(1)
		go func() {
			defer wg.Done()
			for i := 0; i < nCache; i++ {
				cacheCases = append(cacheCases, cacheStream(100000+i, work, vh.NewRng(seed).Fork(uint64(100000+i))))
			}
		}()
	}
	wg.Wait()
	for _, c := range cases {
		out.Put(c)
	}
	for _, c := range cacheCases {
		out.Put(c)
	}
}

// ---------------------------------------------------------------------------------------------
// cache stream: a LONG-LIVED reader (one client, one JSONDB with its status cache - as the web server and the daemon have)
// follows a run that appends its records within one wall-clock second and then dies without the shutdown compaction
// (no Close).  After every append the reader must report the last persisted status.

type CacheRead struct {
	AfterWrite int    `json:"after_write"`
	WallNs     int64  `json:"wall_ns"`
	Err        string `json:"err,omitempty"`
	St         *Proj  `json:"st"`
	Want       *Proj  `json:"want"` // the last status written (as persisted; running is shown as failed by the reader)
}

type CacheObs struct {
	Writes     int         `json:"writes"`
	SameSecond bool        `json:"same_second"` // all appends and reads fell into one wall-clock second
	Attempts   int         `json:"attempts"`
	Reads      []CacheRead `json:"reads"`
}

func cacheStream(k int, work string, r *vh.Rng) *Case {
	c := &Case{K: k, Kind: "cache", Handlers: []string{}, HandlerBad: map[string]bool{}, Steps: genSteps(r, 2+r.Below(2), true), IdleConnT: -1, TStop: -1}
	for attempt := 1; attempt <= 4; attempt++ {
		dir := filepath.Join(work, fmt.Sprintf("cache%d-%d", k, attempt))
		name := fmt.Sprintf("q%d", k)
		dags, data := filepath.Join(dir, "dags"), filepath.Join(dir, "data")
		_ = os.MkdirAll(dags, 0o755)
		_ = os.MkdirAll(data, 0o755)
		file := filepath.Join(dags, name+".yaml")
		if err := os.WriteFile(file, []byte(yamlOf(c, name, "none", dir)), 0o644); err != nil {
			c.Infra = err.Error()
			return c
		}
		wf, err := dag.Load("", file, "")
		if err != nil {
			c.Infra = "load: " + err.Error()
			return c
		}
		mk := func() persistence.DataStores {
			return dsclient.NewDataStores(dags, data, filepath.Join(dir, "suspend"), dsclient.DataStoreOptions{LatestStatusToday: true})
		}
		reader := client.New(mk(), "", dir, lg) // kept across the whole sequence
		writer := mk().HistoryStore()
		n := len(wf.Steps)
		mkst := func(overall dagsched.Status, done int, running bool) *model.Status {
			st := model.NewStatus(wf, nil, overall, os.Getpid(), nil, nil)
			st.RequestID = fmt.Sprintf("req-cache-%d-%d", k, attempt)
			for i, nd := range st.Nodes {
				switch {
				case i < done:
					nd.Status = dagsched.NodeStatusSuccess
				case i == done && running:
					nd.Status = dagsched.NodeStatusRunning
				}
				nd.StatusText = nd.Status.String()
			}
			return st
		}
		// the sequence a run leaves: S0, one snapshot per step, the final status
		seq := []*model.Status{mkst(dagsched.StatusNone, 0, false)}
		for i := 0; i < n; i++ {
			seq = append(seq, mkst(dagsched.StatusRunning, i, true))
		}
		seq = append(seq, mkst(dagsched.StatusSuccess, n, false))
		// start just after a second boundary so that everything fits into one second
		now := time.Now()
		time.Sleep(time.Until(now.Truncate(time.Second).Add(time.Second + 20*time.Millisecond)))
		t0 := time.Now()
		obs := &CacheObs{Writes: len(seq), Attempts: attempt}
		if err := writer.Open(wf.Location, t0, seq[0].RequestID); err != nil {
			c.Infra = "open: " + err.Error()
			return c
		}
		for i, st := range seq {
			if err := writer.Write(st); err != nil {
				c.Infra = "write: " + err.Error()
				return c
			}
			got, err := reader.GetLatestStatus(wf)
			rd := CacheRead{AfterWrite: i, WallNs: time.Now().UnixNano(), St: proj(got, false)}
			if err != nil {
				rd.Err = err.Error()
			}
			want := proj(st, false)
			if want.St == int(dagsched.StatusRunning) {
				want.St, want.Text = int(dagsched.StatusError), dagsched.StatusError.String()
			}
			rd.Want = want
			obs.Reads = append(obs.Reads, rd)
			time.Sleep(time.Duration(1+r.Below(4)) * time.Millisecond)
		}
		// the run's process is gone now: no Close, no compaction
		obs.SameSecond = time.Now().Unix() == t0.Unix()
		c.Cache = obs
		_ = os.Remove(wf.SockAddr() + ".lock")
		if obs.SameSecond {
			break
		}
	}
	return c
}

// ---------------------------------------------------------------------------------------------
// latest: what a fresh process is told about the DAG

type LatestOut struct {
	Latest     *Proj  `json:"latest"`
	LatestErr  string `json:"latest_err"`
	Current    *Proj  `json:"current"`
	CurrentErr string `json:"current_err"`
	Recent     int    `json:"recent"`
	Files      []string `json:"files"`
	SockFile   bool   `json:"sock_file"`
	SockAddr   string `json:"sock_addr"`
}

func stores(home string) persistence.DataStores {
	return dsclient.NewDataStores(filepath.Join(home, "dags"), filepath.Join(home, "data"), filepath.Join(home, "suspend"),
		dsclient.DataStoreOptions{LatestStatusToday: true})
}

func latest(dagfile, home string) {
	wf, err := dag.Load("", dagfile, "")
	if err != nil {
		fmt.Println(`{"latest_err":"load failed"}`)
		os.Exit(2)
	}
	cli := client.New(stores(home), "", home, lg)
	var o LatestOut
	st, err := cli.GetLatestStatus(wf)
	if err != nil {
		o.LatestErr = err.Error()
	}
	o.Latest = proj(st, true)
	cur, err := cli.GetCurrentStatus(wf)
	if err != nil {
		o.CurrentErr = err.Error()
	}
	o.Current = proj(cur, false)
	o.Recent = len(cli.GetRecentHistory(wf, 10))
	for _, f := range datFiles(filepath.Join(home, "data")) {
		fi, _ := os.Stat(f)
		var sz int64
		if fi != nil {
			sz = fi.Size()
		}
		o.Files = append(o.Files, fmt.Sprintf("%s:%d", filepath.Base(f), sz))
	}
	o.SockAddr = wf.SockAddr()
	if _, err := os.Lstat(o.SockAddr); err == nil {
		o.SockFile = true
	}
	b, _ := json.Marshal(o)
	fmt.Println(string(b))
}

// ---------------------------------------------------------------------------------------------
// tick: one tick of the real daemon for the minute after now; the DAG file must carry a schedule

type tickLogger struct {
	mu  sync.Mutex
	msg []string
}

func (l *tickLogger) note(msg string, tags []any) {
	l.mu.Lock()
	l.msg = append(l.msg, msg+" "+fmt.Sprint(tags...))
	l.mu.Unlock()
}
func (l *tickLogger) Debug(msg string, tags ...any)          {}
func (l *tickLogger) Info(msg string, tags ...any)           { l.note(msg, tags) }
func (l *tickLogger) Warn(msg string, tags ...any)           { l.note(msg, tags) }
func (l *tickLogger) Error(msg string, tags ...any)          { l.note(msg, tags) }
func (l *tickLogger) Fatal(msg string, tags ...any)          { l.note(msg, tags) }
func (l *tickLogger) Debugf(format string, v ...any)         {}
func (l *tickLogger) Infof(format string, v ...any)          {}
func (l *tickLogger) Warnf(format string, v ...any)          {}
func (l *tickLogger) Errorf(format string, v ...any)         {}
func (l *tickLogger) Fatalf(format string, v ...any)         {}
func (l *tickLogger) With(attrs ...any) logger.Logger        { return l }
func (l *tickLogger) WithGroup(name string) logger.Logger    { return l }
func (l *tickLogger) Write(string)                           {}

type TickOut struct {
	Messages []string `json:"messages"`
	Outcome  string   `json:"outcome"` // started | refused-error | refused-running | refused-finished | nothing
	FilesBefore int   `json:"files_before"`
	FilesAfter  int   `json:"files_after"`
}

func tick(dagfile, home, exe string) {
	tl := &tickLogger{}
	cfg := &config.Config{DAGs: filepath.Dir(dagfile), WorkDir: home, LogDir: filepath.Join(home, "logs"), Executable: exe}
	cli := client.New(stores(home), exe, home, tl)
	sc := scheduler.New(cfg, tl, cli)
	done := make(chan any)
	sc.VerifStartWatcher(done)
	o := TickOut{FilesBefore: len(datFiles(filepath.Join(home, "data")))}
	before := map[string]bool{}
	for _, f := range datFiles(filepath.Join(home, "data")) {
		before[f] = true
	}
	next := time.Now().Add(time.Minute).Truncate(time.Minute)
	scheduler.VerifSetFixedTime(next)
	sc.VerifRunTick(next)
	// the job runs in a goroutine of the daemon: Start spawns `<exe> start -q <dag>` and waits for it
	deadline := time.Now().Add(20 * time.Second)
	o.Outcome = "nothing"
	for time.Now().Before(deadline) {
		tl.mu.Lock()
		msgs := append([]string{}, tl.msg...)
		tl.mu.Unlock()
		res := ""
		for _, m := range msgs {
			switch {
			case strings.Contains(m, "Workflow is already finished"):
				res = "refused-finished"
			case strings.Contains(m, "Workflow is already running"):
				res = "refused-running"
			case strings.Contains(m, "Workflow execution failed") && strings.Contains(m, "exit status"):
				res = "started" // the spawned `start` ran and ended with a non-zero exit code (a failing DAG)
			case strings.Contains(m, "Workflow execution failed"):
				res = "refused-error"
			}
		}
		if res != "" {
			o.Outcome = res
			break
		}
		// a completed new run shows as a compacted history file that was not there before
		for _, f := range datFiles(filepath.Join(home, "data")) {
			if !before[f] && strings.HasSuffix(f, "_c.dat") {
				o.Outcome = "started"
			}
		}
		if o.Outcome == "started" {
			break
		}
		time.Sleep(20 * time.Millisecond)
	}
	tl.mu.Lock()
	o.Messages = tl.msg
	tl.mu.Unlock()
	o.FilesAfter = len(datFiles(filepath.Join(home, "data")))
	b, _ := json.Marshal(o)
	fmt.Println(string(b))
}

func main() {
	if len(os.Args) < 2 {
		fmt.Fprintln(os.Stderr, "usage: status inproc|latest|tick ...")
		os.Exit(2)
	}
	switch os.Args[1] {
	case "inproc":
		specs := ""
		if len(os.Args) > 5 {
			specs = os.Args[5]
		}
		inproc(os.Args[2], os.Args[3], os.Args[4], specs)
	case "latest":
		latest(os.Args[2], os.Args[3])
	case "tick":
		tick(os.Args[2], os.Args[3], os.Args[4])
	default:
		fmt.Fprintln(os.Stderr, "unknown mode")
		os.Exit(2)
	}
}
