// Driver for C10 (retry re-executes exactly the unfinished part of a recorded run).
//
//	retry <out.jsonl> <tier>
//
// Stream "reset": NewExecutionGraphForRetry on nodes built with scheduler.NewNode(step, state) for every
// acyclic digraph on n<=3 nodes x every recorded status vector in {0..5}^n (exhaustive), n=4..8 sampled:
// which nodes were cleared (every recorded state carries a marker log path; cleared <=> marker gone).
// Stream "run": a first run of a random DAG on the real scheduler with a scripted executor (failures,
// unmet preconditions, optional stop, optional snapshot in mid-run = what a killed process leaves), then
// the retry of the recorded table with every script succeeding; a watchdog detects non-termination.
package main

import (
	"context"
	"errors"
	"fmt"
	"io"
	"os"
	"sync"
	"syscall"
	"time"

	"github.com/ErdemOzgen/blackdagger/internal/dag"
	"github.com/ErdemOzgen/blackdagger/internal/dag/executor"
	"github.com/ErdemOzgen/blackdagger/internal/dag/scheduler"
	"github.com/ErdemOzgen/blackdagger/internal/logger"
	"github.com/ErdemOzgen/blackdagger/internal/persistence/model"
	"github.com/ErdemOzgen/blackdagger/verifh/vh"
)

type ResetCase struct {
	Stream  string  `json:"stream"`
	K       int     `json:"k"`
	N       int     `json:"n"`
	Deps    [][]int `json:"deps"`
	St      []int   `json:"st"`
	Cleared []bool  `json:"cleared"`
	Partial []int   `json:"partial,omitempty"`
	Err     string  `json:"err,omitempty"`
}

// ParamCase: the parameter values a retry re-uses.  First = what the steps of the original run saw ($1..$n, $NAME)
// after dag.Load(file, given); Recorded = the Params string the status records (model.Params); Second = what the
// steps of the retry see after dag.Load(file, Recorded) in a process whose environment has changed meanwhile.
type ParamCase struct {
	Stream   string            `json:"stream"`
	K        int               `json:"k"`
	Default  string            `json:"default"`
	Given    string            `json:"given"`
	Recorded string            `json:"recorded"`
	First    map[string]string `json:"first"`
	Second   map[string]string `json:"second"`
	Err      string            `json:"err,omitempty"`
}

type RunCase struct {
	Stream   string  `json:"stream"`
	K        int     `json:"k"`
	N        int     `json:"n"`
	Deps     [][]int `json:"deps"`
	Cof      []bool  `json:"cof"`
	Cos      []bool  `json:"cos"`
	Pre      []bool  `json:"pre"`
	Rlimit   []int   `json:"rlimit"`
	Fails    []int   `json:"fails"` // first run: step i fails its first Fails[i] attempts (99 = always)
	How      string  `json:"how"`   // full | stopped | snapshot
	Rec      []int   `json:"rec"`   // recorded status vector handed to the retry
	RecRetry []int   `json:"rec_retry"`
	Exec1    []int   `json:"exec1"` // executions per step in the first run
	Exec2    []int   `json:"exec2"` // executions per step in the retry
	Fin      []int   `json:"fin"`   // final status vector of the retry
	FinRetry []int   `json:"fin_retry"`
	FinLog   []bool  `json:"fin_log_kept"` // marker log of the recorded state still there
	Order    []int   `json:"order"`        // RunStart order in the retry (step indices)
	Ends     []int   `json:"ends"`         // for each entry of Order: number of RunEnd events seen before it (for dependency order)
	EndOrder []int   `json:"end_order"`
	Term     bool    `json:"terminated"`
	SchedErr string  `json:"sched_err,omitempty"`
}

// ---- scripted executor -------------------------------------------------------------------------

type world struct {
	mu     sync.Mutex
	att    map[int]int
	fails  map[int]int
	order  []int
	ends   []int
	endOrd []int
	hold   time.Duration
	gate   chan struct{} // closed to release held steps (nil = none)
}

var W *world

// watchdog for one Schedule call: ordinary runs of this driver take a few milliseconds
var wdog = 1500 * time.Millisecond

var quietLog = logger.NewLogger(logger.NewLoggerArgs{Quiet: true})

type scripted struct {
	idx  int
	ctx  context.Context
	kc   chan struct{}
	once sync.Once
}

func (s *scripted) SetStdout(io.Writer) {}
func (s *scripted) SetStderr(io.Writer) {}
func (s *scripted) Kill(os.Signal) error {
	s.once.Do(func() { close(s.kc) })
	return nil
}
func (s *scripted) Run() error {
	W.mu.Lock()
	W.att[s.idx]++
	a := W.att[s.idx]
	W.order = append(W.order, s.idx)
	W.ends = append(W.ends, len(W.endOrd))
	hold := W.hold
	W.mu.Unlock()
	var err error
	select {
	case <-time.After(hold):
	case <-s.kc:
		err = errors.New("killed")
	case <-s.ctx.Done():
		err = s.ctx.Err()
	}
	W.mu.Lock()
	if err == nil && a <= W.fails[s.idx] {
		err = errors.New("scripted failure")
	}
	W.endOrd = append(W.endOrd, s.idx)
	W.mu.Unlock()
	return err
}

func nm(i int) string { return fmt.Sprintf("s%d", i) }

func mkSteps(n int, deps [][]int, cof, cos, pre []bool, rlimit []int) []dag.Step {
	steps := make([]dag.Step, n)
	for i := 0; i < n; i++ {
		s := dag.Step{Name: nm(i), ExecutorConfig: dag.ExecutorConfig{Type: "verifscript", Config: map[string]any{}}}
		for _, d := range deps[i] {
			s.Depends = append(s.Depends, nm(d))
		}
		if cof != nil {
			s.ContinueOn.Failure = cof[i]
			s.ContinueOn.Skipped = cos[i]
			if rlimit[i] > 0 {
				s.RetryPolicy = &dag.RetryPolicy{Limit: rlimit[i], Interval: 2 * time.Millisecond}
			}
			if !pre[i] {
				s.Preconditions = []dag.Condition{{Condition: "$VERIF_UNSET_VAR_C10", Expected: "1"}}
			}
		}
		steps[i] = s
	}
	return steps
}

func acyclic(n int, deps [][]int) bool {
	col := make([]int, n)
	var visit func(i int) bool
	visit = func(i int) bool {
		col[i] = 1
		for _, j := range deps[i] {
			if col[j] == 1 || (col[j] == 0 && !visit(j)) {
				return false
			}
		}
		col[i] = 2
		return true
	}
	for i := 0; i < n; i++ {
		if col[i] == 0 && !visit(i) {
			return false
		}
	}
	return true
}

func resetCase(stream string, k, n int, deps [][]int, st []int) ResetCase {
	steps := mkSteps(n, deps, nil, nil, nil, nil)
	nodes := make([]*scheduler.Node, n)
	for i := range steps {
		// every field of the recorded state is set: a step that runs again must start from the zero state (a retry budget
		// already used up in the recorded run, or its done count, must not be carried into the retry run)
		nodes[i] = scheduler.NewNode(steps[i], scheduler.NodeState{Status: scheduler.NodeStatus(st[i]), Log: "marker", RetryCount: 1,
			DoneCount: 2, StartedAt: time.Unix(1700000000, 0), FinishedAt: time.Unix(1700000001, 0), RetriedAt: time.Unix(1700000002, 0)})
	}
	c := ResetCase{Stream: stream, K: k, N: n, Deps: deps, St: st, Cleared: make([]bool, n)}
	g, err := scheduler.NewExecutionGraphForRetry(quietLog, nodes...)
	if err != nil {
		c.Err = err.Error()
		return c
	}
	for i, nd := range g.Nodes() {
		c.Cleared[i] = nd.State() == scheduler.NodeState{}
		if !c.Cleared[i] && (nd.State().Status != scheduler.NodeStatus(st[i]) || nd.State().Log != "marker" || nd.State().RetryCount != 1 || nd.State().DoneCount != 2) {
			c.Partial = append(c.Partial, i) // neither kept as recorded nor reset to the zero state
		}
	}
	return c
}

func randDag(r *vh.Rng, n int) [][]int {
	deps := make([][]int, n)
	perm := make([]int, n)
	for i := range perm {
		perm[i] = i
	}
	for i := n - 1; i > 0; i-- {
		j := r.Below(i + 1)
		perm[i], perm[j] = perm[j], perm[i]
	}
	for a := 0; a < n; a++ {
		deps[a] = []int{}
	}
	for a := 1; a < n; a++ {
		for b := 0; b < a; b++ {
			if r.Chance(1, 3) {
				deps[perm[a]] = append(deps[perm[a]], perm[b])
			}
		}
	}
	return deps
}

func runSched(dir string, g *scheduler.ExecutionGraph, maxActive int, stopAfter int, snapAfter int) (err error, terminated bool, snap []scheduler.NodeData) {
	sc := scheduler.New(&scheduler.Config{LogDir: dir, MaxActiveRuns: maxActive, Logger: quietLog})
	sc.VerifSetPause(300 * time.Microsecond)
	ctx := dag.NewContext(context.Background(), nil, nil, "", "")
	done := make(chan error, 1)
	go func() { done <- sc.Schedule(ctx, g, nil) }()
	if stopAfter >= 0 || snapAfter >= 0 {
		// wait until that many executor starts have happened (or the run ends)
		deadline := time.Now().Add(3 * time.Second)
		want := stopAfter
		if snapAfter >= 0 {
			want = snapAfter
		}
		for time.Now().Before(deadline) {
			W.mu.Lock()
			k := len(W.order)
			W.mu.Unlock()
			if k >= want {
				break
			}
			select {
			case e := <-done:
				return e, true, nil
			default:
			}
			time.Sleep(100 * time.Microsecond)
		}
		if snapAfter >= 0 {
			snap = g.NodeData()
		}
		sc.Signal(g, syscall.SIGTERM, nil, false)
	}
	select {
	case e := <-done:
		return e, true, snap
	case <-time.After(wdog):
		sc.Cancel(g)
		select {
		case e := <-done:
			return e, false, snap
		case <-time.After(3 * time.Second):
			return errors.New("watchdog: scheduler did not stop after Cancel"), false, snap
		}
	}
}

func main() {
	executor.Register("verifscript", func(ctx context.Context, step dag.Step) (executor.Executor, error) {
		var idx int
		fmt.Sscanf(step.Name, "s%d", &idx)
		return &scripted{idx: idx, ctx: ctx, kc: make(chan struct{})}, nil
	})
	out, err := vh.NewOut(os.Args[1])
	if err != nil {
		panic(err)
	}
	defer out.Close()
	tier := os.Args[2]
	rng := vh.NewRng(vh.SeedFromEnv())
	dir, _ := os.MkdirTemp("", "verif-retry")
	defer os.RemoveAll(dir)
	os.Unsetenv("VERIF_UNSET_VAR_C10")
	k := 0

	// ---- reset stream -----------------------------------------------------------------------
	for n := 1; n <= 3; n++ {
		pairs := n * (n - 1)
		for m := 0; m < 1<<uint(pairs); m++ {
			deps := make([][]int, n)
			bit := 0
			for i := 0; i < n; i++ {
				deps[i] = []int{}
				for j := 0; j < n; j++ {
					if i == j {
						continue
					}
					if m>>uint(bit)&1 == 1 {
						deps[i] = append(deps[i], j)
					}
					bit++
				}
			}
			if !acyclic(n, deps) {
				continue
			}
			tot := 1
			for i := 0; i < n; i++ {
				tot *= 6
			}
			for v := 0; v < tot; v++ {
				st := make([]int, n)
				x := v
				for i := 0; i < n; i++ {
					st[i] = x % 6
					x /= 6
				}
				out.Put(resetCase(fmt.Sprintf("reset-all%d", n), k, n, deps, st))
				k++
			}
		}
	}
	nr := 1500
	if tier == "thorough" {
		nr = 60000
	}
	for c := 0; c < nr; c++ {
		n := 4 + rng.Below(5)
		deps := randDag(rng, n)
		if rng.Chance(1, 5) { // duplicate entries
			a := rng.Below(n)
			if len(deps[a]) > 0 {
				deps[a] = append(deps[a], deps[a][0])
			}
		}
		st := make([]int, n)
		for i := range st {
			// mostly finished, some bad
			switch rng.Below(8) {
			case 0:
				st[i] = 2
			case 1:
				st[i] = 3
			case 2:
				st[i] = 0
			case 3:
				st[i] = 1
			case 4:
				st[i] = 5
			default:
				st[i] = 4
			}
		}
		out.Put(resetCase("reset-rand", k, n, deps, st))
		k++
	}

	// ---- params stream ----------------------------------------------------------------------
	np := 150
	if tier == "thorough" {
		np = 3000
	}
	words := []string{"alpha", "b2", "x.y", "7", "a-b", "p/q", "${VERIF_C10_E}", "$VERIF_C10_E", "pre_${VERIF_C10_E}", "${VERIF_C10_E}.d"}
	names := []string{"NAME", "DAY", "TARGET", "N1"}
	genParams := func() string {
		cnt := 1 + rng.Below(4)
		out := ""
		used := map[string]bool{}
		for i := 0; i < cnt; i++ {
			if i > 0 {
				out += " "
			}
			w := words[rng.Below(len(words))]
			if rng.Chance(1, 2) {
				nmx := names[rng.Below(len(names))]
				if !used[nmx] {
					used[nmx] = true
					out += nmx + "=" + w
					continue
				}
			}
			out += w
		}
		return out
	}
	snapshot := func() map[string]string {
		m := map[string]string{}
		for i := 1; i <= 6; i++ {
			if v, ok := os.LookupEnv(fmt.Sprint(i)); ok {
				m[fmt.Sprint(i)] = v
			}
		}
		for _, nmx := range names {
			if v, ok := os.LookupEnv(nmx); ok {
				m[nmx] = v
			}
		}
		return m
	}
	clearEnv := func() {
		for i := 1; i <= 9; i++ {
			os.Unsetenv(fmt.Sprint(i))
		}
		for _, nmx := range names {
			os.Unsetenv(nmx)
		}
	}
	for c := 0; c < np; c++ {
		pc := ParamCase{Stream: "params", K: k, Default: genParams()}
		k++
		if rng.Chance(1, 2) {
			pc.Given = genParams()
		}
		file := fmt.Sprintf("%s/p%d.yaml", dir, c)
		os.WriteFile(file, []byte("params: '"+pc.Default+"'\nsteps:\n  - name: s\n    command: \"true\"\n"), 0o644)
		clearEnv()
		os.Setenv("VERIF_C10_E", "monday")
		d1, err := dag.Load("", file, pc.Given)
		if err != nil {
			pc.Err = "first load: " + err.Error()
			out.Put(pc)
			continue
		}
		pc.First = snapshot()
		pc.Recorded = model.Params(d1.Params)
		clearEnv()
		os.Setenv("VERIF_C10_E", "tuesday")
		_, err = dag.Load("", file, pc.Recorded)
		if err != nil {
			pc.Err = "retry load: " + err.Error()
			out.Put(pc)
			continue
		}
		pc.Second = snapshot()
		out.Put(pc)
		os.Remove(file)
	}
	clearEnv()

	// ---- run stream -------------------------------------------------------------------------
	nruns := 250
	if tier == "thorough" {
		nruns = 6000
		wdog = 4 * time.Second
	}
	for c := 0; c < nruns; c++ {
		n := 2 + rng.Below(6)
		deps := randDag(rng, n)
		rc := RunCase{Stream: "run", K: k, N: n, Deps: deps, Cof: make([]bool, n), Cos: make([]bool, n), Pre: make([]bool, n),
			Rlimit: make([]int, n), Fails: make([]int, n)}
		k++
		for i := 0; i < n; i++ {
			rc.Cof[i] = rng.Chance(1, 4)
			rc.Cos[i] = rng.Chance(1, 4)
			rc.Pre[i] = !rng.Chance(1, 7)
			if rng.Chance(1, 4) {
				rc.Rlimit[i] = 1 + rng.Below(2)
			}
			if rng.Chance(1, 3) {
				rc.Fails[i] = []int{1, 2, 99}[rng.Below(3)]
			}
		}
		steps := mkSteps(n, deps, rc.Cof, rc.Cos, rc.Pre, rc.Rlimit)
		g, err := scheduler.NewExecutionGraph(nil, steps...)
		if err != nil {
			panic(err)
		}
		how := rng.Below(10)
		stopAfter, snapAfter := -1, -1
		rc.How = "full"
		W = &world{att: map[int]int{}, fails: map[int]int{}, hold: 200 * time.Microsecond}
		for i, f := range rc.Fails {
			W.fails[i] = f
		}
		if how >= 6 && how <= 8 {
			rc.How = "stopped"
			stopAfter = 1 + rng.Below(n)
			W.hold = 3 * time.Millisecond
		} else if how >= 9 {
			rc.How = "snapshot"
			snapAfter = 1 + rng.Below(n)
			W.hold = 3 * time.Millisecond
		}
		_, _, snap := runSched(dir, g, rng.Below(3), stopAfter, snapAfter)
		rc.Exec1 = make([]int, n)
		for i := 0; i < n; i++ {
			rc.Exec1[i] = W.att[i]
		}
		data := g.NodeData()
		if rc.How == "snapshot" && snap != nil {
			data = snap
		} else if rc.How == "snapshot" {
			rc.How = "full"
		}
		// the recorded table -> retry nodes (what model.Node.ToNode does: step + status, log, counts)
		nodes := make([]*scheduler.Node, n)
		rc.Rec = make([]int, n)
		rc.RecRetry = make([]int, n)
		for i, d := range data {
			rc.Rec[i] = int(d.State.Status)
			rc.RecRetry[i] = d.State.RetryCount
			nodes[i] = scheduler.NewNode(steps[i], scheduler.NodeState{Status: d.State.Status, Log: "marker", RetryCount: d.State.RetryCount, DoneCount: d.State.DoneCount})
		}
		g2, err := scheduler.NewExecutionGraphForRetry(quietLog, nodes...)
		if err != nil {
			rc.SchedErr = "graph: " + err.Error()
			out.Put(rc)
			continue
		}
		W = &world{att: map[int]int{}, fails: map[int]int{}, hold: 200 * time.Microsecond}
		e2, term, _ := runSched(dir, g2, rng.Below(3), -1, -1)
		rc.Term = term
		if e2 != nil {
			rc.SchedErr = e2.Error()
		}
		rc.Exec2 = make([]int, n)
		rc.Fin = make([]int, n)
		rc.FinRetry = make([]int, n)
		rc.FinLog = make([]bool, n)
		for i, nd := range g2.Nodes() {
			rc.Exec2[i] = W.att[i]
			rc.Fin[i] = int(nd.State().Status)
			rc.FinRetry[i] = nd.State().RetryCount
			rc.FinLog[i] = nd.State().Log == "marker"
		}
		rc.Order, rc.Ends, rc.EndOrder = W.order, W.ends, W.endOrd
		out.Put(rc)
	}
}
