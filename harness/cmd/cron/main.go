// Driver for C09 (scheduler daemon + cron layer).  Runs the REAL code of the repository:
//
//	cron <out.jsonl> <tier>              generate cases (VERIF_SEED), run them, write observations
//	cron <out.jsonl> replay <in.jsonl>   re-run the given cases (inputs only are read) on the current tree
//	cron child <in.json> <out.jsonl>     (internal) one daemon sequence in a process of its own
//
// Case kinds
//
//	expr   one cron expression through dag.LoadYAML under recover() (0 accepted / 1 error / 2 panic) and,
//	       when accepted, Parsed.Next(t) on a list of instants (unix seconds -> unix minute or null = zero time)
//	sched  one `schedule:` value (string / list / map / other YAML values) through dag.LoadYAML: verdict and the
//	       number of start/stop/restart schedules
//	seq    a daemon history: a DAG directory, then operations (tick, history / suspend changes, file edits,
//	       daemon restarts) against the real scheduler.New + watcher with a recording fake client.Client;
//	       per tick the multiset of Start/Stop/Restart calls the client received
package main

import (
	"bytes"
	"context"
	"encoding/json"
	"fmt"
	"os"
	"os/exec"
	"path/filepath"
	"runtime"
	"sort"
	"strings"
	"sync"
	"time"

	"github.com/ErdemOzgen/blackdagger/internal/client"
	"github.com/ErdemOzgen/blackdagger/internal/config"
	"github.com/ErdemOzgen/blackdagger/internal/dag"
	dagscheduler "github.com/ErdemOzgen/blackdagger/internal/dag/scheduler"
	"github.com/ErdemOzgen/blackdagger/internal/logger"
	"github.com/ErdemOzgen/blackdagger/internal/persistence/model"
	"github.com/ErdemOzgen/blackdagger/internal/scheduler"
	"github.com/ErdemOzgen/blackdagger/verifh/vh"
)

// ------------------------------------------------------------------------------------------------
// case formats
// ------------------------------------------------------------------------------------------------

// Val is an untyped YAML value: exactly one field is set.
type Val struct {
	S *string  `json:"s,omitempty"` // string scalar
	O *string  `json:"o,omitempty"` // other scalar, given as YAML text (int, bool, float)
	N bool     `json:"n,omitempty"` // null
	L *[]Val   `json:"l,omitempty"` // sequence
	M *[][]Val `json:"m,omitempty"` // mapping: list of [key, value]
}

type Content struct {
	G  string `json:"g,omitempty"`  // garbage kind: "syntax", "unknownkey", "empty", "nosched"
	V  *Val   `json:"v,omitempty"`  // schedule value
	Nm string `json:"nm,omitempty"` // explicit `name:` of the DAG (differs from the file-derived id)
}

type FileC struct {
	Name string  `json:"name"`
	C    Content `json:"c"`
}

type Hist struct {
	Kind string `json:"kind"` // none | dash | err | run | done
	At   int64  `json:"at"`   // start instant, unix seconds (run, done)
}

type Op struct {
	Op    string   `json:"op"` // tick | hist | suspend | write | remove | rename | restart | boot | loop
	M     int64    `json:"m,omitempty"`
	Wall  int64    `json:"wall,omitempty"`
	F     string   `json:"f,omitempty"`
	To    string   `json:"to,omitempty"`
	On    bool     `json:"on,omitempty"`
	H     *Hist    `json:"h,omitempty"`
	C     *Content `json:"c,omitempty"`
	Style string   `json:"style,omitempty"` // rename | inplace
	N     int      `json:"n,omitempty"`     // loop: number of ticks to let the daemon's own loop produce
	Real  bool     `json:"real,omitempty"`  // loop: real clock (thorough tier) instead of a stepped fixed clock
	Jump  int64    `json:"jump,omitempty"`  // loop: the fixed clock jumps forward by this many seconds while the boot tick reads its entries
	// observations
	Ticks   []TickObs   `json:"ticks,omitempty"`   // loop: what each tick of the daemon's loop did
	Block   []string    `json:"block,omitempty"`   // tick (input): the Start of these DAG files does not return until the tick has been observed (a long run)
	Late    [][2]string `json:"late,omitempty"`    // tick with block: calls that arrived only after the blocked Start had been released
	Hung    bool        `json:"hung,omitempty"`    // the tick did not return within the watchdog deadline (daemon blocked)
	Skipped bool        `json:"skipped,omitempty"` // not executed: the daemon of this history hangs
	Calls   [][2]string `json:"calls"`
	Alive   bool        `json:"alive"`
	Synced  bool        `json:"synced"`
}

// TickObs: one tick produced by the daemon's own loop (Scheduler.start: nextTick + timer.Reset)
type TickObs struct {
	Calls [][2]string `json:"calls"`
	At    int64       `json:"at"` // real clock (unix seconds) at which the first call of the tick arrived; 0 = no call in time
	Ms    int64       `json:"ms"` // real milliseconds since the previous tick (since Start for the first)
}

type Case struct {
	Kind   string `json:"kind"`
	K      int    `json:"k"`
	Stream string `json:"stream"`
	// expr
	Expr    string      `json:"expr,omitempty"`
	Verdict int         `json:"verdict"`
	Err     string      `json:"err,omitempty"`
	Obs     [][2]*int64 `json:"obs,omitempty"`
	Ts      []int64     `json:"ts,omitempty"` // instants to ask (input)
	// sched
	Val    *Val  `json:"val,omitempty"`
	Counts []int `json:"counts,omitempty"`
	// seq
	Files   []FileC `json:"files,omitempty"`
	Ops     []Op    `json:"ops,omitempty"`
	Live    bool    `json:"live,omitempty"`
	Hung    bool    `json:"hung,omitempty"`    // a tick of this history hung; the ops after it were skipped
	Skipped bool    `json:"skipped,omitempty"` // history not run at all: too many hung histories before it
	Crashed int     `json:"crashed"`           // index of the op at which the daemon process died (watcher goroutine), -1 none
	Note    string  `json:"note,omitempty"`
}

// ------------------------------------------------------------------------------------------------
// YAML rendering
// ------------------------------------------------------------------------------------------------

func yq(s string) string {
	var b strings.Builder
	b.WriteByte('"')
	for i := 0; i < len(s); i++ {
		c := s[i]
		switch {
		case c == '"':
			b.WriteString("\\\"")
		case c == '\\':
			b.WriteString("\\\\")
		case c == '\t':
			b.WriteString("\\t")
		case c == '\n':
			b.WriteString("\\n")
		case c == '\r':
			b.WriteString("\\r")
		case c < 32 || c >= 127:
			fmt.Fprintf(&b, "\\x%02x", c)
		default:
			b.WriteByte(c)
		}
	}
	b.WriteByte('"')
	return b.String()
}

func (v Val) yaml() string {
	switch {
	case v.S != nil:
		return yq(*v.S)
	case v.O != nil:
		return *v.O
	case v.L != nil:
		var ps []string
		for _, x := range *v.L {
			ps = append(ps, x.yaml())
		}
		return "[" + strings.Join(ps, ", ") + "]"
	case v.M != nil:
		var ps []string
		for _, kv := range *v.M {
			ps = append(ps, kv[0].yaml()+": "+kv[1].yaml())
		}
		return "{" + strings.Join(ps, ", ") + "}"
	}
	return "null"
}

const stepsYAML = "steps:\n  - name: s1\n    command: \"true\"\n"

func (c Content) yaml() string {
	switch c.G {
	case "syntax":
		return "schedule: \"* * * * *\"\nsteps: [ {name: : :\n"
	case "unknownkey":
		return "schedule: \"* * * * *\"\nnosuchfield: 1\n" + stepsYAML
	case "empty":
		return ""
	case "nosched":
		return stepsYAML
	}
	nm := ""
	if c.Nm != "" {
		nm = "name: " + yq(c.Nm) + "\n"
	}
	return nm + "schedule: " + c.V.yaml() + "\n" + stepsYAML
}

func sv(s string) Val { return Val{S: &s} }
func ov(s string) Val { return Val{O: &s} }
func lv(xs ...Val) Val {
	l := append([]Val{}, xs...)
	return Val{L: &l}
}
func mv(kvs ...[]Val) Val {
	m := append([][]Val{}, kvs...)
	return Val{M: &m}
}

// ------------------------------------------------------------------------------------------------
// the real loader under recover()
// ------------------------------------------------------------------------------------------------

func loadYAML(text string) (verdict int, d *dag.DAG, msg string) {
	defer func() {
		if r := recover(); r != nil {
			verdict, d, msg = 2, nil, fmt.Sprint(r)
		}
	}()
	dg, err := dag.LoadYAML([]byte(text))
	if err != nil {
		return 1, nil, err.Error()
	}
	return 0, dg, ""
}

func short(s string) string {
	if len(s) > 160 {
		return s[:160]
	}
	return s
}

func runExpr(c *Case) {
	v, d, msg := loadYAML(Content{V: &Val{S: &c.Expr}}.yaml())
	c.Verdict, c.Err, c.Obs = v, short(msg), nil
	if v != 0 {
		return
	}
	if len(d.Schedule) != 1 || len(d.StopSchedule) != 0 || len(d.RestartSchedule) != 0 {
		c.Verdict, c.Err = 3, "single string form did not yield exactly one start schedule"
		return
	}
	p := d.Schedule[0].Parsed
	for _, t := range c.Ts {
		tt := t
		n := p.Next(time.Unix(t, 0).UTC())
		if n.IsZero() {
			c.Obs = append(c.Obs, [2]*int64{&tt, nil})
		} else {
			if n.Unix()%60 != 0 {
				c.Verdict, c.Err = 3, "Next returned an instant that is not a whole minute"
				return
			}
			m := n.Unix() / 60
			c.Obs = append(c.Obs, [2]*int64{&tt, &m})
		}
	}
}

func runSched(c *Case) {
	v, d, msg := loadYAML(Content{V: c.Val}.yaml())
	c.Verdict, c.Err, c.Counts = v, short(msg), nil
	if v == 0 {
		c.Counts = []int{len(d.Schedule), len(d.StopSchedule), len(d.RestartSchedule)}
	}
}

// ------------------------------------------------------------------------------------------------
// expression generator
// ------------------------------------------------------------------------------------------------

type fb struct {
	min, max int
	names    []string
}

var (
	monthNames = []string{"jan", "feb", "mar", "apr", "may", "jun", "jul", "aug", "sep", "oct", "nov", "dec"}
	dowNames   = []string{"sun", "mon", "tue", "wed", "thu", "fri", "sat"}
	fieldBs    = []fb{{0, 59, nil}, {0, 23, nil}, {1, 31, nil}, {1, 12, monthNames}, {0, 6, dowNames}}
	goodZones  = []string{"", "UTC", "Local", "Etc/UTC", "Asia/Tokyo", "Asia/Kolkata", "Etc/GMT+5", "Etc/GMT-3", "America/Phoenix"}
	badZones   = []string{"Nowhere/Land", "utc0", "Mars/Olympus", "../etc", "UTC\t*"}
)

func zonesAvailable() bool {
	for _, z := range goodZones {
		if _, err := time.LoadLocation(z); err != nil {
			return false
		}
	}
	return true
}

func tameValue(r *vh.Rng, b fb) string {
	v := b.min + r.Below(b.max-b.min+1)
	if len(b.names) > 0 && r.Below(3) == 0 {
		n := b.names[v-b.min]
		switch r.Below(3) {
		case 0:
			n = strings.ToUpper(n)
		case 1:
			n = strings.ToUpper(n[:1]) + n[1:]
		}
		return n
	}
	if r.Below(12) == 0 {
		return fmt.Sprintf("%02d", v)
	}
	return fmt.Sprint(v)
}

func tameAtom(r *vh.Rng, b fb) string {
	lohi := func() string {
		a, c := b.min+r.Below(b.max-b.min+1), b.min+r.Below(b.max-b.min+1)
		if a > c {
			a, c = c, a
		}
		if len(b.names) > 0 && r.Below(4) == 0 {
			return b.names[a-b.min] + "-" + b.names[c-b.min]
		}
		return fmt.Sprintf("%d-%d", a, c)
	}
	step := func() string { return fmt.Sprint(1 + r.Below(8)) }
	switch x := r.Below(100); {
	case x < 35:
		return "*"
	case x < 38:
		return "?"
	case x < 46:
		return "*/" + step()
	case x < 58:
		return lohi()
	case x < 64:
		return lohi() + "/" + step()
	case x < 69:
		return tameValue(r, b) + "/" + step()
	default:
		return tameValue(r, b)
	}
}

func tameField(r *vh.Rng, b fb) string {
	n := 1
	if r.Below(4) == 0 {
		n = 2 + r.Below(3)
	}
	var parts []string
	for i := 0; i < n; i++ {
		parts = append(parts, tameAtom(r, b))
	}
	return strings.Join(parts, ",")
}

func genValue(r *vh.Rng, b fb) string {
	in := func() int { return b.min + r.Below(b.max-b.min+1) }
	switch r.Below(40) {
	case 0:
		return fmt.Sprint(b.max + 1 + r.Below(3)) // out of range above
	case 1:
		if b.min > 0 {
			return "0" // out of range below
		}
		return fmt.Sprint(b.min)
	case 2, 3, 4:
		if len(b.names) > 0 {
			n := b.names[r.Below(len(b.names))]
			switch r.Below(3) {
			case 0:
				n = strings.ToUpper(n)
			case 1:
				n = strings.ToUpper(n[:1]) + n[1:]
			}
			return n
		}
		return fmt.Sprint(in())
	case 5:
		return "0" + fmt.Sprint(in())
	case 6:
		return "+" + fmt.Sprint(in())
	case 7:
		return "-0"
	case 8:
		return []string{"x", "", "1.5", "1a", "0x3", "1_0", "99999999999999999999", "9223372036854775808", "-9223372036854775809", "jan1", "mond"}[r.Below(11)]
	default:
		return fmt.Sprint(in())
	}
}

func genAtom(r *vh.Rng, b fb) string {
	lohi := func() string {
		a, c := b.min+r.Below(b.max-b.min+1), b.min+r.Below(b.max-b.min+1)
		if a > c && r.Below(10) != 0 {
			a, c = c, a
		}
		if len(b.names) > 0 && r.Below(4) == 0 {
			return b.names[a-b.min] + "-" + b.names[c-b.min]
		}
		return fmt.Sprintf("%d-%d", a, c)
	}
	step := func() string { return fmt.Sprint(1 + r.Below(8)) }
	switch x := r.Below(64); {
	case x < 20:
		return "*"
	case x < 22:
		return "?"
	case x < 26:
		return "*/" + step()
	case x == 26:
		return "*/0"
	case x < 33:
		return lohi()
	case x < 36:
		return lohi() + "/" + step()
	case x < 39:
		return genValue(r, b) + "/" + step()
	case x == 39:
		return genValue(r, b) + "-" + genValue(r, b) + "-" + genValue(r, b)
	case x == 40:
		return genValue(r, b) + "/2/3"
	case x == 41:
		return "-1"
	case x == 42:
		return "*/1"
	case x == 43:
		return "*-" + genValue(r, b)
	case x == 44:
		return "?/" + step()
	case x == 45:
		return "*/" + []string{"-1", "x", "", "99999999999999999999", "100"}[r.Below(5)]
	case x == 46:
		return lohi() + "/0"
	default:
		return genValue(r, b)
	}
}

func genField(r *vh.Rng, b fb) string {
	n := 1
	if r.Below(4) == 0 {
		n = 2 + r.Below(3)
	}
	var parts []string
	for i := 0; i < n; i++ {
		parts = append(parts, genAtom(r, b))
	}
	s := strings.Join(parts, ",")
	switch r.Below(200) {
	case 0:
		s = ","
	case 1:
		s += ","
	case 2:
		s = "," + s
	case 3:
		s = strings.Replace(s, ",", ",,", 1)
	}
	return s
}

// a sparse but satisfiable (or not) day specification: month ends, leap days, impossible dates
var sparseDays = []string{"30 2", "29 2", "31 4", "31 4,6,9,11", "31 *", "29 2", "29-31 2", "31 2-4", "1 1", "28-31 *", "29 feb", "31 dec"}

func genExpr(r *vh.Rng, zones bool) (string, string) {
	x := r.Below(100)
	switch {
	case x < 6: // sparse calendar specs
		sd := sparseDays[r.Below(len(sparseDays))]
		mi, h := tameField(r, fieldBs[0]), tameField(r, fieldBs[1])
		if r.Below(2) == 0 {
			mi, h = fmt.Sprint(r.Below(60)), fmt.Sprint(r.Below(24))
		}
		dw := "*"
		if r.Below(4) == 0 {
			dw = tameField(r, fieldBs[4])
		}
		return mi + " " + h + " " + sd + " " + dw, "sparse"
	case x < 12: // wrong number of fields / descriptors / empty
		switch r.Below(8) {
		case 0:
			return "", "shape"
		case 1:
			return "   ", "shape"
		case 2:
			return "* * * *", "shape"
		case 3:
			return "* * * * * *", "shape"
		case 4:
			return []string{"@daily", "@every 1m", "@hourly", "@ * * * *", "@yearly"}[r.Below(5)], "shape"
		case 5:
			return "*", "shape"
		default:
			n := r.Below(8)
			var fs []string
			for i := 0; i < n; i++ {
				fs = append(fs, genField(r, fieldBs[i%5]))
			}
			return strings.Join(fs, " "), "shape"
		}
	}
	var fs []string
	mode := r.Below(100) // 55: every field well-formed; 25: one field from the wild generator; 20: all wild
	wildAt := r.Below(5)
	for i, b := range fieldBs {
		if mode < 55 || (mode < 80 && i != wildAt) {
			fs = append(fs, tameField(r, b))
		} else {
			fs = append(fs, genField(r, b))
		}
	}
	seps := []string{" ", " ", " ", " ", " ", " ", " ", "  ", "\t", " \t "}
	e := ""
	for i, f := range fs {
		if i > 0 {
			e += seps[r.Below(len(seps))]
		}
		e += f
	}
	stream := "fields"
	if r.Below(25) == 0 {
		e = " " + e
	}
	if r.Below(25) == 0 {
		e += []string{" ", "\t", "\n"}[r.Below(3)]
	}
	if x >= 88 { // zone prefixes
		stream = "tz"
		pre := []string{"TZ=", "CRON_TZ="}[r.Below(2)]
		switch y := r.Below(10); {
		case y == 0: // no U+0020 anywhere: the library would slice out of range (the loader refuses the shape first)
			tabbed := strings.NewReplacer(" ", []string{"\t", "\n", "\r", "\v", "\f", "\t\t"}[r.Below(6)]).Replace(strings.TrimSpace(e))
			return pre + []string{"UTC", "", "Asia/Tokyo", "UTC\t*\t*\t*\t*\t*", "UTC\t0", "UTC\n0 0", "UTC" + []string{"\t", "\n", "\r", "\v", "\f"}[r.Below(5)] + tabbed,
				"UTC\t", "\t" + tabbed}[r.Below(9)], stream
		case y == 3: // other white space right after the zone, U+0020 only later (the zone name then contains it)
			return pre + goodZones[r.Below(4)] + []string{"\t", "\n", "\r", "\v", "\f", "\t "}[r.Below(6)] + e, stream
		case y == 1:
			return pre + badZones[r.Below(len(badZones))] + " " + e, stream
		case y == 2:
			return []string{"tz=UTC ", "TZ =UTC ", " TZ=UTC ", "CRONTZ=UTC ", "TZ=UTC  "}[r.Below(5)] + e, stream
		default:
			z := "UTC"
			if zones {
				z = goodZones[r.Below(len(goodZones))]
			} else {
				z = goodZones[r.Below(4)]
			}
			return pre + z + " " + e, stream
		}
	}
	return e, stream
}

var fixedExprs = []string{"TZ=UTC\t0", "CRON_TZ=UTC\n0 0 * * *", "TZ=UTC\t0\t0\t*\t*\t*", "TZ=UTC\t0 0 * * *", "TZ=UTC", "CRON_TZ=Asia/Tokyo", "@daily", "", "   ", "* * * *", "* * * * * *", "0 0 30 2 *", "0 0 29 2 *",
	"0 0 31 4,6 *", "*/15 * * * 1-5", "0 0 1 1 0", "5 4 * * sun", "0 22 * * 1-5", "23 0-20/2 * * *", "0 0 , * *", "0\t0  * * *",
	"* * * * *", "0 0 29 2 1", "0 0 */2 * 1", "0 0 1-31/1 * 1", "59 23 31 12 *", "0 0 1 1 *", "* * 31 2 *", ", * * * *", "* , * * *",
	"TZ=UTC * * * * *", "CRON_TZ=Asia/Tokyo 0 9 * * mon-fri", "TZ= 0 0 * * *", "TZ=Nowhere/Land 0 0 * * *", "0 0 * * 7", "0 0 * * 0-6",
	"0 0 * 13 *", "60 * * * *", "* 24 * * *", "* * 0 * *", "* * 32 * *", "0 0 * JAN-DEC *", "0 0 * * SUN-sat", "0 0 * * sat-sun", "0-59/61 * * * *",
	"*/60 * * * *", "1/70 * * * *", "0 0 * * ?", "? ? ? ? ?", "-0 +0 1 1 *", "0 0 29 2 */8", "00 00 01 01 *", "0 0 1 1 * ", "*-5 * * * *", "*-5/2 * * * *"}

func date(y int, mo time.Month, d, h, mi, s int) int64 {
	return time.Date(y, mo, d, h, mi, s, 0, time.UTC).Unix()
}

func specialInstants() []int64 {
	var ts []int64
	for _, y := range []int{1970, 1999, 2000, 2023, 2024, 2025, 2027, 2028, 2096, 2097, 2099, 2100, 2103, 2104, 2400} {
		ts = append(ts, date(y, 2, 28, 23, 59, 0), date(y, 2, 29, 0, 0, 0)-1, date(y, 3, 1, 0, 0, 0)-1, date(y, 12, 31, 23, 59, 59), date(y, 1, 1, 0, 0, 0),
			date(y, 1, 1, 0, 0, 0)-1, date(y, 2, 29, 12, 30, 0))
		for _, mo := range []time.Month{1, 3, 4, 6, 7, 8, 9, 10, 11, 12} {
			ts = append(ts, date(y, mo+1, 1, 0, 0, 0)-1, date(y, mo, 30, 23, 59, 30))
		}
	}
	ts = append(ts, 0, -1, 59, 60, -60, -61, date(1969, 12, 31, 0, 0, 0), date(1904, 2, 29, 0, 0, 0)-1, date(1900, 2, 28, 23, 59, 59))
	return ts
}

func genInstants(r *vh.Rng, n int, specials []int64, utc bool) []int64 {
	var ts []int64
	for i := 0; i < n; i++ {
		var t int64
		switch x := r.Below(10); {
		case x < 4:
			t = specials[r.Below(len(specials))]
		case x < 6:
			t = specials[r.Below(len(specials))] + int64(r.Below(7200)) - 3600
		default:
			t = 60*(26000000+int64(r.Next()%8000000)) + []int64{-1, -1, -1, 0, 1, 29, 58, 59}[r.Below(8)]
		}
		if !utc && t < 86400*365 {
			t = date(2024, 2, 28, 0, 0, 0) + int64(r.Below(3*86400))
		}
		ts = append(ts, t)
	}
	return ts
}

// ------------------------------------------------------------------------------------------------
// schedule value generator (string / list / start-stop-restart map forms and their malformed variants)
// ------------------------------------------------------------------------------------------------

func genSchedVal(r *vh.Rng, zones bool) Val {
	ex := func() Val {
		switch x := r.Below(20); {
		case x == 0:
			return sv([]string{"TZ=UTC", "TZ=UTC\t0", "CRON_TZ=UTC\n0 0 * * *"}[r.Below(3)]) // the cron library panics on these; the loader refuses them first
		case x < 3:
			return sv([]string{"bad", "* * * *", "61 * * * *", "", "@daily"}[r.Below(5)])
		default:
			return sv([]string{"* * * * *", "*/5 * * * *", "0 0 30 2 *", "0 9 * * mon-fri", "15,45 * * * *", "TZ=UTC 0 0 * * *"}[r.Below(6)])
		}
	}
	item := func() Val {
		switch x := r.Below(14); {
		case x == 0:
			return ov("5")
		case x == 1:
			return Val{N: true}
		case x == 2:
			return lv(ex())
		default:
			return ex()
		}
	}
	list := func() Val {
		n := r.Below(4)
		var xs []Val
		for i := 0; i < n; i++ {
			xs = append(xs, item())
		}
		return lv(xs...)
	}
	switch x := r.Below(20); {
	case x < 3:
		return ex()
	case x < 7:
		return list()
	case x == 7:
		return []Val{ov("5"), ov("true"), ov("1.5"), {N: true}, ov("~")}[r.Below(5)]
	default:
		keys := []string{"start", "stop", "restart"}
		n := 1 + r.Below(3)
		perm := []int{0, 1, 2}
		for i := 2; i > 0; i-- {
			j := r.Below(i + 1)
			perm[i], perm[j] = perm[j], perm[i]
		}
		var kvs [][]Val
		for i := 0; i < n; i++ {
			var v Val
			switch y := r.Below(10); {
			case y < 4:
				v = ex()
			case y < 8:
				v = list()
			case y == 8:
				v = []Val{ov("7"), {N: true}, mv([]Val{sv("a"), sv("* * * * *")})}[r.Below(3)]
			default:
				v = ex()
			}
			kvs = append(kvs, []Val{sv(keys[perm[i]]), v})
		}
		switch r.Below(12) {
		case 0: // unknown key (nil target slice)
			v := ex()
			if r.Below(3) == 0 {
				v = list()
			}
			if r.Below(4) == 0 {
				v = ov("3")
			}
			kvs = append(kvs, []Val{sv([]string{"begin", "Start", "starts", "STOP", ""}[r.Below(5)]), v})
		case 1: // non-string key
			kvs = append(kvs, []Val{[]Val{ov("1"), ov("true"), ov("1.5")}[r.Below(3)], ex()})
		}
		if r.Below(30) == 0 {
			kvs = nil
		}
		return mv(kvs...)
	}
}

// ------------------------------------------------------------------------------------------------
// fake client (records the calls of the daemon's jobs; scripted latest status; suspend set)
// ------------------------------------------------------------------------------------------------

type fakeClient struct {
	client.Client // every method the daemon is not expected to call panics on the nil interface
	mu            sync.Mutex
	hist          map[string]Hist // by file base name
	snap          map[string]Hist // frozen copy read during a tick (nil = read hist)
	susp          map[string]bool // by id (base name without extension)
	calls         [][2]string
	live          bool
	wall          int64
	callTimes     []time.Time     // real time of each call since the last endTick
	firstCallAt   time.Time       // real time of the first call since the last endTick
	suspCalls     int             // entryReader.Read asks once per loaded DAG: tells that a tick has read its entries
	onRead        func()          // run once, inside the next entryReader.Read (under mu)
	block         map[string]bool // DAG files whose Start blocks until release is closed
	release       chan struct{}
	blockedNow    int
}

func (f *fakeClient) status(d *dag.DAG) (*model.Status, error) {
	name := filepath.Base(d.Location)
	src := f.hist
	if f.snap != nil {
		src = f.snap
	}
	h, ok := src[name]
	if !ok {
		h = Hist{Kind: "none"}
	}
	st := model.NewStatusDefault(d)
	switch h.Kind {
	case "err":
		return st, fmt.Errorf("scripted history error")
	case "dash":
		st.StartedAt = "-"
	case "run":
		st.Status = dagscheduler.StatusRunning
		st.StartedAt = time.Unix(h.At, 0).UTC().Format(time.RFC3339)
	case "done":
		st.Status = dagscheduler.StatusSuccess
		st.StartedAt = time.Unix(h.At, 0).UTC().Format(time.RFC3339)
	case "donelegacy":
		st.Status = dagscheduler.StatusError
		st.StartedAt = time.Unix(h.At, 0).UTC().Format("2006-01-02 15:04:05")
	}
	return st, nil
}

func (f *fakeClient) GetLatestStatus(d *dag.DAG) (*model.Status, error) {
	f.mu.Lock()
	defer f.mu.Unlock()
	return f.status(d)
}

func (f *fakeClient) record(kind string, d *dag.DAG) {
	name := filepath.Base(d.Location)
	if f.live {
		// a real start takes a while before the new run is visible as running
		time.Sleep(30 * time.Millisecond)
	}
	f.mu.Lock()
	defer f.mu.Unlock()
	if len(f.calls) == 0 {
		f.firstCallAt = time.Now()
	}
	f.calls = append(f.calls, [2]string{kind, name})
	f.callTimes = append(f.callTimes, time.Now())
	if f.live {
		f.apply(kind, name)
	}
}

func (f *fakeClient) apply(kind, name string) {
	switch kind {
	case "start", "restart":
		f.hist[name] = Hist{Kind: "run", At: f.wall}
	case "stop":
		h := f.hist[name]
		if h.Kind == "run" {
			f.hist[name] = Hist{Kind: "done", At: h.At}
		}
	}
}

func (f *fakeClient) Start(d *dag.DAG, _ client.StartOptions) error {
	f.record("start", d)
	// client.Start returns when the run has ended: a DAG named in `block` keeps its caller until released
	f.mu.Lock()
	ch, blocked := f.release, f.block[filepath.Base(d.Location)]
	if blocked {
		f.blockedNow++
	}
	f.mu.Unlock()
	if blocked && ch != nil {
		<-ch
		f.mu.Lock()
		f.blockedNow--
		f.mu.Unlock()
	}
	return nil
}
func (f *fakeClient) Stop(d *dag.DAG) error { f.record("stop", d); return nil }
func (f *fakeClient) Restart(d *dag.DAG, _ client.RestartOptions) error {
	f.record("restart", d)
	return nil
}
func (f *fakeClient) IsSuspended(id string) bool {
	f.mu.Lock()
	defer f.mu.Unlock()
	f.suspCalls++
	if f.onRead != nil {
		f.onRead()
		f.onRead = nil
	}
	return f.susp[id]
}

// endTick applies the calls of a tick to the scripted history (snapshot mode): any start/restart makes the DAG
// running with start time = wall clock; otherwise a stop ends a running one.
func (f *fakeClient) endTick() [][2]string {
	f.mu.Lock()
	defer f.mu.Unlock()
	calls := f.calls
	f.calls, f.callTimes = nil, nil
	if !f.live {
		started := map[string]bool{}
		for _, c := range calls {
			if c[0] != "stop" {
				started[c[1]] = true
			}
		}
		for _, c := range calls {
			if c[0] == "stop" && !started[c[1]] {
				f.apply("stop", c[1])
			}
		}
		for n := range started {
			f.apply("start", n)
		}
	}
	f.snap = nil
	sort.Slice(calls, func(i, j int) bool {
		if calls[i][1] != calls[j][1] {
			return calls[i][1] < calls[j][1]
		}
		return calls[i][0] < calls[j][0]
	})
	if calls == nil {
		calls = [][2]string{}
	}
	return calls
}

// ------------------------------------------------------------------------------------------------
// logger that reports the watcher's decisions (used only to know when an edit has been processed)
// ------------------------------------------------------------------------------------------------

type evLogger struct {
	ch chan string
}

func (l *evLogger) note(msg string, tags []any) {
	if msg == "Workflow added/updated" || msg == "Workflow removed" || msg == "Workflow load failed" {
		for i := 0; i+1 < len(tags); i += 2 {
			k, _ := tags[i].(string)
			if k == "workflow" || k == "file" {
				if s, ok := tags[i+1].(string); ok {
					select {
					case l.ch <- msg + "|" + filepath.Base(s):
					default:
					}
				}
			}
		}
	}
}
func (l *evLogger) Debug(msg string, tags ...any)       {}
func (l *evLogger) Info(msg string, tags ...any)        { l.note(msg, tags) }
func (l *evLogger) Warn(msg string, tags ...any)        {}
func (l *evLogger) Error(msg string, tags ...any)       { l.note(msg, tags) }
func (l *evLogger) Fatal(msg string, tags ...any)       {}
func (l *evLogger) Debugf(format string, v ...any)      {}
func (l *evLogger) Infof(format string, v ...any)       {}
func (l *evLogger) Warnf(format string, v ...any)       {}
func (l *evLogger) Errorf(format string, v ...any)      {}
func (l *evLogger) Fatalf(format string, v ...any)      {}
func (l *evLogger) With(attrs ...any) logger.Logger     { return l }
func (l *evLogger) WithGroup(name string) logger.Logger { return l }
func (l *evLogger) Write(string)                        {}

// ------------------------------------------------------------------------------------------------
// running one daemon sequence against the real scheduler
// ------------------------------------------------------------------------------------------------

type daemon struct {
	sc   *scheduler.Scheduler
	done chan any
}

func isDagFile(name string) bool {
	e := filepath.Ext(name)
	return e == ".yaml" || e == ".yml"
}

func idOf(name string) string { return strings.TrimSuffix(name, filepath.Ext(name)) }

func newDaemon(dir string, fc *fakeClient, lg logger.Logger) (d *daemon) {
	defer func() {
		if r := recover(); r != nil {
			d = nil // the daemon process dies while scanning the directory
		}
	}()
	cfg := &config.Config{DAGs: dir, WorkDir: dir, LogDir: dir, Executable: "/bin/false"}
	sc := scheduler.New(cfg, lg, fc)
	done := make(chan any)
	sc.VerifStartWatcher(done)
	return &daemon{sc: sc, done: done}
}

// jobsRunning reports whether a goroutine spawned by (*Scheduler).run (one per invoked entry) still exists.
var stackBuf = make([]byte, 1<<19)

func jobsRunning() bool {
	n := runtime.Stack(stackBuf, true)
	return n == len(stackBuf) || bytes.Contains(stackBuf[:n], []byte("(*Scheduler).run"))
}

// runGoroutines counts the goroutines spawned by (*Scheduler).run that still exist.
func runGoroutines() int {
	n := runtime.Stack(stackBuf, true)
	if n == len(stackBuf) {
		return 1 << 20
	}
	k := 0
	for _, g := range bytes.Split(stackBuf[:n], []byte("\n\n")) {
		if bytes.Contains(g, []byte("(*Scheduler).run")) {
			k++
		}
	}
	return k
}

func sortCalls(calls [][2]string) [][2]string {
	out := append([][2]string{}, calls...)
	sort.Slice(out, func(i, j int) bool {
		if out[i][1] != out[j][1] {
			return out[i][1] < out[j][1]
		}
		return out[i][0] < out[j][0]
	})
	return out
}

const tickDeadline = 3 * time.Second

var capHung bool // generation mode only: stop running histories after a few hung ones

var hungSeqs int // histories in which the daemon hung so far (the driver stops running histories after a few)

// waitQuiet returns when the goroutines of the tick have ended: none of them is left on any stack and the number
// of goroutines is back to what it was before the tick.
// loadableDags: does the directory hold at least one DAG file that loads (then the first tick asks IsSuspended)?
func loadableDags(dir string) bool {
	es, _ := os.ReadDir(dir)
	for _, e := range es {
		if isDagFile(e.Name()) {
			ok := func() (ok bool) {
				defer func() {
					if recover() != nil {
						ok = false
					}
				}()
				_, err := dag.LoadMetadata(filepath.Join(dir, e.Name()))
				return err == nil
			}()
			if ok {
				return true
			}
		}
	}
	return false
}

// bootOnce runs the daemon the way `blackdagger scheduler` does - scheduler.New + Scheduler.Start - with the clock
// fixed at wall, lets it execute its immediate first tick, and stops it.  Returns the calls of that tick.
func bootOnce(dir string, fc *fakeClient, lg logger.Logger, wall int64) (calls [][2]string, alive bool) {
	calls = [][2]string{}
	expectRead := loadableDags(dir)
	fc.mu.Lock()
	fc.wall = wall
	fc.suspCalls = 0
	if !fc.live {
		fc.snap = map[string]Hist{}
		for k, v := range fc.hist {
			fc.snap[k] = v
		}
	}
	fc.mu.Unlock()
	scheduler.VerifSetFixedTime(time.Unix(wall, 0).UTC())
	var sc *scheduler.Scheduler
	func() {
		defer func() {
			if recover() != nil {
				sc = nil
			}
		}()
		sc = scheduler.New(&config.Config{DAGs: dir, WorkDir: dir, LogDir: dir, Executable: "/bin/false"}, lg, fc)
	}()
	if sc == nil {
		fc.endTick()
		return calls, false
	}
	ended := make(chan struct{})
	go func() {
		_ = sc.Start(context.Background())
		close(ended)
	}()
	// the first tick has run when its Read has asked about the loaded DAGs (if there is any) and neither run nor
	// one of its job goroutines is left on a stack
	deadline := time.Now().Add(10 * time.Second)
	t0 := time.Now()
	for time.Now().Before(deadline) {
		fc.mu.Lock()
		n := fc.suspCalls
		fc.mu.Unlock()
		if (n > 0 || (!expectRead && time.Since(t0) > 30*time.Millisecond)) && !jobsRunning() {
			break
		}
		time.Sleep(100 * time.Microsecond)
	}
	waitQuiet(runtime.NumGoroutine())
	for i := 0; i < 2000; i++ { // Stop is a no-op until the loop has marked the scheduler as running
		sc.Stop()
		select {
		case <-ended:
			i = 2000
		case <-time.After(time.Millisecond):
		}
	}
	// with the clock fixed at hh:mm:58 the loop arms a 2 s timer for the next minute: on a starved machine that tick
	// may run before Stop gets through.  Only the calls of the first tick count: those within 400 ms of the first call.
	fc.mu.Lock()
	if len(fc.callTimes) == len(fc.calls) && len(fc.calls) > 0 {
		var keep [][2]string
		for i, c := range fc.calls {
			if fc.callTimes[i].Sub(fc.callTimes[0]) < 400*time.Millisecond {
				keep = append(keep, c)
			}
		}
		fc.calls = keep
	}
	fc.mu.Unlock()
	return fc.endTick(), true
}

// loopRun lets the daemon's OWN loop (Scheduler.start: run(t); t = nextTick(t); timer.Reset(t.Sub(now()))) produce n
// consecutive ticks.  Stepped mode: the fixed clock stands 200 ms before the next minute while a tick runs, so the
// loop arms a 200 ms timer; after each observed tick the driver moves the clock to 200 ms before the minute after
// next.  A loop that computes a different next tick (or does not truncate) arms a much longer timer: the tick does
// not arrive within the 2 s allowed and is recorded as empty.  Real mode: the wall clock, one tick per real minute.
// Every loaded DAG is expected to produce a call at every tick it is scheduled for, so a tick is seen by its calls.
func loopRun(dir string, fc *fakeClient, lg logger.Logger, op *Op) bool {
	m0 := op.Wall / 60
	clock := func(k int64) { scheduler.VerifSetFixedTime(time.Unix((m0+k)*60+59, 800_000_000).UTC()) }
	if op.Real {
		scheduler.VerifSetFixedTime(time.Time{})
		for s := time.Now().Second(); s < 2 || s > 50; s = time.Now().Second() {
			time.Sleep(200 * time.Millisecond) // keep the boot tick clear of a minute boundary
		}
	} else if op.Jump > 0 {
		// the daemon boots at op.Wall; while its first tick reads the entries the clock moves forward by op.Jump
		// seconds (stalled host, forward clock step): the loop must catch up with one tick per minute that passed
		scheduler.VerifSetFixedTime(time.Unix(op.Wall, 0).UTC())
		to := time.Unix(op.Wall+op.Jump, 0).UTC()
		fc.mu.Lock()
		fc.onRead = func() { scheduler.VerifSetFixedTime(to) }
		fc.mu.Unlock()
	} else {
		clock(0)
	}
	fc.mu.Lock()
	fc.calls, fc.callTimes, fc.snap = nil, nil, nil
	fc.wall = op.Wall
	fc.mu.Unlock()
	var sc *scheduler.Scheduler
	func() {
		defer func() {
			if recover() != nil {
				sc = nil
			}
		}()
		sc = scheduler.New(&config.Config{DAGs: dir, WorkDir: dir, LogDir: dir, Executable: "/bin/false"}, lg, fc)
	}()
	if sc == nil {
		return false
	}
	ended := make(chan struct{})
	go func() {
		_ = sc.Start(context.Background())
		close(ended)
	}()
	prev := time.Now()
	if op.Jump > 0 {
		// every tick of the catch-up arrives at once: one observation holds the calls of all of them
		deadline := time.Now().Add(10 * time.Second)
		last, n0 := time.Now(), 0
		for time.Now().Before(deadline) {
			fc.mu.Lock()
			n := len(fc.calls)
			fc.mu.Unlock()
			if n != n0 {
				n0, last = n, time.Now()
			}
			if n > 0 && !jobsRunning() && time.Since(last) > 400*time.Millisecond {
				break
			}
			time.Sleep(500 * time.Microsecond)
		}
		t := TickObs{Ms: time.Since(prev).Milliseconds()}
		fc.mu.Lock()
		if n0 > 0 {
			t.At = fc.firstCallAt.Unix()
		}
		fc.wall = op.Wall + op.Jump
		fc.mu.Unlock()
		t.Calls = fc.endTick()
		op.Ticks = append(op.Ticks, t)
	}
	for k := 0; k < op.N && op.Jump == 0; k++ {
		limit := 2 * time.Second
		if k == 0 {
			limit = 10 * time.Second
		}
		if op.Real && k > 0 {
			limit = 75 * time.Second
		}
		deadline := time.Now().Add(limit)
		got := false
		for time.Now().Before(deadline) {
			fc.mu.Lock()
			n := len(fc.calls)
			fc.mu.Unlock()
			if n > 0 && !jobsRunning() {
				got = true
				break
			}
			time.Sleep(200 * time.Microsecond)
		}
		t := TickObs{Ms: time.Since(prev).Milliseconds()}
		prev = time.Now()
		if got {
			fc.mu.Lock()
			t.At = fc.firstCallAt.Unix()
			fc.wall = t.At
			if !op.Real {
				fc.wall = (m0+int64(k))*60 + 59
			}
			fc.mu.Unlock()
		}
		t.Calls = fc.endTick()
		op.Ticks = append(op.Ticks, t)
		if !op.Real {
			time.Sleep(time.Millisecond) // the loop has armed its timer with the clock of this tick
			clock(int64(k) + 1)
		}
	}
	for i := 0; i < 2000; i++ {
		sc.Stop()
		select {
		case <-ended:
			i = 2000
		case <-time.After(time.Millisecond):
		}
	}
	scheduler.VerifSetFixedTime(time.Time{})
	return true
}

func waitQuiet(base int) {
	deadline := time.Now().Add(10 * time.Second)
	for calm := 0; calm < 2 && time.Now().Before(deadline); {
		if runtime.NumGoroutine() > base || jobsRunning() {
			calm = 0
			time.Sleep(20 * time.Microsecond)
		} else {
			calm++
			runtime.Gosched()
		}
	}
}

// waitProbe reads the watcher's log until a message about a probe file numbered >= k0 appears.
func waitProbe(lg *evLogger, k0 int, limit time.Duration) bool {
	deadline := time.After(limit)
	for {
		select {
		case m := <-lg.ch:
			if i := strings.Index(m, "|"+probePrefix); i >= 0 {
				var k int
				if _, err := fmt.Sscanf(m[i+1+len(probePrefix):], "%d.yaml", &k); err == nil && k >= k0 {
					return true
				}
			}
		case <-deadline:
			return false
		}
	}
}

const (
	evUp  = "Workflow added/updated"
	evBad = "Workflow load failed"
	evRm  = "Workflow removed"
)

// barrier returns once the watcher goroutine has processed every event raised so far: an unloadable probe file
// is written (repeatedly while a fresh watcher is still registering the directory) until its load failure is
// logged.  Events are handled in order; the probe's events (load failure, later its removal) do not change the
// daemon's table; the probe files are gone from the directory when barrier returns.
var (
	probeN      int
	probePrefix = fmt.Sprintf("zz-probe-%d-", os.Getpid()) // never confused with a file left by a crashed child
)

func barrier(dir string, lg *evLogger, fresh bool) bool {
	tp := filepath.Join(dir, "probe.tmp")
	ok := false
	if fresh {
		// messages of the initial directory scan (synchronous in scheduler.New) are not watcher events
		for len(lg.ch) > 0 {
			<-lg.ch
		}
	}
	tries, limit := 1, 5*time.Second
	if fresh {
		tries, limit = 2000, 2*time.Millisecond
	}
	k0 := probeN + 1
	for i := 0; i < tries && !ok; i++ {
		probeN++
		_ = os.WriteFile(tp, []byte("steps: [ {name: : :\n"), 0o644)
		_ = os.Rename(tp, filepath.Join(dir, fmt.Sprintf("%s%d.yaml", probePrefix, probeN)))
		ok = waitProbe(lg, k0, limit)
	}
	for k := k0; k <= probeN; k++ {
		_ = os.Remove(filepath.Join(dir, fmt.Sprintf("%s%d.yaml", probePrefix, k)))
	}
	return ok
}

// resume describes where a sequence continues after the daemon process of a previous child died: the directory
// is kept by the parent, the environment (latest statuses, suspend set) is handed over.
type resume struct {
	Dir  string          `json:"dir"`
	From int             `json:"from"`
	Hist map[string]Hist `json:"hist"`
	Susp map[string]bool `json:"susp"`
}

func populate(dir string, c *Case) {
	for _, f := range c.Files {
		if err := os.WriteFile(filepath.Join(dir, f.Name), []byte(f.C.yaml()), 0o644); err != nil {
			panic(err)
		}
	}
}

func runSeq(c *Case, rs *resume, flush func(i int, op *Op, fc *fakeClient)) {
	var dir string
	fc := &fakeClient{hist: map[string]Hist{}, susp: map[string]bool{}, live: c.Live}
	from := 0
	if rs == nil {
		var err error
		dir, err = os.MkdirTemp("", "verif-c09-dags-")
		if err != nil {
			panic(err)
		}
		defer os.RemoveAll(dir)
		populate(dir, c)
	} else {
		dir, from = rs.Dir, rs.From
		for k, v := range rs.Hist {
			fc.hist[k] = v
		}
		for k, v := range rs.Susp {
			fc.susp[k] = v
		}
	}
	lg := &evLogger{ch: make(chan string, 256)}
	var d *daemon
	stop := func() {
		if d != nil {
			close(d.done)
			d = nil
			// the watcher's goroutines wind down asynchronously; waitQuiet does not depend on their number
		}
	}
	defer func() {
		stop()
		scheduler.VerifSetFixedTime(time.Time{})
	}()
	c.Crashed = -1
	tmpn := 0
	booted := false
	stuck, hung := false, false // the watcher did not answer a barrier / a tick did not return
	for i := from; i < len(c.Ops); i++ {
		op := &c.Ops[i]
		op.Calls, op.Synced = [][2]string{}, true
		switch op.Op {
		case "restart":
			stop()
			booted, stuck = false, false
			lg = &evLogger{ch: make(chan string, 256)} // the previous instance's watcher may still be winding down
			d = newDaemon(dir, fc, lg)
			if d != nil {
				op.Synced = barrier(dir, lg, true)
			}
		case "loop":
			stop()
			lg = &evLogger{ch: make(chan string, 256)}
			op.Ticks = nil
			op.Alive = loopRun(dir, fc, lg, op)
			if !op.Real && op.Jump == 0 {
				// the stepped clock leaves the driver 200 ms per tick; a starved machine may miss the window once
				stalled := false
				for _, t := range op.Ticks {
					stalled = stalled || len(t.Calls) == 0
				}
				if stalled {
					op.Ticks = nil
					lg = &evLogger{ch: make(chan string, 256)}
					op.Alive = loopRun(dir, fc, lg, op)
				}
			}
			booted = op.Alive
			if flush != nil {
				flush(i, op, fc)
			}
			continue
		case "boot":
			// the real Scheduler.Start at wall-clock instant op.Wall: initial scan, watcher, and the immediate first tick
			// for the minute the daemon believes it is in; the daemon is stopped right after that tick
			stop()
			lg = &evLogger{ch: make(chan string, 256)}
			op.Calls, op.Alive = bootOnce(dir, fc, lg, op.Wall)
			booted = op.Alive // stopped only to keep it from ticking on its own: "alive" in the model's sense
			if flush != nil {
				flush(i, op, fc)
			}
			continue
		case "tick":
			if d != nil {
				fc.mu.Lock()
				fc.wall = op.Wall
				if !fc.live {
					fc.snap = map[string]Hist{}
					for k, v := range fc.hist {
						fc.snap[k] = v
					}
				}
				fc.mu.Unlock()
				scheduler.VerifSetFixedTime(time.Unix(op.Wall, 0).UTC())
				base := runtime.NumGoroutine()
				if len(op.Block) > 0 {
					fc.mu.Lock()
					fc.block, fc.release = map[string]bool{}, make(chan struct{})
					for _, b := range op.Block {
						fc.block[b] = true
					}
					fc.mu.Unlock()
				}
				// watchdog: a daemon whose entry reader is blocked (lock never released) would keep run() forever
				ret := make(chan struct{})
				sc := d.sc
				go func() {
					sc.VerifRunTick(time.Unix(op.M*60, 0).UTC())
					close(ret)
				}()
				select {
				case <-ret:
				case <-time.After(tickDeadline):
					op.Hung = true
				}
				if op.Hung {
					op.Calls = fc.endTick()
					hung = true
				} else if len(op.Block) > 0 {
					// the tick has been observed when every goroutine it spawned has ended or sits in a blocked Start
					deadline := time.Now().Add(3 * time.Second)
					for calm := 0; calm < 2 && time.Now().Before(deadline); {
						fc.mu.Lock()
						b := fc.blockedNow
						fc.mu.Unlock()
						if runGoroutines() == b {
							calm++
						} else {
							calm = 0
						}
						time.Sleep(50 * time.Microsecond)
					}
					fc.mu.Lock()
					n0 := len(fc.calls)
					early := sortCalls(fc.calls)
					close(fc.release)
					fc.mu.Unlock()
					waitQuiet(base)
					fc.mu.Lock()
					late := sortCalls(fc.calls[n0:])
					fc.block, fc.release = nil, nil
					fc.mu.Unlock()
					fc.endTick()
					op.Calls, op.Late = early, late
				} else {
					waitQuiet(base)
					op.Calls = fc.endTick()
				}
			}
		case "hist":
			fc.mu.Lock()
			fc.hist[op.F] = *op.H
			fc.mu.Unlock()
		case "suspend":
			fc.mu.Lock()
			fc.susp[idOf(op.F)] = op.On
			fc.mu.Unlock()
		case "write":
			p := filepath.Join(dir, op.F)
			if op.Style == "inplace" {
				// writing in place truncates first and the watcher may load the empty file in between; that is
				// harmless only if the final content loads.  An unloadable content is written atomically instead
				// (whatever the source of the case: generator, corpus, replay file).
				if v, _, _ := loadYAML(op.C.yaml()); v != 0 {
					op.Style = "rename"
				}
			}
			if op.Style == "inplace" {
				if err := os.WriteFile(p, []byte(op.C.yaml()), 0o644); err != nil {
					panic(err)
				}
			} else {
				tmpn++
				tp := filepath.Join(dir, fmt.Sprintf("edit-%d.tmp", tmpn))
				if err := os.WriteFile(tp, []byte(op.C.yaml()), 0o644); err != nil {
					panic(err)
				}
				if err := os.Rename(tp, p); err != nil {
					panic(err)
				}
			}
		case "remove":
			_ = os.Remove(filepath.Join(dir, op.F))
		case "rename":
			_ = os.Rename(filepath.Join(dir, op.F), filepath.Join(dir, op.To))
		}
		if d != nil && (op.Op == "write" || op.Op == "remove" || op.Op == "rename") {
			if stuck {
				op.Synced = false // the watcher already failed to answer once: do not wait for it again
			} else {
				op.Synced = barrier(dir, lg, false)
				stuck = !op.Synced
			}
		}
		op.Alive = d != nil || booted
		if flush != nil {
			flush(i, op, fc)
		}
		if hung {
			// the daemon of this history is blocked for good: the remaining ops are not executed
			c.Hung = true
			hungSeqs++
			for j := i + 1; j < len(c.Ops); j++ {
				c.Ops[j].Calls, c.Ops[j].Synced, c.Ops[j].Skipped, c.Ops[j].Alive = [][2]string{}, true, true, op.Alive
				if flush != nil {
					flush(j, &c.Ops[j], fc)
				}
			}
			return
		}
	}
}

// runSeqChild runs the sequence in child processes, because a panic inside the watcher goroutine cannot be
// recovered: it ends the process, exactly as it ends the real daemon.  The observations written before the crash
// are kept; the op during which the process died is recorded as such; the rest of the history continues in a fresh
// child with the same directory and environment and no daemon (until the next restart op).
type childRec struct {
	I    int             `json:"i"`
	O    Op              `json:"o"`
	Hist map[string]Hist `json:"hist"`
	Susp map[string]bool `json:"susp"`
}

type childReq struct {
	C  Case    `json:"c"`
	Rs *resume `json:"rs"`
}

func runSeqChild(self string, c *Case, scratch string) {
	in := filepath.Join(scratch, fmt.Sprintf("child-%d.json", c.K))
	out := filepath.Join(scratch, fmt.Sprintf("child-%d.out", c.K))
	dir, err := os.MkdirTemp("", "verif-c09-dags-")
	if err != nil {
		panic(err)
	}
	defer os.RemoveAll(dir)
	populate(dir, c)
	rs := &resume{Dir: dir, From: 0, Hist: map[string]Hist{}, Susp: map[string]bool{}}
	c.Crashed = -1
	for round := 0; round < 12 && rs.From < len(c.Ops); round++ {
		b, _ := json.Marshal(childReq{C: *c, Rs: rs})
		_ = os.WriteFile(in, b, 0o644)
		_ = os.Remove(out)
		cmd := exec.Command(self, "child", in, out)
		cmd.Env = os.Environ()
		msg, err := cmd.CombinedOutput()
		next := rs.From
		if data, e := os.ReadFile(out); e == nil {
			for _, line := range strings.Split(string(data), "\n") {
				if strings.TrimSpace(line) == "" {
					continue
				}
				var rec childRec
				if json.Unmarshal([]byte(line), &rec) == nil && rec.I == next {
					c.Ops[rec.I] = rec.O
					rs.Hist, rs.Susp = rec.Hist, rec.Susp
					next++
				}
			}
		}
		if left, _ := filepath.Glob(filepath.Join(dir, "zz-probe-*.yaml")); len(left) > 0 {
			for _, f := range left { // probe files of a child that died inside barrier
				_ = os.Remove(f)
			}
		}
		_ = os.Remove(filepath.Join(dir, "probe.tmp"))
		if next < len(c.Ops) {
			// the process died during op `next` (its file operation has been carried out)
			if c.Crashed < 0 {
				c.Crashed = next
				if err != nil {
					s := string(msg)
					if k := strings.Index(s, "panic:"); k >= 0 {
						s = s[k:]
					}
					c.Note = short(s)
				}
			}
			c.Ops[next].Calls, c.Ops[next].Alive, c.Ops[next].Synced = [][2]string{}, false, true
			next++
		}
		rs.From = next
	}
	_ = os.Remove(in)
	_ = os.Remove(out)
}

func childMain(in, out string) {
	data, err := os.ReadFile(in)
	if err != nil {
		panic(err)
	}
	var rq childReq
	if err := json.Unmarshal(data, &rq); err != nil {
		panic(err)
	}
	f, err := os.Create(out)
	if err != nil {
		panic(err)
	}
	runSeq(&rq.C, rq.Rs, func(i int, op *Op, fc *fakeClient) {
		fc.mu.Lock()
		b, _ := json.Marshal(childRec{I: i, O: *op, Hist: fc.hist, Susp: fc.susp})
		fc.mu.Unlock()
		f.Write(append(b, '\n'))
	})
	f.Close()
}

// ------------------------------------------------------------------------------------------------
// daemon sequence generator
// ------------------------------------------------------------------------------------------------

func civilExpr(r *vh.Rng, m0 int64, span int) string {
	// an expression that fires a few times within [m0, m0+span): fields taken from the civil time of nearby minutes
	pick := func() time.Time { return time.Unix((m0+int64(r.Below(span)))*60, 0).UTC() }
	switch x := r.Below(20); {
	case x < 5:
		return "* * * * *"
	case x < 8:
		return fmt.Sprintf("*/%d * * * *", 2+r.Below(3))
	case x < 13:
		var ms []string
		for i := 0; i < 1+r.Below(3); i++ {
			ms = append(ms, fmt.Sprint(pick().Minute()))
		}
		return strings.Join(ms, ",") + " * * * *"
	case x < 15:
		t := pick()
		return fmt.Sprintf("%d %d %d %d *", t.Minute(), t.Hour(), t.Day(), int(t.Month()))
	case x == 15:
		t := pick()
		return fmt.Sprintf("%d-%d %d * * %s", t.Minute(), min(59, t.Minute()+2), t.Hour(), dowNames[int(t.Weekday())])
	case x == 16:
		t := pick()
		return fmt.Sprintf("* * %d * %d", t.Day(), (int(t.Weekday())+3)%7) // dom OR dow
	case x == 17:
		return []string{"0 0 30 2 *", "* * 31 4 *", "0 0 31 2,4,6 *"}[r.Below(3)] // no activation within the horizon (F9a)
	case x == 18:
		t := pick()
		return fmt.Sprintf("TZ=UTC %d * * * *", t.Minute())
	default:
		t := pick()
		return fmt.Sprintf("%d %d * * *", t.Minute(), t.Hour())
	}
}

// genContent: a file content; a third of the schedule-bearing ones carry an explicit `name:` that differs from the
// file-derived id (often the id of ANOTHER file of the directory): suspension and history go by file, not by name.
func genContent(r *vh.Rng, m0 int64, span int, allowPanic bool) Content {
	c := genContent0(r, m0, span, allowPanic)
	if c.V != nil && r.Below(3) == 0 {
		c.Nm = []string{"d0", "d1", "d2", "d3", "d4", "nightly job", "x"}[r.Below(7)]
	}
	return c
}

func genContent0(r *vh.Rng, m0 int64, span int, allowPanic bool) Content {
	ex := func() Val { return sv(civilExpr(r, m0, span)) }
	exs := func() Val {
		if r.Below(2) == 0 {
			return ex()
		}
		n := 1 + r.Below(3)
		var xs []Val
		for i := 0; i < n; i++ {
			xs = append(xs, ex())
		}
		return lv(xs...)
	}
	switch x := r.Below(40); {
	case x < 3:
		return Content{G: []string{"syntax", "unknownkey"}[r.Below(2)]}
	case x == 3:
		return Content{G: []string{"empty", "nosched"}[r.Below(2)]}
	case x < 6: // load error through the schedule value
		v := []Val{sv("61 * * * *"), lv(sv("* * * * *"), ov("5")), ov("7"), mv([]Val{sv("start"), sv("* * * *")}), mv([]Val{ov("1"), sv("* * * * *")}),
			sv("CRON_TZ=Nowhere/Land * * * * *")}[r.Below(6)]
		return Content{V: &v}
	case x == 6 && allowPanic: // shapes on which the loader used to panic (F13a unknown map key, F13b zone prefix without a space; repaired: load errors)
		v := []Val{mv([]Val{sv("begin"), sv("* * * * *")}), sv("TZ=UTC"), lv(sv("* * * * *"), sv("CRON_TZ=UTC")),
			mv([]Val{sv("Start"), lv(sv("* * * * *"))}), sv("TZ=UTC\t0"), lv(sv("* * * * *"), sv("CRON_TZ=UTC\n* * * * *")),
			mv([]Val{sv("stop"), sv("TZ=UTC\t*\t*\t*\t*\t*")})}[r.Below(7)]
		return Content{V: &v}
	case x < 16:
		v := ex()
		return Content{V: &v}
	case x < 22:
		v := exs()
		return Content{V: &v}
	default:
		var kvs [][]Val
		if r.Below(5) != 0 {
			kvs = append(kvs, []Val{sv("start"), exs()})
		}
		if r.Below(2) == 0 {
			kvs = append(kvs, []Val{sv("stop"), exs()})
		}
		if r.Below(3) == 0 {
			kvs = append(kvs, []Val{sv("restart"), exs()})
		}
		v := mv(kvs...)
		return Content{V: &v}
	}
}

var seqStarts = []int64{}

func init() {
	for _, y := range []int{2023, 2024, 2025, 2028, 2100} {
		seqStarts = append(seqStarts, date(y, 2, 28, 23, 50, 0)/60, date(y, 12, 31, 23, 45, 0)/60, date(y, 4, 30, 23, 52, 0)/60, date(y, 3, 1, 0, 0, 0)/60-3)
	}
}

func genSeq(r *vh.Rng, k int, thorough bool) Case {
	c := Case{Kind: "seq", K: k, Stream: "daemon", Crashed: -1}
	var m0 int64
	if r.Below(3) == 0 {
		m0 = seqStarts[r.Below(len(seqStarts))]
	} else {
		m0 = 27000000 + int64(r.Next()%4000000)
	}
	nops := 14 + r.Below(22)
	if thorough {
		nops = 20 + r.Below(60)
	}
	span := nops
	allowPanic := r.Below(6) == 0
	names := []string{"d0.yaml", "d1.yaml", "d2.yml", "d3.yaml", "d4.yml", "notes.txt", "d5.yaml.bak"}
	nf := 1 + r.Below(4)
	present := map[string]bool{}
	for i := 0; i < nf; i++ {
		n := names[r.Below(len(names))]
		if present[n] {
			continue
		}
		present[n] = true
		c.Files = append(c.Files, FileC{Name: n, C: genContent(r, m0, span, allowPanic && r.Below(3) == 0)})
	}
	m := m0
	wall := m * 60
	c.Ops = append(c.Ops, Op{Op: "restart"})
	anyName := func() string {
		var ps []string
		for n := range present {
			ps = append(ps, n)
		}
		sort.Strings(ps)
		if len(ps) == 0 || r.Below(6) == 0 {
			return names[r.Below(len(names))]
		}
		return ps[r.Below(len(ps))]
	}
	for len(c.Ops) < nops {
		switch x := r.Below(100); {
		case x < 52: // tick
			if wall < m*60 {
				wall = m * 60
			}
			wall += int64(r.Below(3)) * int64(r.Below(40))
			c.Ops = append(c.Ops, Op{Op: "tick", M: m, Wall: wall})
			m++
			if r.Below(3) != 0 {
				wall = max(wall, m*60) // on time; otherwise the next tick is late / bunched
			}
		case x < 64: // history change: run ends, manual start, error, cleanup
			f := anyName()
			var h Hist
			switch y := r.Below(16); {
			case y < 6: // the latest run ends (or a manual run started and ended just now)
				h = Hist{Kind: "done", At: wall - int64(r.Below(3))*int64(r.Below(100))}
			case y < 10:
				h = Hist{Kind: "run", At: wall - int64(r.Below(3))*int64(r.Below(50))}
			case y < 12: // history rewritten to an older run
				h = Hist{Kind: "done", At: wall - int64(r.Below(400))}
			case y == 12:
				h = Hist{Kind: "err"}
			case y == 13:
				h = Hist{Kind: "dash"}
			case y == 14:
				h = Hist{Kind: "donelegacy", At: wall - int64(r.Below(90))}
			default:
				h = Hist{Kind: "none"}
			}
			c.Ops = append(c.Ops, Op{Op: "hist", F: f, H: &h})
		case x < 70:
			c.Ops = append(c.Ops, Op{Op: "suspend", F: anyName(), On: r.Below(3) != 0})
		case x < 84: // edit / add a file
			f := anyName()
			ct := genContent(r, m, span, allowPanic)
			style := "rename"
			if r.Below(3) == 0 {
				// writing in place truncates first: the watcher may load the empty file in between, which is harmless
				// only if the final content loads (an unloadable final content would otherwise leave an empty entry)
				if v, _, _ := loadYAML(ct.yaml()); v == 0 {
					style = "inplace"
				}
			}
			present[f] = true
			c.Ops = append(c.Ops, Op{Op: "write", F: f, C: &ct, Style: style})
		case x < 88:
			f := anyName()
			delete(present, f)
			c.Ops = append(c.Ops, Op{Op: "remove", F: f})
		case x < 91:
			f, g := anyName(), names[r.Below(len(names))]
			if f != g && present[f] {
				delete(present, f)
				present[g] = true
				c.Ops = append(c.Ops, Op{Op: "rename", F: f, To: g})
			}
		default: // daemon restart: the tick restarts at the wall-clock minute (possibly the minute just ticked)
			switch r.Below(4) {
			case 0:
				wall += int64(r.Below(600))
			case 1:
				wall += int64(r.Below(30))
			}
			c.Ops = append(c.Ops, Op{Op: "restart"})
			m = wall / 60
		}
	}
	return c
}

// genBoot: a short history around one or two boots of the real daemon (Scheduler.Start) inside / after a scheduled
// minute, with the histories that make the start guard true or false.
func genBoot(r *vh.Rng, k int) Case {
	c := Case{Kind: "seq", K: k, Stream: "boot", Crashed: -1}
	var m int64
	if r.Below(3) == 0 {
		m = seqStarts[r.Below(len(seqStarts))] + int64(r.Below(20))
	} else {
		m = 27000000 + int64(r.Next()%4000000)
	}
	names := []string{"d0.yaml", "d1.yaml", "d2.yml"}
	nf := 1 + r.Below(3)
	for i := 0; i < nf; i++ {
		c.Files = append(c.Files, FileC{Name: names[i], C: genContent(r, m, 3, false)})
	}
	wall := m*60 + int64(r.Below(60))
	pre := func() {
		for i := 0; i < r.Below(3); i++ {
			f := names[r.Below(nf)]
			switch r.Below(6) {
			case 0:
				c.Ops = append(c.Ops, Op{Op: "suspend", F: f, On: true})
			case 1:
				h := Hist{Kind: "run", At: wall - int64(r.Below(400))}
				c.Ops = append(c.Ops, Op{Op: "hist", F: f, H: &h})
			case 2:
				h := Hist{Kind: "done", At: m * 60} // started at exactly hh:mm:00 of the minute
				c.Ops = append(c.Ops, Op{Op: "hist", F: f, H: &h})
			default:
				h := Hist{Kind: "done", At: wall - int64(r.Below(200))}
				c.Ops = append(c.Ops, Op{Op: "hist", F: f, H: &h})
			}
		}
	}
	pre()
	c.Ops = append(c.Ops, Op{Op: "boot", Wall: wall})
	for i := 0; i < r.Below(3); i++ {
		wall += []int64{0, 1, 20, 45, 60, 90}[r.Below(6)]
		if r.Below(2) == 0 {
			f := names[r.Below(nf)]
			h := Hist{Kind: "done", At: wall - int64(r.Below(30))}
			c.Ops = append(c.Ops, Op{Op: "hist", F: f, H: &h})
		}
		c.Ops = append(c.Ops, Op{Op: "boot", Wall: wall})
	}
	return c
}

// genBlocking: several DAGs due at the same minutes while the Start of one of them does not return (a long run):
// every other DAG must still get its call in the same tick.
func genBlocking(r *vh.Rng, k int) Case {
	c := Case{Kind: "seq", K: k, Stream: "blocking", Crashed: -1}
	m := 27000000 + int64(r.Next()%4000000)
	nf := 3 + r.Below(3)
	names := []string{"d0.yaml", "d1.yaml", "d2.yml", "d3.yaml", "d4.yml"}[:nf]
	for i, n := range names {
		var v Val
		switch {
		case i > 0 && r.Below(4) == 0:
			v = mv([]Val{sv("start"), sv("* * * * *")}, []Val{sv("restart"), sv("*/2 * * * *")})
		case r.Below(3) == 0:
			v = lv(sv("* * * * *"), sv("*/3 * * * *"))
		default:
			v = sv("* * * * *")
		}
		c.Files = append(c.Files, FileC{Name: n, C: Content{V: &v}})
	}
	c.Ops = append(c.Ops, Op{Op: "restart"})
	for t := 0; t < 3; t++ {
		wall := (m+int64(t))*60 + int64(r.Below(20))
		if t > 0 {
			for _, n := range names { // the runs of the previous minute have ended
				h := Hist{Kind: "done", At: (m+int64(t)-1)*60 + 5}
				c.Ops = append(c.Ops, Op{Op: "hist", F: n, H: &h})
			}
		}
		blk := []string{names[r.Below(nf)]}
		if r.Below(3) == 0 {
			blk = append(blk, names[r.Below(nf)])
		}
		c.Ops = append(c.Ops, Op{Op: "tick", M: m + int64(t), Wall: wall, Block: blk})
	}
	return c
}

func hasPanicContent(c *Case) bool {
	chk := func(ct *Content) bool {
		if ct == nil || ct.V == nil {
			return false
		}
		v, _, _ := loadYAML(ct.yaml())
		return v == 2
	}
	for i := range c.Files {
		if chk(&c.Files[i].C) {
			return true
		}
	}
	for i := range c.Ops {
		if chk(c.Ops[i].C) {
			return true
		}
	}
	return false
}

// fixed sequences: the findings in their smallest form
func fixedSeqs() []Case {
	m := date(2024, 5, 10, 12, 0, 0) / 60
	ticks := func(n int) []Op {
		ops := []Op{{Op: "restart"}}
		for i := 0; i < n; i++ {
			ops = append(ops, Op{Op: "tick", M: m + int64(i), Wall: (m + int64(i)) * 60})
		}
		return ops
	}
	f := func(name string, v Val) FileC { return FileC{Name: name, C: Content{V: &v}} }
	var cs []Case
	// F9a (repaired in /repo, 24d4f27): no activation within the horizon; the entry used to be invoked at every tick
	cs = append(cs, Case{Kind: "seq", Stream: "fixed-f9a", Files: []FileC{f("d0.yaml", sv("0 0 30 2 *"))}, Ops: ticks(3)})
	cs = append(cs, Case{Kind: "seq", Stream: "fixed-f9a", Files: []FileC{f("d0.yaml", mv([]Val{sv("restart"), sv("0 0 30 2 *")}))}, Ops: ticks(3)})
	{
		ops := ticks(3)
		h := Hist{Kind: "run", At: m*60 - 30}
		ops = append([]Op{ops[0], {Op: "hist", F: "d0.yaml", H: &h}}, ops[1:]...)
		cs = append(cs, Case{Kind: "seq", Stream: "fixed-f9a", Files: []FileC{f("d0.yaml", mv([]Val{sv("stop"), sv("0 0 30 2 *")}))}, Ops: ops})
	}
	// F9b (repaired in /repo, 7357cf4): two start schedules matching one minute used to start the DAG twice
	cs = append(cs, Case{Kind: "seq", Stream: "fixed-f9b", Files: []FileC{f("d0.yaml", lv(sv("* * * * *"), sv("*/2 * * * *")))}, Ops: ticks(2)})
	cs = append(cs, Case{Kind: "seq", Stream: "fixed-f9b-live", Live: true, Files: []FileC{f("d0.yaml", lv(sv("* * * * *"), sv("*/2 * * * *")))}, Ops: ticks(1)})
	// F13a / F13b (repaired in /repo: the files now merely fail to load) at the initial scan and through the watcher
	cs = append(cs, Case{Kind: "seq", Stream: "fixed-f13a", Files: []FileC{f("d0.yaml", sv("* * * * *")), f("d1.yaml", mv([]Val{sv("begin"), sv("* * * * *")}))}, Ops: ticks(2)})
	cs = append(cs, Case{Kind: "seq", Stream: "fixed-f13b", Files: []FileC{f("d0.yaml", sv("* * * * *")), f("d1.yaml", sv("TZ=UTC"))}, Ops: ticks(2)})
	cs = append(cs, Case{Kind: "seq", Stream: "fixed-f13b", Files: []FileC{f("d0.yaml", sv("* * * * *")), f("d1.yaml", sv("TZ=UTC\t0"))}, Ops: ticks(2)})
	{
		ops := ticks(1)
		ct := Content{V: &Val{}}
		*ct.V = sv("CRON_TZ=UTC\n0\t0\t*\t*\t*")
		ops = append(ops, Op{Op: "write", F: "d1.yaml", C: &ct, Style: "rename"}, Op{Op: "tick", M: m + 1, Wall: (m + 1) * 60})
		cs = append(cs, Case{Kind: "seq", Stream: "fixed-f13b-watch", Files: []FileC{f("d0.yaml", sv("* * * * *"))}, Ops: ops})
	}
	{
		ops := ticks(1)
		ct := Content{V: &Val{}}
		*ct.V = sv("CRON_TZ=UTC")
		ops = append(ops, Op{Op: "write", F: "d1.yaml", C: &ct, Style: "rename"}, Op{Op: "tick", M: m + 1, Wall: (m + 1) * 60})
		cs = append(cs, Case{Kind: "seq", Stream: "fixed-f13b-watch", Files: []FileC{f("d0.yaml", sv("* * * * *"))}, Ops: ops})
	}
	{
		ops := ticks(1)
		ct := Content{V: &Val{}}
		*ct.V = mv([]Val{sv("starts"), lv(sv("* * * * *"))})
		ops = append(ops, Op{Op: "write", F: "d1.yaml", C: &ct, Style: "inplace"}, Op{Op: "tick", M: m + 1, Wall: (m + 1) * 60})
		cs = append(cs, Case{Kind: "seq", Stream: "fixed-f13a-watch", Files: []FileC{f("d0.yaml", sv("* * * * *"))}, Ops: ops})
	}
	// the "already started in this minute" guard at its edge: the previous run started at EXACTLY hh:mm:00 of the
	// ticked minute and has ended; the daemon is restarted inside the minute and ticks it again -> no second start.
	// Bunched variant: the tick of minute m runs late, exactly at (m+1):00; the tick of m+1 follows at once.
	{
		h1 := Hist{Kind: "done", At: m * 60}
		ops := []Op{{Op: "restart"}, {Op: "tick", M: m, Wall: m * 60}, {Op: "hist", F: "d0.yaml", H: &h1}, {Op: "restart"},
			{Op: "tick", M: m, Wall: m*60 + 30}, {Op: "tick", M: m + 1, Wall: (m + 1) * 60}}
		cs = append(cs, Case{Kind: "seq", Stream: "fixed-same-minute", Files: []FileC{f("d0.yaml", sv("* * * * *"))}, Ops: ops})
		h2 := Hist{Kind: "done", At: (m + 1) * 60}
		ops2 := []Op{{Op: "restart"}, {Op: "tick", M: m, Wall: (m + 1) * 60}, {Op: "hist", F: "d0.yaml", H: &h2},
			{Op: "tick", M: m + 1, Wall: (m + 1) * 60}, {Op: "tick", M: m + 2, Wall: (m + 2) * 60}}
		cs = append(cs, Case{Kind: "seq", Stream: "fixed-same-minute-bunched", Files: []FileC{f("d0.yaml", sv("* * * * *"))}, Ops: ops2})
	}
	// suspension goes by the file-derived id, not by the DAG's `name:`: d0.yaml is named "d1", d1.yaml is named "d0"
	{
		v0, v1 := sv("* * * * *"), sv("* * * * *")
		files := []FileC{{Name: "d0.yaml", C: Content{V: &v0, Nm: "d1"}}, {Name: "d1.yaml", C: Content{V: &v1, Nm: "d0"}}}
		ops := []Op{{Op: "restart"}, {Op: "suspend", F: "d0.yaml", On: true}, {Op: "tick", M: m, Wall: m * 60},
			{Op: "suspend", F: "d0.yaml", On: false}, {Op: "suspend", F: "d1.yaml", On: true}, {Op: "tick", M: m + 1, Wall: (m+1)*60 + 70}}
		cs = append(cs, Case{Kind: "seq", Stream: "fixed-name-vs-id", Files: files, Ops: ops})
	}
	// the real Scheduler.Start: a daemon booted inside minute m runs its first tick for m (the minute is truncated) -
	// at hh:mm:00, at hh:mm:30, and one minute later at (hh:mm+1):30 for a schedule that fires at hh:mm only
	{
		t := time.Unix(m*60, 0).UTC()
		only := sv(fmt.Sprintf("%d %d * * *", t.Minute(), t.Hour()))
		for _, w := range []int64{m * 60, m*60 + 30, (m+1)*60 + 30} {
			cs = append(cs, Case{Kind: "seq", Stream: "fixed-boot", Files: []FileC{f("d0.yaml", only)}, Ops: []Op{{Op: "boot", Wall: w}}})
		}
		// restarted inside the minute: no run yet -> the minute is started; already started in this minute -> not again
		h := Hist{Kind: "done", At: m*60 + 5}
		cs = append(cs, Case{Kind: "seq", Stream: "fixed-boot", Files: []FileC{f("d0.yaml", only)},
			Ops: []Op{{Op: "boot", Wall: m*60 + 5}, {Op: "hist", F: "d0.yaml", H: &h}, {Op: "boot", Wall: m*60 + 40}}})
		hr := Hist{Kind: "run", At: m*60 - 300}
		cs = append(cs, Case{Kind: "seq", Stream: "fixed-boot", Files: []FileC{f("d0.yaml", only), f("d1.yaml", sv("* * * * *"))},
			Ops: []Op{{Op: "hist", F: "d0.yaml", H: &hr}, {Op: "suspend", F: "d1.yaml", On: true}, {Op: "boot", Wall: m*60 + 59}}})
	}
	// the daemon's own loop over consecutive ticks (nextTick + timer.Reset), clock stepped by the driver: file d<j>
	// restarts at minute m+j only, so the calls tell which minute each tick of the loop was for
	for _, mm := range []int64{m, date(2024, 12, 31, 23, 58, 0) / 60, date(2024, 2, 28, 23, 59, 0) / 60, date(2025, 3, 30, 0, 58, 0) / 60} {
		n := 4
		var files []FileC
		for j := 0; j <= n; j++ {
			t := time.Unix((mm+int64(j))*60, 0).UTC()
			files = append(files, f(fmt.Sprintf("d%d.yaml", j), mv([]Val{sv("restart"), sv(fmt.Sprintf("%d %d * * *", t.Minute(), t.Hour()))})))
		}
		cs = append(cs, Case{Kind: "seq", Stream: "fixed-loop", Files: files, Ops: []Op{{Op: "loop", Wall: mm*60 + 59, N: n}}})
	}
	// late / bunched ticks produced by the daemon's own loop: booted at hh:mm:20, the clock jumps to (hh:mm+2):10 (and,
	// second case, by five minutes across midnight) while the boot tick is reading: the minutes that passed are caught
	// up one tick each - d<j> restarts at minute m+j only
	for _, jc := range [][2]int64{{m*60 + 20, 110}, {date(2024, 12, 31, 23, 57, 40), 300}} {
		mm := jc[0] / 60
		n := int((jc[0]+jc[1])/60-mm) + 1
		var files []FileC
		for j := 0; j <= n; j++ {
			t := time.Unix((mm+int64(j))*60, 0).UTC()
			files = append(files, f(fmt.Sprintf("d%d.yaml", j), mv([]Val{sv("restart"), sv(fmt.Sprintf("%d %d * * *", t.Minute(), t.Hour()))})))
		}
		cs = append(cs, Case{Kind: "seq", Stream: "fixed-loop-jump", Files: files, Ops: []Op{{Op: "loop", Wall: jc[0], N: n, Jump: jc[1]}}})
	}
	// good behaviour: a bad file next to a good one, an added file, an edited file, a removed file
	{
		ops := ticks(1)
		c1, c2 := Content{G: "syntax"}, Content{V: &Val{}}
		*c2.V = sv("* * * * *")
		ops = append(ops, Op{Op: "write", F: "bad.yaml", C: &c1, Style: "rename"}, Op{Op: "write", F: "d2.yaml", C: &c2, Style: "inplace"},
			Op{Op: "tick", M: m + 1, Wall: (m+1)*60 + 5}, Op{Op: "remove", F: "d0.yaml"}, Op{Op: "tick", M: m + 2, Wall: (m+2)*60 + 5},
			Op{Op: "restart"}, Op{Op: "tick", M: m + 2, Wall: (m+2)*60 + 20}, Op{Op: "tick", M: m + 3, Wall: (m + 3) * 60})
		cs = append(cs, Case{Kind: "seq", Stream: "fixed-good", Files: []FileC{f("d0.yaml", sv("* * * * *")), {Name: "zz.yaml", C: Content{G: "unknownkey"}}}, Ops: ops})
	}
	for i := range cs {
		cs[i].K = 900000 + i
		cs[i].Crashed = -1
	}
	return cs
}

func runCase(self, scratch string, c *Case) {
	switch c.Kind {
	case "expr":
		runExpr(c)
	case "sched":
		runSched(c)
	case "seq":
		if capHung && hungSeqs >= 4 {
			// several histories have already shown a daemon that hangs: enough evidence, do not spend 5 s on each
			c.Skipped, c.Crashed = true, -1
			for j := range c.Ops {
				c.Ops[j].Calls, c.Ops[j].Synced, c.Ops[j].Skipped = [][2]string{}, true, true
			}
			return
		}
		if hasPanicContent(c) {
			runSeqChild(self, c, scratch)
			for _, o := range c.Ops {
				if o.Hung {
					c.Hung = true
					hungSeqs++
				}
			}
		} else {
			runSeq(c, nil, nil)
		}
	}
}

// sweepMain (thorough tier): multi-year walks along the implementation's own Next chain.  For every accepted
// expression the chain t -> Next(t) -> Next(Next(t)) ... is followed from several start instants for up to `steps`
// activations (sparse schedules cross many years, incl. 2096-2104 around the non-leap year 2100); each link and the
// second before each activation are written as observations for the extracted Coq model.
func sweepMain(out *vh.Out) {
	rng := vh.NewRng(vh.SeedFromEnv() ^ 0x5eed)
	zones := zonesAvailable()
	starts := []int64{date(2023, 12, 31, 23, 59, 59), date(2096, 1, 1, 0, 0, 0), date(1999, 12, 31, 12, 0, 0), date(2027, 2, 28, 0, 0, 0)}
	var exprs []string
	for _, e := range fixedExprs {
		exprs = append(exprs, e)
	}
	for i := 0; i < 700; i++ {
		r := rng.Fork(uint64(i))
		e, _ := genExpr(r, zones)
		exprs = append(exprs, e)
	}
	n := 0
	for _, e := range exprs {
		v, d, _ := loadYAML(Content{V: &Val{S: &e}}.yaml())
		if v != 0 || len(d.Schedule) != 1 {
			continue
		}
		p := d.Schedule[0].Parsed
		type rec struct {
			Expr  string      `json:"expr"`
			Naive bool        `json:"naive"`
			Obs   [][2]*int64 `json:"obs"`
		}
		r := rec{Expr: e, Naive: n%12 == 0}
		steps := 300
		if r.Naive {
			steps = 6
		}
		add := func(t int64) int64 {
			tt := t
			nx := p.Next(time.Unix(t, 0).UTC())
			if nx.IsZero() {
				r.Obs = append(r.Obs, [2]*int64{&tt, nil})
				return -1
			}
			m := nx.Unix() / 60
			r.Obs = append(r.Obs, [2]*int64{&tt, &m})
			return nx.Unix()
		}
		for _, t0 := range starts {
			t := t0
			for i := 0; i < steps; i++ {
				nt := add(t)
				if nt < 0 {
					break
				}
				if i%7 == 0 {
					add(nt - 1)
				}
				t = nt
				if r.Naive && nt-t0 > 40*86400 {
					break
				}
			}
			if r.Naive {
				break
			}
		}
		out.Put(r)
		n++
	}
}

var floorG int // goroutines of the idle driver (no daemon instance)

func main() {
	floorG = runtime.NumGoroutine()
	if len(os.Args) >= 4 && os.Args[1] == "child" {
		childMain(os.Args[2], os.Args[3])
		return
	}
	if len(os.Args) < 3 {
		fmt.Fprintln(os.Stderr, "usage: cron <out.jsonl> <quick|thorough> | cron <out.jsonl> replay <in.jsonl>")
		os.Exit(2)
	}
	self, _ := os.Executable()
	scratch := filepath.Dir(os.Args[1])
	out, err := vh.NewOut(os.Args[1])
	if err != nil {
		panic(err)
	}
	defer out.Close()
	if os.Args[2] == "replay" {
		data, err := os.ReadFile(os.Args[3])
		if err != nil {
			panic(err)
		}
		for _, line := range strings.Split(string(data), "\n") {
			if strings.TrimSpace(line) == "" {
				continue
			}
			var c Case
			if err := json.Unmarshal([]byte(line), &c); err != nil {
				panic(err)
			}
			runCase(self, scratch, &c)
			out.Put(c)
		}
		return
	}
	if os.Args[2] == "sweep" {
		sweepMain(out)
		return
	}
	thorough := os.Args[2] == "thorough"
	capHung = true
	rng := vh.NewRng(vh.SeedFromEnv())
	zones := zonesAvailable()
	out.Put(map[string]any{"kind": "meta", "zones": zones, "seed": vh.SeedFromEnv()})
	nExpr, nInst, nSched, nSeq := 2000, 20, 600, 300
	if thorough {
		nExpr, nInst, nSched, nSeq = 12000, 40, 4000, 2000
	}
	specials := specialInstants()
	k := 0
	t0 := time.Now()
	phase := func(name string) {
		fmt.Fprintf(os.Stderr, "cron driver: %s done at %.1fs\n", name, time.Since(t0).Seconds())
	}
	for i := 0; i < len(fixedExprs)+nExpr; i++ {
		r := rng.Fork(uint64(k))
		c := Case{Kind: "expr", K: k, Crashed: -1}
		if i < len(fixedExprs) {
			c.Expr, c.Stream = fixedExprs[i], "fixed"
		} else {
			c.Expr, c.Stream = genExpr(r, zones)
		}
		utc := !(strings.HasPrefix(c.Expr, "TZ=") || strings.HasPrefix(c.Expr, "CRON_TZ="))
		c.Ts = genInstants(r, nInst, specials, utc)
		runExpr(&c)
		if c.Verdict == 0 {
			// the schedule's own activations and the instants just before them (guaranteed positives)
			if d, err := dag.LoadYAML([]byte(Content{V: &Val{S: &c.Expr}}.yaml())); err == nil {
				t := time.Unix(c.Ts[0], 0).UTC()
				for j := 0; j < 4; j++ {
					t = d.Schedule[0].Parsed.Next(t)
					if t.IsZero() {
						break
					}
					c.Ts = append(c.Ts, t.Unix()-1, t.Unix())
				}
				runExpr(&c)
			}
		}
		out.Put(c)
		k++
	}
	phase("expressions")
	for i := 0; i < nSched; i++ {
		r := rng.Fork(uint64(k))
		v := genSchedVal(r, zones)
		c := Case{Kind: "sched", K: k, Stream: "sched", Val: &v, Crashed: -1}
		runSched(&c)
		out.Put(c)
		k++
	}
	phase("schedule values")
	for _, c := range fixedSeqs() {
		c := c
		runCase(self, scratch, &c)
		out.Put(c)
	}
	for i := 0; i < nSeq; i++ {
		r := rng.Fork(uint64(k))
		c := genSeq(r, k, thorough)
		runCase(self, scratch, &c)
		out.Put(c)
		k++
	}
	if thorough {
		// the same loop on the real clock: three consecutive real minutes, a restart schedule that fires every minute
		c := Case{Kind: "seq", K: 900100, Stream: "real-loop", Crashed: -1,
			Files: []FileC{{Name: "d0.yaml", C: Content{V: func() *Val { v := mv([]Val{sv("restart"), sv("* * * * *")}); return &v }()}}},
			Ops:   []Op{{Op: "loop", N: 3, Real: true}}}
		runCase(self, scratch, &c)
		out.Put(c)
	}
	nBlock := 14
	if thorough {
		nBlock = 150
	}
	for i := 0; i < nBlock; i++ {
		r := rng.Fork(uint64(k))
		c := genBlocking(r, k)
		runCase(self, scratch, &c)
		out.Put(c)
		k++
	}
	nBoot := 80
	if thorough {
		nBoot = 600
	}
	for i := 0; i < nBoot; i++ {
		r := rng.Fork(uint64(k))
		c := genBoot(r, k)
		runCase(self, scratch, &c)
		out.Put(c)
		k++
	}
	phase("daemon sequences")
}
