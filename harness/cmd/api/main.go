// Driver for C20: the real frontend/dag.Handler configured on a generated operations.BlackdaggerAPI; the
// operation handlers (post action, create, delete, details) are called directly.  The client is the real one
// over a scratch data store; its `executable` is this binary under the name stub-blackdagger, which records
// its argv and exits; "running" DAGs are real sock.Servers on the DAG's SockAddr() answering /status and
// recording /stop; "crashed" ones a history whose last line says running with nobody listening.
//
//	api <out.jsonl> <tier>                 the full (state x action x argument shape) table + random sequences
//	api <out.jsonl> replay <in.jsonl>      re-run given cases against the current tree
package main

import (
	"bufio"
	"context"
	"crypto/md5"
	"crypto/sha256"
	"encoding/hex"
	"encoding/json"
	"fmt"
	"io"
	"log"
	"net"
	"net/http"
	"net/http/httptest"
	"os"
	"os/exec"
	"path/filepath"
	"regexp"
	"strings"
	"sync"
	"time"

	"github.com/go-openapi/loads"
	"github.com/go-openapi/runtime"
	"github.com/go-openapi/runtime/middleware"

	"github.com/ErdemOzgen/blackdagger/internal/agent"
	"github.com/ErdemOzgen/blackdagger/internal/client"
	"github.com/ErdemOzgen/blackdagger/internal/dag"
	"github.com/ErdemOzgen/blackdagger/internal/dag/scheduler"
	fdag "github.com/ErdemOzgen/blackdagger/internal/frontend/dag"
	"github.com/ErdemOzgen/blackdagger/internal/frontend/gen/restapi"
	"github.com/ErdemOzgen/blackdagger/internal/frontend/gen/restapi/operations"
	"github.com/ErdemOzgen/blackdagger/internal/frontend/gen/restapi/operations/dags"
	"github.com/ErdemOzgen/blackdagger/internal/logger"
	"github.com/ErdemOzgen/blackdagger/internal/persistence"
	dsclient "github.com/ErdemOzgen/blackdagger/internal/persistence/client"
	"github.com/ErdemOzgen/blackdagger/internal/persistence/jsondb"
	"github.com/ErdemOzgen/blackdagger/internal/persistence/model"
	"github.com/ErdemOzgen/blackdagger/internal/sock"
	"github.com/ErdemOzgen/blackdagger/verifh/vh"
)

// ---------------------------------------------------------------------------------------------
// stub executable
// ---------------------------------------------------------------------------------------------

func stubMain() {
	f, err := os.OpenFile(os.Getenv("VERIF_STUB_LOG"), os.O_APPEND|os.O_WRONLY|os.O_CREATE, 0o644)
	if err == nil {
		b, _ := json.Marshal(os.Args[1:])
		_, _ = f.Write(append(b, '\n'))
		_ = f.Close()
	}
	code := 0
	if b, err := os.ReadFile(os.Getenv("VERIF_STUB_EXIT")); err == nil && strings.TrimSpace(string(b)) == "1" {
		code = 1
	}
	os.Exit(code)
}

// ---------------------------------------------------------------------------------------------
// texts
// ---------------------------------------------------------------------------------------------

type Text struct {
	ID    string `json:"id"`
	Valid bool   `json:"valid"`
	Load  bool   `json:"load"`
	Graph bool   `json:"graph"`
	Sha   string `json:"sha"`
	data  []byte
}

func texts(scratch string) []*Text {
	ts := []*Text{
		{ID: "T0", data: []byte("steps:\n  - name: step1\n    command: echo hello\n")},
		{ID: "T1", data: []byte("steps:\n  - name: s1\n    command: echo one\n  - name: s2\n    command: echo two\n    depends:\n      - s1\n")},
		{ID: "T2", data: []byte("description: second\nsteps:\n  - name: only\n    command: \"true\"\n")},
		{ID: "T3", data: []byte("steps:\n  - name: [unclosed\n   command: : :\n")},
		{ID: "T4", data: []byte("steps:\n  - command: echo nameless\n")},
		{ID: "T5", data: []byte("")},
		{ID: "T7", data: []byte("steps:\n  - name: p\n    command: echo p\n    depends:\n      - q\n  - name: q\n    command: echo q\n    depends:\n      - p\n")},
	}
	dir := filepath.Join(scratch, "oracle")
	_ = os.MkdirAll(dir, 0o755)
	for _, t := range ts {
		h := sha256.Sum256(t.data)
		t.Sha = hex.EncodeToString(h[:])
		_, err := dag.LoadYAML(t.data)
		t.Valid = err == nil
		f := filepath.Join(dir, t.ID+".yaml")
		_ = os.WriteFile(f, t.data, 0o644)
		d, err := dag.LoadWithoutEval(f)
		t.Load = err == nil
		if err == nil {
			_, gerr := scheduler.NewExecutionGraph(logger.Default, d.Steps...)
			t.Graph = gerr == nil
		}
	}
	_ = os.RemoveAll(dir)
	return ts
}

// ---------------------------------------------------------------------------------------------
// case format
// ---------------------------------------------------------------------------------------------

type NodeSt struct {
	N string `json:"n"`
	S int    `json:"s"`
}

type Line struct {
	R     string   `json:"r"`
	S     int      `json:"s"`
	Nodes []NodeSt `json:"nodes"`
}

type RunDump struct {
	File  string   `json:"file"`
	Stamp int64    `json:"stamp"`
	Sha   string   `json:"sha"`
	Lines []Line   `json:"lines"`
}

// a history file whose bytes differ before / after a step (the JSON lines themselves, for the exact-edit monitor)
type FileDiff struct {
	Dir  string   `json:"dir"`
	File string   `json:"file"`
	Old  []string `json:"old"` // nil: the file did not exist
	New  []string `json:"new"` // nil: the file is gone
}

type HistDump struct {
	Dir  string    `json:"dir"`
	Loc  string    `json:"loc"`
	Runs []RunDump `json:"runs"`
}

type Dump struct {
	Defs  [][2]string `json:"defs"`
	Hist  []HistDump  `json:"hist"`
	Flags []string    `json:"flags"`
}

type Body struct {
	Action    *string `json:"action"`
	Value     string  `json:"value,omitempty"`
	RequestID string  `json:"requestId,omitempty"`
	Step      string  `json:"step,omitempty"`
	Params    string  `json:"params,omitempty"`
}

type Step struct {
	Kind string `json:"kind"` // setup: mkdag mkshow mkhandler rec surgery live hang agent agentwait unlive stubexit;  api: post create delete details;  exec: run the last spawned argv with the REAL binary
	Name string `json:"name,omitempty"`
	Text string `json:"text,omitempty"`
	// rec
	Stamp  int64  `json:"stamp,omitempty"`
	Lines  []Line `json:"lines,omitempty"`
	Closed bool   `json:"closed,omitempty"`
	// live
	Reqid  string `json:"reqid,omitempty"`
	Status int    `json:"status,omitempty"`
	Big    bool   `json:"big,omitempty"` // live: the agent's status JSON is large (hundreds of steps, > 64 KiB)
	// post while a REAL in-process agent (kind agent) runs the DAG: the phase of that run right before / after the call:
	// "steps" (steps executing), "handler" (all steps ended, a lifecycle handler executing), "done" (nobody answers)
	PhaseBefore string `json:"phase_before,omitempty"`
	PhaseAfter  string `json:"phase_after,omitempty"`
	Exit   int    `json:"exit,omitempty"`
	Body   *Body  `json:"body,omitempty"`
	// observed
	Loc    string     `json:"loc,omitempty"`
	Code   int        `json:"code"`
	Spawns [][]string `json:"spawns"`
	Stops  []string   `json:"stops"`
	Note   string     `json:"note,omitempty"`
	// surgery: file-level shapes a kill leaves, made from the real file of the run recorded with Stamp:
	// "torn-prefix" (a proper prefix of the JSON of Lines[0] appended, no newline), "torn-nonl" (the complete JSON of
	// Lines[0] appended without its newline), "twin" (the compacted copy X_c.dat written next to the original X.dat)
	Mode string `json:"mode,omitempty"`
	// post mark-*: what the real client answers before / after the call (GetStatusByRequestID, recent history, latest)
	QBefore *Queries `json:"q_before,omitempty"`
	QAfter  *Queries `json:"q_after,omitempty"`
	// exec: what the real `blackdagger start ...` run saw / recorded, and what a start with exactly the API's
	// parameters must see (dag.Load in this process - independent of cmd/start.go)
	Argv     []string `json:"argv,omitempty"`
	Saw      string   `json:"saw"`
	SawEnv   string   `json:"saw_env"`
	Want     string   `json:"want"`
	WantEnv  string   `json:"want_env"`
	ExecNote string   `json:"exec_note,omitempty"`
	Diff     []FileDiff `json:"diff"`
	Dump   *Dump      `json:"dump,omitempty"`
}

type Queries struct {
	ByReq  *Line  `json:"byreq"`  // client.GetStatusByRequestID(dag, body.requestId); nil = error
	Recent []Line `json:"recent"` // client.GetRecentHistory(dag, 100), latest first
	Latest *Line  `json:"latest"` // client.GetLatestStatus(dag)
}

type Case struct {
	K      int    `json:"k"`
	Stream string `json:"stream"`
	State  string `json:"state,omitempty"`
	Row    string `json:"row,omitempty"`
	Dir    string `json:"dir"`
	Steps  []Step `json:"steps"`
	Fatal  string `json:"fatal,omitempty"`
}

var base = time.Date(2024, 1, 1, 0, 0, 0, 0, time.UTC)
var names = []string{"a", "ab", "a b", "nope", "fresh", "a.b", "h", "r"}

// ---------------------------------------------------------------------------------------------
// environment
// ---------------------------------------------------------------------------------------------

type liveSrv struct {
	srv   *sock.Server
	loc   string
	done  chan struct{}
	reqid string
	st    int
}

// a process that owns the DAG's control socket but is not scheduled: the connection is accepted (by the kernel's
// backlog and by this accept loop) and nothing is ever answered
type hangSrv struct {
	ln    net.Listener
	addr  string
	mu    sync.Mutex
	conns []net.Conn
}

type env struct {
	root, dags, data, flags string
	stubLog, stubExit       string
	ds                      persistence.DataStores
	cli                     client.Client
	api                     *operations.BlackdaggerAPI
	pool                    []*Text
	bySha                   map[string]string
	locs                    map[string]string
	live                    map[string]*liveSrv
	hang                    map[string]*hangSrv
	mu                      sync.Mutex
	stops                   []string
	nspawn                  int
	lg                      logger.Logger
	raw, rawNow             map[[2]string][]string
	agents                  map[string]chan error // name -> completion of the real agent running it
	lastSpawn               []string
	lastParams              string
}

var apiSpec *loads.Document

func newEnv(root string, pool []*Text, stub string) *env {
	e := &env{root: root, dags: filepath.Join(root, "dags"), data: filepath.Join(root, "data"),
		flags: filepath.Join(root, "suspend"), stubLog: filepath.Join(root, "stub.log"),
		stubExit: filepath.Join(root, "stub.exit"), pool: pool, bySha: map[string]string{},
		locs: map[string]string{}, live: map[string]*liveSrv{}, hang: map[string]*hangSrv{}}
	_ = os.MkdirAll(e.data, 0o755)
	_ = os.MkdirAll(e.dags, 0o755)
	for _, t := range pool {
		e.bySha[t.Sha] = t.ID
	}
	_ = os.Setenv("VERIF_STUB_LOG", e.stubLog)
	_ = os.Setenv("VERIF_STUB_EXIT", e.stubExit)
	e.lg = logger.NewLogger(logger.NewLoggerArgs{Quiet: true})
	e.ds = dsclient.NewDataStores(e.dags, e.data, e.flags, dsclient.DataStoreOptions{LatestStatusToday: false})
	e.cli = client.New(e.ds, stub, root, e.lg)
	if apiSpec == nil {
		spec, err := loads.Analyzed(restapi.SwaggerJSON, "")
		if err != nil {
			panic(err)
		}
		apiSpec = spec
	}
	e.api = operations.NewBlackdaggerAPI(apiSpec)
	h := fdag.NewHandler(&fdag.NewHandlerArgs{Client: e.cli, LogEncodingCharset: "utf-8"}, nil, "/api/v1")
	h.Configure(e.api)
	return e
}

func (e *env) close() {
	for _, l := range e.live {
		e.stopLive(l)
	}
	for l := range e.hang {
		e.stopHang(l)
	}
	for _, ch := range e.agents {
		select {
		case <-ch:
		case <-time.After(30 * time.Second):
		}
	}
}

func (e *env) startHang(name string) error {
	l := e.loc(name)
	if old, ok := e.live[l]; ok {
		e.stopLive(old)
	}
	e.stopHang(l)
	addr := (&dag.DAG{Name: name, Location: l}).SockAddr()
	_ = os.Remove(addr)
	ln, err := net.Listen("unix", addr)
	if err != nil {
		return err
	}
	h := &hangSrv{ln: ln, addr: addr}
	go func() {
		for {
			c, err := ln.Accept()
			if err != nil {
				return
			}
			h.mu.Lock()
			h.conns = append(h.conns, c) // kept open, never read, never answered
			h.mu.Unlock()
		}
	}()
	e.hang[l] = h
	return nil
}

func (e *env) stopHang(l string) {
	h, ok := e.hang[l]
	if !ok {
		return
	}
	_ = h.ln.Close()
	h.mu.Lock()
	for _, c := range h.conns {
		_ = c.Close()
	}
	h.mu.Unlock()
	_ = os.Remove(h.addr)
	delete(e.hang, l)
}

func (e *env) text(id string) []byte {
	for _, t := range e.pool {
		if t.ID == id {
			return t.data
		}
	}
	return []byte(id)
}

func (e *env) textID(b []byte) string {
	h := sha256.Sum256(b)
	s := hex.EncodeToString(h[:])
	if id, ok := e.bySha[s]; ok {
		return id
	}
	return fmt.Sprintf("?%s:%d", s[:8], len(b))
}

// the location of the DAG the API loads for an id (independent re-statement, used for setup and dumps only)
func (e *env) loc(name string) string {
	p := filepath.Join(e.dags, name)
	switch filepath.Ext(p) {
	case "":
		p += ".yaml"
	case ".yml":
		p = strings.TrimSuffix(p, ".yml") + ".yaml"
	}
	if !strings.HasSuffix(p, ".yaml") && !strings.HasSuffix(p, ".yml") {
		p += ".yaml"
	}
	return p
}

func (e *env) knownLoc(l string) {
	h := md5.Sum([]byte(l))
	e.locs[hex.EncodeToString(h[:])] = l
}

var stampRe = regexp.MustCompile(`\.(\d{8})\.(\d{2}):(\d{2}):(\d{2})\.(\d{3})\.`)

func parseStamp(file string) int64 {
	m := stampRe.FindStringSubmatch(file)
	if m == nil {
		return -1
	}
	t, err := time.Parse("20060102 15:04:05.000", m[1]+" "+m[2]+":"+m[3]+":"+m[4]+"."+m[5])
	if err != nil {
		return -1
	}
	return int64(t.Sub(base) / time.Second)
}

func parseLines(b []byte) ([]Line, []string) {
	var out []Line
	var raw []string
	for _, l := range strings.Split(string(b), "\n") {
		if l == "" {
			continue
		}
		raw = append(raw, l)
		st, err := model.StatusFromJSON(l)
		if err != nil {
			out = append(out, Line{R: "?garbage", S: -1})
			continue
		}
		ln := Line{R: st.RequestID, S: int(st.Status), Nodes: []NodeSt{}}
		for _, n := range st.Nodes {
			ln.Nodes = append(ln.Nodes, NodeSt{N: n.Step.Name, S: int(n.Status)})
		}
		out = append(out, ln)
	}
	return out, raw
}

func (e *env) dump() *Dump {
	d := &Dump{Defs: [][2]string{}, Hist: []HistDump{}, Flags: []string{}}
	e.rawNow = map[[2]string][]string{}
	if fis, err := os.ReadDir(e.dags); err == nil {
		for _, fi := range fis {
			b, err := os.ReadFile(filepath.Join(e.dags, fi.Name()))
			if err != nil {
				d.Defs = append(d.Defs, [2]string{fi.Name(), "?unreadable"})
				continue
			}
			d.Defs = append(d.Defs, [2]string{fi.Name(), e.textID(b)})
		}
	}
	if dirs, err := os.ReadDir(e.data); err == nil {
		for _, di := range dirs {
			hd := HistDump{Dir: di.Name(), Loc: "?", Runs: []RunDump{}}
			if i := strings.LastIndex(di.Name(), "-"); i >= 0 {
				if l, ok := e.locs[di.Name()[i+1:]]; ok {
					hd.Loc = l
				}
			}
			fis, _ := os.ReadDir(filepath.Join(e.data, di.Name()))
			for _, fi := range fis {
				b, _ := os.ReadFile(filepath.Join(e.data, di.Name(), fi.Name()))
				h := sha256.Sum256(b)
				lines, raw := parseLines(b)
				if raw == nil {
					raw = []string{}
				}
				e.rawNow[[2]string{di.Name(), fi.Name()}] = raw
				hd.Runs = append(hd.Runs, RunDump{File: fi.Name(), Stamp: parseStamp(fi.Name()),
					Sha: hex.EncodeToString(h[:8]), Lines: lines})
			}
			if len(hd.Runs) > 0 {
				d.Hist = append(d.Hist, hd)
			}
		}
	}
	if fis, err := os.ReadDir(e.flags); err == nil {
		for _, fi := range fis {
			d.Flags = append(d.Flags, fi.Name())
		}
	}
	return d
}

func mkStatus(name string, ln Line) *model.Status {
	st := &model.Status{RequestID: ln.R, Name: name, Status: scheduler.Status(ln.S),
		StatusText: scheduler.Status(ln.S).String(), PID: model.PID(4242), StartedAt: "2024-01-01 00:00:00",
		FinishedAt: "-", Log: "/nonexistent/log", Params: "p1 p2"}
	for _, n := range ln.Nodes {
		st.Nodes = append(st.Nodes, &model.Node{Step: dag.Step{Name: n.N, Command: "true"}, StartedAt: "-", FinishedAt: "-",
			Log: "/nonexistent/" + n.N + ".log", Status: scheduler.NodeStatus(n.S), StatusText: scheduler.NodeStatus(n.S).String()})
	}
	return st
}

// bigNodes: a status the size a run of a few hundred steps has
func bigNodes() []NodeSt {
	ns := []NodeSt{{N: "s1", S: 1}, {N: "s2", S: 0}}
	for i := 0; i < 400; i++ {
		ns = append(ns, NodeSt{N: fmt.Sprintf("generated-step-%04d-with-a-long-descriptive-name", i), S: 0})
	}
	return ns
}

func (e *env) startLive(name, reqid string, st int, big bool) error {
	l := e.loc(name)
	if old, ok := e.live[l]; ok {
		e.stopLive(old)
	}
	d := &dag.DAG{Name: name, Location: l}
	ls := &liveSrv{loc: l, done: make(chan struct{}), reqid: reqid, st: st}
	srv, err := sock.NewServer(d.SockAddr(), func(w http.ResponseWriter, r *http.Request) {
		switch {
		case r.Method == http.MethodGet && r.URL.Path == "/status":
			nodes := []NodeSt{{N: "s1", S: 1}, {N: "s2", S: 0}}
			if big {
				nodes = bigNodes()
			}
			s := mkStatus(name, Line{R: reqid, S: st, Nodes: nodes})
			b, _ := s.ToJSON()
			w.WriteHeader(http.StatusOK)
			_, _ = w.Write(b)
		case r.Method == http.MethodPost && r.URL.Path == "/stop":
			e.mu.Lock()
			e.stops = append(e.stops, l)
			e.mu.Unlock()
			w.WriteHeader(http.StatusOK)
			_, _ = w.Write([]byte("OK"))
		default:
			w.WriteHeader(http.StatusNotFound)
			_, _ = w.Write([]byte("not found"))
		}
	}, e.lg)
	if err != nil {
		return err
	}
	ls.srv = srv
	listen := make(chan error, 1)
	go func() {
		_ = srv.Serve(listen)
		close(ls.done)
	}()
	if err := <-listen; err != nil {
		return err
	}
	e.live[l] = ls
	return nil
}

func (e *env) stopLive(l *liveSrv) {
	_ = l.srv.Shutdown()
	select {
	case <-l.done:
	case <-time.After(3 * time.Second):
	}
	_ = os.Remove((&dag.DAG{Location: l.loc}).SockAddr())
	delete(e.live, l.loc)
}

func toLine(st *model.Status) *Line {
	if st == nil {
		return nil
	}
	ln := &Line{R: st.RequestID, S: int(st.Status), Nodes: []NodeSt{}}
	for _, n := range st.Nodes {
		ln.Nodes = append(ln.Nodes, NodeSt{N: n.Step.Name, S: int(n.Status)})
	}
	return ln
}

// the history queries of the real client (the server's own, long-lived client: its caches included)
func (e *env) queries(name, reqid string) *Queries {
	q := &Queries{Recent: []Line{}}
	st, err := e.cli.GetStatus(name)
	if err != nil || st == nil || st.DAG == nil {
		return q
	}
	if reqid != "" {
		if s, err := e.cli.GetStatusByRequestID(st.DAG, reqid); err == nil {
			q.ByReq = toLine(s)
		}
	}
	for _, sf := range e.cli.GetRecentHistory(st.DAG, 100) {
		q.Recent = append(q.Recent, *toLine(sf.Status))
	}
	if s, err := e.cli.GetLatestStatus(st.DAG); err == nil {
		q.Latest = toLine(s)
	}
	return q
}

func (e *env) surgery(s *Step) {
	s.Loc = e.loc(s.Name)
	stamp := base.Add(time.Duration(s.Stamp) * time.Second).Format("20060102.15:04:05.000")
	ms, _ := filepath.Glob(filepath.Join(e.data, "*", "*."+stamp+".*.dat"))
	var orig string
	for _, m := range ms {
		if !strings.HasSuffix(m, "_c.dat") {
			orig = m
		}
	}
	if orig == "" {
		s.Note, s.Code = "no original history file for that stamp", 1
		return
	}
	switch s.Mode {
	case "torn-prefix", "torn-nonl":
		b, _ := mkStatus(s.Name, s.Lines[0]).ToJSON()
		if s.Mode == "torn-prefix" {
			b = b[:len(b)/2]
		}
		f, err := os.OpenFile(orig, os.O_APPEND|os.O_WRONLY, 0o644)
		if err != nil {
			s.Note, s.Code = err.Error(), 1
			return
		}
		_, _ = f.Write(b)
		_ = f.Close()
	case "twin":
		b, _ := os.ReadFile(orig)
		lines := strings.Split(strings.TrimRight(string(b), "\n"), "\n")
		twin := strings.TrimSuffix(orig, ".dat") + "_c.dat"
		if err := os.WriteFile(twin, []byte(lines[len(lines)-1]+"\n"), 0o644); err != nil {
			s.Note, s.Code = err.Error(), 1
		}
	default:
		s.Note, s.Code = "unknown surgery mode", 1
	}
}

func code(r middleware.Responder) int {
	rec := httptest.NewRecorder()
	r.WriteResponse(rec, runtime.JSONProducer())
	return rec.Code
}

func (e *env) spawnLines() [][]string {
	b, err := os.ReadFile(e.stubLog)
	if err != nil {
		return nil
	}
	var out [][]string
	for _, l := range strings.Split(string(b), "\n") {
		if l == "" {
			continue
		}
		var a []string
		if json.Unmarshal([]byte(l), &a) == nil {
			out = append(out, a)
		}
	}
	return out
}

func (e *env) apply(s *Step) {
	s.Spawns, s.Stops = [][]string{}, []string{}
	e.mu.Lock()
	e.stops = nil
	e.mu.Unlock()
	switch s.Kind {
	case "mkdag":
		if _, err := e.ds.DAGStore().Create(s.Name, e.text(s.Text)); err != nil {
			s.Note = err.Error()
			s.Code = 1
		}
	case "mkshow":
		// a tiny DAG whose only step writes the parameters it sees ($1|$2|$NAME) to <root>/show.out
		script := filepath.Join(e.root, "show.sh")
		outf := filepath.Join(e.root, "show.out")
		_ = os.WriteFile(script, []byte("#!/bin/sh\nprintf '%s|%s|%s' \"$(printenv 1)\" \"$(printenv 2)\" \"$(printenv NAME)\" > "+outf+"\n"), 0o755)
		_ = os.WriteFile(filepath.Join(e.dags, s.Name+".yaml"), []byte("steps:\n  - name: show\n    command: "+script+"\n"), 0o644)
	case "mkhandler":
		// a DAG whose exit handler takes a few seconds: while it executes the run is still in progress
		_ = os.WriteFile(filepath.Join(e.dags, s.Name+".yaml"),
			[]byte("handlerOn:\n  exit:\n    command: sleep 4\nsteps:\n  - name: s1\n    command: \"true\"\n"), 0o644)
	case "agent":
		e.startAgent(s)
	case "agentwait":
		if ch, ok := e.agents[s.Name]; ok {
			select {
			case <-ch:
			case <-time.After(30 * time.Second):
				s.Note, s.Code = "the run did not end", 1
			}
			delete(e.agents, s.Name)
		}
	case "exec":
		e.realRun(s)
	case "surgery":
		e.surgery(s)
	case "rec":
		db := jsondb.New(e.data, false)
		s.Loc = e.loc(s.Name)
		err := db.Open(s.Loc, base.Add(time.Duration(s.Stamp)*time.Second), s.Lines[len(s.Lines)-1].R)
		if err == nil {
			for _, ln := range s.Lines {
				if werr := db.Write(mkStatus(s.Name, ln)); werr != nil {
					err = werr
				}
			}
			if s.Closed {
				if cerr := db.Close(); cerr != nil && err == nil {
					err = cerr
				}
			}
		}
		if err != nil {
			s.Note = err.Error()
			s.Code = 1
		}
	case "live":
		s.Loc = e.loc(s.Name)
		if err := e.startLive(s.Name, s.Reqid, s.Status, s.Big); err != nil {
			s.Note = err.Error()
			s.Code = 1
		}
	case "hang":
		s.Loc = e.loc(s.Name)
		if err := e.startHang(s.Name); err != nil {
			s.Note = err.Error()
			s.Code = 1
		}
	case "unlive":
		s.Loc = e.loc(s.Name)
		if l, ok := e.live[s.Loc]; ok {
			e.stopLive(l)
		}
		e.stopHang(s.Loc)
	case "stubexit":
		_ = os.WriteFile(e.stubExit, []byte(fmt.Sprint(s.Exit)), 0o644)
	case "post":
		b := dags.PostDagActionBody{Action: s.Body.Action, Value: s.Body.Value, RequestID: s.Body.RequestID,
			Step: s.Body.Step, Params: s.Body.Params}
		if s.Body.Action != nil && *s.Body.Action == "save" {
			b.Value = string(e.text(s.Body.Value)) // the case names the text by its id
		}
		if _, ok := e.agents[s.Name]; ok {
			s.PhaseBefore = e.agentPhase(s.Name)
			defer func() { s.PhaseAfter = e.agentPhase(s.Name) }()
		}
		isMark := s.Body.Action != nil && (*s.Body.Action == "mark-success" || *s.Body.Action == "mark-failed")
		if _, ok := e.agents[s.Name]; ok {
			isMark = false // the history queries are not taken while a real run is writing
		}
		if _, hung := e.hang[e.loc(s.Name)]; hung {
			isMark = false // every query would wait out the 3 s socket timeout; the byte-level dump is the observable here
		}
		if isMark {
			s.QBefore = e.queries(s.Name, s.Body.RequestID)
		}
		s.Code = code(e.api.DagsPostDagActionHandler.Handle(dags.PostDagActionParams{Body: b, DagID: s.Name}))
		if isMark {
			s.QAfter = e.queries(s.Name, s.Body.RequestID)
		}
	case "create":
		s.Code = code(e.api.DagsCreateDagHandler.Handle(dags.CreateDagParams{
			Body: dags.CreateDagBody{Action: s.Body.Action, Value: &s.Body.Value}}))
	case "delete":
		s.Code = code(e.api.DagsDeleteDagHandler.Handle(dags.DeleteDagParams{DagID: s.Name}))
	case "details":
		s.Code = code(e.api.DagsGetDagDetailsHandler.Handle(dags.GetDagDetailsParams{DagID: s.Name}))
	default:
		s.Note = "unknown step kind"
	}
	// spawned processes: an accepted start runs in a goroutine of the client; give it time to appear
	if s.Kind == "post" && s.Code == 200 && s.Body.Action != nil && *s.Body.Action == "start" &&
		!strings.ContainsRune(s.Body.Params, 0) {
		deadline := time.Now().Add(5 * time.Second)
		for len(e.spawnLines()) <= e.nspawn && time.Now().Before(deadline) {
			time.Sleep(2 * time.Millisecond)
		}
	}
	all := e.spawnLines()
	if len(all) > e.nspawn {
		s.Spawns = all[e.nspawn:]
		e.nspawn = len(all)
		e.lastSpawn = s.Spawns[len(s.Spawns)-1]
		if s.Body != nil {
			e.lastParams = s.Body.Params
		}
	}
	e.mu.Lock()
	s.Stops = append(s.Stops, e.stops...)
	e.mu.Unlock()
	s.Dump = e.dump()
	s.Diff = []FileDiff{}
	eq := func(a, b []string) bool {
		if len(a) != len(b) {
			return false
		}
		for i := range a {
			if a[i] != b[i] {
				return false
			}
		}
		return true
	}
	for k, old := range e.raw {
		if now, ok := e.rawNow[k]; !ok {
			s.Diff = append(s.Diff, FileDiff{Dir: k[0], File: k[1], Old: old})
		} else if !eq(old, now) {
			s.Diff = append(s.Diff, FileDiff{Dir: k[0], File: k[1], Old: old, New: now})
		}
	}
	for k, now := range e.rawNow {
		if _, ok := e.raw[k]; !ok {
			s.Diff = append(s.Diff, FileDiff{Dir: k[0], File: k[1], New: now})
		}
	}
	e.raw = e.rawNow
}

// realRun executes the argv the API spawned last with the real binary (built from the tree under test) over a
// data directory of its own, and reads back what the run recorded and what its step saw.
// startAgent runs the DAG with a REAL agent in this process (its own data store instance, as a separate process has)
// and returns once all steps have ended and the exit handler is executing.
func (e *env) startAgent(s *Step) {
	loc := e.loc(s.Name)
	s.Loc = loc
	wf, err := dag.Load("", loc, "")
	if err != nil {
		s.Note, s.Code = err.Error(), 1
		return
	}
	store := dsclient.NewDataStores(e.dags, e.data, e.flags, dsclient.DataStoreOptions{LatestStatusToday: false})
	logDir := filepath.Join(e.root, "agentlog")
	_ = os.MkdirAll(logDir, 0o755)
	agt := agent.New(s.Reqid, wf, e.lg, logDir, "", client.New(store, "/bin/false", e.root, e.lg), store, &agent.Options{})
	done := make(chan error, 1)
	go func() { done <- agt.Run(context.Background()) }()
	if e.agents == nil {
		e.agents = map[string]chan error{}
	}
	e.agents[s.Name] = done
	deadline := time.Now().Add(20 * time.Second)
	for time.Now().Before(deadline) {
		if e.agentPhase(s.Name) == "handler" {
			time.Sleep(500 * time.Millisecond) // the agent's delayed first status write (100 ms after the start) has passed
			return
		}
		time.Sleep(20 * time.Millisecond)
	}
	s.Note, s.Code = "the run never got to its exit handler", 1
}

// agentPhase asks the run itself (raw request on its control socket; the node table is what counts, not the
// overall label): all steps ended and the exit handler running = "handler"
func (e *env) agentPhase(name string) string {
	d := &dag.DAG{Name: name, Location: e.loc(name)}
	ret, err := sock.NewClient(d.SockAddr()).Request("GET", "/status")
	if err != nil {
		return "done"
	}
	st, err := model.StatusFromJSON(ret)
	if err != nil || st == nil {
		return "unknown"
	}
	for _, n := range st.Nodes {
		if n.Status == scheduler.NodeStatusNone || n.Status == scheduler.NodeStatusRunning {
			return "steps"
		}
	}
	if st.OnExit != nil && st.OnExit.Status == scheduler.NodeStatusRunning {
		return "handler"
	}
	return "ending"
}

func (e *env) realRun(s *Step) {
	bin := os.Getenv("VERIF_BDBIN")
	if bin == "" || len(e.lastSpawn) == 0 {
		s.ExecNote = "skipped"
		return
	}
	s.Argv = e.lastSpawn
	loc := e.lastSpawn[len(e.lastSpawn)-1]
	// reference: what a run started with exactly these parameters sees (the loader, in this process)
	for _, k := range []string{"1", "2", "NAME"} {
		_ = os.Unsetenv(k)
	}
	if d, err := dag.Load("", loc, e.lastParams); err == nil {
		s.Want = model.Params(d.Params) // the way a run records the parameters it was started with
		s.WantEnv = os.Getenv("1") + "|" + os.Getenv("2") + "|" + os.Getenv("NAME")
	} else {
		s.ExecNote = "reference load failed: " + err.Error()
		return
	}
	for _, k := range []string{"1", "2", "NAME"} {
		_ = os.Unsetenv(k)
	}
	realData := filepath.Join(e.root, "realdata")
	outf := filepath.Join(e.root, "show.out")
	_ = os.Remove(outf)
	cmd := exec.Command(bin, e.lastSpawn...)
	cmd.Dir = e.root
	cmd.Env = append(os.Environ(), "HOME="+filepath.Join(e.root, "home"), "BLACKDAGGER_DATA_DIR="+realData,
		"BLACKDAGGER_LOG_DIR="+filepath.Join(e.root, "reallog"), "BLACKDAGGER_DAGS_DIR="+e.dags,
		"BLACKDAGGER_SUSPEND_FLAGS_DIR="+filepath.Join(e.root, "realsuspend"), "BLACKDAGGER_ADMIN_LOG_DIR="+filepath.Join(e.root, "realadmin"),
		"BLACKDAGGER_BASE_CONFIG="+filepath.Join(e.root, "nobase.yaml"), "BLACKDAGGER_WORK_DIR="+e.root)
	_ = os.MkdirAll(filepath.Join(e.root, "home"), 0o755)
	done := make(chan error, 1)
	var outb []byte
	go func() {
		var err error
		outb, err = cmd.CombinedOutput()
		done <- err
	}()
	select {
	case err := <-done:
		if err != nil {
			s.ExecNote = "real run failed: " + err.Error() + " " + string(outb[max(0, len(outb)-300):])
		}
	case <-time.After(30 * time.Second):
		_ = cmd.Process.Kill()
		s.ExecNote = "real run timed out"
	}
	if rs := jsondb.New(realData, false).ReadStatusRecent(loc, 1); len(rs) == 1 {
		s.Saw = rs[0].Status.Params
	} else {
		s.ExecNote += " no-recorded-status"
	}
	if b, err := os.ReadFile(outf); err == nil {
		s.SawEnv = string(b)
	} else {
		s.ExecNote += " no-step-output"
	}
}

func runCase(root string, pool []*Text, stub string, c *Case) {
	_ = os.RemoveAll(root)
	e := newEnv(root, pool, stub)
	defer os.RemoveAll(root)
	defer e.close()
	c.Dir = e.dags
	for _, n := range names {
		e.knownLoc(e.loc(n))
	}
	for i := range c.Steps {
		e.apply(&c.Steps[i])
	}
	// a start that was answered with an error must not have spawned anything later on either
	refusedStart := false
	for _, s := range c.Steps {
		if s.Kind == "post" && s.Body != nil && s.Body.Action != nil && *s.Body.Action == "start" && s.Code != 200 {
			refusedStart = true
		}
	}
	if refusedStart {
		time.Sleep(30 * time.Millisecond)
	}
	if extra := e.spawnLines(); len(extra) > e.nspawn && len(c.Steps) > 0 {
		last := &c.Steps[len(c.Steps)-1]
		last.Spawns = append(last.Spawns, extra[e.nspawn:]...)
		last.Note += " late-spawn"
	}
}

// ---------------------------------------------------------------------------------------------
// generators
// ---------------------------------------------------------------------------------------------

func sp(s string) *string { return &s }

func line(req string, st int, n1, n2 int) Line {
	return Line{R: req, S: st, Nodes: []NodeSt{{N: "s1", S: n1}, {N: "s2", S: n2}}}
}

const (
	reqOld  = "req-old-00000001"
	reqCur  = "req-cur-00000002"
	reqNb   = "req-nb-000000003"
	reqGone = "req-unknown-9999"
)

// the setup of DAG "a" in a given state, with an older finished run, and a neighbour "ab" with a run and a flag
func stateSetup(state string) []Step {
	st := []Step{
		{Kind: "mkdag", Name: "a", Text: "T1"},
		{Kind: "mkdag", Name: "ab", Text: "T1"},
		{Kind: "rec", Name: "ab", Stamp: 5000, Lines: []Line{line(reqNb, 1, 1, 0), line(reqNb, 2, 4, 2)}, Closed: true},
		{Kind: "post", Name: "ab", Body: &Body{Action: sp("suspend"), Value: "true"}},
	}
	if state == "never" {
		return st
	}
	st = append(st, Step{Kind: "rec", Name: "a", Stamp: 1000, Lines: []Line{line(reqOld, 1, 1, 0), line(reqOld, 2, 2, 0)}, Closed: true})
	switch state {
	case "running":
		st = append(st, Step{Kind: "rec", Name: "a", Stamp: 2000, Lines: []Line{line(reqCur, 1, 1, 0)}, Closed: false},
			Step{Kind: "live", Name: "a", Reqid: reqCur, Status: 1})
	case "finished":
		st = append(st, Step{Kind: "rec", Name: "a", Stamp: 2000, Lines: []Line{line(reqCur, 1, 1, 0), line(reqCur, 4, 4, 4)}, Closed: true})
	case "failed":
		st = append(st, Step{Kind: "rec", Name: "a", Stamp: 2000, Lines: []Line{line(reqCur, 1, 1, 0), line(reqCur, 2, 4, 2)}, Closed: true})
	case "canceled":
		st = append(st, Step{Kind: "rec", Name: "a", Stamp: 2000, Lines: []Line{line(reqCur, 1, 1, 0), line(reqCur, 3, 4, 3)}, Closed: true})
	case "crashed":
		st = append(st, Step{Kind: "rec", Name: "a", Stamp: 2000, Lines: []Line{line(reqCur, 1, 4, 1)}, Closed: false})
	case "running-big":
		// a running DAG of a few hundred steps: the status its process answers is larger than 64 KiB
		st = append(st, Step{Kind: "rec", Name: "a", Stamp: 2000, Lines: []Line{line(reqCur, 1, 1, 0)}, Closed: false},
			Step{Kind: "live", Name: "a", Reqid: reqCur, Status: 1, Big: true})
	case "running-unresponsive":
		// the run's process is alive and owns the control socket, but does not answer (stopped / starved)
		st = append(st, Step{Kind: "rec", Name: "a", Stamp: 2000, Lines: []Line{line(reqCur, 1, 1, 0)}, Closed: false},
			Step{Kind: "hang", Name: "a"})
	case "crashed-torn":
		// killed in the middle of writing a status: the file ends in a proper prefix of a line
		st = append(st, Step{Kind: "rec", Name: "a", Stamp: 2000, Lines: []Line{line(reqCur, 1, 1, 0), line(reqCur, 1, 4, 1)}, Closed: false},
			Step{Kind: "surgery", Name: "a", Stamp: 2000, Mode: "torn-prefix", Lines: []Line{line(reqCur, 1, 4, 4)}})
	case "crashed-nonl":
		// killed after the last byte of a status and before its newline
		st = append(st, Step{Kind: "rec", Name: "a", Stamp: 2000, Lines: []Line{line(reqCur, 1, 1, 0)}, Closed: false},
			Step{Kind: "surgery", Name: "a", Stamp: 2000, Mode: "torn-nonl", Lines: []Line{line(reqCur, 1, 4, 1)}})
	case "finished-twin":
		// killed during Close: the compacted copy is published, the original not yet removed
		st = append(st, Step{Kind: "rec", Name: "a", Stamp: 2000, Lines: []Line{line(reqCur, 1, 1, 0), line(reqCur, 2, 4, 2)}, Closed: false},
			Step{Kind: "surgery", Name: "a", Stamp: 2000, Mode: "twin"})
	}
	return st
}

// the file-level crash shapes: the rows that look at or edit the recorded run
var crashShapes = []string{"crashed-torn", "crashed-nonl", "finished-twin"}

func shapeRow(name string) bool {
	return strings.HasPrefix(name, "mark-") || name == "start/params1" || name == "stop" || name == "details" ||
		name == "retry/present" || name == "delete" || name == "rename/fresh"
}

type row struct {
	name string
	pre  []Step
	step Step
}

func post(name string, b Body) Step { return Step{Kind: "post", Name: name, Body: &b} }

func rows() []row {
	var rs []row
	add := func(n string, s Step, pre ...Step) { rs = append(rs, row{name: n, step: s, pre: pre}) }
	for i, p := range []string{"", "p1 p2", `x="a b" 'q' \z`, "l1\nl2", "c1\r\nc2\r", "café ü世", "-q --flag", `"`, `"a b"`, `"`+"x\ny"} {
		add(fmt.Sprintf("start/params%d", i), post("a", Body{Action: sp("start"), Params: p}))
	}
	add("stop", post("a", Body{Action: sp("stop")}))
	add("retry/present", post("a", Body{Action: sp("retry"), RequestID: reqCur}))
	add("retry/present-exit1", post("a", Body{Action: sp("retry"), RequestID: reqCur}), Step{Kind: "stubexit", Exit: 1})
	add("retry/missing", post("a", Body{Action: sp("retry")}))
	add("retry/wrong", post("a", Body{Action: sp("retry"), RequestID: reqGone}))
	for _, v := range []string{"true", "false", "", "yes"} {
		add("suspend/"+v, post("a", Body{Action: sp("suspend"), Value: v}))
	}
	add("suspend/false-after-true", post("a", Body{Action: sp("suspend"), Value: "false"}), post("a", Body{Action: sp("suspend"), Value: "true"}))
	for _, act := range []string{"mark-success", "mark-failed"} {
		for _, rq := range [][2]string{{"cur", reqCur}, {"old", reqOld}, {"missing", ""}, {"wrong", reqGone}, {"neighbour", reqNb}} {
			for _, stp := range [][2]string{{"s1", "s1"}, {"s2", "s2"}, {"missing", ""}, {"wrong", "zz"}} {
				add(act+"/req-"+rq[0]+"/step-"+stp[0], post("a", Body{Action: sp(act), RequestID: rq[1], Step: stp[1]}))
			}
		}
	}
	add("save/valid", post("a", Body{Action: sp("save"), Value: "T2"}))
	add("save/invalid-yaml", post("a", Body{Action: sp("save"), Value: "T3"}))
	add("save/invalid-dag", post("a", Body{Action: sp("save"), Value: "T4"}))
	add("save/missing", post("a", Body{Action: sp("save"), Value: "T5"}))
	add("rename/fresh", post("a", Body{Action: sp("rename"), Value: "fresh"}))
	add("rename/missing", post("a", Body{Action: sp("rename")}))
	add("rename/taken", post("a", Body{Action: sp("rename"), Value: "ab"}))
	add("unknown-action", post("a", Body{Action: sp("frobnicate"), Value: "true", RequestID: reqCur, Step: "s1"}))
	add("missing-action", post("a", Body{Value: "true", RequestID: reqCur, Step: "s1"}))
	for _, act := range []string{"start", "stop", "retry", "suspend", "mark-success", "mark-failed", "save", "rename", "frobnicate"} {
		v := "true"
		if act == "save" {
			v = "T2"
		}
		if act == "rename" {
			v = "fresh"
		}
		add("unknown-dag/"+act, post("nope", Body{Action: sp(act), Value: v, RequestID: reqCur, Step: "s1", Params: "p"}))
	}
	add("details", Step{Kind: "details", Name: "a"})
	add("details/unknown-dag", Step{Kind: "details", Name: "nope"})
	add("delete", Step{Kind: "delete", Name: "a"})
	add("delete/unknown-dag", Step{Kind: "delete", Name: "nope"})
	add("create/new", Step{Kind: "create", Body: &Body{Action: sp("new"), Value: "fresh"}})
	add("create/taken", Step{Kind: "create", Body: &Body{Action: sp("new"), Value: "a"}})
	add("create/unknown-action", Step{Kind: "create", Body: &Body{Action: sp("other"), Value: "fresh"}})
	add("create/missing-action", Step{Kind: "create", Body: &Body{Value: "fresh"}})
	return rs
}

var states = []string{"never", "running", "finished", "failed", "canceled", "crashed"}

type gen struct {
	r     *vh.Rng
	stamp map[int64]bool
	reqs  map[string][]string
	nreq  int
}

func (g *gen) pick(xs []string) string { return xs[g.r.Below(len(xs))] }

func (g *gen) freshStamp() int64 {
	for {
		s := int64(1 + g.r.Below(300*86400))
		if !g.stamp[s] {
			g.stamp[s] = true
			return s
		}
	}
}

func (g *gen) reqFor(n string) string {
	k := g.r.Below(10)
	if k == 0 {
		return ""
	}
	if k == 1 || len(g.reqs[n]) == 0 {
		return reqGone
	}
	if k == 2 { // the id of another DAG's run
		for m, rs := range g.reqs {
			if m != n && len(rs) > 0 {
				return rs[0]
			}
		}
	}
	return g.pick(g.reqs[n])
}

func (g *gen) step() Step {
	dn := []string{"a", "ab", "a b"}
	n := g.pick(dn)
	k := g.r.Below(100)
	switch {
	case k < 8:
		return Step{Kind: "mkdag", Name: n, Text: g.pick([]string{"T1", "T1", "T2", "T0", "T7", "T3"})}
	case k < 24:
		g.nreq++
		req := fmt.Sprintf("req%02d-%08x", g.nreq, g.r.Below(1<<30))
		g.reqs[n] = append(g.reqs[n], req)
		closed := g.r.Chance(3, 4)
		last := []int{1, 2, 3, 4, 4, 2}[g.r.Below(6)]
		if !closed {
			last = 1
		}
		ls := []Line{line(req, 1, 1, 0)}
		if g.r.Bool() || last != 1 {
			ls = append(ls, line(req, last, g.r.Below(6), g.r.Below(6)))
		}
		return Step{Kind: "rec", Name: n, Stamp: g.freshStamp(), Lines: ls, Closed: closed}
	case k < 31:
		rq := reqGone
		if len(g.reqs[n]) > 0 && g.r.Chance(4, 5) {
			rq = g.reqs[n][len(g.reqs[n])-1]
		}
		return Step{Kind: "live", Name: n, Reqid: rq, Status: []int{1, 1, 1, 4, 2}[g.r.Below(5)]}
	case k < 36:
		return Step{Kind: "unlive", Name: n}
	case k < 38:
		return Step{Kind: "stubexit", Exit: g.r.Below(2)}
	case k < 46:
		return post(g.pick(append(dn, "nope")), Body{Action: sp("start"), Params: g.pick([]string{"", "p1", "a b", "x\ny", `q"q`})})
	case k < 52:
		return post(g.pick(append(dn, "nope")), Body{Action: sp("stop")})
	case k < 57:
		return post(n, Body{Action: sp("retry"), RequestID: g.reqFor(n)})
	case k < 62:
		return post(g.pick(append(dn, "nope")), Body{Action: sp("suspend"), Value: g.pick([]string{"true", "false", "x"})})
	case k < 82:
		return post(n, Body{Action: sp(g.pick([]string{"mark-success", "mark-failed"})), RequestID: g.reqFor(n),
			Step: g.pick([]string{"s1", "s2", "s2", "", "zz"})})
	case k < 86:
		return post(n, Body{Action: sp("save"), Value: g.pick([]string{"T1", "T2", "T3", "T4", "T7"})})
	case k < 90:
		return post(n, Body{Action: sp("rename"), Value: g.pick([]string{"a", "ab", "a b", "fresh", ""})})
	case k < 92:
		if g.r.Bool() {
			return post(n, Body{Value: "true"})
		}
		return post(n, Body{Action: sp("frobnicate")})
	case k < 95:
		return Step{Kind: "delete", Name: g.pick(append(dn, "nope"))}
	case k < 97:
		return Step{Kind: "create", Body: &Body{Action: sp("new"), Value: g.pick(dn)}}
	}
	return Step{Kind: "details", Name: g.pick(append(dn, "nope"))}
}

func generated(tier string, rng *vh.Rng) []*Case {
	var cs []*Case
	k := 0
	for _, st := range states {
		for _, r := range rows() {
			steps := append([]Step{}, stateSetup(st)...)
			steps = append(steps, r.pre...)
			steps = append(steps, r.step)
			cs = append(cs, &Case{K: k, Stream: "table", State: st, Row: r.name, Steps: steps})
			k++
		}
	}
	for _, st := range crashShapes {
		for _, r := range rows() {
			if !shapeRow(r.name) {
				continue
			}
			steps := append([]Step{}, stateSetup(st)...)
			steps = append(steps, r.pre...)
			steps = append(steps, r.step)
			cs = append(cs, &Case{K: k, Stream: "table-shapes", State: st, Row: r.name, Steps: steps})
			k++
		}
	}
	// running, process unresponsive: every socket request of the client waits out its 3 s timeout (a status edit makes
	// three of them), so only a handful of cells - more in the thorough tier
	unresp := []string{"mark-success/req-cur/step-s1", "stop", "start/params1"}
	if tier == "thorough" {
		unresp = append(unresp, "mark-failed/req-cur/step-s2", "mark-success/req-old/step-s1", "mark-failed/req-old/step-s2",
			"mark-success/req-cur/step-wrong", "mark-success/req-wrong/step-s1", "retry/present", "details", "suspend/true")
	}
	for _, r := range rows() {
		for _, u := range unresp {
			if r.name != u {
				continue
			}
			steps := append([]Step{}, stateSetup("running-unresponsive")...)
			steps = append(steps, r.pre...)
			steps = append(steps, r.step)
			cs = append(cs, &Case{K: k, Stream: "table-unresponsive", State: "running-unresponsive", Row: r.name, Steps: steps})
			k++
		}
	}
	for _, r := range rows() {
		if r.name == "start/params1" || r.name == "stop" || r.name == "mark-success/req-cur/step-s1" || r.name == "mark-failed/req-old/step-s2" ||
			r.name == "details" {
			steps := append([]Step{}, stateSetup("running-big")...)
			steps = append(steps, r.pre...)
			steps = append(steps, r.step)
			cs = append(cs, &Case{K: k, Stream: "table-big", State: "running-big", Row: r.name, Steps: steps})
			k++
		}
	}
	// a REAL agent (in this process) whose steps have ended and whose exit handler is executing: the run is in progress
	cs = append(cs, &Case{K: k, Stream: "real-agent", State: "running-handler", Row: "start+marks", Steps: []Step{
		{Kind: "mkhandler", Name: "h"},
		{Kind: "agent", Name: "h", Reqid: "req-agent-0000001"},
		post("h", Body{Action: sp("start"), Params: "x"}),
		post("h", Body{Action: sp("mark-failed"), RequestID: "req-agent-0000001", Step: "s1"}),
		post("h", Body{Action: sp("mark-success"), RequestID: "req-agent-0000001", Step: "s1"}),
		{Kind: "agentwait", Name: "h"},
		{Kind: "details", Name: "h"}}})
	k++
	// states of a DAG whose definition cannot be shown (invalid text / cyclic graph): every action but save is refused
	for _, t := range []string{"T3", "T7"} {
		for _, act := range []string{"start", "stop", "suspend", "mark-success", "retry", "rename"} {
			cs = append(cs, &Case{K: k, Stream: "table-broken", State: "broken-" + t, Row: act, Steps: []Step{
				{Kind: "mkdag", Name: "a", Text: t},
				{Kind: "rec", Name: "a", Stamp: 1000, Lines: []Line{line(reqCur, 2, 2, 0)}, Closed: true},
				post("a", Body{Action: sp(act), Value: "fresh", RequestID: reqCur, Step: "s1"})}})
			k++
		}
	}
	// accepted starts whose recorded argv is executed with the REAL binary: the run must see exactly the
	// parameters given to the API (strings of the class C20_start_params covers, quoted values first / last)
	if os.Getenv("VERIF_BDBIN") != "" {
		for _, p := range []string{`NAME="a b"`, `"x y" z`, `p1 p2`, `NAME=v w`, `"q"`, `x "y z"`, `NAME="a b" "c d"`, `"a" "b"`, `A="1" NAME="n m"`, `plain`} {
			cs = append(cs, &Case{K: k, Stream: "realrun", State: "never", Row: p, Steps: []Step{
				{Kind: "mkshow", Name: "r"},
				post("r", Body{Action: sp("start"), Params: p}),
				{Kind: "exec", Name: "r"}}})
			k++
		}
	}
	nrand := 120
	if tier == "thorough" {
		nrand = 4000
	}
	for i := 0; i < nrand; i++ {
		g := &gen{r: rng.Fork(uint64(5000 + i)), stamp: map[int64]bool{}, reqs: map[string][]string{}}
		n := 6 + g.r.Below(18)
		steps := []Step{{Kind: "mkdag", Name: "a", Text: "T1"}, {Kind: "mkdag", Name: "ab", Text: "T1"}}
		for j := 0; j < n; j++ {
			steps = append(steps, g.step())
		}
		cs = append(cs, &Case{K: k, Stream: "random", Steps: steps})
		k++
	}
	return cs
}

// ---------------------------------------------------------------------------------------------

func main() {
	if strings.HasPrefix(filepath.Base(os.Args[0]), "stub-") {
		stubMain()
		return
	}
	log.SetOutput(io.Discard)
	outPath, tier := os.Args[1], os.Args[2]
	outPath, _ = filepath.Abs(outPath)
	out, err := vh.NewOut(outPath)
	if err != nil {
		panic(err)
	}
	defer out.Close()
	work := filepath.Join(filepath.Dir(outPath), "api-work")
	_ = os.MkdirAll(filepath.Join(work, "cwd"), 0o755)
	defer os.RemoveAll(work)
	self, err := os.Executable()
	if err != nil {
		panic(err)
	}
	stub := filepath.Join(work, "stub-blackdagger")
	if err := os.Symlink(self, stub); err != nil {
		panic(err)
	}
	if err := os.Chdir(filepath.Join(work, "cwd")); err != nil {
		panic(err)
	}
	pool := texts(work)
	out.Put(map[string]any{"texts": pool, "names": names})
	var cases []*Case
	if tier == "replay" {
		f, err := os.Open(os.Args[3])
		if err != nil {
			panic(err)
		}
		sc := bufio.NewScanner(f)
		sc.Buffer(make([]byte, 1<<20), 1<<28)
		for sc.Scan() {
			var c Case
			if json.Unmarshal(sc.Bytes(), &c) != nil || len(c.Steps) == 0 {
				continue
			}
			cases = append(cases, &c)
		}
	} else {
		cases = generated(tier, vh.NewRng(vh.SeedFromEnv()))
	}
	for _, c := range cases {
		func() {
			defer func() {
				if r := recover(); r != nil {
					c.Fatal = fmt.Sprint(r)
				}
			}()
			runCase(filepath.Join(work, fmt.Sprintf("c%d", c.K)), pool, stub, c)
		}()
		out.Put(c)
	}
}
