// Driver for C11 (parameters and step outputs reach the steps that use them, unchanged).
//
//	params <out.jsonl> <tier>              generate cases, run them against the real code, write observations
//	params <out.jsonl> replay <in.jsonl>   re-run the inputs of the given cases on the current tree
//	params worker                          (internal) one case on stdin, its observation on stdout; fresh process =
//	                                       fresh environment (parseParams / Execute call os.Setenv)
//	params envdump <file> NAME...          (child of a step) JSON {NAME: value | null} of its own environment
//	params argdump <file> ARG...           (child of a step) JSON list of its arguments
//	params catfile <out> [<err>]           (child of a step) copies file <out> to stdout (then <err> to stderr)
//	params failonce <marker> <sub> ...     (child of a step) first call: create marker, exit 1; later: run sub-mode
//	params catattempt <counter> <f0> <f>   (child of a step) first call: copy <f0> to stdout, exit 1; later: copy <f>
//
// Streams:
//
//	parse  parameter strings through dag.LoadYAML(params: ...) - the tokenizer, Trim/unescape, stringify
//	doc    lists of documented items (word, "quoted", NAME=word, NAME="quoted") rendered and parsed the same way
//	env    dag.Load(file, params) + the real scheduler running real child processes that dump what they see
//	loop   start -> model.NewStatus(...).Params -> JSON -> StatusFromJSON -> dag.Load(file, recorded) -> children
//	out    `output:` capture of given bytes; consumers at distance 1, 2, in the exit handler and in a retry run
//	       (environment and $OUT expanded on the command line)
//	subst  parameters that use $C11VAR: the run sees its value; the recorded string must hold the values the run
//	       saw - the re-load happens in a process where the variable has another value
//	restart the real `start -p` command on a DAG that is still running (a sleeping step), then the real `restart`
//	       command in another process whose environment has changed: the restarted run must see the first run's values
//	retrycmd the real `start -p` command on a DAG whose second step fails once, then the real `retry --req <id>`
//	       command in another process: the retried steps must see the first run's values
//	subwf  the real `start -p` command on a DAG with a `run:` sub-workflow step whose child declares default parameters
//	       at the same positions / names: the step after the call and the exit handler must still see the parent's values
//	       (the sub-workflow executor starts os.Executable() - this driver - with `start --params=... child.yaml`,
//	       which it hands to the real start command)
//	cli    the real `start -p` command (cmd.Execute) with the parameter string wrapped in quotes as the API client
//	       does (client.go: fmt.Sprintf(`"%s"`, ...)); start.go strips exactly that pair
package main

import (
	"bufio"
	"bytes"
	"context"
	"encoding/base64"
	"encoding/json"
	"fmt"
	"io"
	"log"
	"os"
	"os/exec"
	"path/filepath"
	"strings"
	"sync"
	"syscall"
	"time"

	bdcmd "github.com/ErdemOzgen/blackdagger/cmd"
	"github.com/ErdemOzgen/blackdagger/internal/dag"
	"github.com/ErdemOzgen/blackdagger/internal/dag/scheduler"
	"github.com/ErdemOzgen/blackdagger/internal/logger"
	"github.com/ErdemOzgen/blackdagger/internal/persistence/model"
	"github.com/ErdemOzgen/blackdagger/verifh/vh"
)

type Item struct {
	Kind  string `json:"kind"` // w | q | nw | nq
	Name  string `json:"name,omitempty"`
	Value string `json:"value"`
}

// Probe: what a child saw; every value base64 (byte exact)
type Probe struct {
	Env  map[string]*string `json:"env,omitempty"`
	Args []string           `json:"args,omitempty"`
}

type Case struct {
	K      int    `json:"k"`
	Stream string `json:"stream"`
	Gen    string `json:"gen,omitempty"`
	// inputs
	S      string `json:"s"`               // parameter string
	Items  []Item `json:"items,omitempty"` // doc/env/loop: the items S was rendered from
	OutB64 string `json:"out_b64,omitempty"`
	ErrB64 string `json:"err_b64,omitempty"`
	Size   int    `json:"size,omitempty"`
	Out0   string `json:"out0_b64,omitempty"` // out: the producer is retried once; its failed first attempt printed this
	Collide string `json:"collide,omitempty"`   // out: OUT is also a named parameter ("param") or a DAG env: entry ("env") with a stale value
	ProdFiles int  `json:"prod_files,omitempty"` // out: the producer also has a stdout: file (1), a stderr: file (2), both (3)
	EnvDiff bool   `json:"envdiff,omitempty"`    // retrycmd: the DAG has env: RUNDIR: "dir-${C11VAR}" - its value differs when the retry loads the file
	// observations
	Err      string            `json:"err,omitempty"`
	Params   []string          `json:"params"`             // DAG.Params of the (first) load
	Recorded string            `json:"recorded,omitempty"` // loop: Status.Params after the JSON round trip
	Params2  []string          `json:"params2,omitempty"`  // loop: DAG.Params of the re-load
	Probes   map[string]*Probe `json:"probes,omitempty"`   // what the children saw, by consumer
	Hang     bool              `json:"hang,omitempty"`
	Status   string            `json:"status,omitempty"`
	GoTrim   string            `json:"go_trim_b64,omitempty"` // strings.TrimSpace of the output bytes by the real library
	Entries  map[string]string `json:"entries_b64,omitempty"` // out: the output map as recorded in the status (key -> NAME=value), base64
	Ms       int               `json:"ms,omitempty"`
}

func renderItem(it Item) string {
	q := func(v string) string { return `"` + strings.ReplaceAll(v, `"`, `\"`) + `"` }
	switch it.Kind {
	case "w":
		return it.Value
	case "q":
		return q(it.Value)
	case "nw":
		return it.Name + "=" + it.Value
	default:
		return it.Name + "=" + q(it.Value)
	}
}

func render(items []Item) string {
	parts := make([]string, len(items))
	for i, it := range items {
		parts[i] = renderItem(it)
	}
	return strings.Join(parts, " ")
}

func yamlStr(s string) string {
	var b bytes.Buffer
	e := json.NewEncoder(&b)
	e.SetEscapeHTML(false)
	_ = e.Encode(s)
	return strings.TrimRight(b.String(), "\n")
}

// ---------------------------------------------------------------------------------------------
// parse / doc : LoadYAML
// ---------------------------------------------------------------------------------------------

func loadYAMLParams(s string) ([]string, string) {
	y := "params: " + yamlStr(s) + "\nsteps:\n  - name: a\n    command: echo\n"
	d, err := dag.LoadYAML([]byte(y))
	if err != nil {
		return nil, err.Error()
	}
	if d.DefaultParams != s {
		return nil, "yaml-transport: the scalar did not survive YAML"
	}
	ps := d.Params
	if ps == nil {
		ps = []string{}
	}
	return ps, ""
}

// ---------------------------------------------------------------------------------------------
// children
// ---------------------------------------------------------------------------------------------

func childMain(args []string) {
	switch args[0] {
	case "envdump":
		m := map[string]*string{}
		for _, n := range args[2:] {
			if v, ok := os.LookupEnv(n); ok {
				vv := base64.StdEncoding.EncodeToString([]byte(v))
				m[n] = &vv
			} else {
				m[n] = nil
			}
		}
		b, _ := json.Marshal(Probe{Env: m})
		if err := os.WriteFile(args[1], b, 0644); err != nil {
			os.Exit(3)
		}
	case "argdump":
		a := []string{}
		for _, x := range args[2:] {
			a = append(a, base64.StdEncoding.EncodeToString([]byte(x)))
		}
		b, _ := json.Marshal(Probe{Args: a})
		if err := os.WriteFile(args[1], b, 0644); err != nil {
			os.Exit(3)
		}
	case "catfile":
		b, err := os.ReadFile(args[1])
		if err != nil {
			os.Exit(3)
		}
		w := bufio.NewWriterSize(os.Stdout, 65536)
		_, _ = w.Write(b)
		_ = w.Flush()
		if len(args) > 2 {
			if e, err := os.ReadFile(args[2]); err == nil {
				_, _ = os.Stderr.Write(e)
			}
		}
	case "catattempt":
		first := false
		if _, err := os.Stat(args[1]); err != nil {
			_ = os.WriteFile(args[1], []byte("x"), 0644)
			first = true
		}
		f := args[3]
		if first {
			f = args[2]
		}
		b, err := os.ReadFile(f)
		if err != nil {
			os.Exit(3)
		}
		_, _ = os.Stdout.Write(b)
		if first {
			os.Exit(1)
		}
	case "failonce":
		if _, err := os.Stat(args[1]); err != nil {
			_ = os.WriteFile(args[1], []byte("x"), 0644)
			os.Exit(1)
		}
		childMain(args[2:])
	}
}

// ---------------------------------------------------------------------------------------------
// worker: one case in a fresh process
// ---------------------------------------------------------------------------------------------

type Job struct {
	Mode   string   `json:"mode"` // env | reload | outA | outB
	Dir    string   `json:"dir"`
	Params string   `json:"params"`
	Names  []string `json:"names"`
	NPos   int      `json:"npos"`
	Status string   `json:"status_file,omitempty"`
	Env    []string `json:"env,omitempty"`   // extra environment of the worker
	Extra  []string `json:"extra,omitempty"` // further variable names the envdump children report
	Sleep  bool     `json:"sleep,omitempty"` // the DAG ends with a step that sleeps (so that it can be restarted)
	Fail1  bool     `json:"fail1,omitempty"` // the DAG: s0 reports, s1 fails on its first call and reports afterwards, s2 reports
	SubWf  bool     `json:"subwf,omitempty"` // the DAG: s0 reports, s1 runs a child DAG with default params of its own, s2/s3 and the exit handler report
	ReqID  string   `json:"req,omitempty"`
	EnvDiff bool    `json:"envdiff,omitempty"`
	Collide   string `json:"collide,omitempty"`
	ProdFiles int    `json:"prod_files,omitempty"`
}

type JobResult struct {
	Entries  map[string]string `json:"entries,omitempty"`
	Err      string            `json:"err,omitempty"`
	Params   []string          `json:"params"`
	Recorded string            `json:"recorded"`
	Probes   map[string]*Probe `json:"probes"`
	Status   string            `json:"status"`
}

func self() string {
	p, err := os.Executable()
	if err != nil {
		panic(err)
	}
	return p
}

func readProbe(p string) *Probe {
	b, err := os.ReadFile(p)
	if err != nil {
		return nil
	}
	var pr Probe
	if json.Unmarshal(b, &pr) != nil {
		return nil
	}
	return &pr
}

func quiet() logger.Logger {
	return logger.NewLogger(logger.NewLoggerArgs{Quiet: true})
}

func schedule(d *dag.DAG, g *scheduler.ExecutionGraph, dir string) (*scheduler.Scheduler, string) {
	cfg := &scheduler.Config{LogDir: filepath.Join(dir, "logs"), Logger: quiet(), ReqID: "c11c11c11", MaxActiveRuns: 1}
	if d.HandlerOn.Exit != nil {
		cfg.OnExit = d.HandlerOn.Exit
	}
	sc := scheduler.New(cfg)
	sc.VerifSetPause(2 * time.Millisecond)
	ctx := dag.NewContext(context.Background(), d, nil, "c11c11c11", filepath.Join(dir, "sched.log"))
	_ = sc.Schedule(ctx, g, nil)
	return sc, sc.Status(g).String()
}

var sleepStep, failFirst, subWf, envDiff bool

func envDag(dir string, names []string, npos int, extra ...string) string {
	me := self()
	var all []string
	var dollars []string
	for i := 1; i <= npos; i++ {
		all = append(all, fmt.Sprint(i))
		if i <= 9 {
			dollars = append(dollars, fmt.Sprintf("$%d", i))
		}
	}
	for _, n := range names {
		all = append(all, n)
		dollars = append(dollars, "$"+n)
	}
	all = append(all, extra...)
	y := "name: c11env\nsteps:\n" +
		"  - name: s1\n    command: " + me + " envdump " + filepath.Join(dir, "p-env.json") + " " + strings.Join(all, " ") + "\n" +
		"  - name: s2\n    command: " + me + " argdump " + filepath.Join(dir, "p-arg.json") + " " + strings.Join(dollars, " ") + "\n    depends:\n      - s1\n" +
		"handlerOn:\n  exit:\n    command: " + me + " envdump " + filepath.Join(dir, "p-handler.json") + " " + strings.Join(all, " ") + "\n"
	if sleepStep {
		y = strings.Replace(y, "handlerOn:", "  - name: s3\n    command: sleep 1\n    depends:\n      - s2\nhandlerOn:", 1)
	}
	if subWf {
		// the child declares defaults at the same positions and under the same names
		var defs []string
		for i := 1; i <= npos; i++ {
			defs = append(defs, fmt.Sprintf("child-%d", i))
		}
		for _, n := range names {
			defs = append(defs, n+"=child-"+n)
		}
		child := "name: c11child\nparams: " + strings.Join(defs, " ") + "\nsteps:\n  - name: c\n    command: \"true\"\n"
		cf := filepath.Join(dir, "c11child.yaml")
		if err := os.WriteFile(cf, []byte(child), 0644); err != nil {
			panic(err)
		}
		y = "name: c11env\nsteps:\n" +
			"  - name: s0\n    command: " + me + " envdump " + filepath.Join(dir, "p-first.json") + " " + strings.Join(all, " ") + "\n" +
			"  - name: s1\n    run: " + cf + "\n    params: \"job-1\"\n    depends:\n      - s0\n" +
			"  - name: s2\n    command: " + me + " envdump " + filepath.Join(dir, "p-env.json") + " " + strings.Join(all, " ") + "\n    depends:\n      - s1\n" +
			"  - name: s3\n    command: " + me + " argdump " + filepath.Join(dir, "p-arg.json") + " " + strings.Join(dollars, " ") + "\n    depends:\n      - s2\n" +
			"handlerOn:\n  exit:\n    command: " + me + " envdump " + filepath.Join(dir, "p-handler.json") + " " + strings.Join(all, " ") + "\n"
	}
	if failFirst {
		head := "name: c11env\n"
		if envDiff {
			head += "env:\n  - RUNDIR: \"dir-${C11VAR}\"\n"
		}
		y = head + "steps:\n" +
			"  - name: s0\n    command: " + me + " envdump " + filepath.Join(dir, "p-first.json") + " " + strings.Join(all, " ") + "\n" +
			"  - name: s1\n    command: " + me + " failonce " + filepath.Join(dir, "marker") + " envdump " + filepath.Join(dir, "p-env.json") + " " + strings.Join(all, " ") + "\n    depends:\n      - s0\n" +
			"  - name: s2\n    command: " + me + " argdump " + filepath.Join(dir, "p-arg.json") + " " + strings.Join(dollars, " ") + "\n    depends:\n      - s1\n"
	}
	f := filepath.Join(dir, "c11env.yaml")
	if err := os.WriteFile(f, []byte(y), 0644); err != nil {
		panic(err)
	}
	return f
}

func outDag(dir string, withErr bool, retried bool, collide string, prodFiles int) string {
	me := self()
	cat := me + " catfile " + filepath.Join(dir, "out.bin")
	if withErr {
		cat += " " + filepath.Join(dir, "err.bin")
	}
	if retried {
		cat = me + " catattempt " + filepath.Join(dir, "prodmark") + " " + filepath.Join(dir, "out0.bin") + " " + filepath.Join(dir, "out.bin") +
			"\n    retryPolicy:\n      limit: 1\n      intervalSec: 0"
	}
	head := "name: c11out\n"
	switch collide {
	case "param":
		head += "params: OUT=stale\n"
	case "env":
		head += "env:\n  - OUT: stale\n"
	}
	pf := ""
	if prodFiles&1 != 0 {
		pf += "    stdout: " + filepath.Join(dir, "prod.out") + "\n"
	}
	if prodFiles&2 != 0 {
		pf += "    stderr: " + filepath.Join(dir, "prod.err") + "\n"
	}
	y := head + "steps:\n" +
		"  - name: prod\n    command: " + cat + "\n    output: OUT\n" + pf +
		"  - name: c1\n    command: " + me + " envdump " + filepath.Join(dir, "p-d1.json") + " OUT\n    depends:\n      - prod\n" +
		"  - name: c1a\n    command: " + me + " argdump " + filepath.Join(dir, "p-d1arg.json") + " $OUT\n    depends:\n      - c1\n" +
		"  - name: c2\n    command: " + me + " envdump " + filepath.Join(dir, "p-d2.json") + " OUT\n    depends:\n      - c1a\n" +
		"  - name: c3\n    command: " + me + " failonce " + filepath.Join(dir, "marker") + " envdump " + filepath.Join(dir, "p-retry.json") + " OUT\n    depends:\n      - c2\n" +
		"  - name: c3a\n    command: " + me + " argdump " + filepath.Join(dir, "p-retryarg.json") + " $OUT\n    depends:\n      - c3\n" +
		"handlerOn:\n  exit:\n    command: " + me + " envdump " + filepath.Join(dir, "p-handler.json") + " OUT\n"
	f := filepath.Join(dir, "c11out.yaml")
	if err := os.WriteFile(f, []byte(y), 0644); err != nil {
		panic(err)
	}
	return f
}

func workerMain() {
	log.SetOutput(io.Discard)
	var j Job
	if err := json.NewDecoder(os.Stdin).Decode(&j); err != nil {
		panic(err)
	}
	res := JobResult{Probes: map[string]*Probe{}, Params: []string{}}
	put := func() {
		b, _ := json.Marshal(res)
		os.Stdout.Write(b)
	}
	switch j.Mode {
	case "restart":
		// the real command line entry point: blackdagger restart file (stops the running DAG, starts it again with
		// the parameters of the latest status)
		os.Setenv("HOME", j.Dir)
		os.Setenv("BLACKDAGGER_HOME", filepath.Join(j.Dir, ".blackdagger"))
		os.Args = []string{"blackdagger", "restart", "-q", filepath.Join(j.Dir, "c11env.yaml")}
		devnull, _ := os.OpenFile(os.DevNull, os.O_WRONLY, 0)
		os.Stdout, os.Stderr = devnull, devnull
		_ = bdcmd.Execute()
		os.Exit(0)
	case "retrycmd":
		// blackdagger retry --req <id> file
		os.Setenv("HOME", j.Dir)
		os.Setenv("BLACKDAGGER_HOME", filepath.Join(j.Dir, ".blackdagger"))
		os.Args = []string{"blackdagger", "retry", "--req", j.ReqID, filepath.Join(j.Dir, "c11env.yaml")}
		devnull, _ := os.OpenFile(os.DevNull, os.O_WRONLY, 0)
		os.Stdout, os.Stderr = devnull, devnull
		_ = bdcmd.Execute()
		os.Exit(0)
	case "cli":
		// the real command line entry point: blackdagger start -p "<params>" file
		sleepStep, failFirst, subWf, envDiff = j.Sleep, j.Fail1, j.SubWf, j.EnvDiff
		f := envDag(j.Dir, j.Names, j.NPos, j.Extra...)
		os.Setenv("HOME", j.Dir)
		os.Setenv("BLACKDAGGER_HOME", filepath.Join(j.Dir, ".blackdagger"))
		os.Args = []string{"blackdagger", "start", "-q", "-p", j.Params, f}
		devnull, _ := os.OpenFile(os.DevNull, os.O_WRONLY, 0)
		os.Stdout, os.Stderr = devnull, devnull
		_ = bdcmd.Execute()
		os.Exit(0)
	case "env", "reload":
		f := filepath.Join(j.Dir, "c11env.yaml")
		if j.Mode == "env" {
			f = envDag(j.Dir, j.Names, j.NPos, j.Extra...)
		}
		d, err := dag.Load("", f, j.Params)
		if err != nil {
			res.Err = err.Error()
			put()
			return
		}
		if d.Params != nil {
			res.Params = d.Params
		}
		// what the status file records, through the real Status type and its JSON form
		st := model.NewStatus(d, nil, scheduler.StatusSuccess, os.Getpid(), nil, nil)
		js, err := st.ToJSON()
		if err != nil {
			res.Err = "status json: " + err.Error()
			put()
			return
		}
		st2, err := model.StatusFromJSON(string(js))
		if err != nil {
			res.Err = "status json: " + err.Error()
			put()
			return
		}
		res.Recorded = st2.Params
		g, err := scheduler.NewExecutionGraph(quiet(), d.Steps...)
		if err != nil {
			res.Err = err.Error()
			put()
			return
		}
		_, res.Status = schedule(d, g, j.Dir)
		for _, n := range []string{"env", "arg", "handler"} {
			res.Probes[n] = readProbe(filepath.Join(j.Dir, "p-"+n+".json"))
		}
	case "outA":
		f := outDag(j.Dir, j.NPos == 1, j.Fail1, j.Collide, j.ProdFiles)
		d, err := dag.Load("", f, "")
		if err != nil {
			res.Err = err.Error()
			put()
			return
		}
		g, err := scheduler.NewExecutionGraph(quiet(), d.Steps...)
		if err != nil {
			res.Err = err.Error()
			put()
			return
		}
		sc, status := schedule(d, g, j.Dir)
		res.Status = status
		for _, n := range []string{"d1", "d1arg", "d2", "handler"} {
			res.Probes[n] = readProbe(filepath.Join(j.Dir, "p-"+n+".json"))
		}
		// the status as the agent records it (agent.go:213-252), through JSON
		st := &model.Status{RequestID: "c11c11c11", Name: d.Name, Status: sc.Status(g), StatusText: sc.Status(g).String(),
			Nodes: model.FromNodesOrSteps(g.NodeData(), d.Steps), Params: model.Params(d.Params)}
		js, err := st.ToJSON()
		if err != nil {
			res.Err = "status json: " + err.Error()
			put()
			return
		}
		if err := os.WriteFile(j.Status, js, 0644); err != nil {
			panic(err)
		}
		// the recorded output map of the first node, byte exact as far as JSON allows
		if st2, err := model.StatusFromJSON(string(js)); err == nil && len(st2.Nodes) > 0 && st2.Nodes[0].Step.OutputVariables != nil {
			res.Entries = map[string]string{}
			st2.Nodes[0].Step.OutputVariables.Range(func(k, v any) bool {
				ks, _ := k.(string)
				vs, _ := v.(string)
				res.Entries[ks] = base64.StdEncoding.EncodeToString([]byte(vs))
				return true
			})
		}
	case "outB":
		b, err := os.ReadFile(j.Status)
		if err != nil {
			res.Err = "no status file"
			put()
			return
		}
		st, err := model.StatusFromJSON(string(b))
		if err != nil {
			res.Err = "status json: " + err.Error()
			put()
			return
		}
		d, err := dag.Load("", filepath.Join(j.Dir, "c11out.yaml"), st.Params)
		if err != nil {
			res.Err = err.Error()
			put()
			return
		}
		nodes := make([]*scheduler.Node, 0, len(st.Nodes))
		for _, n := range st.Nodes {
			nodes = append(nodes, n.ToNode())
		}
		g, err := scheduler.NewExecutionGraphForRetry(quiet(), nodes...)
		if err != nil {
			res.Err = err.Error()
			put()
			return
		}
		_, res.Status = schedule(d, g, j.Dir)
		res.Probes["retry"] = readProbe(filepath.Join(j.Dir, "p-retry.json"))
		res.Probes["retryarg"] = readProbe(filepath.Join(j.Dir, "p-retryarg.json"))
	}
	put()
}

// the environment of a worker: this process's, minus the positional variables that LoadYAML calls of the
// parse/doc streams have exported here (parser.go:133) and minus OUT
func cleanEnv() []string {
	var e []string
	for _, kv := range os.Environ() {
		k := kv
		if i := strings.IndexByte(kv, '='); i >= 0 {
			k = kv[:i]
		}
		if k == "OUT" || k == "C11VAR" || (k != "" && strings.Trim(k, "0123456789") == "") {
			continue
		}
		e = append(e, kv)
	}
	return e
}

// runJob spawns a worker; returns (result, hang)
func runJob(j Job, watchdog time.Duration) (*JobResult, bool) {
	in, _ := json.Marshal(j)
	cmd := exec.Command(self(), "worker")
	cmd.Stdin = bytes.NewReader(in)
	var out bytes.Buffer
	cmd.Stdout = &out
	cmd.Stderr = io.Discard
	cmd.Env = append(cleanEnv(), j.Env...)
	cmd.SysProcAttr = &syscall.SysProcAttr{Setpgid: true}
	if err := cmd.Start(); err != nil {
		return &JobResult{Err: "spawn: " + err.Error()}, false
	}
	doneCh := make(chan error, 1)
	go func() { doneCh <- cmd.Wait() }()
	select {
	case <-doneCh:
	case <-time.After(watchdog):
		_ = syscall.Kill(-cmd.Process.Pid, syscall.SIGKILL)
		<-doneCh
		return &JobResult{Err: "watchdog"}, true
	}
	var r JobResult
	if err := json.Unmarshal(out.Bytes(), &r); err != nil {
		return &JobResult{Err: "worker output: " + err.Error()}, false
	}
	return &r, false
}

// ---------------------------------------------------------------------------------------------
// running cases
// ---------------------------------------------------------------------------------------------

func namesOf(items []Item) ([]string, int) {
	seen := map[string]bool{}
	var ns []string
	for _, it := range items {
		if it.Name != "" && !seen[it.Name] {
			seen[it.Name] = true
			ns = append(ns, it.Name)
		}
	}
	return ns, len(items) + 2
}

// a positional value that quoteParam (model.Params) reads as NAME=value: the name, when it is a harmless word
func posEqNames(items []Item) []string {
	var out []string
	for _, it := range items {
		if it.Name != "" {
			continue
		}
		i := strings.Index(it.Value, "=")
		if i <= 0 {
			continue
		}
		ok := true
		for _, ch := range it.Value[:i] {
			if !(ch >= 'a' && ch <= 'z' || ch >= 'A' && ch <= 'Z' || ch >= '0' && ch <= '9' || ch == '_') {
				ok = false
			}
		}
		if ok && !(it.Value[0] >= '0' && it.Value[0] <= '9') {
			out = append(out, it.Value[:i])
		}
	}
	return out
}

func execCase(c *Case, base string) {
	t0 := time.Now()
	defer func() { c.Ms = int(time.Since(t0) / time.Millisecond) }()
	c.Params, c.Params2, c.Probes, c.Err, c.Hang, c.Recorded, c.Status, c.GoTrim, c.Entries = []string{}, nil, nil, "", false, "", "", "", nil
	switch c.Stream {
	case "parse", "doc":
		if c.Stream == "doc" {
			c.S = render(c.Items)
		}
		ps, e := loadYAMLParams(c.S)
		if ps != nil {
			c.Params = ps
		}
		c.Err = e
	case "env", "loop":
		c.S = render(c.Items)
		dir, err := os.MkdirTemp(base, "e")
		if err != nil {
			panic(err)
		}
		defer os.RemoveAll(dir)
		names, npos := namesOf(c.Items)
		r, hang := runJob(Job{Mode: "env", Dir: dir, Params: c.S, Names: names, NPos: npos, Extra: posEqNames(c.Items)}, 20*time.Second)
		c.Hang, c.Err, c.Status = hang, r.Err, r.Status
		if r.Params != nil {
			c.Params = r.Params
		}
		c.Recorded = r.Recorded
		c.Probes = map[string]*Probe{}
		for k, v := range r.Probes {
			c.Probes[k] = v
		}
		if c.Stream == "loop" && r.Err == "" && !hang {
			for _, n := range []string{"env", "arg", "handler"} {
				os.Remove(filepath.Join(dir, "p-"+n+".json"))
			}
			r2, hang2 := runJob(Job{Mode: "reload", Dir: dir, Params: r.Recorded, Names: names, NPos: npos}, 20*time.Second)
			c.Hang = hang2
			if r2.Err != "" {
				c.Err = "reload: " + r2.Err
			}
			c.Params2 = r2.Params
			if c.Params2 == nil {
				c.Params2 = []string{}
			}
			for k, v := range r2.Probes {
				c.Probes["re-"+k] = v
			}
		}
	case "subst":
		c.S = render(c.Items)
		dir, err := os.MkdirTemp(base, "s")
		if err != nil {
			panic(err)
		}
		defer os.RemoveAll(dir)
		names, npos := namesOf(c.Items)
		r, hang := runJob(Job{Mode: "env", Dir: dir, Params: c.S, Names: names, NPos: npos, Env: []string{"C11VAR=alpha"}, Extra: posEqNames(c.Items)}, 20*time.Second)
		c.Hang, c.Err, c.Status = hang, r.Err, r.Status
		if r.Params != nil {
			c.Params = r.Params
		}
		c.Recorded = r.Recorded
		c.Probes = map[string]*Probe{}
		for k, v := range r.Probes {
			c.Probes[k] = v
		}
		if r.Err == "" && !hang {
			for _, n := range []string{"env", "arg", "handler"} {
				os.Remove(filepath.Join(dir, "p-"+n+".json"))
			}
			// retry / restart run in another process, later: the variable has changed
			r2, hang2 := runJob(Job{Mode: "reload", Dir: dir, Params: r.Recorded, Names: names, NPos: npos, Env: []string{"C11VAR=beta"}}, 20*time.Second)
			c.Hang = hang2
			if r2.Err != "" {
				c.Err = "reload: " + r2.Err
			}
			c.Params2 = r2.Params
			if c.Params2 == nil {
				c.Params2 = []string{}
			}
			for k, v := range r2.Probes {
				c.Probes["re-"+k] = v
			}
		}
	case "subwf":
		c.S = render(c.Items)
		dir, err := os.MkdirTemp(base, "w")
		if err != nil {
			panic(err)
		}
		defer os.RemoveAll(dir)
		names, npos := namesOf(c.Items)
		_, hang := runJob(Job{Mode: "cli", Dir: dir, Params: `"` + c.S + `"`, Names: names, NPos: npos, SubWf: true}, 40*time.Second)
		c.Hang = hang
		c.Probes = map[string]*Probe{}
		for _, n := range []string{"first", "env", "arg", "handler"} {
			c.Probes[n] = readProbe(filepath.Join(dir, "p-"+n+".json"))
		}
		// did the child run? (its history is written under the same HOME)
		if fs, _ := filepath.Glob(filepath.Join(dir, ".blackdagger", "data", "c11child*", "*.dat")); len(fs) > 0 {
			c.Status = "child-ran"
		}
	case "retrycmd":
		c.S = render(c.Items)
		dir, err := os.MkdirTemp(base, "t")
		if err != nil {
			panic(err)
		}
		defer os.RemoveAll(dir)
		names, npos := namesOf(c.Items)
		c.Probes = map[string]*Probe{}
		extra := posEqNames(c.Items)
		if c.EnvDiff {
			extra = append(extra, "RUNDIR")
		}
		_, hang := runJob(Job{Mode: "cli", Dir: dir, Params: `"` + c.S + `"`, Names: names, NPos: npos, Fail1: true, EnvDiff: c.EnvDiff,
			Env: []string{"C11VAR=alpha"}, Extra: extra}, 30*time.Second)
		c.Hang = hang
		c.Probes["first"] = readProbe(filepath.Join(dir, "p-first.json"))
		os.Remove(filepath.Join(dir, "p-first.json"))
		// the request id and the recorded parameters of the failed run, from its history file
		req := ""
		if fs, _ := filepath.Glob(filepath.Join(dir, ".blackdagger", "data", "*", "*.dat")); len(fs) > 0 {
			if b, err := os.ReadFile(fs[len(fs)-1]); err == nil {
				lines := strings.Split(strings.TrimSpace(string(b)), "\n")
				var st struct {
					RequestId string
					Params    string
				}
				if json.Unmarshal([]byte(lines[len(lines)-1]), &st) == nil {
					req, c.Recorded = st.RequestId, st.Params
				}
			}
		}
		if req == "" {
			c.Err = "no history of the first run"
			return
		}
		_, hang2 := runJob(Job{Mode: "retrycmd", Dir: dir, ReqID: req, Env: []string{"C11VAR=beta"}}, 30*time.Second)
		if hang2 {
			c.Hang = true
		}
		for _, n := range []string{"env", "arg"} {
			c.Probes["re-"+n] = readProbe(filepath.Join(dir, "p-"+n+".json"))
		}
	case "restart":
		c.S = render(c.Items)
		dir, err := os.MkdirTemp(base, "r")
		if err != nil {
			panic(err)
		}
		defer os.RemoveAll(dir)
		names, npos := namesOf(c.Items)
		c.Probes = map[string]*Probe{}
		first := make(chan bool, 1)
		go func() {
			_, h := runJob(Job{Mode: "cli", Dir: dir, Params: `"` + c.S + `"`, Names: names, NPos: npos, Sleep: true,
				Env: []string{"C11VAR=alpha"}, Extra: posEqNames(c.Items)}, 30*time.Second)
			first <- h
		}()
		// the first run has shown what it sees once its second step has left its probe; it then sleeps
		for i := 0; i < 100; i++ {
			if _, err := os.Stat(filepath.Join(dir, "p-arg.json")); err == nil {
				break
			}
			time.Sleep(50 * time.Millisecond)
		}
		time.Sleep(300 * time.Millisecond) // the agent records its first status 100 ms after the start
		for _, n := range []string{"env", "arg"} {
			c.Probes[n] = readProbe(filepath.Join(dir, "p-"+n+".json"))
			os.Remove(filepath.Join(dir, "p-"+n+".json"))
		}
		_, hang := runJob(Job{Mode: "restart", Dir: dir, Env: []string{"C11VAR=beta"}}, 30*time.Second)
		c.Hang = hang
		if <-first {
			c.Hang = true
		}
		for _, n := range []string{"env", "arg"} {
			c.Probes["re-"+n] = readProbe(filepath.Join(dir, "p-"+n+".json"))
		}
	case "cli":
		c.S = render(c.Items)
		dir, err := os.MkdirTemp(base, "c")
		if err != nil {
			panic(err)
		}
		defer os.RemoveAll(dir)
		names, npos := namesOf(c.Items)
		// the worker exits through the command; what it did is in the probe files
		_, hang := runJob(Job{Mode: "cli", Dir: dir, Params: `"` + c.S + `"`, Names: names, NPos: npos}, 30*time.Second)
		c.Hang = hang
		c.Probes = map[string]*Probe{}
		for _, n := range []string{"env", "arg", "handler"} {
			c.Probes[n] = readProbe(filepath.Join(dir, "p-"+n+".json"))
		}
	case "out":
		dir, err := os.MkdirTemp(base, "o")
		if err != nil {
			panic(err)
		}
		defer os.RemoveAll(dir)
		ob, _ := base64.StdEncoding.DecodeString(c.OutB64)
		eb, _ := base64.StdEncoding.DecodeString(c.ErrB64)
		if c.Gen == "size" {
			ob = bigOutput(c.Size)
		}
		_ = os.WriteFile(filepath.Join(dir, "out.bin"), ob, 0644)
		withErr := 0
		if len(eb) > 0 {
			withErr = 1
			_ = os.WriteFile(filepath.Join(dir, "err.bin"), eb, 0644)
		}
		c.GoTrim = base64.StdEncoding.EncodeToString([]byte(strings.TrimSpace(string(ob))))
		if c.Gen == "size" {
			c.GoTrim = "" // large patterned outputs are regenerated by the check
		}
		stf := filepath.Join(dir, "status.json")
		wd := 20 * time.Second
		if len(ob) > 65536 {
			wd = 4 * time.Second
		}
		if c.Out0 != "" {
			o0, _ := base64.StdEncoding.DecodeString(c.Out0)
			_ = os.WriteFile(filepath.Join(dir, "out0.bin"), o0, 0644)
		}
		r, hang := runJob(Job{Mode: "outA", Dir: dir, NPos: withErr, Status: stf, Fail1: c.Out0 != "", Collide: c.Collide, ProdFiles: c.ProdFiles}, wd)
		c.Hang, c.Err, c.Status = hang, r.Err, r.Status
		c.Entries = r.Entries
		c.Probes = map[string]*Probe{}
		for k, v := range r.Probes {
			c.Probes[k] = v
		}
		if !hang && r.Err == "" {
			r2, hang2 := runJob(Job{Mode: "outB", Dir: dir, Status: stf}, 20*time.Second)
			if hang2 {
				c.Hang = true
			}
			if r2.Err != "" {
				c.Err = "retry: " + r2.Err
			}
			for k, v := range r2.Probes {
				c.Probes[k] = v
			}
			c.Status += "/" + r2.Status
		}
	}
}

// bigOutput: a position-dependent pattern with white space at both ends (so that trimming is visible)
func bigOutput(n int) []byte {
	b := make([]byte, n)
	for i := range b {
		b[i] = byte('a' + (i+i/26+i/676)%26)
	}
	if n >= 8 {
		copy(b, " \n\t")
		copy(b[n-3:], "\n \n")
	}
	return b
}

// ---------------------------------------------------------------------------------------------
// generators
// ---------------------------------------------------------------------------------------------

var fixedParse = []string{`"a b" c`, `X="a b"`, `"a=b"`, `"say \"hi\""`, "a `echo` b", `a=`, `=a`, `"unterminated`, "`x",
	`a="b`, `X=\"`, `"a\"`, "`\\\"`", "``", `""`, `a=""`, `a=b=c`, `==`, `a ==b`, `"a= b"`, `"a =b"`, `"a=" "b"`, `"\\"`, `"a\" "b"`,
	"a\tb\nc", "a\fb\rc", "a\vb", `"a` + "\n" + `b" c`, `X=` + "`echo 1`", "`a b` c", "`a\"b` c", `'a b'`, `a"b"c`, `a="b"c`, `"a""b"`,
	`"""`, `""""`, `a="""`, `é=ü "ñ ß"`, `" a "`, `"\"a"`, `"a\\"`, `$X "$Y z"`, `a\ b`, `x= y`, `x =y`, `=`, `"="`, `" ="`, `"= "`, `A=1 B="2 3" c`}

func randString(r *vh.Rng, alpha []string, max int) string {
	l := r.Below(max + 1)
	var sb strings.Builder
	for i := 0; i < l; i++ {
		sb.WriteString(alpha[r.Below(len(alpha))])
	}
	return sb.String()
}

var alphaParse = []string{"a", "b", "X", "1", "=", "=", `"`, `"`, "`", `\`, " ", " ", " ", "\t", "\n", "é", "$", "'"}

// values of documented items: the classes the property speaks of (spaces, quotes, =) and the edges
func genValue(r *vh.Rng, safe bool) string {
	plain := []string{"a", "b", "c", "X", "1", "2", "-", "_", ".", "/", ":", ",", "é", "ß", "%", "+", "@"}
	if safe {
		return randString(r, plain, 5) + plain[r.Below(len(plain))]
	}
	mid := append(append([]string{}, plain...), " ", " ", " ", "=", "=", `"`, `\`, "\t", "'", "#", "{", "*", "\n")
	switch r.Below(12) {
	case 0:
		return ""
	case 1, 2, 3:
		return randString(r, plain, 5) + plain[r.Below(len(plain))]
	case 4, 5:
		return randString(r, plain, 3) + " " + randString(r, plain, 3) + plain[r.Below(len(plain))]
	case 6:
		return randString(r, plain, 3) + "=" + randString(r, plain, 3)
	case 7:
		return randString(r, mid, 6) + []string{`"`, `\`, `\"`, `"x`, "a"}[r.Below(5)]
	case 8:
		return []string{`"`, `\`, "=", " ", `say "hi"`}[r.Below(5)] + randString(r, mid, 6)
	default:
		return randString(r, mid, 8)
	}
}

func genName(r *vh.Rng) string {
	first := []string{"A", "B", "X", "Y", "N", "a", "k", "_"}
	rest := []string{"A", "b", "1", "2", "_", "Z"}
	n := first[r.Below(len(first))] + randString(r, rest, 4)
	return n
}

func bareOK(v string, named bool) bool {
	if v == "" || v[0] == '`' {
		return false
	}
	for i := 0; i < len(v); i++ {
		switch v[i] {
		case ' ', '\t', '\n', '\r', '\f', '"':
			return false
		case '=':
			if !named && i > 0 {
				return false
			}
		}
	}
	if !named && strings.Contains(v, "=") && v[0] != '=' {
		return false
	}
	return true
}

func genItems(r *vh.Rng, safe bool, maxn int) []Item {
	n := 1 + r.Below(maxn)
	items := make([]Item, 0, n)
	for i := 0; i < n; i++ {
		v := genValue(r, safe && r.Chance(2, 3))
		named := r.Chance(2, 5)
		it := Item{Value: v}
		if named {
			it.Name = genName(r)
		}
		if bareOK(v, named) && r.Chance(1, 2) {
			it.Kind = "w"
		} else {
			it.Kind = "q"
		}
		if named {
			it.Kind = "n" + it.Kind
		}
		items = append(items, it)
	}
	return items
}

func noBacktick(items []Item) bool {
	for _, it := range items {
		if strings.Contains(it.Value, "`") {
			return false
		}
	}
	return true
}

func noSubst(items []Item) bool {
	for _, it := range items {
		if strings.ContainsAny(it.Value, "$`") {
			return false
		}
	}
	return true
}

var wsRunes = []string{" ", "\n", "\t", "\r", "\v", "\f", "\u0085", "\u00a0", "\u1680", "\u2000", "\u2003", "\u200a", "\u2028", "\u2029", "\u202f", "\u205f", "\u3000"}
var nearWs = []string{"\u200b", "\u0084", "\u00a1", "\u180e", "\u2060", "\ufeff", "\x1c", "\x1f", "\u2027", "\u3001", "\xc2", "\x85", "\xa0", "\xe2\x80", "\x80\x80", "\u200b"}

func genOutput(r *vh.Rng) []byte {
	body := []string{"a", "b", "Z", "0", " ", " ", "\n", "\t", `"`, "'", "=", "$", "$HOME", `\`, `\n`, "é", "日本", "😀", "`", "%s", "{", ";", "&", "|", "*", "~", "#"}
	edge := func() string {
		var sb strings.Builder
		for i := r.Below(4); i > 0; i-- {
			if r.Chance(1, 8) {
				sb.WriteString(nearWs[r.Below(len(nearWs))])
			} else {
				sb.WriteString(wsRunes[r.Below(len(wsRunes))])
			}
		}
		return sb.String()
	}
	s := edge() + randString(r, body, 10) + edge()
	if r.Chance(1, 6) {
		s = edge() // white space only
	}
	return []byte(s)
}

// ---------------------------------------------------------------------------------------------

func main() {
	if len(os.Args) >= 2 {
		switch os.Args[1] {
		case "worker":
			workerMain()
			return
		case "start":
			// a `run:` step of a DAG under test: hand over to the real start command (HOME is inherited)
			log.SetOutput(io.Discard)
			if bdcmd.Execute() != nil {
				os.Exit(1)
			}
			return
		case "envdump", "argdump", "catfile", "failonce", "catattempt":
			childMain(os.Args[1:])
			return
		}
	}
	log.SetOutput(io.Discard)
	out, err := vh.NewOut(os.Args[1])
	if err != nil {
		panic(err)
	}
	defer out.Close()
	tier := os.Args[2]
	absOut, err := filepath.Abs(os.Args[1])
	if err != nil {
		panic(err)
	}
	base, err := os.MkdirTemp(filepath.Dir(absOut), "c11run")
	if err != nil {
		panic(err)
	}
	defer os.RemoveAll(base)
	var cases []*Case
	add := func(c *Case) { c.K = len(cases); cases = append(cases, c) }

	if tier == "replay" {
		f, err := os.Open(os.Args[3])
		if err != nil {
			panic(err)
		}
		sc := bufio.NewScanner(f)
		sc.Buffer(make([]byte, 1<<20), 1<<28)
		for sc.Scan() {
			var c Case
			if json.Unmarshal(sc.Bytes(), &c) != nil || c.Stream == "" {
				continue
			}
			cc := c
			add(&cc)
		}
	} else {
		rng := vh.NewRng(vh.SeedFromEnv())
		thorough := tier == "thorough"
		pick := func(q, t int) int {
			if thorough {
				return t
			}
			return q
		}
		for _, s := range fixedParse {
			add(&Case{Stream: "parse", Gen: "fixed", S: s})
		}
		for i := pick(2500, 60000); i > 0; i-- {
			add(&Case{Stream: "parse", Gen: "random", S: randString(rng, alphaParse, 14)})
		}
		// documented items: safe lists, and lists with the edge classes
		fixedDoc := [][]Item{
			{{Kind: "q", Value: "a b"}, {Kind: "w", Value: "c"}},
			{{Kind: "nq", Name: "X", Value: "a b"}},
			{{Kind: "q", Value: "a=b"}},
			{{Kind: "q", Value: `say "hi"`}},
			{{Kind: "q", Value: `a\`}, {Kind: "q", Value: "b"}},
			{{Kind: "q", Value: `"hi" there`}},
			{{Kind: "q", Value: ""}, {Kind: "nq", Name: "E", Value: ""}},
			{{Kind: "q", Value: "a= b"}}, {{Kind: "q", Value: "a =b"}}, {{Kind: "q", Value: "a="}, {Kind: "q", Value: "b"}},
			{{Kind: "nw", Name: "K", Value: "a=b"}}, {{Kind: "w", Value: "=a"}}, {{Kind: "q", Value: "PEQ=x y"}, {Kind: "w", Value: "z"}},
			{{Kind: "q", Value: "a b\\"}, {Kind: "q", Value: "c d"}}, {{Kind: "q", Value: "x y=z"}}, {{Kind: "w", Value: "tail\\"}},
			{{Kind: "nq", Name: "K", Value: "x=y z"}, {Kind: "w", Value: "p"}, {Kind: "q", Value: "q r"}},
		}
		for _, it := range fixedDoc {
			add(&Case{Stream: "doc", Gen: "fixed", Items: it})
		}
		for i := pick(1200, 30000); i > 0; i-- {
			add(&Case{Stream: "doc", Gen: "random", Items: genItems(rng, i%2 == 0, 4)})
		}
		// environment actually seen by children; the record -> re-parse loop
		for _, it := range fixedDoc {
			if noSubst(it) {
				add(&Case{Stream: "loop", Gen: "fixed", Items: it})
			}
		}
		for i := pick(60, 1500); i > 0; {
			it := genItems(rng, i%3 != 0, 4)
			if !noSubst(it) {
				continue
			}
			add(&Case{Stream: "env", Gen: "random", Items: it})
			i--
		}
		for i := pick(70, 1500); i > 0; {
			it := genItems(rng, i%2 == 0, 4)
			if !noSubst(it) {
				continue
			}
			add(&Case{Stream: "loop", Gen: "random", Items: it})
			i--
		}
		// outputs
		b64 := func(b []byte) string { return base64.StdEncoding.EncodeToString(b) }
		fixedOut := []string{"", "x", " x ", "\n", "a b\n", "a\nb\n", "  \"q\" 'r' \n", "k=v\n", "$HOME\n", "a\\nb\n", "\u00e9\u65e5\u672c\U0001F600\n",
			"\u00a0x\u2003", "\u2028x\u3000\n", "\u200bx\u200b", "x\x85", "\xc2\x85x\xc2\x85", "\xe2\x80x", "x\xe2\x80\x80", "x\x80\x80", "\vx\f", "\x1cx\x1c", "OUT=1\n", "a=b=c\n", "=x=", "k=v w=z\n",
			"\u1680\u2000\u200a\u2029\u202f\u205fx\u1680\u2000\u200a\u2029\u202f\u205f", "\u180ex\u180e", "x\xe2\x80\xa8", "x\xe2\x80\xa7", "\xe2\x80\x8bx"}
		for _, s := range fixedOut {
			add(&Case{Stream: "out", Gen: "fixed", OutB64: b64([]byte(s)) })
		}
		for i := pick(40, 800); i > 0; i-- {
			o := genOutput(rng)
			c := &Case{Stream: "out", Gen: "random", OutB64: b64(o) }
			if i%5 == 0 {
				c.ErrB64 = b64([]byte("E" + randString(rng, []string{"r", "!", " "}, 4) + "\n"))
			} else if i%3 == 0 {
				c.Out0 = b64([]byte("first attempt " + randString(rng, []string{"a", "=", " ", "Z"}, 6) + "\n"))
			}
			// the name of the output is also a parameter / an env: entry; the producer has files of its own
			c.Collide = []string{"", "", "param", "env"}[rng.Below(4)]
			c.ProdFiles = []int{0, 0, 1, 2, 3}[rng.Below(5)]
			add(c)
		}
		// 131067 bytes is the longest value execve takes in one NAME=value string (MAX_ARG_STRLEN 131072, "OUT=" and
		// the terminating NUL included); the pattern has 6 bytes of white space that are trimmed
		for _, n := range []int{4095, 4096, 4097, 65535, 65536, 65537, 131067 + 6, 131068 + 6, 1 << 20} {
			add(&Case{Stream: "out", Gen: "size", Size: n})
		}
		if thorough {
			for i := 0; i < 40; i++ {
				add(&Case{Stream: "out", Gen: "size", Size: 8 + rng.Below(140000)})
			}
		}
		// $C11VAR in parameter values
		substFixed := [][]Item{
			{{Kind: "nw", Name: "TARGET", Value: "${C11VAR}"}},
			{{Kind: "w", Value: "$C11VAR"}, {Kind: "nw", Name: "T", Value: "pre-$C11VAR"}},
			{{Kind: "nq", Name: "Q", Value: "${C11VAR}/x"}, {Kind: "w", Value: "plain"}},
			{{Kind: "q", Value: "${C11VAR}"}, {Kind: "nw", Name: "Z", Value: "a-${C11VAR}-b"}},
		}
		for _, it := range substFixed {
			add(&Case{Stream: "subst", Gen: "fixed", Items: it})
		}
		for i := pick(6, 200); i > 0; i-- {
			its := genItems(rng, true, 3)
			for k := range its {
				if !strings.ContainsAny(its[k].Value, " \t\n\"'\\`$") && rng.Chance(2, 3) {
					its[k].Value = []string{"${C11VAR}", "$C11VAR", its[k].Value + "-${C11VAR}", "${C11VAR}." + its[k].Value}[rng.Below(4)]
				}
			}
			if noBacktick(its) {
				add(&Case{Stream: "subst", Gen: "random", Items: its})
			}
		}
		// a sub-workflow step between the consumers
		subFixed := [][]Item{
			{{Kind: "w", Value: "parent-first"}, {Kind: "nw", Name: "SUBN", Value: "parent-value"}},
			{{Kind: "q", Value: "a b"}, {Kind: "nq", Name: "N", Value: "p q"}, {Kind: "w", Value: "c"}},
			{{Kind: "nw", Name: "K", Value: "a=b"}, {Kind: "q", Value: ""}},
		}
		for _, it := range subFixed {
			add(&Case{Stream: "subwf", Gen: "fixed", Items: it})
		}
		for i := pick(3, 60); i > 0; {
			it := genItems(rng, true, 3)
			if !noSubst(it) || strings.ContainsAny(render(it), "\n\r") {
				continue
			}
			add(&Case{Stream: "subwf", Gen: "random", Items: it})
			i--
		}
		// retry of a failed run through the real command
		retryFixed := [][]Item{
			{{Kind: "q", Value: "hello world"}},
			{{Kind: "q", Value: "a b"}, {Kind: "w", Value: "c"}, {Kind: "q", Value: "d e"}},
			{{Kind: "q", Value: ""}, {Kind: "nw", Name: "T", Value: "${C11VAR}"}, {Kind: "q", Value: "x ${C11VAR}"}},
			{{Kind: "nq", Name: "N", Value: "p q"}, {Kind: "q", Value: "say \"hi\" now"}},
		}
		for _, it := range retryFixed {
			add(&Case{Stream: "retrycmd", Gen: "fixed", Items: it})
		}
		// an env: entry whose value differs when the retry loads the DAG file: the re-executed steps see the recorded one
		add(&Case{Stream: "retrycmd", Gen: "fixed", Items: []Item{{Kind: "w", Value: "p1"}}, EnvDiff: true})
		add(&Case{Stream: "retrycmd", Gen: "fixed", Items: []Item{{Kind: "q", Value: "a b"}, {Kind: "nw", Name: "N", Value: "${C11VAR}"}}, EnvDiff: true})
		for i := pick(2, 60); i > 0; {
			it := genItems(rng, true, 3)
			if !noSubst(it) || strings.ContainsAny(render(it), "\n\r") {
				continue
			}
			add(&Case{Stream: "retrycmd", Gen: "random", Items: it})
			i--
		}
		// restart of a running DAG
		restartFixed := [][]Item{
			{{Kind: "q", Value: "a b"}, {Kind: "w", Value: "c"}, {Kind: "nq", Name: "N", Value: "p q"}},
			{{Kind: "nw", Name: "TARGET", Value: "${C11VAR}"}, {Kind: "q", Value: "x ${C11VAR} y"}},
			{{Kind: "q", Value: ""}, {Kind: "w", Value: "$C11VAR"}, {Kind: "q", Value: "say \"hi\""}},
			{{Kind: "q", Value: "k=v w"}, {Kind: "nq", Name: "E", Value: ""}},
		}
		for _, it := range restartFixed {
			add(&Case{Stream: "restart", Gen: "fixed", Items: it})
		}
		for i := pick(2, 60); i > 0; {
			it := genItems(rng, true, 3)
			if !noSubst(it) || strings.ContainsAny(render(it), "\n\r") {
				continue
			}
			add(&Case{Stream: "restart", Gen: "random", Items: it})
			i--
		}
		// the command line entry point with the API client's wrapping
		cliFixed := [][]Item{
			{{Kind: "q", Value: "a b"}, {Kind: "w", Value: "c"}, {Kind: "q", Value: "d e"}},
			{{Kind: "q", Value: "a b"}},
			{{Kind: "w", Value: "x"}, {Kind: "nq", Name: "N", Value: "p q"}},
			{{Kind: "nq", Name: "N", Value: "p q"}, {Kind: "w", Value: "x"}},
			{{Kind: "q", Value: ""}, {Kind: "w", Value: "y"}, {Kind: "q", Value: ""}},
		}
		for _, it := range cliFixed {
			add(&Case{Stream: "cli", Gen: "fixed", Items: it})
		}
		for i := pick(6, 150); i > 0; {
			it := genItems(rng, true, 3)
			if !noSubst(it) || strings.ContainsAny(render(it), "\n\r") {
				continue
			}
			add(&Case{Stream: "cli", Gen: "random", Items: it})
			i--
		}
	}

	// parse/doc in-process (LoadYAML has no lasting effect besides $1..$n of this process); the rest in workers
	var wg sync.WaitGroup
	sem := make(chan struct{}, 8)
	for _, c := range cases {
		if c.Stream == "parse" || c.Stream == "doc" {
			execCase(c, base)
			continue
		}
		wg.Add(1)
		sem <- struct{}{}
		go func(c *Case) {
			defer func() { <-sem; wg.Done() }()
			execCase(c, base)
		}(c)
	}
	wg.Wait()
	for _, c := range cases {
		out.Put(c)
	}
}

