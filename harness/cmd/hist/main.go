// Driver for C06 (and the op-sequence part of C07/C18/C20): executes seeded operation histories on the
// REAL history store internal/persistence/jsondb and records, after EVERY operation, what its queries
// answer for every DAG name of the history plus a dump of the data directory.
//
//	hist <out.jsonl> quick|thorough|gen <n> <maxops> [<first>]     generate + execute
//	hist <out.jsonl> replay <in.jsonl>                              re-execute given histories (input = names + ops)
//
// Three JSONDB instances share one data directory: W performs the mutations (the recording / API process,
// its cache gets Invalidate calls), R0 and R1 only read (cache roles; R1 has latestStatusToday = true).
// All randomness derives from VERIF_SEED; history k is reproducible from (seed, k).
package main

import (
	"bufio"
	"crypto/md5"
	"encoding/hex"
	"encoding/json"
	"errors"
	"fmt"
	"io"
	"log"
	"os"
	"path/filepath"
	"sort"
	"strconv"
	"strings"
	"time"

	"github.com/ErdemOzgen/blackdagger/internal/persistence"
	"github.com/ErdemOzgen/blackdagger/internal/persistence/jsondb"
	"github.com/ErdemOzgen/blackdagger/internal/persistence/model"
	"github.com/ErdemOzgen/blackdagger/verifh/vh"
)

// ---- input ----------------------------------------------------------------------------------

type Op struct {
	T     string `json:"t"` // open write close update rename removeold touch
	D     string `json:"d,omitempty"`
	D2    string `json:"d2,omitempty"`
	Stamp string `json:"stamp,omitempty"` // yyyymmdd.hh:mm:ss.mmm with the date given as day offset: see Day
	Day   int    `json:"day"`             // open/touch: date = today + Day (today = UTC date of the execution)
	Clock string `json:"clock,omitempty"` // hh:mm:ss.mmm
	Req   string `json:"req,omitempty"`
	Tag   int    `json:"tag,omitempty"`
	Big   bool   `json:"big,omitempty"`  // status >= 4096 bytes (two write calls)
	Pad   int    `json:"pad,omitempty"`  // extra payload bytes
	Frag  int    `json:"frag,omitempty"` // tear: this many bytes of a status line reach the open run's file, then the recorder is gone
	Len   int    `json:"len,omitempty"`  // when > 0: the JSON encoding of the status is exactly this long (4096 / 65536 boundaries, > 64 KiB)
	Days  int    `json:"days,omitempty"` // removeold: retention days (0 = RemoveAll)
	C     bool   `json:"c,omitempty"`    // touch: the compacted twin
	Age   int64  `json:"age,omitempty"`  // touch: seconds before now
	// filled in by the execution
	Now    int64  `json:"now,omitempty"`    // ns: mtime of the touched file after the op / cutoff instant
	Size   int    `json:"size,omitempty"`   // JSON length of the status written
	Err    string `json:"err,omitempty"`    // "", "err"
	Cutoff int64  `json:"cutoff,omitempty"` // removeold
	R8     string `json:"r8,omitempty"`
}

type Name struct {
	D string `json:"d"`
	H string `json:"h"` // hex md5 of D (the directory suffix)
}

type History struct {
	K     int    `json:"k"`
	Names []Name `json:"names"`
	Ops   []Op   `json:"ops"`
	NRec  int    `json:"nrec"`         // n of the third ReadStatusRecent call
	TZ    string `json:"tz,omitempty"` // the zone (TZ of the driver process) the history was generated for / executed in
	// execution
	Loc   string `json:"loc,omitempty"`
	Today string `json:"today,omitempty"`
	Steps []Step `json:"steps,omitempty"`
}

// ---- observations ---------------------------------------------------------------------------

type Ans struct { // one status answer: code 0 ok, 1 no data, 2 error
	Code int    `json:"c"`
	Req  string `json:"r,omitempty"`
	Tag  int    `json:"t,omitempty"`
}
type Found struct {
	Code int    `json:"c"` // 0 found, 1 not found, 2 error
	File string `json:"f,omitempty"`
	Req  string `json:"r,omitempty"`
	Tag  int    `json:"t,omitempty"`
}
type PerName struct {
	LatW  Ans     `json:"latW"`  // W.ReadStatusToday (today filter off)
	Lat0  Ans     `json:"lat0"`  // R0
	Lat1  Ans     `json:"lat1"`  // R1 (today filter on)
	Rec1  []Ans   `json:"rec1"`  // R0.ReadStatusRecent 1
	Rec2  []Ans   `json:"rec2"`  // R1.ReadStatusRecent 2
	RecN  []Ans   `json:"recN"`  // R0.ReadStatusRecent NRec
	RecW  []Ans   `json:"recW"`  // W.ReadStatusRecent 3
	Finds []Found `json:"finds"` // W.FindByRequestID for every request id of the history so far
}
type Line struct {
	K    string `json:"k"` // r record, j junk
	Req  string `json:"r,omitempty"`
	Tag  int    `json:"t,omitempty"`
	Size int    `json:"n"`
}
type FileDump struct {
	Dir   string `json:"dir"`
	Name  string `json:"name"`
	Size  int64  `json:"size"`
	Mtime int64  `json:"mtime"`
	Lines []Line `json:"lines"`
	Tail  Line   `json:"tail"` // k: n none, p partial, f full JSON without newline
}
type Step struct {
	Op    Op         `json:"op"`
	Reqs  []string   `json:"reqs"`
	Per   []PerName  `json:"per"`
	Dirs  []string   `json:"dirs"`
	Files []FileDump `json:"files"`
}

func tagOf(st *model.Status) int { t, _ := strconv.Atoi(st.Name); return t }

func mkStatus(req string, tag int, big bool, pad int, want int) *model.Status {
	st := &model.Status{RequestID: req, Name: strconv.Itoa(tag)}
	if want > 0 {
		b, _ := json.Marshal(st)
		if want > len(b) {
			st.Params = strings.Repeat("z", want-len(b))
		}
		return st
	}
	if big {
		st.Params = strings.Repeat("x", 4200+pad)
	} else if pad > 0 {
		st.Params = strings.Repeat("y", pad)
	}
	return st
}

func md5hex(s string) string { h := md5.Sum([]byte(s)); return hex.EncodeToString(h[:]) }

func prefixOf(d string) string { return strings.TrimSuffix(filepath.Base(d), filepath.Ext(d)) }
func trunc8(s string) string {
	if len(s) > 8 {
		return s[:8]
	}
	return s
}
func dirOf(loc, d string) string { return filepath.Join(loc, prefixOf(d)+"-"+md5hex(d)) }
func fileOf(loc, d, stamp, r8 string, c bool) string {
	suf := ".dat"
	if c {
		suf = "_c.dat"
	}
	return filepath.Join(dirOf(loc, d), prefixOf(d)) + "." + stamp + "." + r8 + suf
}

func parseLines(b []byte) ([]Line, Line) {
	var lines []Line
	tail := Line{K: "n"}
	for len(b) > 0 {
		i := strings.IndexByte(string(b), '\n')
		if i < 0 {
			st, err := model.StatusFromJSON(string(b))
			if err == nil {
				tail = Line{K: "f", Req: st.RequestID, Tag: tagOf(st), Size: len(b)}
			} else {
				tail = Line{K: "p", Size: len(b)}
			}
			break
		}
		ln := b[:i]
		st, err := model.StatusFromJSON(string(ln))
		if err == nil && len(ln) > 0 {
			lines = append(lines, Line{K: "r", Req: st.RequestID, Tag: tagOf(st), Size: len(ln)})
		} else {
			lines = append(lines, Line{K: "j", Size: len(ln) + 1})
		}
		b = b[i+1:]
	}
	return lines, tail
}

func dump(loc string) ([]string, []FileDump) {
	var dirs []string
	var files []FileDump
	ents, _ := os.ReadDir(loc)
	for _, e := range ents {
		if !e.IsDir() {
			continue
		}
		dirs = append(dirs, e.Name())
		fe, _ := os.ReadDir(filepath.Join(loc, e.Name()))
		for _, f := range fe {
			p := filepath.Join(loc, e.Name(), f.Name())
			fi, err := os.Stat(p)
			if err != nil {
				continue
			}
			b, _ := os.ReadFile(p)
			ls, tl := parseLines(b)
			if ls == nil {
				ls = []Line{}
			}
			files = append(files, FileDump{Dir: e.Name(), Name: f.Name(), Size: fi.Size(), Mtime: fi.ModTime().UnixNano(), Lines: ls, Tail: tl})
		}
	}
	sort.Strings(dirs)
	if dirs == nil {
		dirs = []string{}
	}
	if files == nil {
		files = []FileDump{}
	}
	return dirs, files
}

func ansOf(st *model.Status, err error) Ans {
	if err == nil && st != nil {
		return Ans{Code: 0, Req: st.RequestID, Tag: tagOf(st)}
	}
	if errors.Is(err, persistence.ErrNoStatusDataToday) || errors.Is(err, persistence.ErrNoStatusData) {
		return Ans{Code: 1}
	}
	return Ans{Code: 2}
}
func recOf(l []*model.StatusFile) []Ans {
	r := []Ans{}
	for _, sf := range l {
		r = append(r, Ans{Code: 0, Req: sf.Status.RequestID, Tag: tagOf(sf.Status)})
	}
	return r
}

func mtimeOf(p string) int64 {
	fi, err := os.Stat(p)
	if err != nil {
		return time.Now().UnixNano()
	}
	return fi.ModTime().UnixNano()
}

// execute runs the ops of h on a fresh data directory under base.  ok=false: the local date changed
// during the run (the today-filter answers would be ambiguous) - the caller retries.
// ONE civil clock: start times are built in time.Local, as the agent's time.Now() is, and "today" is the local date - the store
// formats the start time into the file name and builds the today pattern from time.Now(), both in the local zone.  The process
// runs with TZ=UTC normally and with TZ=Asia/Tokyo / America/Los_Angeles for the zone slice (tools/props/C06.py): a store that
// mixes the local clock with UTC anywhere disagrees with this clock when the two dates differ.
func execute(h *History, base string) bool {
	loc, err := os.MkdirTemp(base, "d")
	if err != nil {
		panic(err)
	}
	defer os.RemoveAll(loc)
	h.Loc = loc
	W := jsondb.New(loc, false)
	R0 := jsondb.New(loc, false)
	R1 := jsondb.New(loc, true)
	today := time.Now()
	h.Today = today.Format("20060102")
	h.TZ = os.Getenv("TZ")
	h.Steps = nil
	var reqs []string
	open := false
	openD, openStamp, openReq, openMoved := "", "", "", false
	prevFiles := map[string]FileDump{}
	for _, o := range h.Ops {
		op := o
		op.Err = ""
		switch op.T {
		case "open":
			day := today.AddDate(0, 0, op.Day)
			ts, err := time.ParseInLocation("20060102 15:04:05.000", day.Format("20060102")+" "+op.Clock, time.Local)
			if err != nil {
				panic(err)
			}
			op.Stamp = ts.Format("20060102.15:04:05.000")
			if err := W.Open(op.D, ts, op.Req); err != nil {
				op.Err = "err"
			} else {
				open = true
				openD, openStamp, openReq, openMoved = op.D, op.Stamp, op.Req, false
			}
			known := false
			for _, r := range reqs {
				known = known || r == op.Req
			}
			if !known {
				reqs = append(reqs, op.Req)
			}
		case "write":
			if !open {
				continue
			}
			// the request id of the open run is not known to the op: the writer's status carries it
			st := mkStatus(curReq(h, len(h.Steps)), op.Tag, op.Big, op.Pad, op.Len)
			b, _ := json.Marshal(st)
			op.Size = len(b)
			if err := W.Write(st); err != nil {
				op.Err = "err"
			}
		case "close":
			if !open {
				continue
			}
			if err := W.Close(); err != nil {
				op.Err = "err"
			}
			open = false
		case "update":
			st := mkStatus(op.Req, op.Tag, op.Big, op.Pad, op.Len)
			b, _ := json.Marshal(st)
			op.Size = len(b)
			if err := W.Update(op.D, op.Req, st); err != nil {
				op.Err = "err"
			}
		case "tear":
			// ENVIRONMENT, not a store operation: the recording process is killed in the middle of a status line - a proper prefix of
			// the JSON text reaches the file through an append-mode descriptor, no newline, and the writer is never used again
			if !open || openMoved || op.Frag <= 0 {
				continue
			}
			b, _ := json.Marshal(mkStatus(openReq, op.Tag, false, 0, 0))
			if op.Frag >= len(b) {
				continue
			}
			f, err := os.OpenFile(fileOf(loc, openD, openStamp, trunc8(openReq), false), os.O_APPEND|os.O_WRONLY, 0644)
			if err != nil {
				continue
			}
			_, werr := f.Write(b[:op.Frag])
			_ = f.Close()
			if werr != nil {
				continue
			}
			open = false
		case "rename":
			if open && (op.D == openD || addYaml(op.D) == openD || addYaml(op.D2) == openD) {
				openMoved = true
			}
			if err := W.Rename(op.D, op.D2); err != nil {
				op.Err = "err"
			}
		case "removeold":
			if open && op.D == openD {
				openMoved = true
			}
			before := time.Now()
			op.Cutoff = before.AddDate(0, 0, -op.Days).UnixNano()
			var err error
			if op.Days == 0 {
				err = W.RemoveAll(op.D)
			} else {
				err = W.RemoveOld(op.D, op.Days)
			}
			if err != nil {
				op.Err = "err"
			}
		case "touch":
			day := today.AddDate(0, 0, op.Day)
			op.Stamp = day.Format("20060102") + "." + op.Clock
			op.R8 = trunc8(op.Req)
			t := time.Now().Add(-time.Duration(op.Age) * time.Second)
			op.Now = t.UnixNano()
			if err := os.Chtimes(fileOf(loc, op.D, op.Stamp, op.R8, op.C), t, t); err != nil {
				op.Err = "err"
			} else {
				op.Now = mtimeOf(fileOf(loc, op.D, op.Stamp, op.R8, op.C))
			}
		default:
			continue
		}
		dirsNow, filesNow := dump(loc)
		if op.T == "open" || op.T == "write" || op.T == "close" || op.T == "update" || op.T == "tear" {
			// the instant of the modification = the mtime the kernel gave the file(s) this op created or changed
			op.Now = 0
			for _, f := range filesNow {
				old, ok := prevFiles[f.Dir+"/"+f.Name]
				if (!ok || old.Mtime != f.Mtime || old.Size != f.Size) && f.Mtime > op.Now {
					op.Now = f.Mtime
				}
			}
			if op.Now == 0 {
				op.Now = time.Now().UnixNano()
			}
		}
		prevFiles = map[string]FileDump{}
		for _, f := range filesNow {
			prevFiles[f.Dir+"/"+f.Name] = f
		}
		stp := Step{Op: op, Reqs: append([]string{}, reqs...)}
		for _, nm := range h.Names {
			var pn PerName
			pn.LatW = ansOf(W.ReadStatusToday(nm.D))
			pn.Lat0 = ansOf(R0.ReadStatusToday(nm.D))
			pn.Lat1 = ansOf(R1.ReadStatusToday(nm.D))
			pn.Rec1 = recOf(R0.ReadStatusRecent(nm.D, 1))
			pn.Rec2 = recOf(R1.ReadStatusRecent(nm.D, 2))
			pn.RecN = recOf(R0.ReadStatusRecent(nm.D, h.NRec))
			pn.RecW = recOf(W.ReadStatusRecent(nm.D, 3))
			pn.Finds = []Found{}
			for _, rq := range reqs {
				sf, err := W.FindByRequestID(nm.D, rq)
				switch {
				case err == nil:
					pn.Finds = append(pn.Finds, Found{Code: 0, File: filepath.Base(sf.File), Req: sf.Status.RequestID, Tag: tagOf(sf.Status)})
				case errors.Is(err, persistence.ErrRequestIDNotFound) || strings.Contains(err.Error(), "request ID not found"):
					pn.Finds = append(pn.Finds, Found{Code: 1})
				default:
					pn.Finds = append(pn.Finds, Found{Code: 2})
				}
			}
			stp.Per = append(stp.Per, pn)
		}
		stp.Dirs, stp.Files = dirsNow, filesNow
		h.Steps = append(h.Steps, stp)
	}
	if open {
		_ = W.Close()
	}
	return time.Now().Format("20060102") == h.Today
}

// request id of the run that is open at step index i (the last executed open)
func curReq(h *History, nsteps int) string {
	for i := nsteps - 1; i >= 0; i-- {
		if h.Steps[i].Op.T == "open" && h.Steps[i].Op.Err == "" {
			return h.Steps[i].Op.Req
		}
	}
	return ""
}

// ---- generator ------------------------------------------------------------------------------

// (names that contain the store's own suffixes - .dat, _c, .tmp, .dat.tmp - are in both pools: a compacted / temporary file name must be
// built from the END of the file name, never by a replacement inside it)
var safeNames = []string{"/x/a.yaml", "/x/ab.yaml", "/x/a.b.yaml", "/x/a b.yaml", "/x/w_c.yaml", "/y/a.yaml", "/x/job-1.yaml", "/x/a_c.yaml",
	"/x/sync.database.yaml", "/x/load.data.yaml"}
var unsafeNames = []string{"/x/a[1].yaml", "/x/q*.yaml", "/x/p?.yaml", "/x/a[.yaml", "/x/n20240101.10:00:00.yaml", "/x/m29990101.10:00:00.yaml", "/x/b\\c.yaml",
	// a foreign suffix / .yml: jsondb.Rename works on util.AddYamlExtension of the name (fe0ec16), every other operation on the name itself
	"/x/v1.2", "/x/c.yml",
	"/x/p.dat.yaml", "/x/q_c.dat.yaml", "/x/r.tmp.yaml", "/x/s.dat.tmp.yaml", "/x/t_c.yaml"}

// addYaml is util.AddYamlExtension as of fe0ec16, computed independently of /repo
func addYaml(f string) string {
	switch filepath.Ext(f) {
	case ".yaml":
		return f
	case ".yml":
		return strings.TrimSuffix(f, ".yml") + ".yaml"
	}
	return f + ".yaml"
}

// status sizes around the bufio (4096) and 64 KiB boundaries and well beyond ("arbitrary status payloads")
var lens = []int{4095, 4096, 4097, 8192, 65535, 65536, 65537, 70000, 131100, 200000}

var clocks = []string{"10:00:00.000", "10:00:00.100", "10:00:00.300", "10:00:00.700", "10:00:01.000", "10:00:01.500",
	"10:01:00.000", "10:00:59.999", "23:59:59.900", "23:59:59.999", "00:00:00.000", "00:00:00.001", "09:59:59.999", "12:30:45.123"}

// the zone slice: start clocks around local midnight and around 00:00 UTC for UTC+9 (09:00 local) and UTC-8 / UTC-7 (16:00 / 17:00 local)
var zoneClocks = []string{"00:00:00.000", "00:00:00.001", "00:30:00.000", "08:59:59.999", "09:00:00.000", "09:00:00.001", "15:59:59.999", "16:00:00.000",
	"16:59:59.999", "17:00:00.000", "17:00:00.001", "23:59:59.900", "23:59:59.999", "12:30:45.123"}

func init() {
	if os.Getenv("VERIF_CLOCKS") == "zone" {
		clocks = zoneClocks
	}
}

type grun struct {
	torn   bool
	d      string
	day    int
	clock  string
	req    string
	closed bool
	nst    int
}

func gen(rng *vh.Rng, k int, maxops int) *History {
	h := &History{K: k}
	nn := 4 + rng.Below(3)
	// mostly safe names; about a third of the histories include one or two hazardous names
	pool := append([]string{}, safeNames...)
	nun := 0
	if rng.Chance(1, 3) {
		nun = 1 + rng.Below(2)
	}
	var names []string
	perm := func(n int) []int {
		p := make([]int, n)
		for i := range p {
			p[i] = i
		}
		for i := n - 1; i > 0; i-- {
			j := rng.Below(i + 1)
			p[i], p[j] = p[j], p[i]
		}
		return p
	}
	pu := perm(len(unsafeNames))
	for i := 0; i < nun; i++ {
		names = append(names, unsafeNames[pu[i]])
	}
	ps := perm(len(pool))
	for i := 0; len(names) < nn; i++ {
		names = append(names, pool[ps[i]])
	}
	// the name Rename really works on is a DAG of the history too (observed and hashed)
	for _, d := range append([]string{}, names...) {
		if y := addYaml(d); y != d {
			names = append(names, y)
		}
	}
	for _, d := range names {
		h.Names = append(h.Names, Name{D: d, H: md5hex(d)})
	}
	h.NRec = []int{3, 4, 5, 10}[rng.Below(4)]
	// a history works mostly on 1-3 of its names so that several runs per DAG (and collisions) arise
	hot := names[:1+rng.Below(3)]
	pick := func() string {
		if rng.Chance(3, 4) {
			return hot[rng.Below(len(hot))]
		}
		return names[rng.Below(len(names))]
	}
	// the collision profile of this history
	sameSecond := rng.Chance(1, 4)
	// a manual update may hit the run that is still open (since e2affa2 the descriptors are opened in append mode)
	updOpen := rng.Chance(1, 2)
	var runs []*grun
	var cur *grun
	count := map[string]int{}
	nops := 5 + rng.Below(maxops-4)
	tag := 0
	usedStamp := map[string]bool{}
	for guard := 0; len(h.Ops) < nops && guard < 100*nops; guard++ {
		r := rng.Below(100)
		switch {
		case cur == nil && r < 45 || cur != nil && r < 3: // open
			d := pick()
			if count[d] >= 10 {
				continue
			}
			var day int
			var clock string
			for try := 0; ; try++ {
				day = -rng.Below(2)
				if rng.Chance(1, 8) {
					day = -1 - rng.Below(3)
				}
				clock = clocks[rng.Below(len(clocks))]
				key := fmt.Sprintf("%s|%d|%s", d, day, clock)
				sec := fmt.Sprintf("%s|%d|%s", d, day, clock[:8])
				if usedStamp[key] && try < 200 {
					continue
				}
				if !sameSecond && usedStamp[sec] && try < 50 {
					continue
				}
				usedStamp[key] = true
				usedStamp[sec] = true
				break
			}
			req := fmt.Sprintf("%04x%04x-%d", len(runs)+1, rng.Below(65536), k)
			if rng.Chance(1, 10) {
				req = fmt.Sprintf("r%d", len(runs)+1)
			}
			g := &grun{d: d, day: day, clock: clock, req: req}
			if cur != nil {
				cur.closed = true // leaked writer: never compacted, treated as finished by the generator
			}
			runs = append(runs, g)
			cur = g
			count[d]++
			h.Ops = append(h.Ops, Op{T: "open", D: d, Day: day, Clock: clock, Req: req})
		case cur != nil && r < 42: // write
			tag++
			o := Op{T: "write", Tag: tag}
			if rng.Chance(1, 12) {
				o.Big = true
			}
			if rng.Chance(1, 9) {
				o.Len = lens[rng.Below(len(lens))]
			}
			if rng.Chance(1, 3) {
				o.Pad = rng.Below(4)
			}
			cur.nst++
			h.Ops = append(h.Ops, o)
		case cur != nil && cur.nst > 0 && r >= 64 && r < 68 && os.Getenv("VERIF_NOTEAR") != "1": // the recorder dies mid-line; usually an update follows
			tag++
			h.Ops = append(h.Ops, Op{T: "tear", Tag: tag, Frag: 1 + rng.Below(120)})
			cur.closed, cur.torn = true, true
			if rng.Chance(3, 4) {
				tag++
				h.Ops = append(h.Ops, Op{T: "update", D: cur.d, Req: cur.req, Tag: tag})
			}
			cur = nil
		case cur != nil && r < 68: // close
			cur.closed = true
			cur = nil
			h.Ops = append(h.Ops, Op{T: "close"})
		case r < 80 && len(runs) > 0: // update
			g := runs[rng.Below(len(runs))]
			if g == cur && !updOpen {
				continue
			}
			tag++
			o := Op{T: "update", D: g.d, Req: g.req, Tag: tag}
			if rng.Chance(1, 10) {
				o.D = pick() // possibly the wrong DAG: must not be found
			}
			if rng.Chance(1, 15) {
				o.Big = true
			}
			if rng.Chance(1, 10) {
				o.Len = lens[rng.Below(len(lens))]
			}
			if rng.Chance(1, 3) {
				o.Pad = rng.Below(4)
			}
			h.Ops = append(h.Ops, o)
		case r < 88 && len(runs) > 0: // rename
			d := pick()
			d2 := names[rng.Below(len(names))]
			if cur != nil && (cur.d == d) && !rng.Chance(1, 4) {
				continue
			}
			if count[d]+count[d2] > 11 {
				continue
			}
			for _, g := range runs {
				if g.d == d {
					g.d = d2
				}
			}
			if d != d2 {
				count[d2] += count[d]
				count[d] = 0
			}
			h.Ops = append(h.Ops, Op{T: "rename", D: d, D2: d2})
		case r < 94 && len(runs) > 0: // touch (age a file)
			g := runs[rng.Below(len(runs))]
			age := []int64{3 * 3600, 26 * 3600, 50 * 3600, 8*86400 + 3600, 6*86400 + 3600}[rng.Below(5)]
			h.Ops = append(h.Ops, Op{T: "touch", D: g.d, Day: g.day, Clock: g.clock, Req: g.req, C: g.closed && g.nst > 0 && !g.torn, Age: age})
		case r < 100 && len(runs) > 0: // retention
			d := pick()
			days := []int{0, 1, 2, 7, 7}[rng.Below(5)]
			if cur != nil && cur.d == d && days == 0 && !rng.Chance(1, 4) {
				continue
			}
			h.Ops = append(h.Ops, Op{T: "removeold", D: d, Days: days})
			if days == 0 {
				count[d] = 0
			}
		}
	}
	return h
}

func main() {
	log.SetOutput(io.Discard)
	out, err := vh.NewOut(os.Args[1])
	if err != nil {
		panic(err)
	}
	defer out.Close()
	mode := os.Args[2]
	base := filepath.Dir(os.Args[1])
	run := func(h *History) {
		for try := 0; try < 3; try++ {
			if execute(h, base) {
				break
			}
		}
		out.Put(h)
	}
	if mode == "replay" {
		f, err := os.Open(os.Args[3])
		if err != nil {
			panic(err)
		}
		sc := bufio.NewScanner(f)
		sc.Buffer(make([]byte, 1<<20), 1<<28)
		for sc.Scan() {
			var h History
			if json.Unmarshal(sc.Bytes(), &h) != nil {
				continue
			}
			if h.NRec == 0 {
				h.NRec = 3
			}
			run(&h)
		}
		return
	}
	n, maxops, first := 80, 40, 0
	switch mode {
	case "quick":
	case "thorough":
		n, maxops = 2000, 200
	case "gen":
		n, _ = strconv.Atoi(os.Args[3])
		maxops, _ = strconv.Atoi(os.Args[4])
		if len(os.Args) > 5 {
			first, _ = strconv.Atoi(os.Args[5])
		}
	}
	root := vh.NewRng(vh.SeedFromEnv())
	for k := first; k < first+n; k++ {
		run(gen(root.Fork(uint64(k)), k, maxops))
	}
}
