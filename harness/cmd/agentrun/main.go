// Shared in-process AGENT driver: runs the real agent.New(...).Run on generated DAGs over a scratch
// data directory, with a scripted executor ("verifscript", registered through executor.Register) that
// records every executor Run, a recording client (every "already running?" probe) and a recording
// history store (every RemoveOld/Open/Write/Close the agent issues).
//
//	agentrun <out.jsonl> <tier> <workdir> [classes]
//
// tier = quick | thorough; workdir = scratch directory (the caller removes it); classes = comma list of
//
//	refused   cycle / self-dependency / missing dependency           (C14: nothing recorded)
//	dry       Options{Dry:true} on a valid DAG                       (C03: zero executor events, no history)
//	pre       1-3 DAG preconditions in every met/unmet order         (C04: any unmet => no step, no handler, no history)
//	running   a second start / retry while the first is active       (C16: refused silently, first untouched)
//	normal    control: a plain run                                   (steps + handlers run, one history file)
//	bindfail  the socket path cannot be bound                        (run recorded, nothing executed)
//	retry     (only when named) a failed / stopped run read back from the history store and retried with a new request id (C10)
//	frozen    (only when named) the socket is held by a listener that never answers (a frozen first run): the probe times out (C16)
//	race      (only when named) the former probe/bind race (F16a): one agent held inside its locked section, a second started meanwhile (C16)
//
// default: all.  One JSON object per line, see type Case.  `log` is the ordered list of what the agent did:
// "probe", "removeold", "open", "write", "close", "exec:<step or handler name>".
package main

import (
	"context"
	"crypto/sha256"
	"encoding/hex"
	"errors"
	"fmt"
	"io"
	"net"
	"os"
	"path/filepath"
	"sort"
	"strings"
	"sync"
	"sync/atomic"
	"syscall"
	"time"

	"github.com/ErdemOzgen/blackdagger/internal/agent"
	"github.com/ErdemOzgen/blackdagger/internal/client"
	"github.com/ErdemOzgen/blackdagger/internal/dag"
	"github.com/ErdemOzgen/blackdagger/internal/dag/executor"
	"github.com/ErdemOzgen/blackdagger/internal/logger"
	"github.com/ErdemOzgen/blackdagger/internal/persistence"
	dsclient "github.com/ErdemOzgen/blackdagger/internal/persistence/client"
	"github.com/ErdemOzgen/blackdagger/internal/persistence/model"
	"github.com/ErdemOzgen/blackdagger/verifh/vh"
)

type StepJ struct {
	Name    string   `json:"name"`
	Depends []string `json:"depends"`
}

// Obs is what one agent.Run did.
type Obs struct {
	Err        string   `json:"err"`        // error text returned by Run ("" = nil)
	ErrKind    string   `json:"err_kind"`   // none | cycle | missing | precondition | running | socket | step | other
	Log        []string `json:"log"`        // ordered: probe, removeold, open, write, close, exec:<name>
	Exec       []string `json:"exec"`       // sorted names of the steps / handlers whose executor Run was entered
	HistFiles  []string `json:"hist_files"` // files under the data directory after the run (relative)
	SockSeen   bool     `json:"sock_seen"`  // the socket path existed at some instant during the run
	SockAfter  bool     `json:"sock_after"` // ... still exists after Run returned
	Final      string   `json:"final"`      // agent.Status().Status text after the run ("" if unavailable)
	DurationMs int64    `json:"duration_ms"`
	Hung       bool     `json:"hung"`    // Run did not return within the watchdog time (the log is what was seen until then)
	Stopped    bool     `json:"stopped"` // ... and returned after the driver sent it SIGTERM
}

type Case struct {
	K              int       `json:"k"`
	Class          string    `json:"class"`
	Sub            string    `json:"sub"`
	Steps          []StepJ   `json:"steps"`
	Handlers       []string  `json:"handlers"`
	Dry            bool      `json:"dry"`
	SecondPath     string    `json:"second_path"` // class running: the spelling of the DAG file's path given to the second run ("" = clean)
	HasPre         bool      `json:"has_pre"`
	PrePattern     string    `json:"pre_pattern"` // the DAG's preconditions in order: M = met, U = unmet
	PreOk          bool      `json:"pre_ok"`
	Retry          bool      `json:"retry"`         // the observed run is a retry (Options.RetryTarget set)
	Running        bool      `json:"probe_running"` // another agent of the same DAG file was active when this run started
	BindOk         bool      `json:"bind_ok"`
	Obs                      // the observed run (for class running: the SECOND run)
	First          *Obs      `json:"first,omitempty"`         // class running: the first run, after it finished
	StatusBefore   string    `json:"status_before,omitempty"` // class running: endpoint answer before / after the second attempt
	StatusAfter    string    `json:"status_after,omitempty"`
	HistDuring     int       `json:"hist_during"`         // class running: history files while the first was active, after the second attempt
	Retry2         *RetryObs `json:"retry_obs,omitempty"` // class retry
	EndpointIntact bool      `json:"endpoint_intact"`     // class frozen: the socket path still leads to the listener that held it
	BothActive     bool      `json:"both_active"`         // class race: A and B were inside a step at the same time
	BWaited        bool      `json:"b_waited"`            // class race: B did nothing while A was inside its locked section
	Others         []*Obs    `json:"others,omitempty"`    // class race: the runs B and C
	Infra          string    `json:"infra,omitempty"`     // the driver itself failed (not an observation)
}

// ---------------------------------------------------------------------------------------------
// recording
type recorder struct {
	mu  sync.Mutex
	log []string
}

func (r *recorder) add(s string) {
	r.mu.Lock()
	r.log = append(r.log, s)
	r.mu.Unlock()
}
func (r *recorder) snapshot() []string {
	r.mu.Lock()
	defer r.mu.Unlock()
	return append([]string{}, r.log...)
}
func (r *recorder) has(s string) bool {
	for _, x := range r.snapshot() {
		if x == s {
			return true
		}
	}
	return false
}

type recClient struct {
	client.Client
	rec *recorder
}

func (c *recClient) GetCurrentStatus(d *dag.DAG) (*model.Status, error) {
	c.rec.add("probe")
	return c.Client.GetCurrentStatus(d)
}

type recStores struct {
	persistence.DataStores
	rec  *recorder
	hs   *recHist
	mu   sync.Mutex
	gate chan struct{}
}

func (s *recStores) HistoryStore() persistence.HistoryStore {
	s.mu.Lock()
	defer s.mu.Unlock()
	if s.hs == nil {
		s.hs = &recHist{HistoryStore: s.DataStores.HistoryStore(), rec: s.rec, gate: s.gate}
	}
	return s.hs
}

type recHist struct {
	persistence.HistoryStore
	rec  *recorder
	gate chan struct{} // when set, Open waits here (after the probe, before anything is recorded)
}

func (h *recHist) Open(f string, t time.Time, id string) error {
	h.rec.add("open")
	if h.gate != nil {
		select {
		case <-h.gate:
		case <-time.After(20 * time.Second):
		}
	}
	return h.HistoryStore.Open(f, t, id)
}
func (h *recHist) Write(st *model.Status) (err error) {
	h.rec.add("write")
	// the agent's status goroutines can call Write after the deferred Close; jsondb then dereferences its nil
	// writer (jsondb.go:91).  In the real process that is a crash at exit; here it must not take the driver down.
	defer func() {
		if p := recover(); p != nil {
			h.rec.add("panic:write-after-close")
			err = fmt.Errorf("panic in history Write: %v", p)
		}
	}()
	return h.HistoryStore.Write(st)
}
func (h *recHist) Close() error { h.rec.add("close"); return h.HistoryStore.Close() }
func (h *recHist) RemoveOld(f string, d int) error {
	h.rec.add("removeold")
	return h.HistoryStore.RemoveOld(f, d)
}

// ---------------------------------------------------------------------------------------------
// scripted executor: config {tag: <run id>, mode: ok|fail|block}
type runCtx struct {
	rec     *recorder
	release chan struct{}
	allOK   bool // this run's scripts succeed whatever the recorded step configuration says (class retry)
}

var (
	runsMu sync.Mutex
	runs   = map[string]*runCtx{}
)

type scripted struct {
	name string
	mode string
	rc   *runCtx
	kill chan struct{}
	once sync.Once
}

func (e *scripted) SetStdout(io.Writer) {}
func (e *scripted) SetStderr(io.Writer) {}
func (e *scripted) Kill(os.Signal) error {
	e.once.Do(func() { close(e.kill) })
	return nil
}
func (e *scripted) Run() error {
	if e.rc != nil {
		e.rc.rec.add("exec:" + e.name)
	}
	if e.rc != nil && e.rc.allOK {
		return nil
	}
	switch e.mode {
	case "fail":
		return errors.New("scripted failure")
	case "block":
		select {
		case <-e.rc.release:
		case <-e.kill:
			return errors.New("killed")
		case <-time.After(20 * time.Second):
			return errors.New("block timeout")
		}
	}
	return nil
}

func init() {
	executor.Register("verifscript", func(_ context.Context, step dag.Step) (executor.Executor, error) {
		tag, _ := step.ExecutorConfig.Config["tag"].(string)
		mode, _ := step.ExecutorConfig.Config["mode"].(string)
		runsMu.Lock()
		rc := runs[tag]
		runsMu.Unlock()
		return &scripted{name: step.Name, mode: mode, rc: rc, kill: make(chan struct{})}, nil
	})
}

// ---------------------------------------------------------------------------------------------
type spec struct {
	dir      string
	name     string
	steps    []StepJ
	modes    map[string]string // step / handler name -> mode
	handlers []string          // exit, success, failure, cancel
	pre      int               // 0 none, 1 met, 2 unmet (a single DAG precondition) - or, when pres is set:
	pres     []bool            // the DAG's preconditions in order, true = met
	params   string            // parameters the DAG is loaded with
	reqID    string            // request id of the next agent ("" = "req-"+tag)
	loadPath string            // the path the DAG is loaded from ("" = file(); else another spelling of the same file)
}

func (s *spec) yaml(tag string) string {
	var b strings.Builder
	fmt.Fprintf(&b, "name: %s\nhistRetentionDays: 30\nmaxCleanUpTimeSec: 5\n", s.name)
	pres := s.pres
	if pres == nil {
		switch s.pre {
		case 1:
			pres = []bool{true}
		case 2:
			pres = []bool{false}
		}
	}
	if len(pres) > 0 {
		b.WriteString("preconditions:\n")
		for i, met := range pres {
			exp := fmt.Sprintf("verif-value-%d", i)
			if !met {
				exp = "verif-other"
			}
			fmt.Fprintf(&b, "  - condition: \"verif-value-%d\"\n    expected: \"%s\"\n", i, exp)
		}
	}
	st := func(name string, deps []string) {
		mode := s.modes[name]
		if mode == "" {
			mode = "ok"
		}
		fmt.Fprintf(&b, "  - name: %s\n    command: \"true\"\n    executor:\n      type: verifscript\n      config:\n        tag: \"%s\"\n        mode: %s\n", name, tag, mode)
		if len(deps) > 0 {
			b.WriteString("    depends:\n")
			for _, d := range deps {
				fmt.Fprintf(&b, "      - \"%s\"\n", d)
			}
		}
	}
	if len(s.handlers) > 0 {
		b.WriteString("handlerOn:\n")
		for _, h := range s.handlers {
			fmt.Fprintf(&b, "  %s:\n", h)
			// handler steps are named by the loader (onExit, onSuccess, ...); name given here is ignored
			mode := s.modes["on"+strings.ToUpper(h[:1])+h[1:]]
			if mode == "" {
				mode = "ok"
			}
			fmt.Fprintf(&b, "    command: \"true\"\n    executor:\n      type: verifscript\n      config:\n        tag: \"%s\"\n        mode: %s\n", tag, mode)
		}
	}
	b.WriteString("steps:\n")
	for _, x := range s.steps {
		st(x.Name, x.Depends)
	}
	return b.String()
}

var lg = logger.NewLogger(logger.NewLoggerArgs{Quiet: true})

type runner struct {
	s    *spec
	tag  string
	rec  *recorder
	rc   *runCtx
	wf   *dag.DAG
	agt  *agent.Agent
	done chan struct{}
	obs  Obs
	held bool
	gate chan struct{}
}

func errKind(err error) string {
	if err == nil {
		return "none"
	}
	e := err.Error()
	switch {
	case strings.Contains(e, "cycle detected"):
		return "cycle"
	case strings.Contains(e, "step not found"):
		return "missing"
	case strings.Contains(e, "condition was not met"), strings.Contains(e, "failed to evaluate condition"):
		return "precondition"
	case strings.Contains(e, "already running"):
		return "running"
	case strings.Contains(e, "failed to start the unix socket"):
		return "socket"
	case strings.Contains(e, "scripted failure"), strings.Contains(e, "killed"):
		return "step"
	}
	return "other"
}

func listFiles(root string) []string {
	out := []string{}
	_ = filepath.Walk(root, func(p string, info os.FileInfo, err error) error {
		if err == nil && !info.IsDir() {
			r, _ := filepath.Rel(root, p)
			out = append(out, r)
		}
		return nil
	})
	sort.Strings(out)
	return out
}

func (s *spec) dataDir() string { return filepath.Join(s.dir, "data") }
func (s *spec) file() string    { return filepath.Join(s.dir, "dags", s.name+".yaml") }

func (s *spec) stores() persistence.DataStores {
	return dsclient.NewDataStores(filepath.Join(s.dir, "dags"), s.dataDir(), filepath.Join(s.dir, "suspend"), dsclient.DataStoreOptions{})
}

// prepare loads the DAG (written with this run's tag) and builds the agent
func prepare(s *spec, tag string, opts *agent.Options) (*runner, error) {
	return prepareG(s, tag, opts, nil)
}

// prepareG: as prepare; with a gate, the agent waits inside its history Open (after its probe) until the gate is closed
func prepareG(s *spec, tag string, opts *agent.Options, gate chan struct{}) (*runner, error) {
	r := &runner{s: s, tag: tag, rec: &recorder{}, done: make(chan struct{})}
	r.rc = &runCtx{rec: r.rec, release: make(chan struct{})}
	runsMu.Lock()
	runs[tag] = r.rc
	runsMu.Unlock()
	if err := os.MkdirAll(filepath.Dir(s.file()), 0o755); err != nil {
		return nil, err
	}
	if err := os.WriteFile(s.file(), []byte(s.yaml(tag)), 0o644); err != nil {
		return nil, err
	}
	lp := s.loadPath
	if lp == "" {
		lp = s.file()
	}
	wf, err := dag.Load("", lp, s.params)
	if err != nil {
		return nil, fmt.Errorf("load: %w", err)
	}
	wf.LogDir = filepath.Join(s.dir, "logs")
	r.wf = wf
	sockMu.Lock()
	sockPaths[wf.SockAddr()] = true
	sockMu.Unlock()
	if opts.RetryTarget != nil {
		// the recorded nodes carry the executor configuration of the run they were taken from: re-tag them
		for _, n := range opts.RetryTarget.Nodes {
			if n.Step.ExecutorConfig.Config != nil {
				n.Step.ExecutorConfig.Config["tag"] = tag
			}
		}
	}
	r.gate = gate
	ds := &recStores{DataStores: s.stores(), rec: r.rec, gate: r.gate}
	cli := &recClient{Client: client.New(ds, "", s.dir, lg), rec: r.rec}
	reqID := s.reqID
	if reqID == "" {
		reqID = "req-" + tag
	}
	r.agt = agent.New(reqID, wf, lg, filepath.Join(s.dir, "logs"), filepath.Join(s.dir, "logs", tag+".log"), cli, ds, opts)
	return r, nil
}

// run executes Run while polling the socket path
func (r *runner) run() {
	defer close(r.done)
	addr := r.wf.SockAddr()
	stop := make(chan struct{})
	var seen bool
	var wg sync.WaitGroup
	wg.Add(1)
	go func() {
		defer wg.Done()
		for {
			if _, err := os.Lstat(addr); err == nil {
				seen = true
			}
			select {
			case <-stop:
				return
			case <-time.After(300 * time.Microsecond):
			}
		}
	}()
	t0 := time.Now()
	var err error
	fin := make(chan error, 1)
	go func() {
		var e error
		defer func() {
			if p := recover(); p != nil {
				e = fmt.Errorf("PANIC: %v", p)
			}
			fin <- e
		}()
		e = r.agt.Run(context.Background())
	}()
	// watchdog: a run that does not come back is recorded as hung, asked to stop, and abandoned if it will not
	select {
	case err = <-fin:
	case <-time.After(r.watchdog()):
		r.obs.Hung = true
		go func() {
			defer func() { _ = recover() }()
			r.agt.Signal(syscall.SIGTERM)
		}()
		select {
		case err = <-fin:
			r.obs.Stopped = true
		case <-time.After(3 * time.Second):
			atomic.AddInt32(&abandoned, 1)
			err = errors.New("HUNG: agent.Run did not return")
		}
	}
	r.obs.DurationMs = time.Since(t0).Milliseconds()
	close(stop)
	wg.Wait()
	_, e2 := os.Lstat(addr)
	r.obs.SockSeen, r.obs.SockAfter = seen, e2 == nil
	if err != nil {
		r.obs.Err = err.Error()
	}
	r.obs.ErrKind = errKind(err)
	// the done-channel goroutine of the agent may still be writing its last status
	time.Sleep(15 * time.Millisecond)
	r.obs.Log = r.rec.snapshot()
	ex := []string{}
	for _, l := range r.obs.Log {
		if strings.HasPrefix(l, "exec:") {
			ex = append(ex, l[5:])
		}
	}
	sort.Strings(ex)
	r.obs.Exec = ex
	r.obs.HistFiles = listFiles(r.s.dataDir())
	func() {
		defer func() { _ = recover() }()
		r.obs.Final = r.agt.Status().Status.String()
	}()
}

var abandoned int32

// every socket path used, removed once more at the end (a hung or crashed run may leave its socket in /tmp)
var (
	sockMu    sync.Mutex
	sockPaths = map[string]bool{}
)

// the first run of the class `running` is held by the driver itself; its watchdog starts at the release
func (r *runner) watchdog() time.Duration {
	if r.held {
		return 40 * time.Second
	}
	return 6 * time.Second
}

func (r *runner) waitFor(ev string, d time.Duration) bool {
	dl := time.Now().Add(d)
	for time.Now().Before(dl) {
		if r.rec.has(ev) {
			return true
		}
		time.Sleep(2 * time.Millisecond)
	}
	return false
}

// ---------------------------------------------------------------------------------------------
// generators
func nm(i int) string { return fmt.Sprintf("s%d", i) }

func validSteps(rng *vh.Rng) []StepJ {
	n := 1 + rng.Below(4)
	st := make([]StepJ, n)
	for i := 0; i < n; i++ {
		st[i] = StepJ{Name: nm(i), Depends: []string{}}
		for j := 0; j < i; j++ {
			if rng.Chance(1, 2) {
				st[i].Depends = append(st[i].Depends, nm(j))
			}
		}
	}
	return st
}

func someHandlers(rng *vh.Rng) []string {
	out := []string{}
	for _, h := range []string{"exit", "success", "failure", "cancel"} {
		if rng.Chance(1, 2) {
			out = append(out, h)
		}
	}
	return out
}

func refusedSteps(rng *vh.Rng) ([]StepJ, string) {
	st := validSteps(rng)
	n := len(st)
	switch rng.Below(4) {
	case 0: // self-dependency
		i := rng.Below(n)
		st[i].Depends = append(st[i].Depends, nm(i))
		return st, "self"
	case 1: // back edge closing a cycle (make sure a forward path exists)
		if n < 2 {
			st[0].Depends = []string{nm(0)}
			return st, "self"
		}
		j := 1 + rng.Below(n-1)
		i := rng.Below(j)
		has := false
		for _, d := range st[j].Depends {
			if d == nm(i) {
				has = true
			}
		}
		if !has {
			st[j].Depends = append(st[j].Depends, nm(i))
		}
		st[i].Depends = append(st[i].Depends, nm(j))
		return st, "cycle"
	case 2: // dangling name
		i := rng.Below(n)
		st[i].Depends = append(st[i].Depends, "nosuch")
		return st, "missing"
	default: // near-miss name
		i := rng.Below(n)
		st[i].Depends = append(st[i].Depends, nm(rng.Below(n))+" ")
		return st, "missing"
	}
}

// all boolean vectors of length 1..3
var prePatterns = func() [][]bool {
	out := [][]bool{}
	for n := 1; n <= 3; n++ {
		for m := 0; m < 1<<uint(n); m++ {
			v := make([]bool, n)
			for i := range v {
				v[i] = m>>uint(i)&1 == 1
			}
			out = append(out, v)
		}
	}
	return out
}()

func fill(c *Case, s *spec) {
	c.Steps, c.Handlers = s.steps, s.handlers
	c.HasPre, c.PreOk = s.pre != 0, s.pre == 1
	if s.pres != nil {
		c.HasPre, c.PreOk, c.PrePattern = len(s.pres) > 0, true, ""
		for _, m := range s.pres {
			if m {
				c.PrePattern += "M"
			} else {
				c.PrePattern += "U"
				c.PreOk = false
			}
		}
	}
	c.BindOk = true
	if c.Handlers == nil {
		c.Handlers = []string{}
	}
}

func single(k int, rng *vh.Rng, work, class string) Case {
	c := Case{K: k, Class: class}
	s := &spec{dir: filepath.Join(work, fmt.Sprintf("c%d", k)), name: fmt.Sprintf("d%d", k), modes: map[string]string{}}
	opts := &agent.Options{}
	switch class {
	case "refused":
		s.steps, c.Sub = refusedSteps(rng)
		s.handlers = someHandlers(rng)
		if rng.Chance(1, 3) {
			s.pre = 1 + rng.Below(2)
		}
		if rng.Chance(1, 4) {
			opts.Dry, c.Dry = true, true
		}
	case "dry":
		s.steps, s.handlers = validSteps(rng), someHandlers(rng)
		opts.Dry, c.Dry = true, true
		if rng.Chance(1, 4) {
			s.pre = 1
		}
		if rng.Chance(1, 3) {
			s.modes[nm(rng.Below(len(s.steps)))] = "fail"
		}
		c.Sub = "dry"
	case "pre":
		s.steps, s.handlers = validSteps(rng), someHandlers(rng)
		// one to three DAG preconditions, every met/unmet order (14 patterns, taken in turn)
		pat := prePatterns[k%len(prePatterns)]
		s.pres = pat
		c.Sub = "met"
		for _, m := range pat {
			if !m {
				c.Sub = "unmet"
			}
		}
		if rng.Chance(1, 5) {
			opts.Dry, c.Dry = true, true
		}
	case "normal":
		s.steps, s.handlers = validSteps(rng), someHandlers(rng)
		c.Sub = "ok"
		if rng.Chance(1, 3) {
			s.modes[nm(rng.Below(len(s.steps)))] = "fail"
			c.Sub = "fail"
		}
	case "bindfail":
		s.steps, s.handlers = validSteps(rng), someHandlers(rng)
		c.Sub = "dir-at-socket-path"
	}
	fill(&c, s)
	r, err := prepare(s, fmt.Sprintf("t%d", k), opts)
	if err != nil {
		c.Infra = err.Error()
		return c
	}
	if class == "bindfail" {
		c.BindOk = false
		addr := r.wf.SockAddr()
		_ = os.MkdirAll(filepath.Join(addr, "x"), 0o755) // os.Remove fails on a non-empty directory, bind then fails
		defer os.RemoveAll(addr)
	}
	r.run()
	c.Obs = r.obs
	return c
}

// a second start / retry issued while the first run is at a chosen phase
func running(k int, rng *vh.Rng, work string, sub string, retry bool) Case {
	c := Case{K: k, Class: "running", Sub: sub, Retry: retry}
	s := &spec{dir: filepath.Join(work, fmt.Sprintf("c%d", k)), name: fmt.Sprintf("d%d", k), modes: map[string]string{}}
	s.steps = validSteps(rng)
	s.handlers = []string{"exit"}
	if rng.Chance(1, 2) {
		s.handlers = append(s.handlers, "success")
	}
	blockAt := ""
	switch sub {
	case "steps":
		blockAt = nm(rng.Below(len(s.steps)))
	case "handler":
		blockAt = "onExit"
	}
	if blockAt != "" {
		s.modes[blockAt] = "block"
	}
	fill(&c, s)
	first, err := prepare(s, fmt.Sprintf("t%da", k), &agent.Options{})
	if err != nil {
		c.Infra = err.Error()
		return c
	}
	first.held = blockAt != ""
	go first.run()
	cli := client.New(s.stores(), "", s.dir, lg)
	status := func() string {
		st, err := cli.GetCurrentStatus(first.wf)
		if err != nil {
			return "error:" + err.Error()
		}
		return st.Status.String()
	}
	if blockAt != "" {
		if !first.waitFor("exec:"+blockAt, 10*time.Second) {
			c.Infra = "the first run never reached " + blockAt
			close(first.rc.release)
			<-first.done
			return c
		}
		c.Running = true
	} else { // "after": the first run is over
		<-first.done
	}
	c.StatusBefore = status()
	// the second run: same file, its own tag.  A retry re-runs what the first run recorded so far.
	opts := &agent.Options{}
	s2 := *s
	s2.modes = map[string]string{} // the second run's steps would not block if they ran
	// the second run is given the same file, in 3 of 4 cases under a non-clean spelling of its absolute path
	d, f := filepath.Dir(s.file()), filepath.Base(s.file())
	switch rng.Below(4) {
	case 1:
		s2.loadPath = d + "//" + f
	case 2:
		s2.loadPath = d + "/./" + f
	case 3:
		s2.loadPath = d + "/../" + filepath.Base(d) + "/" + f
	}
	c.SecondPath = s2.loadPath
	if retry {
		var target *model.Status
		func() {
			defer func() { _ = recover() }()
			target = first.agt.Status()
		}()
		if target == nil {
			c.Infra = "no status to retry"
		} else {
			for _, n := range target.Nodes {
				if n.Step.ExecutorConfig.Config != nil {
					cp := map[string]any{}
					for k2, v := range n.Step.ExecutorConfig.Config {
						cp[k2] = v
					}
					cp["mode"] = "ok"
					n.Step.ExecutorConfig.Config = cp
				}
			}
			opts.RetryTarget = target
		}
	}
	second, err := prepare(&s2, fmt.Sprintf("t%db", k), opts)
	if err != nil {
		c.Infra = err.Error()
	} else {
		second.run()
		c.Obs = second.obs
	}
	c.StatusAfter = status()
	c.HistDuring = len(listFiles(s.dataDir()))
	if blockAt != "" {
		// the YAML on disk now carries the second run's tag; the first agent holds its own loaded copy
		close(first.rc.release)
		<-first.done
	}
	first.obs.HistFiles = listFiles(s.dataDir())
	c.First = &first.obs
	return c
}

// the former probe/bind race (F16a), deterministically: A is held after its probe (inside its history Open, i.e. inside the
// locked section); B is started meanwhile and must wait for the lock (its log stays empty); A is released, binds and
// blocks inside its first step; B then probes and is refused; so is a third start C.  Observed run = A; B and C under
// `others`; `b_waited` = B had done nothing 300 ms after its start.
func race(k int, rng *vh.Rng, work string, save bool) Case {
	c := Case{K: k, Class: "race", Sub: "probe-bind"}
	if save {
		c.Sub = "save" // the definition is saved (DAGStore.UpdateSpec: temp file + rename, a NEW inode) while A is inside its section
	}
	s := &spec{dir: filepath.Join(work, fmt.Sprintf("c%d", k)), name: fmt.Sprintf("d%d", k), modes: map[string]string{}}
	s.steps = validSteps(rng)
	s.handlers = []string{"exit"}
	s.modes[nm(0)] = "block"
	fill(&c, s)
	gate := make(chan struct{})
	a, err := prepareG(s, fmt.Sprintf("t%da", k), &agent.Options{}, gate)
	if err != nil {
		c.Infra = err.Error()
		return c
	}
	a.held = true
	go a.run()
	if !a.waitFor("open", 10*time.Second) {
		c.Infra = "A never reached its history open"
		close(gate)
		close(a.rc.release)
		<-a.done
		return c
	}
	sb := *s
	sb.modes = map[string]string{nm(0): "block"} // B would stay inside its first step if it ran
	btag := fmt.Sprintf("t%db", k)
	if save {
		if err := s.stores().DAGStore().UpdateSpec(s.name, []byte(sb.yaml(btag))); err != nil {
			c.Infra = "UpdateSpec: " + err.Error()
			close(gate)
			close(a.rc.release)
			<-a.done
			return c
		}
	}
	b, err := prepare(&sb, btag, &agent.Options{})
	if err != nil {
		c.Infra = err.Error()
		close(gate)
		close(a.rc.release)
		<-a.done
		return c
	}
	b.held = true
	go b.run()
	time.Sleep(300 * time.Millisecond)
	c.BWaited = len(b.rec.snapshot()) == 0
	close(gate)
	if !a.waitFor("exec:"+nm(0), 10*time.Second) {
		c.Infra = "A never started its steps"
		close(a.rc.release)
		close(b.rc.release)
		<-a.done
		<-b.done
		return c
	}
	// B is refused (done) - or it runs too and sits inside its first step while A sits inside its own
	dl := time.Now().Add(8 * time.Second)
	for time.Now().Before(dl) {
		if b.rec.has("exec:" + nm(0)) {
			c.BothActive = true
			break
		}
		select {
		case <-b.done:
			dl = time.Now()
		default:
			time.Sleep(2 * time.Millisecond)
		}
	}
	close(b.rc.release)
	<-b.done
	cli := client.New(s.stores(), "", s.dir, lg)
	status := func() string {
		st, err := cli.GetCurrentStatus(a.wf)
		if err != nil {
			return "error:" + err.Error()
		}
		return st.Status.String()
	}
	c.StatusBefore = status()
	sc := *s
	sc.modes = map[string]string{}
	third, err := prepare(&sc, fmt.Sprintf("t%dc", k), &agent.Options{})
	if err == nil {
		third.run()
	}
	c.StatusAfter = status()
	c.HistDuring = len(listFiles(s.dataDir()))
	close(a.rc.release)
	<-a.done
	c.Obs = a.obs
	c.Others = []*Obs{&b.obs}
	if third != nil {
		c.Others = append(c.Others, &third.obs)
	}
	return c
}

// class frozen: the DAG's socket is held by a listener that accepts connections and never answers - what a first run whose
// process is alive but frozen (SIGSTOP) looks like to the "already running?" probe.  The probe times out; the start must be
// refused with an error, record nothing, execute nothing and leave the socket alone.
func frozen(k int, rng *vh.Rng, work string) Case {
	c := Case{K: k, Class: "frozen", Sub: "probe-timeout", Running: true}
	s := &spec{dir: filepath.Join(work, fmt.Sprintf("c%d", k)), name: fmt.Sprintf("d%d", k), modes: map[string]string{}}
	s.steps, s.handlers = validSteps(rng), someHandlers(rng)
	fill(&c, s)
	r, err := prepare(s, fmt.Sprintf("t%d", k), &agent.Options{})
	if err != nil {
		c.Infra = err.Error()
		return c
	}
	addr := r.wf.SockAddr()
	_ = os.Remove(addr)
	ln, err := net.Listen("unix", addr)
	if err != nil {
		c.Infra = "listen: " + err.Error()
		return c
	}
	var held []net.Conn
	var hmu sync.Mutex
	go func() {
		for {
			conn, err := ln.Accept()
			if err != nil {
				return
			}
			hmu.Lock()
			held = append(held, conn) // accepted, never answered
			hmu.Unlock()
		}
	}()
	r.run()
	c.Obs = r.obs
	// is the frozen run's endpoint still there?  (a connection to the path still reaches our listener)
	before := func() int { hmu.Lock(); defer hmu.Unlock(); return len(held) }()
	if conn, err := net.DialTimeout("unix", addr, time.Second); err == nil {
		_ = conn.Close()
		time.Sleep(20 * time.Millisecond)
		c.EndpointIntact = func() int { hmu.Lock(); defer hmu.Unlock(); return len(held) }() > before
	}
	_ = ln.Close()
	hmu.Lock()
	for _, x := range held {
		_ = x.Close()
	}
	hmu.Unlock()
	_ = os.Remove(addr)
	return c
}

// RecordJ is a run as read back from the history store (FindByRequestID, as cmd/retry.go does).
type RecordJ struct {
	Found     bool    `json:"found"`
	File      string  `json:"file"`
	RequestID string  `json:"reqid"`
	Status    string  `json:"status"`
	Params    string  `json:"params"`
	Nodes     []NodeJ `json:"nodes"`
	Handlers  []NodeJ `json:"handlers"`
	Err       string  `json:"err,omitempty"`
}
type NodeJ struct {
	Name   string `json:"name"`
	Status string `json:"status"`
}

// RetryObs: class retry.  The first run is under `first`, the observed run (Obs of the case) is the retry.
type RetryObs struct {
	FirstReqID  string            `json:"first_reqid"`
	RetryReqID  string            `json:"retry_reqid"`
	HistBefore  map[string]string `json:"hist_before"`        // history files before the retry: relative name -> sha256
	HistAfter   map[string]string `json:"hist_after"`         // ... after the retry
	FirstRecord RecordJ           `json:"first_record"`       // read back before the retry (the RetryTarget)
	FirstAgain  RecordJ           `json:"first_record_after"` // the same record read back after the retry
	RetryRecord RecordJ           `json:"retry_record"`
	YAMLChanged bool              `json:"yaml_changed"` // the definition on disk got an extra step before the retry
	ExtraStep   string            `json:"extra_step"`
}

func hashFiles(root string) map[string]string {
	out := map[string]string{}
	for _, f := range listFiles(root) {
		if b, err := os.ReadFile(filepath.Join(root, f)); err == nil {
			h := sha256.Sum256(b)
			out[f] = hex.EncodeToString(h[:])
		}
	}
	return out
}

func readRecord(s *spec, wf *dag.DAG, reqID string) (RecordJ, *model.Status) {
	sf, err := s.stores().HistoryStore().FindByRequestID(wf.Location, reqID)
	if err != nil || sf == nil || sf.Status == nil {
		e := "not found"
		if err != nil {
			e = err.Error()
		}
		return RecordJ{Err: e, Nodes: []NodeJ{}, Handlers: []NodeJ{}}, nil
	}
	st := sf.Status
	rel, _ := filepath.Rel(s.dataDir(), sf.File)
	r := RecordJ{Found: true, File: rel, RequestID: st.RequestID, Status: st.Status.String(), Params: st.Params, Nodes: []NodeJ{}, Handlers: []NodeJ{}}
	for _, n := range st.Nodes {
		r.Nodes = append(r.Nodes, NodeJ{n.Step.Name, n.Status.String()})
	}
	for _, n := range []*model.Node{st.OnExit, st.OnSuccess, st.OnFailure, st.OnCancel} {
		if n != nil {
			r.Handlers = append(r.Handlers, NodeJ{n.Step.Name, n.Status.String()})
		}
	}
	return r, st
}

// class retry: a run that fails (sub "fail": one step scripted to fail) or is stopped (sub "stop": SIGTERM while a step
// runs) is read back from the history store and retried by a second agent with Options{RetryTarget} and a new request id;
// all scripts of the retry succeed.  Before the retry the definition on disk gets an extra step: the retry must run the
// steps of the RECORD.
func retryCase(k int, rng *vh.Rng, work, sub string) Case {
	c := Case{K: k, Class: "retry", Sub: sub, Retry: true}
	s := &spec{dir: filepath.Join(work, fmt.Sprintf("c%d", k)), name: fmt.Sprintf("d%d", k), modes: map[string]string{}}
	s.steps, s.handlers = validSteps(rng), someHandlers(rng)
	s.params = []string{"", "alpha", "alpha beta", "x=1 y=2"}[rng.Below(4)]
	bad := nm(rng.Below(len(s.steps)))
	if sub == "stop" {
		s.modes[bad] = "block"
	} else {
		s.modes[bad] = "fail"
	}
	fill(&c, s)
	ro := &RetryObs{FirstReqID: fmt.Sprintf("a%07d-first-%d", k, rng.Below(1000000)), RetryReqID: fmt.Sprintf("b%07d-retry-%d", k, rng.Below(1000000))}
	c.Retry2 = ro
	s.reqID = ro.FirstReqID
	first, err := prepare(s, fmt.Sprintf("t%da", k), &agent.Options{})
	if err != nil {
		c.Infra = err.Error()
		return c
	}
	if sub == "stop" {
		first.held = true
		go first.run()
		if !first.waitFor("exec:"+bad, 10*time.Second) {
			c.Infra = "the first run never reached " + bad
			close(first.rc.release)
			<-first.done
			return c
		}
		go func() {
			defer func() { _ = recover() }()
			first.agt.Signal(syscall.SIGTERM)
		}()
		<-first.done
	} else {
		first.run()
	}
	c.First = &first.obs
	ro.HistBefore = hashFiles(s.dataDir())
	rec, target := readRecord(s, first.wf, ro.FirstReqID)
	ro.FirstRecord = rec
	if target == nil {
		c.Infra = "the first run cannot be read back: " + rec.Err
		return c
	}
	// the definition changes on disk; the retry is loaded from it with the recorded parameters, as cmd/retry.go does
	s2 := *s
	s2.modes = map[string]string{}
	s2.reqID = ro.RetryReqID
	s2.params = target.Params
	if rng.Chance(2, 3) {
		ro.YAMLChanged, ro.ExtraStep = true, "extra"
		s2.steps = append(append([]StepJ{}, s.steps...), StepJ{Name: "extra", Depends: []string{}})
	}
	second, err := prepare(&s2, fmt.Sprintf("t%db", k), &agent.Options{RetryTarget: target})
	if err != nil {
		c.Infra = err.Error()
		return c
	}
	second.rc.allOK = true
	second.run()
	c.Obs = second.obs
	ro.HistAfter = hashFiles(s.dataDir())
	ro.RetryRecord, _ = readRecord(s, second.wf, ro.RetryReqID)
	ro.FirstAgain, _ = readRecord(s, second.wf, ro.FirstReqID)
	return c
}

func main() {
	out, err := vh.NewOut(os.Args[1])
	if err != nil {
		panic(err)
	}
	defer out.Close()
	tier, work := os.Args[2], os.Args[3]
	want := map[string]bool{}
	if len(os.Args) > 4 {
		for _, x := range strings.Split(os.Args[4], ",") {
			want[x] = true
		}
	}
	on := func(c string) bool { return len(want) == 0 || want[c] }
	mult := 1
	if tier == "thorough" {
		mult = 10
	}
	seed := vh.SeedFromEnv()
	type job func(k int, rng *vh.Rng) Case
	var jobs []job
	add := func(n int, j job) {
		for i := 0; i < n; i++ {
			jobs = append(jobs, j)
		}
	}
	if on("refused") {
		add(40*mult, func(k int, rng *vh.Rng) Case { return single(k, rng, work, "refused") })
	}
	if on("dry") {
		add(30*mult, func(k int, rng *vh.Rng) Case { return single(k, rng, work, "dry") })
	}
	if on("pre") {
		add(36*mult, func(k int, rng *vh.Rng) Case { return single(k, rng, work, "pre") })
	}
	if on("normal") {
		add(12*mult, func(k int, rng *vh.Rng) Case { return single(k, rng, work, "normal") })
	}
	if on("bindfail") {
		add(4*mult, func(k int, rng *vh.Rng) Case { return single(k, rng, work, "bindfail") })
	}
	if want["retry"] { // only on request (C10)
		add(10*mult, func(k int, rng *vh.Rng) Case { return retryCase(k, rng, work, "fail") })
		add(6*mult, func(k int, rng *vh.Rng) Case { return retryCase(k, rng, work, "stop") })
	}
	if want["frozen"] { // only on request (C16); each case lasts the probe's 3 s timeout
		add(3*mult, func(k int, rng *vh.Rng) Case { return frozen(k, rng, work) })
	}
	if want["race"] { // only on request (C16)
		add(4*mult, func(k int, rng *vh.Rng) Case { return race(k, rng, work, false) })
		add(4*mult, func(k int, rng *vh.Rng) Case { return race(k, rng, work, true) })
	}
	if on("running") {
		for _, sub := range []string{"steps", "handler", "after"} {
			for _, retry := range []bool{false, true} {
				sub, retry := sub, retry
				add(3*mult, func(k int, rng *vh.Rng) Case { return running(k, rng, work, sub, retry) })
			}
		}
	}
	res := make([]Case, len(jobs))
	fini := make([]int32, len(jobs))
	sem := make(chan struct{}, 8)
	var wg sync.WaitGroup
	allDone := make(chan struct{})
	go func() {
		for k, j := range jobs {
			wg.Add(1)
			sem <- struct{}{}
			go func(k int, j job) {
				defer wg.Done()
				defer func() { <-sem }()
				c := j(k, vh.NewRng(seed).Fork(uint64(k)))
				res[k] = c
				atomic.StoreInt32(&fini[k], 1)
			}(k, j)
		}
		wg.Wait()
		close(allDone)
	}()
	limit := 240 * time.Second
	if tier == "thorough" {
		limit = 25 * time.Minute
	}
	select {
	case <-allDone:
	case <-time.After(limit): // global watchdog: emit what is there
	}
	for k := range res {
		if atomic.LoadInt32(&fini[k]) == 0 {
			res[k] = Case{K: k, Class: "?", Infra: "driver time limit reached before this case finished"}
		}
	}
	for _, c := range res {
		if c.Log == nil {
			c.Log = []string{}
		}
		if c.Exec == nil {
			c.Exec = []string{}
		}
		if c.HistFiles == nil {
			c.HistFiles = []string{}
		}
		out.Put(c)
	}
	out.Close()
	for a := range sockPaths {
		_ = os.RemoveAll(a)
		_ = os.Remove(a + ".lock")
	}
	os.Exit(0) // abandoned (hung) agent goroutines must not keep the process alive
}
