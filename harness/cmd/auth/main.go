// Driver for C17: sends requests through the real middleware chain (middleware.Setup +
// SetupGlobalMiddleware around a sentinel API handler, a second sentinel as the static handler)
// and records what happened.
//
//	auth <out.jsonl> <tier>            tier = quick | thorough
//	auth <out.jsonl> replay <in.jsonl> re-run given cases (cfg, method, target, hdr) on the current tree
//
// Streams:
//
//	grammar  scheme x spacing x payload x 4 configurations x secret sets x base path, on the API path (GET)
//	routes   method x target path x 4 configurations x 2 secret sets x 6 key headers x base path
//	sample   seeded draws from the complete product of all dimensions
//
// thorough = all of grammar and routes + 30 000 samples; quick = a seeded sample of about 3 000.
// class: 0 redirect (303), 1 not found (404), 2 static handler ran, 3 401, 4 API sentinel ran,
// 5 passed authentication but answered by cors (OPTIONS: 200, nothing ran), -1 anything else.
package main

import (
	"bufio"
	"context"
	"encoding/base64"
	"encoding/json"
	"fmt"
	"net"
	"net/http"
	"net/http/httptest"
	"os"
	"path/filepath"
	"strings"
	"time"

	"github.com/ErdemOzgen/blackdagger/internal/client"
	"github.com/ErdemOzgen/blackdagger/internal/config"
	"github.com/ErdemOzgen/blackdagger/internal/frontend"
	dsclient "github.com/ErdemOzgen/blackdagger/internal/persistence/client"

	"github.com/ErdemOzgen/blackdagger/internal/frontend/middleware"
	"github.com/ErdemOzgen/blackdagger/internal/logger"
	"github.com/ErdemOzgen/blackdagger/verifh/vh"
)

type Case struct {
	K       int    `json:"k"`
	Stream  string `json:"stream"`
	HB      bool   `json:"hb"`
	U       string `json:"u"`
	P       string `json:"p"`
	HT      bool   `json:"ht"`
	T       string `json:"t"`
	Base    string `json:"base"`
	Method  string `json:"method"`
	Target  string `json:"target"`
	Path    string `json:"path"`
	RawPath string `json:"rawpath"`
	Hdr     string `json:"hdr"`
	Scheme  string `json:"scheme"`
	Spacing string `json:"spacing"`
	Payload string `json:"payload"`
	Std     int    `json:"std"`
	Code    int    `json:"code"`
	Class   int    `json:"class"`
	Api     bool   `json:"api"`
	Static  bool   `json:"static"`
}

type secrets struct{ name, u, p, t string }

var secretSets = []secrets{
	{"ordinary", "admin", "secret", "tok123"},
	{"empty", "admin", "", ""},
	{"prefix-related", "bob", "bobby", "bobby1"},
	{"token-is-b64-of-pair", "ad", "sec", "YWQ6c2Vj"},
	{"colon-space", "admin", "se:cr et", "to k"},
	{"user-with-colon", "a:b", "pw", "Bearer"},
	{"utf8", "üser", "päss", "tökén"},
	{"empty-user", "", "pw", "x"},
	{"colons-in-password", "admin", "a:b:c", "t:k"},
	{"password-is-colon", "admin", ":", "tk"},
}

var schemes = []string{"Basic", "basic", "BASIC", "Bearer", "bearer", "Token", "none"}
var spacings = []string{"one", "two", "tab", "none", "trailing"}
var payloads = []string{"right", "wrong-user", "wrong-pass", "empty-pass", "prefix-pass", "extended-pass", "invalid-b64",
	"unpadded", "no-colon", "token", "token-prefix", "token-suffix", "empty", "raw-pass", "crlf-b64", "b64-extra-word",
	"token-extra-word", "trailing-bits", "token-upper", "pass-colon-junk", "pass-first-colon-part"}
var methods = []string{"GET", "POST", "PUT", "DELETE", "PATCH", "HEAD", "OPTIONS"}
var bases = []string{"", "/bd", "/b/"}
var keyHeaders = [][3]string{{"none", "none", "empty"}, {"Basic", "one", "right"}, {"Bearer", "one", "token"},
	{"Basic", "one", "wrong-pass"}, {"Bearer", "one", "token-prefix"}, {"bearer", "one", "token"}}

func b64(s string) string { return base64.StdEncoding.EncodeToString([]byte(s)) }

func cutLast(s string) string {
	if s == "" {
		return s
	}
	return s[:len(s)-1]
}

// a base64 text of the same bytes whose last symbol carries non-zero unused bits (only padded forms have any)
func trailingBits(enc string) string {
	const alpha = "ABCDEFGHIJKLMNOPQRSTUVWXYZabcdefghijklmnopqrstuvwxyz0123456789+/"
	i := strings.IndexByte(enc, '=')
	if i <= 0 {
		return enc
	}
	v := strings.IndexByte(alpha, enc[i-1])
	return enc[:i-1] + string(alpha[v|1]) + enc[i:]
}

func payload(kind string, s secrets) string {
	right := b64(s.u + ":" + s.p)
	switch kind {
	case "right":
		return right
	case "wrong-user":
		return b64(s.u + "x:" + s.p)
	case "wrong-pass":
		return b64(s.u + ":wrong")
	case "empty-pass":
		return b64(s.u + ":")
	case "prefix-pass":
		return b64(s.u + ":" + cutLast(s.p))
	case "extended-pass":
		return b64(s.u + ":" + s.p + "x")
	case "invalid-b64":
		return "!!!notbase64"
	case "unpadded":
		if strings.HasSuffix(right, "=") {
			return strings.TrimRight(right, "=")
		}
		return cutLast(right)
	case "no-colon":
		return b64(s.u + s.p)
	case "token":
		return s.t
	case "token-prefix":
		return cutLast(s.t)
	case "token-suffix":
		return s.t + "x"
	case "empty":
		return ""
	case "raw-pass":
		return s.p
	case "crlf-b64":
		h := len(right) / 2
		return right[:h] + "\r\n" + right[h:]
	case "b64-extra-word":
		return right + " extra"
	case "token-extra-word":
		return s.t + " extra"
	case "trailing-bits":
		return trailingBits(right)
	case "token-upper":
		return strings.ToUpper(s.t)
	case "pass-colon-junk": // user:password:junk - NOT the configured password
		return b64(s.u + ":" + s.p + ":junk")
	case "pass-first-colon-part": // the password cut at its first colon
		return b64(s.u + ":" + strings.SplitN(s.p, ":", 2)[0])
	}
	panic(kind)
}

func header(scheme, spacing, pl string) string {
	sc := scheme
	if sc == "none" {
		sc = ""
	}
	switch spacing {
	case "one":
		if sc == "" {
			return pl
		}
		return sc + " " + pl
	case "two":
		return sc + "  " + pl
	case "tab":
		return sc + "\t" + pl
	case "none":
		return sc + pl
	case "trailing":
		return sc + " " + pl + " "
	}
	panic(spacing)
}

func targets(base string) []string {
	rel := []string{"/api/v1/dags", "/api", "/apix", "/", "/dags/x", "/ap", "/api%2Fv1/dags", "/API/v1/dags", "//api/v1/dags", ""}
	out := []string{}
	for _, r := range rel {
		if base+r != "" {
			out = append(out, base+r)
		}
	}
	if base != "" {
		out = append(out, "/api/v1/dags", "/", "/dags/x", "/%62"+base[2:]+"/api/v1/dags", strings.TrimRight(base, "/")+"x/api/v1/dags",
			strings.TrimRight(base, "/")+"api/v1/dags")
	}
	return out
}

var lg = logger.NewLogger(logger.NewLoggerArgs{Quiet: true})

// run one request through the real chain
func exec(c *Case) {
	var apiRan, staticRan bool
	opts := &middleware.Options{
		Handler:  http.HandlerFunc(func(w http.ResponseWriter, r *http.Request) { staticRan = true }),
		Logger:   lg,
		BasePath: c.Base,
	}
	if c.HB {
		opts.AuthBasic = &middleware.AuthBasic{Username: c.U, Password: c.P}
	}
	if c.HT {
		opts.AuthToken = &middleware.AuthToken{Token: c.T}
	}
	middleware.Setup(opts)
	h := middleware.SetupGlobalMiddleware(http.HandlerFunc(func(w http.ResponseWriter, r *http.Request) { apiRan = true }))
	req := httptest.NewRequest(c.Method, "http://verif.test"+c.Target, nil)
	if c.Hdr != "" {
		req.Header["Authorization"] = []string{c.Hdr}
	}
	c.Path, c.RawPath = req.URL.Path, req.URL.RawPath
	rec := httptest.NewRecorder()
	h.ServeHTTP(rec, req)
	c.Code, c.Api, c.Static = rec.Code, apiRan, staticRan
	switch {
	case apiRan && staticRan:
		c.Class = -1
	case apiRan:
		c.Class = 4
	case staticRan:
		c.Class = 2
	case rec.Code == 401:
		c.Class = 3
	case rec.Code == 404:
		c.Class = 1
	case rec.Code == 303:
		c.Class = 0
	case rec.Code == 200 && c.Method == "OPTIONS":
		c.Class = 5
	default:
		c.Class = -1
	}
}

func build(stream string, cfgI, secI int, base, method, target, scheme, spacing, pl string) Case {
	s := secretSets[secI]
	c := Case{Stream: stream, HB: cfgI&1 == 1, HT: cfgI&2 == 2, U: s.u, P: s.p, T: s.t, Base: base, Method: method, Target: target,
		Scheme: scheme, Spacing: spacing, Payload: pl}
	c.Hdr = header(scheme, spacing, payload(pl, s))
	if c.HB && scheme == "Basic" && spacing == "one" && pl == "right" {
		c.Std = 1
	}
	if c.HT && scheme == "Bearer" && spacing == "one" && pl == "token" {
		c.Std = 2
	}
	return c
}

// the real server: secrets with surrounding white space must be compared byte for byte too
func serverStream(emit func(Case), scratch string) {
	dir, err := os.MkdirTemp(scratch, "authsrv-")
	if err != nil {
		return
	}
	defer os.RemoveAll(dir)
	_ = os.Setenv("HOME", dir)
	_ = os.Setenv("BLACKDAGGER_HOME", filepath.Join(dir, ".bd"))
	base, err := config.Load()
	if err != nil {
		emit(Case{Stream: "server", Class: -1, Scheme: "config.Load: " + err.Error()})
		return
	}
	for _, d := range []string{"dags", "data", "logs", "suspend"} {
		_ = os.MkdirAll(filepath.Join(dir, d), 0o755)
	}
	type sc struct{ u, p string }
	for _, x := range []sc{{"admin", "s3cret"}, {"admin", "s3cret "}, {"admin", "s3cret\n"}, {"admin", "  "}, {"admin", " lead"}, {"admin ", "pw"}, {"admin", "a:b "}} {
		l, err := net.Listen("tcp", "127.0.0.1:0")
		if err != nil {
			continue
		}
		port := l.Addr().(*net.TCPAddr).Port
		_ = l.Close()
		cfg := *base
		cfg.Host, cfg.Port = "127.0.0.1", port
		cfg.DAGs, cfg.DataDir, cfg.LogDir, cfg.SuspendFlagsDir = filepath.Join(dir, "dags"), filepath.Join(dir, "data"), filepath.Join(dir, "logs"), filepath.Join(dir, "suspend")
		cfg.BasePath = ""
		cfg.IsBasicAuth, cfg.BasicAuthUsername, cfg.BasicAuthPassword, cfg.IsAuthToken = true, x.u, x.p, false
		ds := dsclient.NewDataStores(cfg.DAGs, cfg.DataDir, cfg.SuspendFlagsDir, dsclient.DataStoreOptions{})
		srv := frontend.New(&cfg, lg, client.New(ds, "", dir, lg))
		ctx, cancel := context.WithCancel(context.Background())
		done := make(chan struct{})
		go func() { defer close(done); _ = srv.Serve(ctx) }()
		up := false
		for i := 0; i < 200 && !up; i++ {
			if c, err := net.DialTimeout("tcp", fmt.Sprintf("127.0.0.1:%d", port), time.Second); err == nil {
				_ = c.Close()
				up = true
			} else {
				time.Sleep(20 * time.Millisecond)
			}
		}
		if up {
			s := secrets{"server", x.u, x.p, ""}
			for _, pl := range []string{"right", "wrong-pass", "empty-pass", "prefix-pass", "extended-pass", "pass-colon-junk"} {
				for _, trimmed := range []bool{false, true} {
					c := Case{Stream: "server", HB: true, U: x.u, P: x.p, Method: "GET", Target: "/api/v1/dags", Path: "/api/v1/dags",
						Scheme: "Basic", Spacing: "one", Payload: pl}
					c.Hdr = "Basic " + payload(pl, s)
					if trimmed { // the secrets with their surrounding white space removed
						if pl != "right" {
							continue
						}
						c.Payload = "right-trimmed"
						c.Hdr = "Basic " + b64(strings.TrimSpace(x.u)+":"+strings.TrimSpace(x.p))
					}
					if pl == "right" && !trimmed {
						c.Std = 1
					}
					req, err := http.NewRequest("GET", fmt.Sprintf("http://127.0.0.1:%d/api/v1/dags", port), nil)
					if err != nil {
						continue
					}
					req.Header.Set("Authorization", c.Hdr)
					resp, err := http.DefaultClient.Do(req)
					if err != nil {
						c.Class = -1
						emit(c)
						continue
					}
					_ = resp.Body.Close()
					c.Code = resp.StatusCode
					switch resp.StatusCode {
					case 401:
						c.Class = 3
					case 200:
						c.Class, c.Api = 4, true
					default:
						c.Class = -1
					}
					emit(c)
				}
			}
		} else {
			emit(Case{Stream: "server", HB: true, U: x.u, P: x.p, Class: -1, Scheme: "server did not come up"})
		}
		srv.Shutdown()
		cancel()
		select {
		case <-done:
		case <-time.After(10 * time.Second):
		}
	}
}

func main() {
	out, err := vh.NewOut(os.Args[1])
	if err != nil {
		panic(err)
	}
	defer out.Close()
	tier := os.Args[2]
	k := 0
	emit := func(c Case) {
		c.K = k
		k++
		exec(&c)
		out.Put(c)
	}
	emitRaw := func(c Case) { // already executed
		c.K = k
		k++
		out.Put(c)
	}
	_ = emitRaw
	if tier == "replay" {
		f, err := os.Open(os.Args[3])
		if err != nil {
			panic(err)
		}
		sc := bufio.NewScanner(f)
		sc.Buffer(make([]byte, 1<<20), 1<<26)
		for sc.Scan() {
			var c Case
			if json.Unmarshal(sc.Bytes(), &c) != nil {
				continue
			}
			emit(c)
		}
		return
	}
	rng := vh.NewRng(vh.SeedFromEnv())
	apiTarget := func(base string) string { return base + "/api/v1/dags" }

	// grammar: the full product on the API path
	type g struct{ cfg, sec, base, scheme, spacing, pl int }
	var gs []g
	for cfg := 0; cfg < 4; cfg++ {
		for sec := range secretSets {
			for b := 0; b < 2; b++ {
				for sc := range schemes {
					for sp := range spacings {
						for pl := range payloads {
							gs = append(gs, g{cfg, sec, b, sc, sp, pl})
						}
					}
				}
			}
		}
	}
	emitG := func(x g) {
		emit(build("grammar", x.cfg, x.sec, bases[x.base], "GET", apiTarget(bases[x.base]), schemes[x.scheme], spacings[x.spacing], payloads[x.pl]))
	}
	// routes: method x target x configuration x key header
	type r struct {
		cfg, sec, base, m, kh int
		target                string
	}
	var rs []r
	for cfg := 0; cfg < 4; cfg++ {
		for _, sec := range []int{0, 3} {
			for b := range bases {
				for _, tg := range targets(bases[b]) {
					for m := range methods {
						for kh := range keyHeaders {
							rs = append(rs, r{cfg, sec, b, m, kh, tg})
						}
					}
				}
			}
		}
	}
	emitR := func(x r) {
		kh := keyHeaders[x.kh]
		emit(build("routes", x.cfg, x.sec, bases[x.base], methods[x.m], x.target, kh[0], kh[1], kh[2]))
	}
	sample := func() {
		b := bases[rng.Below(len(bases))]
		tg := targets(b)
		target := tg[rng.Below(len(tg))]
		if rng.Chance(3, 5) { // tilt towards the API paths: the auth middlewares see nothing else
			target = apiTarget(b)
			if rng.Chance(1, 4) {
				target = b + "/api"
			}
		}
		emit(build("sample", rng.Below(4), rng.Below(len(secretSets)), b, methods[rng.Below(len(methods))], target,
			schemes[rng.Below(len(schemes))], spacings[rng.Below(len(spacings))], payloads[rng.Below(len(payloads))]))
	}
	// pinned (every tier): the standard forms and their closest non-secrets for every secret set x configuration x base path
	for cfg := 1; cfg < 4; cfg++ {
		for sec := range secretSets {
			for b := 0; b < 2; b++ {
				for _, kh := range [][3]string{{"Basic", "one", "right"}, {"Basic", "one", "pass-colon-junk"}, {"Basic", "one", "pass-first-colon-part"},
					{"Basic", "one", "empty-pass"}, {"Bearer", "one", "token"}, {"Bearer", "one", "token-prefix"}} {
					c := build("pinned", cfg, sec, bases[b], "GET", apiTarget(bases[b]), kh[0], kh[1], kh[2])
					emit(c)
				}
			}
		}
	}
	// server (every tier): the configuration goes through config.Config -> frontend.New -> Serve on a 127.0.0.1 port
	serverStream(emitRaw, filepath.Dir(os.Args[1]))
	if tier == "thorough" {
		for _, x := range gs {
			emitG(x)
		}
		for _, x := range rs {
			emitR(x)
		}
		for i := 0; i < 30000; i++ {
			sample()
		}
		return
	}
	for i := 0; i < 1700; i++ {
		emitG(gs[rng.Below(len(gs))])
	}
	for i := 0; i < 500; i++ {
		emitR(rs[rng.Below(len(rs))])
	}
	for i := 0; i < 1000; i++ {
		sample()
	}
}
