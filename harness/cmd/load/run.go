// Running the real loader entry points under recover() and projecting what they returned.
package main

import (
	"context"
	"encoding/json"
	"fmt"
	"math"
	"net/http/httptest"
	"os"
	"path/filepath"
	"regexp"
	"runtime"
	"sort"
	"strings"

	"github.com/ErdemOzgen/blackdagger/internal/agent"
	"github.com/ErdemOzgen/blackdagger/internal/client"
	"github.com/ErdemOzgen/blackdagger/internal/dag"
	"github.com/ErdemOzgen/blackdagger/internal/dag/scheduler"
	"github.com/ErdemOzgen/blackdagger/internal/persistence"
	dsclient "github.com/ErdemOzgen/blackdagger/internal/persistence/client"
	"github.com/ErdemOzgen/blackdagger/internal/persistence/model"
	"github.com/robfig/cron/v3"
	"golang.org/x/sys/unix"
)

// PStep is the projection of a built step.
type PStep struct {
	Name   string   `json:"name"`
	Cmd    string   `json:"cmd"`
	Args   []string `json:"args"`
	CWA    string   `json:"cwa"`
	EType  string   `json:"etype"`
	Sub    bool     `json:"sub"`
	Sig    string   `json:"sig"`
	Script string   `json:"script"`
	NConds int      `json:"nconds"`
	Call   bool     `json:"-"`
}

// PDag is the projection of an accepted DAG.
type PDag struct {
	Name     string            `json:"name"`
	Tags     []string          `json:"tags"`
	Sched    [3][]string       `json:"sched"`
	Env      []string          `json:"env"`
	LogDir   string            `json:"logdir"`
	DParams  string            `json:"dparams"`
	Params   []string          `json:"params"`
	Steps    []PStep           `json:"steps"`
	Handlers map[string]*PStep `json:"handlers"`
	NConds   int               `json:"nconds"`
	Ptrs     map[string]bool   `json:"ptrs"` // pointer fields the runner dereferences: is each non-nil?
	JSONOk   bool              `json:"json_ok"`
	JSONErr  string            `json:"json_err,omitempty"`
	Conds    []CondRes         `json:"conds"`
	Endpoint string            `json:"endpoint,omitempty"` // GET /status on an agent of this DAG: "200" | "panic: .." | "skip: .." | "<code>"
}

// CondRes: outcome class of EvalConditions on ONE accepted condition.
type CondRes struct {
	Where    string `json:"where"`
	Cond     string `json:"cond"`
	Expected string `json:"expected"`
	Cls      string `json:"cls"` // met | unmet | panic
	At       string `json:"at,omitempty"`
	Msg      string `json:"msg,omitempty"`
}

// StoreCall is one call of the server's listing / viewing layer on the case file, through ONE DAGStore / client
// instance (their metadata cache is part of what is exercised): the answer must be an error or a DAG.
type StoreCall struct {
	Call string `json:"call"` // e.g. GetMetadata#1, List#2, GetAllStatus#1
	Cls  string `json:"cls"`  // dag | err | neither | panic
	Msg  string `json:"msg,omitempty"`
	At   string `json:"at,omitempty"`
}

// Res is what one entry point did with one input.
type Res struct {
	Cls    string            `json:"cls"` // ok | err | panic
	Err    string            `json:"err,omitempty"`
	At     string            `json:"at,omitempty"`   // innermost non-runtime function of the panic
	Repo   string            `json:"repo,omitempty"` // innermost blackdagger function of the panic
	Msg    string            `json:"msg,omitempty"`  // panic value
	Dag    *PDag             `json:"dag,omitempty"`
	EnvSet map[string]string `json:"envset"`           // environment variables created / changed by the call
	EnvDel []string          `json:"envdel,omitempty"` // ... removed by the call
}

func shortFn(fn string) string {
	// github.com/ErdemOzgen/blackdagger/internal/dag.(*builder).buildSchedule -> dag.(*builder).buildSchedule
	if i := strings.LastIndex(fn, "/"); i >= 0 {
		fn = fn[i+1:]
	}
	return fn
}

// panicSite walks the stack of a recovered panic: the frames after runtime.gopanic / sigpanic.
func panicSite() (at, repo string) {
	pcs := make([]uintptr, 64)
	n := runtime.Callers(3, pcs)
	frames := runtime.CallersFrames(pcs[:n])
	seenPanic := false
	for {
		f, more := frames.Next()
		fn := f.Function
		if strings.HasPrefix(fn, "runtime.") {
			if strings.Contains(fn, "panic") || strings.Contains(fn, "sigpanic") || strings.Contains(fn, "goPanic") {
				seenPanic = true
			}
		} else if seenPanic {
			if strings.Contains(fn, "verifh/") || strings.HasPrefix(fn, "main.") {
				break
			}
			if at == "" {
				at = shortFn(fn)
			}
			if repo == "" && strings.Contains(fn, "ErdemOzgen/blackdagger/internal") {
				repo = shortFn(fn)
			}
		}
		if !more {
			break
		}
	}
	return
}

func envMap() map[string]string {
	m := map[string]string{}
	for _, kv := range os.Environ() {
		if i := strings.Index(kv, "="); i > 0 {
			m[kv[:i]] = kv[i+1:]
		} else if i == 0 {
			continue
		}
	}
	return m
}

func restoreEnv(before map[string]string) {
	now := envMap()
	for k := range now {
		if _, ok := before[k]; !ok {
			os.Unsetenv(k)
		}
	}
	for k, v := range before {
		if now[k] != v {
			os.Setenv(k, v)
		}
	}
}

func envDiff(before map[string]string) (set map[string]string, del []string) {
	set = map[string]string{}
	now := envMap()
	for k, v := range now {
		if ov, ok := before[k]; !ok || ov != v {
			set[k] = v
		}
	}
	for k := range before {
		if _, ok := now[k]; !ok {
			del = append(del, k)
		}
	}
	sort.Strings(del)
	return
}

// guarded runs f under recover, observes the environment difference and restores the environment.
func guarded(f func() (*dag.DAG, error), project bool) (res Res) {
	before := envMap()
	defer func() {
		if r := recover(); r != nil {
			res.Cls = "panic"
			res.Msg = trunc(fmt.Sprint(r), 160)
			res.At, res.Repo = panicSite()
		}
		res.EnvSet, res.EnvDel = envDiff(before)
		restoreEnv(before)
	}()
	d, err := f()
	if err != nil {
		res.Cls = "err"
		res.Err = trunc(err.Error(), 200)
		return
	}
	res.Cls = "ok"
	if d == nil {
		res.Cls = "err"
		res.Err = "nil DAG without error"
		return
	}
	if project {
		res.Dag = projectDag(d)
	}
	return
}

func trunc(s string, n int) string {
	if len(s) > n {
		return s[:n] + "..."
	}
	return s
}

func nz(xs []string) []string {
	if xs == nil {
		return []string{}
	}
	return xs
}

func projectStep(s *dag.Step) *PStep {
	if s == nil {
		return nil
	}
	return &PStep{Name: s.Name, Cmd: s.Command, Args: nz(s.Args), CWA: s.CmdWithArgs, EType: s.ExecutorConfig.Type,
		Sub: s.SubWorkflow != nil, Sig: s.SignalOnStop, Script: s.Script, NConds: len(s.Preconditions)}
}

func exprs(ss []dag.Schedule) []string {
	out := []string{}
	for _, s := range ss {
		out = append(out, s.Expression)
	}
	return out
}

func projectDag(d *dag.DAG) *PDag {
	p := &PDag{Name: d.Name, Tags: nz(d.Tags), LogDir: d.LogDir, DParams: d.DefaultParams, Params: nz(d.Params),
		Handlers: map[string]*PStep{}, NConds: len(d.Preconditions), Steps: []PStep{}, Conds: []CondRes{}}
	p.Ptrs = map[string]bool{"smtp": d.SMTP != nil, "errorMail": d.ErrorMail != nil, "infoMail": d.InfoMail != nil}
	p.Sched = [3][]string{exprs(d.Schedule), exprs(d.StopSchedule), exprs(d.RestartSchedule)}
	env := append([]string{}, d.Env...)
	sort.Strings(env)
	p.Env = env
	for i := range d.Steps {
		p.Steps = append(p.Steps, *projectStep(&d.Steps[i]))
	}
	p.Handlers["exit"] = projectStep(d.HandlerOn.Exit)
	p.Handlers["success"] = projectStep(d.HandlerOn.Success)
	p.Handlers["failure"] = projectStep(d.HandlerOn.Failure)
	p.Handlers["cancel"] = projectStep(d.HandlerOn.Cancel)
	// the status every consumer (history writer, live endpoint, API) serialises
	func() {
		defer func() {
			if r := recover(); r != nil {
				p.JSONOk, p.JSONErr = false, "panic: "+trunc(fmt.Sprint(r), 120)
			}
		}()
		st := model.NewStatus(d, nil, scheduler.StatusNone, -1, nil, nil)
		b, err := json.Marshal(st)
		if err != nil {
			p.JSONOk, p.JSONErr = false, trunc(err.Error(), 120)
			return
		}
		// ... and read back
		if _, err := model.StatusFromJSON(string(b)); err != nil {
			p.JSONOk, p.JSONErr = false, "read back: "+trunc(err.Error(), 120)
			return
		}
		p.JSONOk = true
	}()
	return p
}

// evalConds evaluates every accepted condition on its own (so an unmet condition does not hide a later one).
func evalConds(d *dag.DAG) []CondRes {
	out := []CondRes{}
	one := func(where string, cs []dag.Condition) {
		for i, c := range cs {
			r := CondRes{Where: fmt.Sprintf("%s#%d", where, i), Cond: c.Condition, Expected: c.Expected}
			func() {
				before := envMap()
				defer func() {
					if rec := recover(); rec != nil {
						r.Cls = "panic"
						r.Msg = trunc(fmt.Sprint(rec), 120)
						r.At, _ = panicSite()
					}
					restoreEnv(before)
				}()
				if err := dag.EvalConditions([]dag.Condition{c}); err != nil {
					r.Cls = "unmet"
				} else {
					r.Cls = "met"
				}
			}()
			out = append(out, r)
		}
	}
	one("dag", d.Preconditions)
	for i := range d.Steps {
		one(fmt.Sprintf("step%d", i), d.Steps[i].Preconditions)
	}
	for _, h := range []struct {
		n string
		s *dag.Step
	}{{"exit", d.HandlerOn.Exit}, {"success", d.HandlerOn.Success}, {"failure", d.HandlerOn.Failure}, {"cancel", d.HandlerOn.Cancel}} {
		if h.s != nil {
			one(h.n, h.s.Preconditions)
		}
	}
	return out
}

// Entry points.  `file` holds the same bytes as `doc`.
func runYAML(doc []byte, conds bool) Res {
	var keep *dag.DAG
	r := guarded(func() (*dag.DAG, error) {
		d, err := dag.LoadYAML(doc)
		keep = d
		return d, err
	}, true)
	if conds && r.Cls == "ok" && keep != nil {
		r.Dag.Conds = evalConds(keep)
	}
	return r
}
func runMeta(file string) Res {
	return guarded(func() (*dag.DAG, error) { return dag.LoadMetadata(file) }, true)
}
func runNoEval(file string) Res {
	var keep *dag.DAG
	r := guarded(func() (*dag.DAG, error) {
		d, err := dag.LoadWithoutEval(file)
		keep = d
		return d, err
	}, true)
	if r.Cls == "ok" && keep != nil {
		r.Dag.Endpoint = serveStatus(keep)
	}
	return r
}

// serveStatus drives the live status endpoint of the agent (agent.go HandleHTTP, GET /status) for an accepted
// DAG.  The agent is set up by Run, which is made to stop right after setup by an unmet (command-free)
// precondition: no step runs, no history is written, no socket is bound.
func serveStatus(d *dag.DAG) (out string) {
	defer func() {
		if r := recover(); r != nil {
			out = "panic: " + trunc(fmt.Sprint(r), 100)
		}
	}()
	cp := *d
	cp.Preconditions = []dag.Condition{{Condition: "verif-never", Expected: "verif-met"}}
	a := agent.New("verif-req", &cp, quietLogger, scratch, filepath.Join(scratch, "agent.log"), nil, nil, &agent.Options{Dry: true})
	err := a.Run(context.Background())
	if err == nil || !strings.Contains(err.Error(), "condition was not met") {
		return "skip: " + trunc(fmt.Sprint(err), 80)
	}
	rec := httptest.NewRecorder()
	a.HandleHTTP(rec, httptest.NewRequest("GET", "/status", nil))
	if rec.Code == 200 {
		var st map[string]any
		if json.Unmarshal(rec.Body.Bytes(), &st) != nil {
			return "200-invalid-json"
		}
		return "200"
	}
	return fmt.Sprint(rec.Code)
}

// endpointControl: the error path of the endpoint with a hand-built DAG whose status json.Marshal refuses - what
// the model calls serve_status = Panic.  The loader can no longer produce such a DAG (C13_serialisable).
func endpointControl() string {
	d := &dag.DAG{Name: "ctl", Location: filepath.Join(scratch, "ctl.yaml"), SMTP: &dag.SMTPConfig{}, ErrorMail: &dag.MailConfig{}, InfoMail: &dag.MailConfig{},
		Steps: []dag.Step{{Name: "s1", Command: "true", ExecutorConfig: dag.ExecutorConfig{Config: map[string]any{"x": math.NaN()}}}}}
	return serveStatus(d)
}
func runLoad(file string, params string) Res {
	return guarded(func() (*dag.DAG, error) { return dag.Load("", file, params) }, true)
}

// ---------------------------------------------------------------------------------------------
// Oracles: per-string verdicts of the libraries the model takes as parameters.
// ---------------------------------------------------------------------------------------------

var cronParser = cron.NewParser(cron.Minute | cron.Hour | cron.Dom | cron.Month | cron.Dow)

// cronVerdict: 0 parses, 1 error, 2 panic.
func cronVerdict(s string) (v int) {
	defer func() {
		if r := recover(); r != nil {
			v = 2
		}
	}()
	if _, err := cronParser.Parse(s); err != nil {
		return 1
	}
	return 0
}

func sigValid(s string) bool { return unix.SignalNum(s) != 0 }

// reValid: for a string with the `re:` prefix, does the rest compile?
func reValid(s string) bool {
	if !strings.HasPrefix(s, "re:") {
		return true
	}
	_, err := regexp.Compile(strings.TrimPrefix(s, "re:"))
	return err == nil
}

// tokenizer of parser.go (a copy of its regular expression; the correspondence compares the parameters the
// real loader produced with what the model derives from these tokens, so a drift of the copy shows up).
var paramRe = regexp.MustCompile(`(?:([^\s="]+)=)?("(?:\\"|[^"])*"|` + "`(" + `?:\\"|[^"]*)` + "`" + `|[^"\s]+)`)

func paramTokens(s string) [][2]string {
	out := [][2]string{}
	for _, m := range paramRe.FindAllStringSubmatch(s, -1) {
		out = append(out, [2]string{m[1], m[2]})
	}
	return out
}

// Oracle is keyed by string; only strings for which some verdict is not the default are listed.
type Oracle struct {
	Cron  map[string]int         `json:"cron"`  // every string of the tree: 0 / 1 / 2
	Sig   map[string]bool        `json:"sig"`   // strings that ARE valid signal names
	ReBad []string               `json:"rebad"` // strings with re: prefix that do not compile
	Tok   map[string][][2]string `json:"tok"`   // tokenisation of the params strings
}

func oracleFor(t *Y, extraParams ...string) Oracle {
	acc := map[string]bool{}
	t.Strings(acc)
	o := Oracle{Cron: map[string]int{}, Sig: map[string]bool{}, ReBad: []string{}, Tok: map[string][][2]string{}}
	for s := range acc {
		o.Cron[s] = cronVerdict(s)
		if sigValid(s) {
			o.Sig[s] = true
		}
		if !reValid(s) {
			o.ReBad = append(o.ReBad, s)
		}
	}
	sort.Strings(o.ReBad)
	if t.K == KMap {
		for _, e := range t.M {
			if e.K.K == KStr && strings.EqualFold(e.K.S, "params") && e.V.K == KStr {
				o.Tok[e.V.S] = paramTokens(e.V.S)
			}
		}
	}
	for _, p := range extraParams {
		o.Tok[p] = paramTokens(p)
	}
	return o
}

func writeDoc(dir, name, doc string) string {
	p := filepath.Join(dir, name)
	if err := os.WriteFile(p, []byte(doc), 0o644); err != nil {
		panic(err)
	}
	return p
}

// runStore loads / lists the file of the case at least twice through one data-store and client instance.
var (
	storeDS  persistence.DataStores
	storeCli client.Client
	storeSeq int
)

// One data-store / client instance serves the whole run (as in the server); each case gets a file name of its
// own, alone in the directory, so that the metadata cache never confuses two cases.
func runStore(doc string) []StoreCall {
	var out []StoreCall
	dir := filepath.Join(scratch, "store-dags")
	if storeDS == nil {
		storeDS = dsclient.NewDataStores(dir, filepath.Join(scratch, "store-data"), filepath.Join(scratch, "store-suspend"), dsclient.DataStoreOptions{})
		storeCli = client.New(storeDS, "", scratch, quietLogger)
	}
	os.RemoveAll(dir)
	os.MkdirAll(dir, 0o755)
	storeSeq++
	name := fmt.Sprintf("s%d", storeSeq)
	writeDoc(dir, name+".yaml", doc)
	cli := storeCli
	store := storeDS.DAGStore()
	call := func(label string, f func() (gotDag bool, nilDag bool, err error)) {
		c := StoreCall{Call: label}
		before := envMap()
		func() {
			defer func() {
				if r := recover(); r != nil {
					c.Cls = "panic"
					c.Msg = trunc(fmt.Sprint(r), 120)
					c.At, _ = panicSite()
				}
				restoreEnv(before)
			}()
			got, nilDag, err := f()
			switch {
			case nilDag:
				c.Cls = "neither"
				c.Msg = "a nil DAG among the results"
			case err != nil:
				c.Cls = "err"
				c.Msg = trunc(err.Error(), 100)
			case got:
				c.Cls = "dag"
			default:
				c.Cls = "neither"
			}
		}()
		out = append(out, c)
	}
	first := func(errs []string, err error) error {
		if err == nil && len(errs) > 0 {
			return fmt.Errorf("%s", errs[0])
		}
		return err
	}
	for round := 1; round <= 2; round++ {
		call(fmt.Sprintf("GetMetadata#%d", round), func() (bool, bool, error) {
			d, err := store.GetMetadata(name)
			return d != nil, false, err
		})
		call(fmt.Sprintf("List#%d", round), func() (bool, bool, error) {
			ds, errs, err := store.List()
			for _, d := range ds {
				if d == nil {
					return false, true, nil
				}
			}
			return len(ds) > 0, false, first(errs, err)
		})
		call(fmt.Sprintf("ListPagination#%d", round), func() (bool, bool, error) {
			r, err := store.ListPagination(persistence.DAGListPaginationArgs{Page: 1, Limit: 10})
			if r == nil {
				return false, false, err
			}
			for _, d := range r.DagList {
				if d == nil {
					return false, true, nil
				}
			}
			return len(r.DagList) > 0, false, first(r.ErrorList, err)
		})
		call(fmt.Sprintf("TagList#%d", round), func() (bool, bool, error) {
			_, errs, err := store.TagList()
			e := first(errs, err)
			return e == nil, false, e
		})
		call(fmt.Sprintf("GetDetails#%d", round), func() (bool, bool, error) {
			d, err := store.GetDetails(name)
			return d != nil, false, err
		})
		call(fmt.Sprintf("GetAllStatus#%d", round), func() (bool, bool, error) {
			sts, errs, err := cli.GetAllStatus()
			for _, st := range sts {
				if st == nil || st.DAG == nil {
					return false, true, nil
				}
			}
			return len(sts) > 0, false, first(errs, err)
		})
	}
	return out
}
