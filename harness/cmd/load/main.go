// Driver for C13 / C19: feeds definition trees (rendered to YAML) and raw bytes to the real loader entry
// points of /repo and records what they did.
//
//	load <out.jsonl> <tier> c13           tree streams + raw-bytes stream (in a guarded child process)
//	load <out.jsonl> <tier> c19           canary cases through every non-executing entry point (+ Load as control)
//	load <out.jsonl> replay <in.jsonl>    re-run the cases of a file (trees are re-rendered, verdicts re-taken)
//	load <out.jsonl> rawchild <in.jsonl>  (internal) run raw documents, one result line per document
//
// Every random choice derives from VERIF_SEED.
package main

import (
	"bufio"
	"encoding/json"
	"fmt"
	"os"
	"path/filepath"
	"sort"
	"strings"

	"github.com/ErdemOzgen/blackdagger/verifh/vh"
)

const caseFile = "vcase" // DAG files are written as <scratch>/vcase.yaml: the default DAG name is "vcase"

type Case struct {
	Kind   string         `json:"kind"`
	K      int            `json:"k"`
	Stream string         `json:"stream"`
	Mut    []string       `json:"mut,omitempty"`
	Tree   *Y             `json:"tree"`          // what the decoder sees (duplicate keys resolved)
	Src    *Y             `json:"src,omitempty"` // the tree as rendered, when it holds duplicate keys
	YAML   string         `json:"yaml"`
	FName  string         `json:"fname"`
	Oracle Oracle         `json:"oracle"`
	Res    map[string]Res `json:"res"`
	Store  []StoreCall    `json:"store,omitempty"` // the listing / viewing layer, each call twice through one instance
	Note   string         `json:"note,omitempty"`
}

var scratch string
var dropReason string

// the listing / viewing layer is exercised on every storeEvery-th tree case (all of them in the thorough tier)
var storeEvery = 3

func setupEnv() {
	path := os.Getenv("PATH")
	home := os.Getenv("HOME")
	seed := os.Getenv("VERIF_SEED")
	os.Clearenv()
	os.Setenv("PATH", path)
	os.Setenv("HOME", home)
	os.Setenv("TZ", "UTC")
	os.Setenv("VQ_BASE", "/vqbase")
	os.Setenv("VERIF_SEED", seed)
}

func mkScratch(out string) string {
	d := filepath.Join(filepath.Dir(out), "load-scratch")
	os.RemoveAll(d)
	if err := os.MkdirAll(d, 0o755); err != nil {
		panic(err)
	}
	return d
}

// runTree runs the four loader entry points on the rendering of a tree.
func runTree(k int, stream string, muts []string, src *Y) (*Case, bool) {
	doc := src.Render()
	if !src.RoundTrips(doc) {
		dropReason = "roundtrip"
		return nil, false
	}
	eff := src.Effective()
	if why := eff.Ambiguous(); why != "" {
		dropReason = why
		return nil, false
	}
	c := &Case{Kind: "c13", K: k, Stream: stream, Mut: muts, Tree: eff, YAML: doc, FName: caseFile, Res: map[string]Res{}}
	if eff.canon() != src.canon() {
		c.Src = src
	}
	c.Oracle = oracleFor(eff, "")
	file := writeDoc(scratch, caseFile+".yaml", doc)
	c.Res["yaml"] = runYAML([]byte(doc), true)
	c.Res["meta"] = runMeta(file)
	c.Res["noeval"] = runNoEval(file)
	c.Res["load"] = runLoad(file, "")
	if storeEvery <= 1 || k%storeEvery == 0 || stream == "fixed" || strings.HasPrefix(stream, "corpus") {
		c.Store = runStore(doc)
	}
	return c, true
}

func main() {
	if len(os.Args) < 4 {
		fmt.Fprintln(os.Stderr, "usage: load <out.jsonl> <tier|replay|rawchild> <c13|c19|in.jsonl>")
		os.Exit(2)
	}
	outPath, mode, arg := os.Args[1], os.Args[2], os.Args[3]
	if abs, err := filepath.Abs(outPath); err == nil {
		outPath = abs
	}
	if mode == "replay" || mode == "rawchild" {
		if abs, err := filepath.Abs(arg); err == nil {
			arg = abs
		}
	}
	setupEnv()
	if mode == "rawchild" {
		rawChild(outPath, arg)
		return
	}
	scratch = mkScratch(outPath)
	defer os.RemoveAll(scratch)
	out, err := vh.NewOut(outPath)
	if err != nil {
		panic(err)
	}
	defer out.Close()
	switch {
	case mode == "replay":
		replay(out, arg)
	case arg == "c13":
		genC13(out, mode, outPath)
	case arg == "c19":
		genC19(out, mode)
	default:
		fmt.Fprintln(os.Stderr, "unknown stream", arg)
		os.Exit(2)
	}
}

func genC13(out *vh.Out, tier string, outPath string) {
	rng := vh.NewRng(vh.SeedFromEnv())
	k := 0
	dropped := map[string]int{}
	emit := func(stream string, muts []string, t *Y) {
		c, ok := runTree(k, stream, muts, t)
		if !ok {
			dropped[dropReason]++
			return
		}
		out.Put(c)
		k++
	}
	thorough := tier == "thorough"
	if thorough {
		storeEvery = 1
	}

	// 1. fixed corner documents
	for _, t := range []*Y{Null(), Map(), Str("x"), List(), Int(1), minimalDef(), baseDef()} {
		emit("fixed", nil, t)
	}
	// 2. nulls / empty collections / wrong kinds in every position of a definition that uses every field
	everySlot(func(stream string, t *Y) { emit(stream, nil, t) })
	// 2b. targeted families (signal spellings, empty maps in executor config, step-level invalid definitions)
	targeted(func(stream string, t *Y) { emit(stream, nil, t) })
	// 3. every `any` field over small untyped trees
	for _, f := range anyFields() {
		trees := smallTrees(f.atoms, f.keys, 3)
		g := &G{r: rng.Fork(uint64(1000 + len(f.name)))}
		for i, v := range trees {
			d1 := len(f.atoms) + 2 + len(f.atoms)*(1+len(f.keys)) + len(f.atoms)*len(f.atoms) + len(f.keys)*(len(f.keys)-1)/2
			if !thorough && i >= d1 {
				// beyond depth 1: a seeded sample in the quick tier
				if !g.r.Chance(1, 40) {
					continue
				}
			} else if thorough && i >= d1 && !g.r.Chance(1, 3) {
				continue
			}
			t := minimalDef()
			f.put(t, v.Clone())
			emit("any:"+f.name, nil, t)
		}
	}
	// 4. grammar + random mutations
	n := 1400
	if thorough {
		n = 30000
	}
	for i := 0; i < n; i++ {
		g := &G{r: rng.Fork(uint64(i)), scratch: scratch}
		t := g.validDef()
		var muts []string
		nm := 0
		switch g.r.Below(10) {
		case 0, 1, 2:
			nm = 0
		case 3, 4, 5, 6:
			nm = 1
		case 7, 8:
			nm = 2
		default:
			nm = 3 + g.r.Below(3)
		}
		for j := 0; j < nm; j++ {
			muts = append(muts, g.mutate(t))
		}
		stream := "valid"
		if nm > 0 {
			stream = "mut"
		}
		emit(stream, muts, t)
	}
	// 5. random untyped trees as the whole document / as top-level fields
	m := 300
	if thorough {
		m = 5000
	}
	for i := 0; i < m; i++ {
		g := &G{r: rng.Fork(uint64(1_000_000 + i))}
		if i%3 == 0 {
			emit("anyroot", nil, g.anyTree(3))
			continue
		}
		t := minimalDef()
		for _, fld := range []string{"schedule", "env", "tags", "handlerOn", "functions", "steps", "preconditions", "smtp", "mailOn", "errorMail", "params", "logDir"} {
			if g.r.Chance(1, 5) {
				t.Set(fld, g.anyTree(3))
			}
		}
		emit("anytop", nil, t)
	}
	out.Put(map[string]any{"kind": "info", "dropped": dropped, "tree_cases": k, "endpoint_control": endpointControl()})
	// 6. raw-bytes stream, in a guarded child process (robustness testing in support)
	rawStream(out, tier, outPath, rng)
}

func replay(out *vh.Out, inPath string) {
	f, err := os.Open(inPath)
	if err != nil {
		panic(err)
	}
	defer f.Close()
	sc := bufio.NewScanner(f)
	sc.Buffer(make([]byte, 1<<20), 1<<28)
	k := 0
	for sc.Scan() {
		line := strings.TrimSpace(sc.Text())
		if line == "" {
			continue
		}
		var probe struct {
			Kind string `json:"kind"`
		}
		if err := json.Unmarshal([]byte(line), &probe); err != nil {
			continue
		}
		switch probe.Kind {
		case "c13":
			var c Case
			if err := json.Unmarshal([]byte(line), &c); err != nil {
				panic(err)
			}
			src := c.Src
			if src == nil {
				src = c.Tree
			}
			nc, ok := runTree(k, c.Stream, c.Mut, src)
			if ok {
				out.Put(nc)
			} else {
				out.Put(map[string]any{"kind": "info", "dropped": map[string]int{dropReason: 1}, "k": k})
			}
		case "c19":
			var c C19Case
			if err := json.Unmarshal([]byte(line), &c); err != nil {
				panic(err)
			}
			src := c.Src
			if src == nil {
				src = c.Tree
			}
			// the canary commands name the scratch directory of the run that produced the case
			if c.CDir != "" {
				src = src.Clone()
				src.rewrite(c.CDir, filepath.Join(scratch, "canary"))
			}
			out.Put(runC19(k, c.Stream, c.Planted, src))
		case "raw":
			var c RawCase
			if err := json.Unmarshal([]byte(line), &c); err != nil {
				panic(err)
			}
			for _, r := range runRawBatch([]RawCase{c}, filepath.Dir(inPath)) {
				out.Put(r)
			}
		}
		k++
	}
}

func sortedKeys(m map[string]string) []string {
	ks := make([]string, 0, len(m))
	for k := range m {
		ks = append(ks, k)
	}
	sort.Strings(ks)
	return ks
}
