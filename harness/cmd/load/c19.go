// C19: canaries.  For each string-valued field of a definition a command substitution
// `touch <dir>/<field>` and a reference $CANARY_<field> are planted (the variable itself holds a second
// command substitution `touch <dir>/<field>.env`, so that "expanded and then substituted" is visible too).
// The document goes through every non-executing entry point and, as positive control, through Load.
// Observed: which canary files exist afterwards, and the difference of os.Environ().
package main

import (
	"fmt"
	"os"
	"path/filepath"
	"sort"
	"strings"
	"time"

	"github.com/go-openapi/loads"

	"github.com/ErdemOzgen/blackdagger/internal/client"
	"github.com/ErdemOzgen/blackdagger/internal/config"
	"github.com/ErdemOzgen/blackdagger/internal/dag"
	dscheduler "github.com/ErdemOzgen/blackdagger/internal/dag/scheduler"
	fdag "github.com/ErdemOzgen/blackdagger/internal/frontend/dag"
	"github.com/ErdemOzgen/blackdagger/internal/frontend/gen/restapi"
	"github.com/ErdemOzgen/blackdagger/internal/frontend/gen/restapi/operations"
	"github.com/ErdemOzgen/blackdagger/internal/frontend/gen/restapi/operations/dags"
	"github.com/ErdemOzgen/blackdagger/internal/logger"
	"github.com/ErdemOzgen/blackdagger/internal/persistence"
	dsclient "github.com/ErdemOzgen/blackdagger/internal/persistence/client"
	"github.com/ErdemOzgen/blackdagger/internal/persistence/local"
	"github.com/ErdemOzgen/blackdagger/internal/persistence/model"
	"github.com/ErdemOzgen/blackdagger/internal/scheduler"
	"github.com/ErdemOzgen/blackdagger/verifh/vh"
)

type Obs struct {
	Cls      string            `json:"cls"` // ok | err | panic
	Err      string            `json:"err,omitempty"`
	At       string            `json:"at,omitempty"`
	Canaries []string          `json:"canaries"` // ids of the canary files found after the call
	EnvSet   map[string]string `json:"envset"`
	EnvDel   []string          `json:"envdel,omitempty"`
}

type C19Case struct {
	Kind     string            `json:"kind"` // c19
	K        int               `json:"k"`
	Stream   string            `json:"stream"`
	Planted  []string          `json:"planted"`
	Tree     *Y                `json:"tree"`
	Src      *Y                `json:"src,omitempty"`
	YAML     string            `json:"yaml"`
	FName    string            `json:"fname"`
	CDir     string            `json:"cdir"` // canary directory (commands are `touch <cdir>/<id>`)
	Env0     map[string]string `json:"env0"` // variables the document may read
	Oracle   Oracle            `json:"oracle"`
	Obs      map[string]Obs    `json:"obs"`
	Recorded []string          `json:"recorded,omitempty"` // output variables of the recorded run the client reads
}

// planter describes one string-valued position.
type planter struct {
	id    string
	plant func(t *Y, v string) // puts the string at its position (creating the path)
	// keepsValid: the planted definition is still accepted (used for the all-fields case)
	keepsValid bool
	// bare: the text must not contain the $CANARY reference (it would change the meaning of the field)
	bare bool
}

func stepOf(t *Y, i int) *Y { return t.Get("steps").L[i] }

func ensureMap(t *Y, k string) *Y {
	if m := t.Get(k); m != nil && m.K == KMap {
		return m
	}
	m := Map()
	t.Set(k, m)
	return m
}

func ensureList(t *Y, k string) *Y {
	if m := t.Get(k); m != nil && m.K == KList {
		return m
	}
	m := List()
	t.Set(k, m)
	return m
}

func planters() []planter {
	var ps []planter
	top := func(k string, valid bool) {
		ps = append(ps, planter{id: k, plant: func(t *Y, v string) { t.Set(k, Str(v)) }, keepsValid: valid})
	}
	top("name", true)
	top("group", true)
	top("description", true)
	top("logDir", true)
	top("params", true)
	top("tags", true)
	top("schedule", false)
	ps = append(ps,
		planter{id: "tags.item", plant: func(t *Y, v string) { t.Set("tags", List(Str("x"), Str(v))) }},
		planter{id: "schedule.start", plant: func(t *Y, v string) { t.Set("schedule", Map(E("start", Str(v)))) }},
		planter{id: "env.map", keepsValid: true, plant: func(t *Y, v string) { t.Set("env", Map(E("CANARY_SET_ENVMAP", Str(v)))) }},
		planter{id: "env.list", plant: func(t *Y, v string) { t.Set("env", List(Map(E("CANARY_SET_ENVLIST", Str(v))))) }},
		planter{id: "env.key", plant: func(t *Y, v string) { t.Set("env", Map(E(v, Str("x")))) }},
		planter{id: "params.named", plant: func(t *Y, v string) { t.Set("params", Str("CANARY_SET_PARAM=\""+v+"\"")) }},
		planter{id: "params.backtick", bare: true, plant: func(t *Y, v string) { t.Set("params", Str(v)) }},
	)
	stepStr := func(idp string, get func(t *Y) *Y, keys []string, valid map[string]bool) {
		for _, k := range keys {
			k := k
			ps = append(ps, planter{id: idp + "." + k, keepsValid: valid[k], plant: func(t *Y, v string) { get(t).Set(k, Str(v)) }})
		}
	}
	stepKeys := []string{"name", "description", "dir", "command", "script", "stdout", "stderr", "output", "env", "run", "params", "executor", "signalOnStop"}
	stepValid := map[string]bool{"description": true, "dir": true, "command": true, "script": true, "stdout": true, "stderr": true, "output": true, "env": true}
	stepStr("steps", func(t *Y) *Y { return stepOf(t, 0) }, stepKeys, stepValid)
	ps = append(ps,
		// a command line whose ARGUMENT holds the substitution (what a shell-words parser with back-tick support would run)
		planter{id: "steps.command.arg", bare: true, keepsValid: false, plant: func(t *Y, v string) { stepOf(t, 0).Set("command", Str("echo "+v+" tail")) }},
		planter{id: "steps.command.item", plant: func(t *Y, v string) { stepOf(t, 0).Set("command", List(Str("echo"), Str(v))) }},
		planter{id: "steps.depends", plant: func(t *Y, v string) { stepOf(t, 0).Set("depends", List(Str(v))) }},
		planter{id: "steps.executor.type", plant: func(t *Y, v string) { stepOf(t, 0).Set("executor", Map(E("type", Str(v)))) }},
		planter{id: "steps.executor.config", keepsValid: true, plant: func(t *Y, v string) {
			stepOf(t, 1).Set("executor", Map(E("type", Str("http")), E("config", Map(E("url", Str(v)), E("headers", Map(E("h", Str(v)))), E("list", List(Str(v)))))))
		}},
		planter{id: "steps.executor.config.key", plant: func(t *Y, v string) {
			stepOf(t, 1).Set("executor", Map(E("type", Str("http")), E("config", Map(E(v, Str("x"))))))
		}},
		planter{id: "steps.preconditions.condition", keepsValid: true, plant: func(t *Y, v string) {
			stepOf(t, 0).Set("preconditions", List(Map(E("condition", Str(v)), E("expected", Str("x")))))
		}},
		planter{id: "steps.preconditions.expected", plant: func(t *Y, v string) {
			stepOf(t, 1).Set("preconditions", List(Map(E("condition", Str("x")), E("expected", Str(v)))))
		}},
		planter{id: "steps.call.function", plant: func(t *Y, v string) {
			stepOf(t, 2).Set("call", Map(E("function", Str(v)), E("args", Map(E("x", Str("v"))))))
		}},
		planter{id: "steps.call.args", keepsValid: true, plant: func(t *Y, v string) {
			stepOf(t, 2).Set("call", Map(E("function", Str("f")), E("args", Map(E("x", Str(v))))))
		}},
		planter{id: "steps.run", plant: func(t *Y, v string) { stepOf(t, 3).Set("run", Str(v)) }},
		planter{id: "steps.run.params", keepsValid: true, plant: func(t *Y, v string) { stepOf(t, 3).Set("params", Str(v)) }},
	)
	for _, h := range []string{"exit", "success", "failure", "cancel"} {
		h := h
		get := func(t *Y) *Y { return ensureMap(ensureMap(t, "handlerOn"), h) }
		stepStr("handlerOn."+h, get, []string{"command", "dir", "script", "stdout", "output", "description"},
			map[string]bool{"command": true, "dir": true, "script": true, "stdout": true, "output": true, "description": true})
		ps = append(ps,
			planter{id: "handlerOn." + h + ".command.arg", bare: true, plant: func(t *Y, v string) { get(t).Set("command", Str("echo "+v)) }},
			planter{id: "handlerOn." + h + ".executor.config", keepsValid: true, plant: func(t *Y, v string) {
				get(t).Set("executor", Map(E("type", Str("mail")), E("config", Map(E("to", Str(v))))))
			}},
			planter{id: "handlerOn." + h + ".preconditions.condition", keepsValid: true, plant: func(t *Y, v string) {
				get(t).Set("preconditions", List(Map(E("condition", Str(v)), E("expected", Str("x")))))
			}},
		)
	}
	ps = append(ps,
		planter{id: "functions.name", plant: func(t *Y, v string) {
			t.Get("functions").L[0].Set("name", Str(v))
		}},
		planter{id: "functions.params", plant: func(t *Y, v string) { t.Get("functions").L[0].Set("params", Str(v)) }},
		planter{id: "functions.command", bare: true, keepsValid: true, plant: func(t *Y, v string) {
			t.Get("functions").L[0].Set("command", Str("echo $x "+v))
		}},
	)
	for _, k := range []string{"host", "port", "username", "password"} {
		k := k
		ps = append(ps, planter{id: "smtp." + k, keepsValid: true, plant: func(t *Y, v string) { ensureMap(t, "smtp").Set(k, Str(v)) }})
	}
	for _, m := range []string{"errorMail", "infoMail"} {
		for _, k := range []string{"from", "to", "prefix"} {
			m, k := m, k
			ps = append(ps, planter{id: m + "." + k, keepsValid: true, plant: func(t *Y, v string) { ensureMap(t, m).Set(k, Str(v)) }})
		}
	}
	ps = append(ps,
		planter{id: "preconditions.condition", keepsValid: true, plant: func(t *Y, v string) {
			ensureList(t, "preconditions").L = []*Y{Map(E("condition", Str(v)), E("expected", Str("x")))}
		}},
		planter{id: "preconditions.expected", plant: func(t *Y, v string) {
			ensureList(t, "preconditions").L = []*Y{Map(E("condition", Str("x")), E("expected", Str(v)))}
		}},
	)
	return ps
}

// c19Base: a valid definition with four steps (plain command, http executor, function call, sub-workflow)
// and no command substitution or default parameters of its own.
func c19Base() *Y {
	return Map(
		E("name", Str("wf")),
		E("functions", List(Map(E("name", Str("f")), E("params", Str("x")), E("command", Str("echo $x"))))),
		E("steps", List(
			Map(E("name", Str("s1")), E("command", Str("echo hi")), E("output", Str("VQ_OUT_KEEP"))),
			Map(E("name", Str("s2")), E("executor", Map(E("type", Str("http")))), E("command", Str("GET http://x")), E("output", Str("VQ_OUT_KEEP2"))),
			Map(E("name", Str("s3")), E("call", Map(E("function", Str("f")), E("args", Map(E("x", Str("v")))))), E("output", Str("VQ_OUT_FRESH"))),
			Map(E("name", Str("s4")), E("run", Str("sub"))),
		)),
	)
}

func canaryText(cdir, id string, bare bool) string {
	if bare {
		return "`touch " + cdir + "/" + id + "`"
	}
	return "`touch " + cdir + "/" + id + "` $" + canaryVar(id)
}

func canaryVar(id string) string {
	r := strings.NewReplacer(".", "_")
	return "CANARY_" + r.Replace(id)
}

func listCanaries(cdir string) []string {
	out := []string{}
	es, _ := os.ReadDir(cdir)
	for _, e := range es {
		out = append(out, e.Name())
	}
	sort.Strings(out)
	return out
}

func clearDir(d string) {
	os.RemoveAll(d)
	os.MkdirAll(d, 0o755)
}

var presetVars = []string{"VQ_OUT_KEEP", "VQ_OUT_KEEP2", "CANARY_SET_ENVMAP", "CANARY_SET_ENVLIST", "CANARY_SET_PARAM"}

var quietLogger = logger.NewLogger(logger.NewLoggerArgs{Quiet: true})

var apiSpec *loads.Document

// newAPI: the generated API of the frontend with the DAG handlers of /repo configured on the given client
func newAPI(cli client.Client) *operations.BlackdaggerAPI {
	if apiSpec == nil {
		spec, err := loads.Analyzed(restapi.SwaggerJSON, "")
		if err != nil {
			panic(err)
		}
		apiSpec = spec
	}
	api := operations.NewBlackdaggerAPI(apiSpec)
	h := fdag.NewHandler(&fdag.NewHandlerArgs{Client: cli, LogEncodingCharset: "utf-8"}, nil, "/api/v1")
	h.Configure(api)
	return api
}

func observe(cdir string, f func() error) (o Obs) {
	clearDir(cdir)
	before := envMap()
	defer func() {
		if r := recover(); r != nil {
			o.Cls = "panic"
			o.Err = trunc(fmt.Sprint(r), 160)
			o.At, _ = panicSite()
		}
		o.Canaries = listCanaries(cdir)
		o.EnvSet, o.EnvDel = envDiff(before)
		restoreEnv(before)
	}()
	if err := f(); err != nil {
		o.Cls = "err"
		o.Err = trunc(err.Error(), 160)
		return
	}
	o.Cls = "ok"
	return
}

func errOf(_ any, err error) error { return err }

func runC19(k int, stream string, planted []string, src *Y) *C19Case {
	cdir := filepath.Join(scratch, "canary")
	dagDir := filepath.Join(scratch, fmt.Sprintf("dags%d", k))
	os.MkdirAll(dagDir, 0o755)
	defer os.RemoveAll(dagDir)
	doc := src.Render()
	eff := src.Effective()
	c := &C19Case{Kind: "c19", K: k, Stream: stream, Planted: planted, Tree: eff, YAML: doc, FName: caseFile, CDir: cdir,
		Env0: map[string]string{"VQ_BASE": "/vqbase"}, Obs: map[string]Obs{}}
	if !src.RoundTrips(doc) {
		c.Stream = "dropped"
		return c
	}
	if eff.canon() != src.canon() {
		c.Src = src
	}
	c.Oracle = oracleFor(eff, "")
	// the variables the planted references read
	saved := envMap()
	defer restoreEnv(saved)
	for _, id := range planted {
		v := "`touch " + cdir + "/" + id + ".env`"
		os.Setenv(canaryVar(id), v)
		c.Env0[canaryVar(id)] = v
	}
	// variables the document NAMES (output: of the steps, env keys, parameter names) exist beforehand: an entry point
	// that removes or overwrites one of them shows in the environment difference
	for _, k := range presetVars {
		os.Setenv(k, "preset")
		c.Env0[k] = "preset"
	}
	file := writeDoc(dagDir, caseFile+".yaml", doc)
	bytesDoc := []byte(doc)
	c.Obs["LoadYAML"] = observe(cdir, func() error { return errOf(dag.LoadYAML(bytesDoc)) })
	c.Obs["LoadMetadata"] = observe(cdir, func() error { return errOf(dag.LoadMetadata(file)) })
	c.Obs["LoadWithoutEval"] = observe(cdir, func() error { return errOf(dag.LoadWithoutEval(file)) })
	// the DAG store of the server (a fresh store per call: its metadata cache would otherwise hide loads)
	store := func() persistence.DAGStore { return local.NewDAGStore(&local.NewDAGStoreArgs{Dir: dagDir}) }
	c.Obs["DAGStore.UpdateSpec"] = observe(cdir, func() error { return store().UpdateSpec(caseFile, bytesDoc) })
	c.Obs["DAGStore.GetDetails"] = observe(cdir, func() error { return errOf(store().GetDetails(caseFile)) })
	c.Obs["DAGStore.GetMetadata"] = observe(cdir, func() error { return errOf(store().GetMetadata(caseFile)) })
	c.Obs["DAGStore.List"] = observe(cdir, func() error {
		_, errs, err := store().List()
		if err == nil && len(errs) > 0 {
			err = fmt.Errorf("%s", errs[0])
		}
		return err
	})
	c.Obs["DAGStore.ListPagination"] = observe(cdir, func() error {
		r, err := store().ListPagination(persistence.DAGListPaginationArgs{Page: 1, Limit: 10})
		if err == nil && r != nil && len(r.ErrorList) > 0 {
			err = fmt.Errorf("%s", r.ErrorList[0])
		}
		return err
	})
	c.Obs["DAGStore.Grep"] = observe(cdir, func() error {
		_, errs, err := store().Grep("name")
		if err == nil && len(errs) > 0 {
			err = fmt.Errorf("%s", errs[0])
		}
		return err
	})
	c.Obs["DAGStore.Find"] = observe(cdir, func() error { return errOf(store().Find(file)) })
	c.Obs["DAGStore.TagList"] = observe(cdir, func() error {
		_, errs, err := store().TagList()
		if err == nil && len(errs) > 0 {
			err = fmt.Errorf("%s", errs[0])
		}
		return err
	})
	// the scheduler daemon's entry reader (initial scan of the DAGs directory)
	c.Obs["entryReader"] = observe(cdir, func() error {
		scheduler.New(&config.Config{DAGs: dagDir, LogDir: scratch, WorkDir: scratch}, quietLogger, nil)
		return nil
	})
	// the display path through the CLIENT (details page, list page, API): it loads the DAG without evaluation and
	// then builds an execution graph only to validate it (scheduler.NewExecutionGraph -> node.init on every step)
	ds := dsclient.NewDataStores(dagDir, filepath.Join(scratch, "c19-data"), filepath.Join(scratch, "c19-suspend"), dsclient.DataStoreOptions{})
	cli := client.New(ds, "", scratch, quietLogger)
	// a recorded run of today (written the way the agent process writes it, output variables included): listing and
	// viewing read it
	c.Recorded = recordRun(ds, file)
	c.Obs["Client.GetStatus"] = observe(cdir, func() error { return errOf(cli.GetStatus(caseFile)) })
	c.Obs["Client.GetAllStatus"] = observe(cdir, func() error {
		_, errs, err := cli.GetAllStatus()
		if err == nil && len(errs) > 0 {
			err = fmt.Errorf("%s", errs[0])
		}
		return err
	})
	c.Obs["Client.GetAllStatusPagination"] = observe(cdir, func() error {
		_, _, err := cli.GetAllStatusPagination(dags.ListDagsParams{})
		return err
	})
	c.Obs["Client.GetStatusByRequestID"] = observe(cdir, func() error {
		d, err := dag.LoadWithoutEval(file)
		if err != nil {
			return err
		}
		return errOf(cli.GetStatusByRequestID(d, "verif-no-such-request"))
	})
	c.Obs["Client.GetRecentHistory"] = observe(cdir, func() error {
		d, err := dag.LoadWithoutEval(file)
		if err != nil {
			return err
		}
		cli.GetRecentHistory(d, 3)
		_, err = cli.GetLatestStatus(d)
		return err
	})
	c.Obs["Client.GetDAGSpec"] = observe(cdir, func() error { return errOf(cli.GetDAGSpec(caseFile)) })
	c.Obs["display-graph"] = observe(cdir, func() error {
		d, err := dag.LoadWithoutEval(file)
		if err != nil {
			return err
		}
		return errOf(dscheduler.NewExecutionGraph(quietLogger, d.Steps...))
	})
	api := newAPI(cli)
	c.Obs["API.GetDagDetails"] = observe(cdir, func() error {
		api.DagsGetDagDetailsHandler.Handle(dags.GetDagDetailsParams{DagID: caseFile})
		return nil
	})
	c.Obs["API.ListDags"] = observe(cdir, func() error {
		api.DagsListDagsHandler.Handle(dags.ListDagsParams{})
		return nil
	})
	// positive control: the evaluating entry point
	c.Obs["Load"] = observe(cdir, func() error { return errOf(dag.Load("", file, "")) })
	clearDir(cdir)
	return c
}

func genC19(out *vh.Out, tier string) {
	rng := vh.NewRng(vh.SeedFromEnv())
	cdir := filepath.Join(scratch, "canary")
	ps := planters()
	k := 0
	emit := func(stream string, planted []string, t *Y) {
		out.Put(runC19(k, stream, planted, t))
		k++
	}
	// 0. controls: nothing planted
	emit("control", nil, c19Base())
	// 1. everything that keeps the definition valid, at once
	{
		t := c19Base()
		var ids []string
		for _, p := range ps {
			if p.keepsValid {
				p.plant(t, canaryText(cdir, p.id, p.bare))
				ids = append(ids, p.id)
			}
		}
		emit("all-valid", ids, t)
	}
	// 2. every field on its own
	for _, p := range ps {
		t := c19Base()
		p.plant(t, canaryText(cdir, p.id, p.bare))
		emit("single", []string{p.id}, t)
	}
	// 3. random subsets, and subsets combined with a mutated grammar definition
	n := 40
	if tier == "thorough" {
		n = 1500
	}
	for i := 0; i < n; i++ {
		g := &G{r: rng.Fork(uint64(5000 + i))}
		t := c19Base()
		var ids []string
		for _, p := range ps {
			if g.r.Chance(1, 4) {
				p.plant(t, canaryText(cdir, p.id, p.bare))
				ids = append(ids, p.id)
			}
		}
		if g.r.Chance(1, 2) {
			// a few more top-level fields from the grammar (schedule / tags / mail settings ...)
			d := g.validDef()
			for _, e := range d.M {
				if e.K.K == KStr && t.Get(e.K.S) == nil && e.K.S != "env" && e.K.S != "params" && e.K.S != "logDir" && e.K.S != "steps" && e.K.S != "handlerOn" && e.K.S != "functions" {
					t.M = append(t.M, e)
				}
			}
		}
		emit("subset", ids, t)
	}
}

// recordRun writes today's status of a finished run of the DAG into the history store, every node carrying the
// output variables of the run ("NAME=from-the-run" for each `output:` of the definition).  Nothing is written for a
// definition the loader rejects or without output variables.
func recordRun(ds persistence.DataStores, file string) (names []string) {
	defer func() {
		if r := recover(); r != nil {
			names = nil
		}
	}()
	before := envMap()
	defer restoreEnv(before)
	d, err := dag.LoadWithoutEval(file)
	if err != nil || d == nil {
		return nil
	}
	rec := &dag.SyncMap{}
	for _, st := range d.Steps {
		if st.Output != "" && !strings.ContainsAny(st.Output, "=`$ ") {
			rec.Store(st.Output, st.Output+"=from-the-run")
			names = append(names, st.Output)
		}
	}
	if len(names) == 0 {
		return nil
	}
	var nodes []dscheduler.NodeData
	for _, st := range d.Steps {
		st.OutputVariables = rec
		nodes = append(nodes, dscheduler.NodeData{Step: st, State: dscheduler.NodeState{Status: dscheduler.NodeStatusSuccess}})
	}
	now := time.Now()
	status := model.NewStatus(d, nodes, dscheduler.StatusSuccess, 12345, &now, &now)
	status.RequestID = "verif-recorded-run"
	hs := ds.HistoryStore()
	if err := hs.Open(d.Location, now, status.RequestID); err != nil {
		return nil
	}
	if err := hs.Write(status); err != nil {
		return nil
	}
	_ = hs.Close()
	return names
}
