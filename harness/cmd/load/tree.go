// The untyped definition tree (yv of coq/Loader/Model.v), its JSON form (what the python side turns
// into a Coq term), its deterministic YAML rendering, and the check that yaml.v2 reads the rendering
// back as exactly this tree.
package main

import (
	"encoding/json"
	"fmt"
	"math"
	"sort"
	"strconv"
	"strings"
	"unicode/utf8"

	"gopkg.in/yaml.v2"
)

type Kind byte

const (
	KNull Kind = iota
	KBool
	KInt
	KFloat
	KStr
	KList
	KMap
)

// Y is one node of the tree.  Maps are ordered lists of entries and may hold duplicate keys (the YAML
// rendering repeats them; Effective() is what the decoder sees: the last occurrence wins).
type Y struct {
	K Kind
	B bool
	I int64
	F float64
	S string
	L []*Y
	M []Ent
}

type Ent struct{ K, V *Y }

func Null() *Y             { return &Y{K: KNull} }
func Bool(b bool) *Y       { return &Y{K: KBool, B: b} }
func Int(i int64) *Y       { return &Y{K: KInt, I: i} }
func Float(f float64) *Y   { return &Y{K: KFloat, F: f} }
func Str(s string) *Y      { return &Y{K: KStr, S: s} }
func List(xs ...*Y) *Y     { return &Y{K: KList, L: xs} }
func Map(es ...Ent) *Y     { return &Y{K: KMap, M: es} }
func E(k string, v *Y) Ent { return Ent{Str(k), v} }

func (y *Y) Clone() *Y {
	if y == nil {
		return nil
	}
	c := *y
	if y.L != nil {
		c.L = make([]*Y, len(y.L))
		for i, x := range y.L {
			c.L[i] = x.Clone()
		}
	}
	if y.M != nil {
		c.M = make([]Ent, len(y.M))
		for i, e := range y.M {
			c.M[i] = Ent{e.K.Clone(), e.V.Clone()}
		}
	}
	return &c
}

// Get returns the value of the last entry with the given string key (nil if absent / not a map).
func (y *Y) Get(k string) *Y {
	if y == nil || y.K != KMap {
		return nil
	}
	for i := len(y.M) - 1; i >= 0; i-- {
		if y.M[i].K.K == KStr && y.M[i].K.S == k {
			return y.M[i].V
		}
	}
	return nil
}

func (y *Y) Set(k string, v *Y) {
	for i := range y.M {
		if y.M[i].K.K == KStr && y.M[i].K.S == k {
			y.M[i].V = v
			return
		}
	}
	y.M = append(y.M, E(k, v))
}

func (y *Y) Del(k string) {
	var out []Ent
	for _, e := range y.M {
		if !(e.K.K == KStr && e.K.S == k) {
			out = append(out, e)
		}
	}
	y.M = out
}

// scalarKeyText: canonical text of a scalar key, used to identify duplicates the way a Go
// map[interface{}]interface{} does (same dynamic type and value).
func (y *Y) keyID() string {
	switch y.K {
	case KNull:
		return "n"
	case KBool:
		return fmt.Sprintf("b%v", y.B)
	case KInt:
		return fmt.Sprintf("i%d", y.I)
	case KFloat:
		if math.IsNaN(y.F) {
			return "" // NaN keys are never equal
		}
		return "f" + strconv.FormatFloat(y.F, 'g', -1, 64)
	case KStr:
		return "s" + y.S
	}
	return "" // collections are not valid keys (yaml.v2 rejects the document)
}

// Effective removes shadowed duplicate keys (the last occurrence wins, at the position of the last).
func (y *Y) Effective() *Y {
	switch y.K {
	case KList:
		out := &Y{K: KList, L: make([]*Y, len(y.L))}
		for i, x := range y.L {
			out.L[i] = x.Effective()
		}
		return out
	case KMap:
		out := &Y{K: KMap, M: []Ent{}}
		for i, e := range y.M {
			id := e.K.keyID()
			shadowed := false
			if id != "" {
				for j := i + 1; j < len(y.M); j++ {
					if y.M[j].K.keyID() == id {
						shadowed = true
						break
					}
				}
			}
			if !shadowed {
				out.M = append(out.M, Ent{e.K.Effective(), e.V.Effective()})
			}
		}
		return out
	}
	c := *y
	return &c
}

func floatRepr(f float64) string { return fmt.Sprintf("%v", f) }

func floatTrunc(f float64) int64 { return int64(f) } // what mapstructure's decodeInt does (int64(dataVal.Float()))

// MarshalJSON: null | true | {"i":"12"} | {"f":"1.5","k":"fin","t":"1"} | "str" | [..] | {"m":[[k,v],..]}
func (y *Y) MarshalJSON() ([]byte, error) {
	switch y.K {
	case KNull:
		return []byte("null"), nil
	case KBool:
		return json.Marshal(y.B)
	case KInt:
		return json.Marshal(map[string]string{"i": strconv.FormatInt(y.I, 10)})
	case KFloat:
		k := "fin"
		if math.IsNaN(y.F) {
			k = "nan"
		} else if math.IsInf(y.F, 0) {
			k = "inf"
		}
		return json.Marshal(map[string]string{"f": floatRepr(y.F), "k": k, "t": strconv.FormatInt(floatTrunc(y.F), 10),
			"x": strconv.FormatFloat(y.F, 'g', -1, 64)})
	case KStr:
		return jsonBytes(y.S), nil
	case KList:
		xs := y.L
		if xs == nil {
			xs = []*Y{}
		}
		return jsonNoEscape(xs)
	case KMap:
		ps := make([][2]*Y, len(y.M))
		for i, e := range y.M {
			ps[i] = [2]*Y{e.K, e.V}
		}
		return jsonNoEscape(map[string]any{"m": ps})
	}
	return nil, fmt.Errorf("bad kind")
}

func jsonNoEscape(v any) ([]byte, error) {
	var sb strings.Builder
	e := json.NewEncoder(&sb)
	e.SetEscapeHTML(false)
	if err := e.Encode(v); err != nil {
		return nil, err
	}
	return []byte(strings.TrimRight(sb.String(), "\n")), nil
}

// jsonBytes encodes a string (valid UTF-8 by construction of the generator).
func jsonBytes(s string) []byte {
	b, _ := jsonNoEscape(s)
	return b
}

func (y *Y) UnmarshalJSON(b []byte) error {
	var raw any
	d := json.NewDecoder(strings.NewReader(string(b)))
	d.UseNumber()
	if err := d.Decode(&raw); err != nil {
		return err
	}
	r, err := fromJSON(raw)
	if err != nil {
		return err
	}
	*y = *r
	return nil
}

func fromJSON(raw any) (*Y, error) {
	switch v := raw.(type) {
	case nil:
		return Null(), nil
	case bool:
		return Bool(v), nil
	case string:
		return Str(v), nil
	case []any:
		out := &Y{K: KList, L: []*Y{}}
		for _, x := range v {
			c, err := fromJSON(x)
			if err != nil {
				return nil, err
			}
			out.L = append(out.L, c)
		}
		return out, nil
	case map[string]any:
		if i, ok := v["i"]; ok {
			n, err := strconv.ParseInt(i.(string), 10, 64)
			return Int(n), err
		}
		if _, ok := v["f"]; ok {
			switch v["k"] {
			case "nan":
				return Float(math.NaN()), nil
			case "inf":
				if strings.HasPrefix(v["f"].(string), "-") {
					return Float(math.Inf(-1)), nil
				}
				return Float(math.Inf(1)), nil
			}
			f, err := strconv.ParseFloat(v["x"].(string), 64)
			return Float(f), err
		}
		if m, ok := v["m"]; ok {
			out := &Y{K: KMap, M: []Ent{}}
			for _, p := range m.([]any) {
				pp := p.([]any)
				k, err := fromJSON(pp[0])
				if err != nil {
					return nil, err
				}
				val, err := fromJSON(pp[1])
				if err != nil {
					return nil, err
				}
				out.M = append(out.M, Ent{k, val})
			}
			return out, nil
		}
	}
	return nil, fmt.Errorf("bad tree json: %v", raw)
}

// ---------------------------------------------------------------------------------------------
// YAML rendering: flow style on one line, strings always double-quoted.
// ---------------------------------------------------------------------------------------------

func yamlStr(s string) string {
	var sb strings.Builder
	sb.WriteByte('"')
	for _, r := range s {
		switch {
		case r == '"':
			sb.WriteString(`\"`)
		case r == '\\':
			sb.WriteString(`\\`)
		case r == '\n':
			sb.WriteString(`\n`)
		case r == '\t':
			sb.WriteString(`\t`)
		case r == '\r':
			sb.WriteString(`\r`)
		case r < 0x20 || r == 0x7f:
			fmt.Fprintf(&sb, `\x%02x`, r)
		case r == 0x85 || r == 0xa0 || r == 0x2028 || r == 0x2029 || r == 0xfeff:
			fmt.Fprintf(&sb, `\u%04x`, r)
		default:
			sb.WriteRune(r)
		}
	}
	sb.WriteByte('"')
	return sb.String()
}

func (y *Y) yaml(sb *strings.Builder) {
	switch y.K {
	case KNull:
		sb.WriteString("null")
	case KBool:
		if y.B {
			sb.WriteString("true")
		} else {
			sb.WriteString("false")
		}
	case KInt:
		sb.WriteString(strconv.FormatInt(y.I, 10))
	case KFloat:
		switch {
		case math.IsNaN(y.F):
			sb.WriteString(".nan")
		case math.IsInf(y.F, 1):
			sb.WriteString(".inf")
		case math.IsInf(y.F, -1):
			sb.WriteString("-.inf")
		default:
			s := strconv.FormatFloat(y.F, 'g', -1, 64)
			if !strings.ContainsAny(s, ".e") {
				s += ".0"
			}
			sb.WriteString(s)
		}
	case KStr:
		sb.WriteString(yamlStr(y.S))
	case KList:
		sb.WriteByte('[')
		for i, x := range y.L {
			if i > 0 {
				sb.WriteString(", ")
			}
			x.yaml(sb)
		}
		sb.WriteByte(']')
	case KMap:
		sb.WriteByte('{')
		for i, e := range y.M {
			if i > 0 {
				sb.WriteString(", ")
			}
			if e.K.K == KList || e.K.K == KMap {
				sb.WriteString("? ")
			}
			e.K.yaml(sb)
			sb.WriteString(": ")
			e.V.yaml(sb)
		}
		sb.WriteByte('}')
	}
}

// Render gives the document for a tree (the root null is the empty document's meaning; it is rendered
// as `null`).
func (y *Y) Render() string {
	var sb strings.Builder
	y.yaml(&sb)
	sb.WriteByte('\n')
	return sb.String()
}

// fromYAMLValue converts what yaml.v2 produced for an `interface{}` target back to a tree.
func fromYAMLValue(v any) (*Y, bool) {
	switch x := v.(type) {
	case nil:
		return Null(), true
	case bool:
		return Bool(x), true
	case int:
		return Int(int64(x)), true
	case int64:
		return Int(x), true
	case float64:
		return Float(x), true
	case string:
		return Str(x), true
	case []any:
		out := &Y{K: KList, L: []*Y{}}
		for _, e := range x {
			c, ok := fromYAMLValue(e)
			if !ok {
				return nil, false
			}
			out.L = append(out.L, c)
		}
		return out, true
	case map[any]any:
		out := &Y{K: KMap, M: []Ent{}}
		for k, e := range x {
			kk, ok := fromYAMLValue(k)
			if !ok {
				return nil, false
			}
			c, ok := fromYAMLValue(e)
			if !ok {
				return nil, false
			}
			out.M = append(out.M, Ent{kk, c})
		}
		return out, true
	}
	return nil, false
}

// canon: an order-insensitive text of a tree (map entries sorted), for comparing trees as Go values.
func (y *Y) canon() string {
	switch y.K {
	case KList:
		parts := make([]string, len(y.L))
		for i, x := range y.L {
			parts[i] = x.canon()
		}
		return "[" + strings.Join(parts, ",") + "]"
	case KMap:
		parts := make([]string, len(y.M))
		for i, e := range y.M {
			parts[i] = e.K.canon() + ":" + e.V.canon()
		}
		sort.Strings(parts)
		return "{" + strings.Join(parts, ",") + "}"
	case KFloat:
		return "f" + strconv.FormatFloat(y.F, 'g', -1, 64)
	case KStr:
		return strconv.Quote(y.S)
	}
	return y.keyID()
}

// HasCollectionKey: yaml.v2 rejects a document in which a mapping or sequence is used as a key of a
// generic map ("invalid map key").
func (y *Y) HasCollectionKey() bool {
	switch y.K {
	case KList:
		for _, x := range y.L {
			if x.HasCollectionKey() {
				return true
			}
		}
	case KMap:
		for _, e := range y.M {
			if e.K.K == KList || e.K.K == KMap || e.K.HasCollectionKey() || e.V.HasCollectionKey() {
				return true
			}
		}
	}
	return false
}

// RoundTrips: does yaml.v2 read Render() back as Effective()?  (Trees with collection keys cannot be
// read into interface{} at all; they are passed through - the loader must reject them.)
func (y *Y) RoundTrips(doc string) bool {
	if !utf8.ValidString(doc) {
		return false
	}
	if y.HasCollectionKey() {
		var v any
		return yaml.Unmarshal([]byte(doc), &v) != nil
	}
	var v any
	if err := yaml.Unmarshal([]byte(doc), &v); err != nil {
		return false
	}
	back, ok := fromYAMLValue(v)
	if !ok {
		return false
	}
	return back.canon() == y.Effective().canon()
}

// Strings collects every string of the tree (keys and values).
func (y *Y) Strings(acc map[string]bool) {
	switch y.K {
	case KStr:
		acc[y.S] = true
	case KList:
		for _, x := range y.L {
			x.Strings(acc)
		}
	case KMap:
		for _, e := range y.M {
			e.K.Strings(acc)
			e.V.Strings(acc)
		}
	}
}

func (y *Y) Size() int {
	n := 1
	for _, x := range y.L {
		n += x.Size()
	}
	for _, e := range y.M {
		n += e.K.Size() + e.V.Size()
	}
	return n
}

// ---------------------------------------------------------------------------------------------
// Inputs on which the implementation itself is not deterministic (Go map iteration order, mapstructure's
// case-insensitive key search) are not compared: they are dropped and counted.
// ---------------------------------------------------------------------------------------------

func foldEq(a, b string) bool { return strings.EqualFold(a, b) }

// mixedKeyMap: a mapping with >= 2 entries whose keys are neither all strings nor all ints (fmt prints
// maps with sorted keys; the order between kinds is not specified).
func (y *Y) mixedKeyMap() bool {
	switch y.K {
	case KList:
		for _, x := range y.L {
			if x.mixedKeyMap() {
				return true
			}
		}
	case KMap:
		if len(y.M) >= 2 {
			allS, allI := true, true
			for _, e := range y.M {
				if e.K.K != KStr {
					allS = false
				}
				if e.K.K != KInt {
					allI = false
				}
			}
			if !allS && !allI {
				return true
			}
		}
		for _, e := range y.M {
			if e.V.mixedKeyMap() {
				return true
			}
		}
	}
	return false
}

// foldDupKeys: some mapping has two different string keys that are equal under case folding.
func (y *Y) foldDupKeys() bool {
	switch y.K {
	case KList:
		for _, x := range y.L {
			if x.foldDupKeys() {
				return true
			}
		}
	case KMap:
		for i, a := range y.M {
			for j, b := range y.M {
				if i < j && a.K.K == KStr && b.K.K == KStr && a.K.S != b.K.S && foldEq(a.K.S, b.K.S) {
					return true
				}
			}
			if a.V.foldDupKeys() {
				return true
			}
		}
	}
	return false
}

func (y *Y) getFold(k string) *Y {
	if y == nil || y.K != KMap {
		return nil
	}
	for _, e := range y.M {
		if e.K.K == KStr && foldEq(e.K.S, k) {
			return e.V
		}
	}
	return nil
}

func hasSubst(y *Y) bool {
	acc := map[string]bool{}
	y.Strings(acc)
	for s := range acc {
		if strings.ContainsAny(s, "$`") {
			return true
		}
	}
	return false
}

// Ambiguous names the reason why the implementation's result on this tree depends on map iteration order
// ("" = it does not).
func (y *Y) Ambiguous() string {
	if y.foldDupKeys() {
		return "fold-dup-keys"
	}
	if y.K != KMap {
		return ""
	}
	stepCmds := func(st *Y) bool {
		if c := st.getFold("command"); c != nil && c.mixedKeyMap() {
			return true
		}
		return false
	}
	if e := y.getFold("env"); e != nil {
		if e.mixedKeyMap() {
			return "fmt-mixed-keys"
		}
		badKey := func(m *Y) bool {
			for _, e := range m.M {
				if e.K.K == KStr && (e.K.S == "" || strings.ContainsAny(e.K.S, "=\x00")) {
					return true
				}
			}
			return false
		}
		// (under evaluation the entries are exported one by one in map order, up to the first failure)
		multi := func(m *Y) bool { return m.K == KMap && len(m.M) >= 2 && (hasSubst(m) || badKey(m)) }
		if multi(e) {
			return "env-map-order"
		}
		if e.K == KList {
			for _, x := range e.L {
				if multi(x) {
					return "env-map-order"
				}
			}
		}
	}
	if t := y.getFold("tags"); t != nil && t.mixedKeyMap() {
		return "fmt-mixed-keys"
	}
	if ss := y.getFold("steps"); ss != nil && ss.K == KList {
		for _, st := range ss.L {
			if stepCmds(st) {
				return "fmt-mixed-keys"
			}
		}
	}
	if h := y.getFold("handlerOn"); h != nil && h.K == KMap {
		for _, e := range h.M {
			if stepCmds(e.V) {
				return "fmt-mixed-keys"
			}
		}
	}
	return ""
}

// rewrite replaces a substring in every string of the tree (keys and values).
func (y *Y) rewrite(old, new string) {
	switch y.K {
	case KStr:
		y.S = strings.ReplaceAll(y.S, old, new)
	case KList:
		for _, x := range y.L {
			x.rewrite(old, new)
		}
	case KMap:
		for _, e := range y.M {
			e.K.rewrite(old, new)
			e.V.rewrite(old, new)
		}
	}
}
