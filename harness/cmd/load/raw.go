// Raw-bytes stream (robustness testing in support of C13; no theorem speaks about the YAML library):
// random bytes, YAML-looking noise, truncated / line-damaged fixtures of /repo, deep nesting, alias bombs,
// tags.  The documents are run in a child process under a memory / time guard, because a stack overflow
// or an out-of-memory condition cannot be recovered in-process; a child that dies is a finding for the
// document it was working on.
package main

import (
	"bufio"
	"encoding/base64"
	"encoding/json"
	"fmt"
	"os"
	"os/exec"
	"path/filepath"
	"runtime"
	"sort"
	"strings"
	"sync/atomic"
	"time"

	"github.com/ErdemOzgen/blackdagger/verifh/vh"
	"gopkg.in/yaml.v2"
)

type RawRes struct {
	Cls string `json:"cls"` // ok | err | panic | crash | timeout | oom
	At  string `json:"at,omitempty"`
	Msg string `json:"msg,omitempty"`
}

type RawCase struct {
	Kind   string            `json:"kind"` // raw
	K      int               `json:"k"`
	Stream string            `json:"stream"`
	B64    string            `json:"b64"`
	Len    int               `json:"len"`
	Tree   *Y                `json:"tree,omitempty"` // for documents on which an entry point panicked: the tree yaml.v2 reads
	Res    map[string]RawRes `json:"res"`
}

func rawDocs(tier string, rng *vh.Rng) []RawCase {
	var docs []RawCase
	add := func(stream string, b []byte) {
		docs = append(docs, RawCase{Kind: "raw", Stream: stream, B64: base64.StdEncoding.EncodeToString(b), Len: len(b)})
	}
	thorough := tier == "thorough"
	mul := 1
	if thorough {
		mul = 10
	}
	g := rng.Fork(777)
	for i := 0; i < 150*mul; i++ {
		n := g.Below(200)
		b := make([]byte, n)
		for j := range b {
			b[j] = byte(g.Below(256))
		}
		add("random-bytes", b)
	}
	alpha := []string{":", "-", " ", "  ", "\n", "[", "]", "{", "}", "&a", "*a", "!", "!!str", "!!binary", "|", ">", "'", "\"", "%", "@", "`", ",", "#", "?",
		"name", "steps", "schedule", "env", "command", "executor", "config", "type", "start", "handlerOn", "exit", "preconditions", "functions",
		"~", "null", "1", "1.5", ".nan", "true", "<<", "---", "...", "\t", "\\", "é", "\x00", "\xff"}
	for i := 0; i < 300*mul; i++ {
		n := 1 + g.Below(40)
		var sb strings.Builder
		for j := 0; j < n; j++ {
			sb.WriteString(alpha[g.Below(len(alpha))])
		}
		add("yaml-noise", []byte(sb.String()))
	}
	// fixtures of the repository: truncated, with lines deleted / duplicated / indented
	repo := os.Getenv("VERIF_REPO")
	if repo == "" {
		repo = "/repo"
	}
	files, _ := filepath.Glob(filepath.Join(repo, "internal/dag/testdata/*.yaml"))
	more, _ := filepath.Glob(filepath.Join(repo, "examples/*.yaml"))
	files = append(files, more...)
	sort.Strings(files)
	for _, f := range files {
		b, err := os.ReadFile(f)
		if err != nil || len(b) > 20000 {
			continue
		}
		add("fixture", b)
		stepN := 1
		if !thorough {
			stepN = 1 + len(b)/12
		}
		for cut := g.Below(stepN); cut < len(b); cut += stepN {
			add("fixture-truncated", b[:cut])
		}
		lines := strings.Split(string(b), "\n")
		for i := 0; i < 4*mul && len(lines) > 1; i++ {
			ls := append([]string{}, lines...)
			j := g.Below(len(ls))
			switch g.Below(4) {
			case 0:
				ls = append(ls[:j], ls[j+1:]...)
			case 1:
				ls = append(ls[:j+1], ls[j:]...)
			case 2:
				ls[j] = "  " + ls[j]
			default:
				ls[j] = strings.TrimLeft(ls[j], " ")
			}
			add("fixture-lines", []byte(strings.Join(ls, "\n")))
		}
	}
	// deep nesting
	depths := []int{10, 100, 1000, 9000, 20000}
	if thorough {
		depths = append(depths, 100000, 1000000)
	}
	for _, n := range depths {
		add("deep", []byte(strings.Repeat("[", n)))
		add("deep", []byte(strings.Repeat("[", n)+strings.Repeat("]", n)))
		add("deep", []byte("steps: "+strings.Repeat("[", n)+strings.Repeat("]", n)))
		add("deep", []byte("env: "+strings.Repeat("{a: ", n)+"1"+strings.Repeat("}", n)))
		add("deep", []byte("tags: "+strings.Repeat("{a: ", n)))
		var sb strings.Builder
		for i := 0; i < n && i < 3000; i++ {
			sb.WriteString(strings.Repeat(" ", i) + "a:\n")
		}
		add("deep", []byte(sb.String()))
		sb.Reset()
		sb.WriteString("steps:\n")
		for i := 0; i < n && i < 3000; i++ {
			sb.WriteString(strings.Repeat(" ", i) + "- \n")
		}
		add("deep", []byte(sb.String()))
	}
	// alias bombs and cycles
	bomb := func(levels, width int, field string) []byte {
		var sb strings.Builder
		sb.WriteString("a0: &a0 [x,x,x,x,x,x,x,x,x]\n")
		for i := 1; i < levels; i++ {
			fmt.Fprintf(&sb, "a%d: &a%d [", i, i)
			for j := 0; j < width; j++ {
				if j > 0 {
					sb.WriteString(",")
				}
				fmt.Fprintf(&sb, "*a%d", i-1)
			}
			sb.WriteString("]\n")
		}
		fmt.Fprintf(&sb, "%s: *a%d\n", field, levels-1)
		return []byte(sb.String())
	}
	for _, lv := range []int{3, 6, 9, 12} {
		for _, fld := range []string{"tags", "env", "schedule", "zzz"} {
			add("alias-bomb", bomb(lv, 9, fld))
		}
	}
	for _, s := range []string{
		"env: &a [*a]\n", "tags: &a {k: *a}\n", "x: &a\n  <<: *a\n", "steps: &s\n  - name: a\n    command: echo\n    depends: *s\n",
		"base: &b {name: x}\n<<: *b\n", "<<: {name: x}\nsteps: []\n", "<<: [{name: x}, {group: y}]\n", "<<: 1\n", "*a\n", "&a *a\n",
		"name: !!binary aGk=\n", "name: !!python/object:os.system x\n", "tags: !!set {a, b}\n", "tags: !!omap [a: 1]\n", "timeoutSec: !!float 1\n",
		"timeoutSec: 0x10\n", "timeoutSec: 0o17\n", "timeoutSec: 1_000\n", "timeoutSec: 99999999999999999999\n", "timeoutSec: -9223372036854775808\n",
		"timeoutSec: 18446744073709551615\n", "timeoutSec: 1e400\n", "histRetentionDays: .inf\n", "maxActiveRuns: -.inf\n",
		"schedule: 2001-12-14t21:59:43.10-05:00\n", "tags: [2001-12-14]\n", "env: {D: 2001-12-14}\n", "steps:\n  - name: a\n    command: [echo, 2001-12-14 21:59:43]\n",
		"steps:\n  - name: a\n    executor: {type: http, config: {when: 2001-12-14}}\n",
		"--- \nname: a\n--- \nname: b\n", "---\n...\n---\n", "\ufeffname: a\n", "name: a\r\nsteps: []\r\n", "name:\ta\n", "\tname: a\n", "%YAML 1.1\n---\nname: a\n", "%YAML 9.9\n---\nname: a\n",
		"? [a, b]\n: c\n", "? {a: b}\n: c\n", "env:\n  ? [a]\n  : c\n", "steps:\n  - name: a\n    command: echo\n    ? [k]\n    : v\n",
		"name: \"\\x00\"\n", "name: \"\\ud800\"\n", "name: 'a\x00b'\n", "params: \"\\0\"\n", "env: {\"A\\0B\": x}\n", "env: {\"\": x}\n", "env: {\"A=B\": x}\n",
		strings.Repeat("a", 1<<16) + ": 1\n", "name: " + strings.Repeat("a", 1<<20) + "\n", "params: " + strings.Repeat("p ", 20000) + "\n",
		"tags: " + strings.Repeat("t,", 50000) + "\n", "steps:\n" + strings.Repeat("  - name: a\n    command: echo\n", 3000),
	} {
		add("special", []byte(s))
	}
	for i := range docs {
		docs[i].K = i
	}
	return docs
}

// rawStream: runs the documents through child processes and emits one case per document.
func rawStream(out *vh.Out, tier, outPath string, rng *vh.Rng) {
	docs := rawDocs(tier, rng)
	for _, r := range runRawBatch(docs, filepath.Dir(outPath)) {
		out.Put(r)
	}
}

func runRawBatch(docs []RawCase, dir string) []RawCase {
	self, err := os.Executable()
	if err != nil {
		panic(err)
	}
	// a PATH holding only harmless programs: documents of this stream are not under the generator's control
	safe := filepath.Join(dir, "load-safebin")
	os.RemoveAll(safe)
	os.MkdirAll(safe, 0o755)
	defer os.RemoveAll(safe)
	for _, p := range []string{"echo", "true", "false", "date", "printf"} {
		if full, err := exec.LookPath(p); err == nil {
			os.Symlink(full, filepath.Join(safe, p))
		}
	}
	res := make([]RawCase, 0, len(docs))
	start := 0
	for start < len(docs) {
		in := filepath.Join(dir, "load-raw-in.jsonl")
		outp := filepath.Join(dir, "load-raw-out.jsonl")
		f, _ := os.Create(in)
		w := bufio.NewWriter(f)
		enc := json.NewEncoder(w)
		for _, d := range docs[start:] {
			enc.Encode(d)
		}
		w.Flush()
		f.Close()
		os.Remove(outp)
		cmd := exec.Command(self, outp, "rawchild", in)
		cmd.Env = []string{"PATH=" + safe, "HOME=" + dir, "TZ=UTC", "VQ_BASE=/vqbase", "GOMEMLIMIT=3GiB"}
		cmd.Dir = dir
		outb, cerr := cmd.CombinedOutput()
		done := readRawOut(outp)
		res = append(res, done...)
		os.Remove(in)
		os.Remove(outp)
		if cerr == nil && len(done) == len(docs)-start {
			break
		}
		// the child died while working on document start+len(done)
		idx := start + len(done)
		if idx >= len(docs) {
			break
		}
		bad := docs[idx]
		cls := "crash"
		tail := string(outb)
		if len(tail) > 600 {
			tail = tail[:300] + " ... " + tail[len(tail)-300:]
		}
		if strings.Contains(string(outb), "VERIF-TIMEOUT") {
			cls = "timeout"
		} else if strings.Contains(string(outb), "VERIF-OOM") {
			cls = "oom"
		}
		bad.Res = map[string]RawRes{"child": {Cls: cls, Msg: tail}}
		res = append(res, bad)
		start = idx + 1
	}
	return res
}

func readRawOut(p string) []RawCase {
	f, err := os.Open(p)
	if err != nil {
		return nil
	}
	defer f.Close()
	var out []RawCase
	sc := bufio.NewScanner(f)
	sc.Buffer(make([]byte, 1<<20), 1<<28)
	for sc.Scan() {
		var c RawCase
		if json.Unmarshal(sc.Bytes(), &c) == nil && c.Kind == "raw" {
			out = append(out, c)
		}
	}
	return out
}

// rawChild: runs in the child process.
func rawChild(outPath, inPath string) {
	dir := filepath.Join(filepath.Dir(outPath), "load-raw-scratch")
	os.RemoveAll(dir)
	os.MkdirAll(dir, 0o755)
	defer os.RemoveAll(dir)
	in, err := os.Open(inPath)
	if err != nil {
		panic(err)
	}
	defer in.Close()
	outf, err := os.Create(outPath)
	if err != nil {
		panic(err)
	}
	defer outf.Close()
	// guards
	var startedAt atomic.Int64
	startedAt.Store(time.Now().UnixNano())
	go func() {
		for {
			time.Sleep(100 * time.Millisecond)
			since := time.Unix(0, startedAt.Load())
			var ms runtime.MemStats
			runtime.ReadMemStats(&ms)
			if ms.HeapAlloc > 2<<30 {
				fmt.Println("VERIF-OOM")
				os.Exit(3)
			}
			if time.Since(since) > 20*time.Second {
				fmt.Println("VERIF-TIMEOUT")
				os.Exit(4)
			}
		}
	}()
	sc := bufio.NewScanner(in)
	sc.Buffer(make([]byte, 1<<20), 1<<28)
	enc := json.NewEncoder(outf)
	for sc.Scan() {
		var c RawCase
		if err := json.Unmarshal(sc.Bytes(), &c); err != nil {
			continue
		}
		startedAt.Store(time.Now().UnixNano())
		doc, _ := base64.StdEncoding.DecodeString(c.B64)
		file := filepath.Join(dir, caseFile+".yaml")
		os.WriteFile(file, doc, 0o644)
		c.Res = map[string]RawRes{}
		put := func(name string, r Res) {
			c.Res[name] = RawRes{Cls: r.Cls, At: r.At, Msg: r.Msg}
		}
		put("yaml", runYAML(doc, false))
		put("meta", runMeta(file))
		put("noeval", runNoEval(file))
		put("load", runLoad(file, ""))
		for _, r := range c.Res {
			if r.Cls == "panic" {
				var v any
				if yaml.Unmarshal(doc, &v) == nil {
					if t, ok := fromYAMLValue(v); ok && t.Size() < 5000 {
						c.Tree = t
					}
				}
				break
			}
		}
		enc.Encode(c)
	}
}
