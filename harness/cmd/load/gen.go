// Generator of definition TREES: a grammar of valid definitions, then mutations (type confusion, deletion,
// duplication, nesting, nulls, key damage), plus systematic streams (nulls in every pointer / slice
// position, every `any` field over small untyped trees of depth <= 3).
package main

import (
	"math"

	"github.com/ErdemOzgen/blackdagger/verifh/vh"
)

type G struct {
	r       *vh.Rng
	scratch string // directory commands may touch
}

func (g *G) pick(xs []string) string { return xs[g.r.Below(len(xs))] }

var cronGood = []string{"* * * * *", "0 1 * * *", "*/5 * * * 1-5", "0 0 1 1 *", "15,45 8-18 * * mon-fri", "TZ=UTC 0 1 * * *", "CRON_TZ=Asia/Tokyo 30 4 * * *", "0 0 30 2 *"}
var cronBad = []string{"", "x", "* * * *", "60 * * * *", "@daily", "@every 1h", "* * * * * *", "TZ=UTC", "CRON_TZ=UTC", "TZ=Nowhere/City 0 1 * * *", "TZ=", "1-0 * * * *", "*/0 * * * *"}
var sigGood = []string{"SIGTERM", "SIGINT", "SIGKILL", "SIGUSR1", "SIGHUP"}
var sigBad = []string{"", "TERM", "sigterm", "SIGFOO", "15", "SIGTERM ", "sigint", "SigTerm", "Sigkill", "sigKILL", "SIGint", "sighup", " SIGTERM"}
var texts = []string{"", "a", "hello world", "x=y", "$VQ_A", "${VQ_B}/x", "`echo hi`", "pre `echo one` mid `echo two`", "re:^a.*$", "re:[", "re:(", "re:", "ünï-✓", "a\nb", "  pad  ", "1", "true", "null", "~", "$", "${", "${}", "a$", "`", "``", "`echo", "\"q\"", "'s'", "k: v", "#c", "[x]", "{y}", "$1", "${VQ_UNSET}"}
var cmds = []string{"echo hi", "true", "echo $VQ_A", "sh -c 'echo 1'", "echo `echo in`", "false", "ls -l /", "echo", " echo", "echo  two  spaces"}
var etypes = []string{"", "command", "http", "docker", "ssh", "mail", "jq", "subworkflow", "nosuch"}
var condExpr = []string{"`echo 1`", "$VQ_A", "`echo hi`", "x", "", "`false`", "`echo`", "${VQ_UNSET}"}
var condExp = []string{"1", "hi", "x", "", "re:^[0-9]+$", "re:h.", "re:[", "re:*", "re:(?P<n", "va", "re:"}

func (g *G) text() *Y { return Str(g.pick(texts)) }

func (g *G) cron() *Y {
	if g.r.Chance(1, 6) {
		return Str(g.pick(cronBad))
	}
	return Str(g.pick(cronGood))
}

func (g *G) cronVal() *Y {
	switch g.r.Below(3) {
	case 0:
		return g.cron()
	default:
		n := g.r.Below(3)
		l := List()
		for i := 0; i < n; i++ {
			l.L = append(l.L, g.cron())
		}
		return l
	}
}

func (g *G) schedule() *Y {
	switch g.r.Below(4) {
	case 0:
		return g.cron()
	case 1:
		return g.cronVal()
	default:
		m := Map()
		for _, k := range []string{"start", "stop", "restart"} {
			if g.r.Chance(1, 2) {
				m.M = append(m.M, E(k, g.cronVal()))
			}
		}
		if g.r.Chance(1, 8) {
			m.M = append(m.M, E(g.pick([]string{"foo", "Start", "begin", ""}), g.cronVal()))
		}
		return m
	}
}

var envKeys = []string{"VQ_A", "VQ_B", "VQ_C", "VQ_D"}

func (g *G) envVal() *Y {
	switch g.r.Below(8) {
	case 0:
		return Int(int64(g.r.Below(100)))
	case 1:
		return Str("`echo " + g.pick([]string{"one", "two", "x y"}) + "`")
	case 2:
		return Str("$VQ_BASE/sub")
	case 3:
		return Bool(true)
	default:
		return Str(g.pick([]string{"v1", "v 2", "", "a=b", "/tmp/x"}))
	}
}

func (g *G) env() *Y {
	n := g.r.Below(4)
	if g.r.Bool() {
		m := Map()
		used := map[string]bool{}
		for i := 0; i < n; i++ {
			k := g.pick(envKeys)
			if used[k] {
				continue
			}
			used[k] = true
			m.M = append(m.M, E(k, g.envVal()))
		}
		return m
	}
	l := List()
	for i := 0; i < n; i++ {
		l.L = append(l.L, Map(E(g.pick(envKeys), g.envVal())))
	}
	return l
}

func (g *G) cond() *Y {
	return Map(E("condition", Str(g.pick(condExpr))), E("expected", Str(g.pick(condExp))))
}

func (g *G) conds() *Y {
	l := List()
	for i, n := 0, 1+g.r.Below(2); i < n; i++ {
		l.L = append(l.L, g.cond())
	}
	return l
}

func (g *G) execCfgVal(depth int) *Y {
	if depth <= 0 {
		return g.atom()
	}
	switch g.r.Below(6) {
	case 0:
		l := List()
		for i, n := 0, g.r.Below(3); i < n; i++ {
			l.L = append(l.L, g.execCfgVal(depth-1))
		}
		return l
	case 1:
		m := Map()
		for i, n := 0, g.r.Below(3); i < n; i++ {
			m.M = append(m.M, E(g.pick([]string{"k", "url", "headers", "x"}), g.execCfgVal(depth-1)))
		}
		return m
	default:
		return g.atom()
	}
}

func (g *G) executor() *Y {
	switch g.r.Below(5) {
	case 0:
		return Str(g.pick(etypes))
	case 1:
		return Map(E("type", Str(g.pick(etypes))))
	default:
		cfg := Map()
		for i, n := 0, g.r.Below(4); i < n; i++ {
			cfg.M = append(cfg.M, E(g.pick([]string{"timeout", "headers", "query", "silent", "image", "body"}), g.execCfgVal(2)))
		}
		m := Map(E("type", Str(g.pick(etypes))), E("config", cfg))
		return m
	}
}

func (g *G) command() *Y {
	switch g.r.Below(6) {
	case 0:
		l := List(Str("echo"))
		for i, n := 0, g.r.Below(3); i < n; i++ {
			l.L = append(l.L, g.atom())
		}
		return l
	case 1:
		return g.pickY([]*Y{List(), List(Str("")), Str(""), List(Str(""), Str("echo"), Str("x"))})
	default:
		return Str(g.pick(cmds))
	}
}

func (g *G) pickY(xs []*Y) *Y { return xs[g.r.Below(len(xs))].Clone() }

func (g *G) atom() *Y {
	switch g.r.Below(9) {
	case 0:
		return Null()
	case 1:
		return Bool(g.r.Bool())
	case 2:
		return Int(int64(g.r.Below(2000)) - 1000)
	case 3:
		return g.pickY([]*Y{Float(1.5), Float(-0.25), Float(1e21), Float(100), Float(math.NaN()), Float(math.Inf(1)), Float(math.Inf(-1)), Float(1e-7)})
	default:
		return g.text()
	}
}

// anyTree: a random untyped tree of the given depth over a small alphabet (keys include the words the
// hand-written type switches look for, non-string keys and unknown words).
func (g *G) anyTree(depth int) *Y {
	if depth <= 0 || g.r.Chance(2, 5) {
		if g.r.Chance(1, 3) {
			return g.pickY([]*Y{g.cron(), Str("echo"), Str("http"), Str("SIGTERM")})
		}
		return g.atom()
	}
	if g.r.Bool() {
		l := List()
		for i, n := 0, g.r.Below(4); i < n; i++ {
			l.L = append(l.L, g.anyTree(depth-1))
		}
		return l
	}
	m := Map()
	for i, n := 0, g.r.Below(4); i < n; i++ {
		var k *Y
		switch g.r.Below(8) {
		case 0:
			k = Int(int64(g.r.Below(3)))
		case 1:
			k = g.pickY([]*Y{Null(), Bool(true), Float(1.5)})
		default:
			k = Str(g.pick([]string{"start", "stop", "restart", "type", "config", "foo", "x", "VQ_A", "", "Start", "name", "url"}))
		}
		m.M = append(m.M, Ent{k, g.anyTree(depth - 1)})
	}
	return m
}

func (g *G) funcs() (*Y, []string, []string) {
	l := List()
	var names, params []string
	for i, n := 0, 1+g.r.Below(2); i < n; i++ {
		name := g.pick([]string{"f", "g", "h"})
		var p, c string
		switch g.r.Below(5) {
		case 0:
			p, c = "x", "echo $x"
		case 1:
			p, c = "a b", "echo $a $b"
		case 2:
			p, c = "x", "$x" // nothing but the parameter
		case 3:
			p, c = "x y", "echo $x" // mismatch
		default:
			p, c = "msg", "echo $msg done"
		}
		l.L = append(l.L, Map(E("name", Str(name)), E("params", Str(p)), E("command", Str(c))))
		names = append(names, name)
		params = append(params, p)
	}
	return l, names, params
}

func splitSp(s string) []string {
	var out []string
	cur := ""
	for _, c := range s {
		if c == ' ' {
			out = append(out, cur)
			cur = ""
		} else {
			cur += string(c)
		}
	}
	return append(out, cur)
}

func (g *G) step(name string, fnames, fparams []string, prev []string) *Y {
	s := Map(E("name", Str(name)))
	kind := g.r.Below(10)
	switch {
	case kind < 5:
		s.M = append(s.M, E("command", g.command()))
	case kind < 7:
		s.M = append(s.M, E("executor", g.executor()))
		if g.r.Bool() {
			s.M = append(s.M, E("command", g.command()))
		}
	case kind < 8:
		s.M = append(s.M, E("run", Str(g.pick([]string{"sub", "sub.yaml", ""}))), E("params", Str(g.pick([]string{"", "A=1", "x y"}))))
	case kind < 9 && len(fnames) > 0:
		i := g.r.Below(len(fnames))
		args := Map()
		for _, p := range splitSp(fparams[i]) {
			if g.r.Chance(7, 8) {
				args.M = append(args.M, E(p, g.pickY([]*Y{Str("v"), Int(3), Str(""), Str("two words"), Float(1.5), Null()})))
			}
		}
		fn := fnames[i]
		if g.r.Chance(1, 8) {
			fn = "nosuch"
		}
		s.M = append(s.M, E("call", Map(E("function", Str(fn)), E("args", args))))
	default:
		s.M = append(s.M, E("script", Str("echo from script\n")))
		if g.r.Bool() {
			s.M = append(s.M, E("command", Str("sh")))
		}
	}
	opt := func(p int, k string, f func() *Y) {
		if g.r.Chance(1, p) {
			s.M = append(s.M, E(k, f()))
		}
	}
	opt(4, "description", g.text)
	opt(6, "dir", func() *Y { return Str(g.pick([]string{"/tmp", "$VQ_A", "`echo /tmp`", ""})) })
	opt(6, "stdout", func() *Y { return Str(g.pick([]string{"/tmp/o", "`echo /tmp/o`", "$VQ_A"})) })
	opt(8, "stderr", func() *Y { return Str("/tmp/e") })
	opt(6, "output", func() *Y { return Str(g.pick([]string{"OUT", "VQ_OUT", ""})) })
	if len(prev) > 0 && g.r.Chance(1, 2) {
		d := List()
		for i, n := 0, 1+g.r.Below(2); i < n; i++ {
			d.L = append(d.L, Str(g.pick(prev)))
		}
		s.M = append(s.M, E("depends", d))
	}
	opt(6, "continueOn", func() *Y { return Map(E("failure", Bool(g.r.Bool())), E("skipped", Bool(g.r.Bool()))) })
	opt(6, "retryPolicy", func() *Y {
		return Map(E("limit", Int(int64(g.r.Below(4)))), E("intervalSec", Int(int64(g.r.Below(10)))))
	})
	opt(6, "repeatPolicy", func() *Y { return Map(E("repeat", Bool(g.r.Bool())), E("intervalSec", Int(int64(g.r.Below(10))))) })
	opt(8, "mailOnError", func() *Y { return Bool(g.r.Bool()) })
	opt(4, "preconditions", g.conds)
	opt(4, "signalOnStop", func() *Y {
		if g.r.Chance(1, 4) {
			return Str(g.pick(sigBad))
		}
		return Str(g.pick(sigGood))
	})
	return s
}

func (g *G) mail() *Y {
	return Map(E("from", Str("a@x")), E("to", Str("b@x")), E("prefix", g.text()), E("attachLogs", Bool(g.r.Bool())))
}

// validDef: a definition from the grammar (mostly accepted; invalid cron strings, signal names, bad
// regular expressions and empty commands appear with small probability).
func (g *G) validDef() *Y {
	d := Map()
	opt := func(p int, k string, f func() *Y) {
		if g.r.Chance(1, p) {
			d.M = append(d.M, E(k, f()))
		}
	}
	opt(2, "name", func() *Y { return Str(g.pick([]string{"wf", "my dag", "a/b", ""})) })
	opt(4, "group", g.text)
	opt(4, "description", g.text)
	opt(2, "schedule", g.schedule)
	opt(5, "logDir", func() *Y {
		return Str(g.pick([]string{"/tmp/logs", "$VQ_BASE/logs", "${VQ_UNSET}", "`echo /tmp/l`", ""}))
	})
	opt(2, "env", g.env)
	opt(2, "params", func() *Y {
		return Str(g.pick([]string{"a b", "X=1 Y=2", "\"q r\" s", "P=`echo p`", "`echo q`", "", "x=\"a b\" y", "$VQ_A", "N=\"`echo n`\"", "a= b", "\"a=b\"", "=x"}))
	})
	opt(3, "tags", func() *Y {
		if g.r.Bool() {
			return Str(g.pick([]string{"a,b", " X , y ", "", ",", "daily"}))
		}
		return List(Str("T1"), g.atom())
	})
	var fnames, fparams []string
	if g.r.Chance(1, 3) {
		var f *Y
		f, fnames, fparams = g.funcs()
		d.M = append(d.M, E("functions", f))
	}
	steps := List()
	var prev []string
	for i, n := 0, g.r.Below(4); i < n; i++ {
		name := g.pick([]string{"s1", "s2", "s3", "step four", ""})
		steps.L = append(steps.L, g.step(name, fnames, fparams, prev))
		prev = append(prev, name)
	}
	d.M = append(d.M, E("steps", steps))
	if g.r.Chance(1, 3) {
		h := Map()
		for _, k := range []string{"exit", "success", "failure", "cancel"} {
			if g.r.Chance(1, 2) {
				st := g.step("h", fnames, fparams, nil)
				if g.r.Bool() {
					st.Del("name")
				}
				h.M = append(h.M, E(k, st))
			}
		}
		d.M = append(d.M, E("handlerOn", h))
	}
	opt(6, "smtp", func() *Y {
		return Map(E("host", Str("$VQ_A")), E("port", Str("25")), E("username", g.text()), E("password", g.text()))
	})
	opt(6, "mailOn", func() *Y { return Map(E("failure", Bool(g.r.Bool())), E("success", Bool(g.r.Bool()))) })
	opt(8, "errorMail", g.mail)
	opt(8, "infoMail", g.mail)
	opt(6, "timeoutSec", func() *Y { return Int(int64(g.r.Below(100))) })
	opt(8, "delaySec", func() *Y { return Int(int64(g.r.Below(10))) })
	opt(8, "restartWaitSec", func() *Y { return g.pickY([]*Y{Int(3), Float(2.7)}) })
	opt(6, "histRetentionDays", func() *Y { return Int(int64(g.r.Below(60))) })
	opt(4, "preconditions", g.conds)
	opt(6, "maxActiveRuns", func() *Y { return Int(int64(g.r.Below(5))) })
	opt(8, "maxCleanUpTimeSec", func() *Y { return Int(int64(g.r.Below(100))) })
	return d
}

// ---------------------------------------------------------------------------------------------
// Mutations
// ---------------------------------------------------------------------------------------------

// slot is a position in a tree: a list element or the value of a map entry.
type slot struct {
	parent *Y
	idx    int
}

func (s slot) get() *Y {
	if s.parent.K == KList {
		return s.parent.L[s.idx]
	}
	return s.parent.M[s.idx].V
}
func (s slot) set(v *Y) {
	if s.parent.K == KList {
		s.parent.L[s.idx] = v
	} else {
		s.parent.M[s.idx].V = v
	}
}

func slots(y *Y, acc *[]slot) {
	switch y.K {
	case KList:
		for i, x := range y.L {
			*acc = append(*acc, slot{y, i})
			slots(x, acc)
		}
	case KMap:
		for i, e := range y.M {
			*acc = append(*acc, slot{y, i})
			slots(e.V, acc)
		}
	}
}

var mutKinds = []string{"confuse", "delete", "dup", "nest", "null", "key", "swap", "any"}

// mutate applies one mutation in place and names it.
func (g *G) mutate(root *Y) string {
	var ss []slot
	slots(root, &ss)
	if len(ss) == 0 {
		return "none"
	}
	s := ss[g.r.Below(len(ss))]
	kind := mutKinds[g.r.Below(len(mutKinds))]
	switch kind {
	case "confuse":
		old := s.get()
		for tries := 0; tries < 8; tries++ {
			n := g.anyTree(2)
			if n.K != old.K {
				s.set(n)
				break
			}
		}
	case "delete":
		if s.parent.K == KList {
			s.parent.L = append(s.parent.L[:s.idx:s.idx], s.parent.L[s.idx+1:]...)
		} else {
			s.parent.M = append(s.parent.M[:s.idx:s.idx], s.parent.M[s.idx+1:]...)
		}
	case "dup":
		if s.parent.K == KList {
			s.parent.L = append(s.parent.L, s.get().Clone())
		} else {
			e := s.parent.M[s.idx]
			v := e.V.Clone()
			if g.r.Bool() {
				v = g.anyTree(1)
			}
			s.parent.M = append(s.parent.M, Ent{e.K.Clone(), v})
		}
	case "nest":
		old := s.get()
		switch g.r.Below(4) {
		case 0:
			s.set(List(old))
		case 1:
			s.set(Map(E(g.pick([]string{"x", "start", "type", "config", "name"}), old)))
		case 2:
			s.set(List(List(old)))
		default:
			s.set(Map(E("config", Map(E("x", List(Map(E("a", old))))))))
		}
	case "null":
		s.set(Null())
	case "key":
		if s.parent.K != KMap {
			s.set(Null())
			return "null"
		}
		e := &s.parent.M[s.idx]
		switch g.r.Below(6) {
		case 0:
			e.K = Str("foo")
		case 1:
			if e.K.K == KStr {
				e.K = Str(upper(e.K.S))
			}
		case 2:
			e.K = Int(1)
		case 3:
			e.K = Null()
		case 4:
			e.K = Bool(true)
		default:
			if e.K.K == KStr {
				e.K = Str(e.K.S + "s")
			}
		}
	case "swap":
		t := ss[g.r.Below(len(ss))]
		a, b := s.get().Clone(), t.get().Clone()
		s.set(b)
		t.set(a)
	case "any":
		s.set(g.anyTree(3))
	}
	return kind
}

func upper(s string) string {
	b := []byte(s)
	for i, c := range b {
		if 'a' <= c && c <= 'z' {
			b[i] = c - 32
		}
	}
	return string(b)
}

// ---------------------------------------------------------------------------------------------
// Systematic streams
// ---------------------------------------------------------------------------------------------

func baseDef() *Y {
	return Map(
		E("name", Str("wf")),
		E("schedule", Map(E("start", Str("0 1 * * *")), E("stop", List(Str("0 2 * * *"))))),
		E("env", List(Map(E("VQ_A", Str("v1"))))),
		E("params", Str("p1 K=v")),
		E("tags", Str("a,b")),
		E("logDir", Str("/tmp/logs")),
		E("functions", List(Map(E("name", Str("f")), E("params", Str("x")), E("command", Str("echo $x"))))),
		E("preconditions", List(Map(E("condition", Str("`echo 1`")), E("expected", Str("1"))))),
		E("steps", List(
			Map(E("name", Str("s1")), E("command", Str("echo hi")), E("description", Str("d")), E("dir", Str("/tmp")),
				E("script", Str("")), E("stdout", Str("/tmp/o")), E("stderr", Str("/tmp/e")), E("output", Str("OUT")),
				E("depends", List()), E("continueOn", Map(E("failure", Bool(true)))), E("retryPolicy", Map(E("limit", Int(1)))),
				E("repeatPolicy", Map(E("repeat", Bool(false)))), E("mailOnError", Bool(false)),
				E("preconditions", List(Map(E("condition", Str("x")), E("expected", Str("x"))))),
				E("signalOnStop", Str("SIGTERM")), E("env", Str(""))),
			Map(E("name", Str("s2")), E("executor", Map(E("type", Str("http")), E("config", Map(E("timeout", Int(5)))))), E("command", Str("GET http://x")), E("depends", List(Str("s1")))),
			Map(E("name", Str("s3")), E("call", Map(E("function", Str("f")), E("args", Map(E("x", Str("v"))))))),
			Map(E("name", Str("s4")), E("run", Str("sub")), E("params", Str("A=1"))),
		)),
		E("handlerOn", Map(
			E("exit", Map(E("command", Str("echo bye")))),
			E("success", Map(E("command", Str("echo ok")))),
			E("failure", Map(E("command", Str("echo ko")))),
			E("cancel", Map(E("command", Str("echo ca")))))),
		E("smtp", Map(E("host", Str("h")), E("port", Str("25")), E("username", Str("u")), E("password", Str("p")))),
		E("mailOn", Map(E("failure", Bool(true)), E("success", Bool(false)))),
		E("errorMail", Map(E("from", Str("a")), E("to", Str("b")), E("prefix", Str("p")), E("attachLogs", Bool(true)))),
		E("infoMail", Map(E("from", Str("a")), E("to", Str("b")))),
		E("timeoutSec", Int(10)), E("delaySec", Int(1)), E("restartWaitSec", Int(2)), E("histRetentionDays", Int(7)),
		E("maxActiveRuns", Int(2)), E("maxCleanUpTimeSec", Int(30)),
		E("group", Str("g")), E("description", Str("d")),
	)
}

// everySlot: for every position of the base definition, the value replaced by each of the given values
// (nulls in every pointer / slice / scalar position; lists with a null element; scalar kinds).
func everySlot(emit func(stream string, t *Y)) {
	base := baseDef()
	var ss []slot
	slots(base, &ss)
	repl := []*Y{Null(), List(Null()), List(), Map(), Str(""), Int(0), Bool(true), Float(math.NaN()), Map(Ent{Int(1), Str("x")}), List(Map())}
	for i := range ss {
		for _, rv := range repl {
			t := base.Clone()
			var ts []slot
			slots(t, &ts)
			ts[i].set(rv.Clone())
			emit("slot", t)
		}
	}
	// every list of the base definition with a null element added in front / at the end
	for i := range ss {
		if ss[i].get().K == KList {
			for _, front := range []bool{true, false} {
				t := base.Clone()
				var ts []slot
				slots(t, &ts)
				l := ts[i].get()
				if front {
					l.L = append([]*Y{Null()}, l.L...)
				} else {
					l.L = append(l.L, Null())
				}
				emit("slot", t)
			}
		}
	}
}

// smallTrees enumerates untyped trees of depth <= d over a small alphabet, keyed for the given field.
func smallTrees(atoms []*Y, keys []*Y, d int) []*Y {
	cur := append([]*Y{}, atoms...)
	all := append([]*Y{}, atoms...)
	for depth := 1; depth <= d; depth++ {
		var next []*Y
		next = append(next, List(), Map())
		for _, a := range cur {
			next = append(next, List(a.Clone()))
			for _, k := range keys {
				next = append(next, Map(Ent{k.Clone(), a.Clone()}))
			}
		}
		// pairs (only at the first level, to keep the count bounded)
		if depth == 1 {
			for _, a := range cur {
				for _, b := range cur {
					next = append(next, List(a.Clone(), b.Clone()))
				}
			}
			for i, k1 := range keys {
				for j, k2 := range keys {
					if i < j {
						next = append(next, Map(Ent{k1.Clone(), cur[(i+j)%len(cur)].Clone()}, Ent{k2.Clone(), cur[(i*j+1)%len(cur)].Clone()}))
					}
				}
			}
		}
		all = append(all, next...)
		cur = next
	}
	return all
}

type anyField struct {
	name  string
	put   func(t *Y, v *Y)
	atoms []*Y
	keys  []*Y
}

func anyFields() []anyField {
	stepPut := func(k string) func(t, v *Y) {
		return func(t, v *Y) { t.Get("steps").L[0].Set(k, v) }
	}
	minimal := func() *Y {
		return Map(E("name", Str("wf")), E("steps", List(Map(E("name", Str("s1")), E("command", Str("echo hi"))))))
	}
	_ = minimal
	return []anyField{
		{"schedule", func(t, v *Y) { t.Set("schedule", v) },
			[]*Y{Null(), Str("0 1 * * *"), Str("x"), Str("TZ=UTC"), Int(5), Bool(true), Float(1.5), Str("")},
			[]*Y{Str("start"), Str("stop"), Str("restart"), Str("foo"), Int(1), Null(), Str("Start")}},
		{"env", func(t, v *Y) { t.Set("env", v) },
			[]*Y{Null(), Str("v"), Int(5), Bool(true), Float(math.NaN()), Str("`echo e`"), Str("$VQ_BASE")},
			[]*Y{Str("VQ_A"), Str("VQ_B"), Int(1), Null(), Str(""), Str("A=B")}},
		{"tags", func(t, v *Y) { t.Set("tags", v) },
			[]*Y{Null(), Str("a, B ,c"), Str(""), Int(5), Bool(true), Float(1.5), Str(" X ")},
			[]*Y{Str("k"), Int(1)}},
		{"executor", stepPut("executor"),
			[]*Y{Null(), Str("http"), Str(""), Int(5), Bool(true), Float(math.Inf(1)), Str("command")},
			[]*Y{Str("type"), Str("config"), Str("foo"), Int(1), Null(), Str("Type"), Str("k")}},
		{"command", stepPut("command"),
			[]*Y{Null(), Str("echo hi"), Str(""), Int(5), Bool(true), Float(1.5), Str("echo")},
			[]*Y{Str("k"), Int(1)}},
		{"execconfig", func(t, v *Y) {
			t.Get("steps").L[0].Set("executor", Map(E("type", Str("http")), E("config", Map(E("k", v)))))
		},
			[]*Y{Null(), Str("v"), Int(5), Bool(true), Float(math.NaN()), Float(1.5), Float(math.Inf(-1))},
			[]*Y{Str("a"), Str("b"), Int(1), Null(), Bool(true)}},
		{"callargs", func(t, v *Y) {
			t.Set("functions", List(Map(E("name", Str("f")), E("params", Str("x")), E("command", Str("echo $x")))))
			t.Get("steps").L[0].Del("command")
			t.Get("steps").L[0].Set("call", Map(E("function", Str("f")), E("args", Map(E("x", v)))))
		},
			[]*Y{Null(), Str("v"), Str(""), Int(5), Bool(true), Float(1.5)},
			[]*Y{Str("a"), Int(1)}},
		{"handler-command", func(t, v *Y) { t.Set("handlerOn", Map(E("exit", Map(E("command", v))))) },
			[]*Y{Null(), Str("echo hi"), Str(""), Int(5)},
			[]*Y{Str("k")}},
		{"handler-executor", func(t, v *Y) { t.Set("handlerOn", Map(E("failure", Map(E("executor", v))))) },
			[]*Y{Null(), Str("mail"), Str(""), Int(5)},
			[]*Y{Str("type"), Str("config"), Str("foo")}},
	}
}

func minimalDef() *Y {
	return Map(E("name", Str("wf")), E("steps", List(Map(E("name", Str("s1")), E("command", Str("echo hi"))))))
}

// targeted: small systematic families aimed at validations that are easy to weaken without any test noticing -
// spellings of signal names (validation and stored value must agree), empty and nested-empty maps in executor
// config (convertMap must reach them), step-level invalid definitions (the validating entry point LoadYAML must
// look at the steps).
func targeted(emit func(stream string, t *Y)) {
	spell := []string{"SIGTERM", "SIGINT", "SIGKILL", "SIGUSR1", "SIGHUP", "SIGQUIT", "sigterm", "sigint", "Sigint", "SigTerm",
		"sigKILL", "SIGterm", "sigusr1", "TERM", "term", "INT", "9", "SIG", "", " SIGINT", "SIGINT ", "SIGRTMIN", "SIGCHLD"}
	for _, sg := range spell {
		t := minimalDef()
		t.Get("steps").L[0].Set("signalOnStop", Str(sg))
		emit("targeted:signal", t)
		t = minimalDef()
		t.Set("handlerOn", Map(E("exit", Map(E("command", Str("echo bye")), E("signalOnStop", Str(sg))))))
		emit("targeted:signal", t)
	}
	cfgs := []*Y{
		Map(), Map(E("headers", Map())), Map(E("a", Map(E("b", Map())))), Map(E("a", Map(E("b", Map(E("c", Map())))))),
		Map(E("headers", Map()), E("timeout", Int(5))), Map(E("a", Map(E("b", Map()), E("c", Str("v"))))),
		Map(E("l", List())), Map(E("l", List(List()))), Map(E("l", List(Map()))), Map(E("a", Map(E("l", List(Map()))))),
		Map(E("a", Map(E("x", Null())))), Map(E("a", Null())),
	}
	for _, cfg := range cfgs {
		for _, typ := range []string{"http", "command", ""} {
			t := minimalDef()
			t.Get("steps").L[0].Set("executor", Map(E("type", Str(typ)), E("config", cfg.Clone())))
			emit("targeted:execconfig", t)
		}
		t := minimalDef()
		t.Set("handlerOn", Map(E("failure", Map(E("executor", Map(E("type", Str("mail")), E("config", cfg.Clone())))))))
		emit("targeted:execconfig", t)
	}
	// white-space-only commands (steps and handlers, string and list form) and blank command substitutions
	blanks := []string{" ", "  ", "\t", " \t ", "\n", " echo", "echo ", "\techo hi", "echo\thi"}
	for _, b := range blanks {
		for _, cmd := range []*Y{Str(b), List(Str(b)), List(Str(b), Str("x"))} {
			t := minimalDef()
			t.Get("steps").L[0].Set("command", cmd.Clone())
			emit("targeted:blank", t)
			t = minimalDef()
			t.Set("handlerOn", Map(E("exit", Map(E("command", cmd.Clone())))))
			emit("targeted:blank", t)
		}
	}
	for _, sub := range []string{"` `", "`  `", "`\t`", "/tmp/` `", "a ` ` b", "`` ` `", "` echo hi`", "`echo hi `"} {
		for _, fld := range []string{"logDir", "env", "params", "cond"} {
			t := minimalDef()
			switch fld {
			case "logDir":
				t.Set("logDir", Str(sub))
			case "env":
				t.Set("env", List(Map(E("VQ_A", Str(sub)))))
			case "params":
				t.Set("params", Str("P=\""+sub+"\""))
			case "cond":
				t.Set("preconditions", List(Map(E("condition", Str(sub)), E("expected", Str("")))))
			}
			emit("targeted:blank", t)
		}
	}
	// white space after a TZ= / CRON_TZ= prefix: the cron library looks for U+0020 only
	for _, pre := range []string{"TZ=UTC", "CRON_TZ=UTC", "TZ=", "CRON_TZ=Asia/Tokyo"} {
		for _, sep := range []string{"", " ", "\t", "\n", "\r", "\u00a0", "\t\t", " \t", "\t ", "  ", "\n\t", "\v", "\f"} {
			for _, tail := range []string{"0", "0 1 * * *", ""} {
				spec := Str(pre + sep + tail)
				for form := 0; form < 5; form++ {
					if storeEvery > 1 && (form == 1 || form == 4 || (tail == "" && sep != "" && sep != "\t")) {
						continue // quick tier: string, start and stop-list forms; the tail-less variants for "" and tab only
					}
					t := minimalDef()
					switch form {
					case 0:
						t.Set("schedule", spec.Clone())
					case 1:
						t.Set("schedule", List(Str("0 1 * * *"), spec.Clone()))
					case 2:
						t.Set("schedule", Map(E("start", spec.Clone())))
					case 3:
						t.Set("schedule", Map(E("stop", List(spec.Clone()))))
					default:
						t.Set("schedule", Map(E("start", Str("0 1 * * *")), E("restart", spec.Clone())))
					}
					emit("targeted:tz", t)
				}
			}
		}
	}
	// step-level invalid definitions
	bad := []*Y{
		Map(E("name", Str("s1"))),                             // nothing to execute
		Map(E("command", Str("echo hi"))),                     // no name
		Map(E("name", Str("")), E("command", Str("echo hi"))), // empty name
		Map(E("name", Str("s1")), E("command", Str(""))),      // empty command
		Map(E("name", Str("s1")), E("command", Int(5))),       // command of a wrong kind
		Map(E("name", Str("s1")), E("executor", Int(5))),      // executor of a wrong kind
		Map(E("name", Str("s1")), E("executor", List(Str("http")))),
		Map(E("name", Str("s1")), E("executor", Map(E("kind", Str("http"))))),
		Map(E("name", Str("s1")), E("executor", Map(E("type", Int(1))))),
		Map(E("name", Str("s1")), E("executor", Map(E("type", Str("http")), E("config", Str("x"))))),
		Map(E("name", Str("s1")), E("call", Map(E("function", Str("nosuch")), E("args", Map(E("x", Str("v"))))))),
		Map(E("name", Str("s1")), E("call", Map(E("function", Str("f")), E("args", Map())))),
		Map(E("name", Str("s1")), E("call", Map(E("function", Str("f")), E("args", Map(E("y", Str("v"))))))),
		Map(E("name", Str("s1")), E("call", Map(E("function", Str("f")), E("args", Map(E("x", List())))))),
		Map(E("name", Str("s1")), E("command", Str("echo hi")), E("signalOnStop", Str("NOSIG"))),
		Map(E("name", Str("s1")), E("command", List())),
		Map(E("name", Str("s1")), E("executor", Str(""))),
	}
	for _, st := range bad {
		t := Map(E("name", Str("wf")), E("functions", List(Map(E("name", Str("f")), E("params", Str("x")), E("command", Str("echo $x"))))),
			E("steps", List(Map(E("name", Str("ok1")), E("command", Str("echo hi"))), st.Clone())))
		emit("targeted:badstep", t)
		h := st.Clone()
		t = Map(E("name", Str("wf")), E("functions", List(Map(E("name", Str("f")), E("params", Str("x")), E("command", Str("echo $x"))))),
			E("steps", List(Map(E("name", Str("ok1")), E("command", Str("echo hi"))))), E("handlerOn", Map(E("success", h))))
		emit("targeted:badstep", t)
	}
}
