#!/usr/bin/env python3
"""tools/seedtest.py <property> <seed-out-dir/mK> <name> [--checks C01,C02] [--skip-suite]

Confirms a seeded change produced by an independent sub-agent and runs the registered check(s) against it:
 1. scratch worktree of /repo HEAD; `git apply patch.diff`
 2. go build ./... ; the existing suite with the patch (must pass, up to the baseline's always-failing tests)
 3. the demonstration fails with the patch and passes without it
 4. VERIF_REPO=<worktree> ./check <id> for each check: detected iff exit 1 with a VIOLATION line
 5. stores /verif/seeded/<name>/{patch.diff, demo/, meta.json}
The worktree is removed afterwards.  Nothing is ever applied to /repo itself.
"""
import json
import os
import re
import shutil
import subprocess
import sys
import time

VERIF = os.path.dirname(os.path.dirname(os.path.abspath(__file__)))
ENV = dict(os.environ, GOFLAGS="-mod=mod", GOPROXY="off", GOSUMDB="off", GOTOOLCHAIN="local")
ALLOWED_FAIL = {"TestClient_RunDAG", "TestWriterErrorHandling"}


def sh(cmd, cwd=None, timeout=3000, env=ENV):
    p = subprocess.run(cmd, cwd=cwd, env=env, shell=isinstance(cmd, str), stdout=subprocess.PIPE, stderr=subprocess.STDOUT,
                       text=True, timeout=timeout)
    return p.returncode, p.stdout


def failing_tests(out):
    return sorted({m.group(1).split("/")[0] for m in re.finditer(r"^\s*--- FAIL: (\S+)", out, re.M)})


def suite(wt, pkgs="./..."):
    rc, out = sh("go test -mod=mod -vet=off -count=1 -timeout 25m %s" % pkgs, cwd=wt)
    bad = [t for t in failing_tests(out) if t not in ALLOWED_FAIL]
    build_fail = re.findall(r"^FAIL\s+(\S+)\s+\[build failed\]", out, re.M)
    return bad, build_fail, out


def main():
    pid, src, name = sys.argv[1], sys.argv[2], sys.argv[3]
    checks = [pid]
    skip_suite = "--skip-suite" in sys.argv
    for i, a in enumerate(sys.argv):
        if a == "--checks":
            checks = sys.argv[i + 1].split(",")
    meta_in = json.load(open(os.path.join(src, "meta.json")))
    wt = "/tmp/seedwt-%s-%d" % (name, os.getpid())
    rc, out = sh(["git", "-C", "/repo", "worktree", "add", "--detach", wt, "HEAD"])
    assert rc == 0, out
    res = {"property": pid, "name": name, "summary": meta_in.get("summary"), "needs": meta_in.get("needs"),
           "demo_path_in_repo": meta_in.get("demo_path_in_repo"), "demo_run": meta_in.get("demo_run"),
           "repo_head": sh(["git", "-C", "/repo", "rev-parse", "--short", "HEAD"])[1].strip(), "ran": []}
    try:
        patch = os.path.join(src, "patch.diff")
        rc, out = sh(["git", "apply", patch], cwd=wt)
        if rc != 0:   # /repo HEAD has moved since the patch was written (fix: commits): fall back to a 3-way merge
            rc, out = sh(["git", "apply", "--3way", patch], cwd=wt)
            sh(["git", "reset", "-q"], cwd=wt)
            # from here on the patch is re-taken from the worktree so that apply -R works
            if rc == 0:
                patch2 = os.path.join("/tmp", "patch.rebased.%d.diff" % os.getpid())
                open(patch2, "w").write(sh(["git", "diff"], cwd=wt)[1])
                patch = patch2
        assert rc == 0, "patch does not apply: " + out
        rc, out = sh("go build ./...", cwd=wt)
        res["ran"].append("go build ./... with patch: rc=%d" % rc)
        assert rc == 0, out
        if not skip_suite:
            bad, bf, out = suite(wt)
            if bad and not bf:   # one retry of the failing packages' flaky tests
                bad2, bf, out2 = suite(wt)
                bad = [t for t in bad if t in bad2]
            res["ran"].append("existing suite with patch: unexpected failing tests=%s build failures=%s" % (bad, bf))
            res["suite_passes_with_patch"] = not bad and not bf
        # demo
        demo_dir = os.path.join(src, "demo")
        demo_files = []
        for root, _, files in os.walk(demo_dir):
            for f in files:
                demo_files.append(os.path.join(root, f))
        dpath = meta_in.get("demo_path_in_repo") or ""
        placed = []
        for f in demo_files:
            rel = os.path.relpath(f, demo_dir)
            if len(demo_files) == 1 and dpath and not dpath.endswith("/"):
                target = os.path.join(wt, dpath)
            else:
                target = os.path.join(wt, dpath if dpath.endswith("/") or os.path.isdir(os.path.join(wt, dpath)) else os.path.dirname(dpath), rel)
            os.makedirs(os.path.dirname(target), exist_ok=True)
            shutil.copyfile(f, target)
            placed.append(target)
        drun = meta_in.get("demo_run") or ""
        m = re.search(r"(go (?:test|run) .*)", drun)
        dcmd = m.group(1) if m else drun
        dcmd = re.sub(r"^cd \S+ && ", "", dcmd)
        dcmd = re.split(r"\s{2,}\(|\s+\(needs ", dcmd)[0].strip()     # explanatory text after the command
        rc1, out1 = sh(dcmd, cwd=wt, timeout=1200)
        res["ran"].append("demo with patch (%s): rc=%d" % (dcmd, rc1))
        sh(["git", "apply", "-R", patch], cwd=wt)
        rc2, out2 = sh(dcmd, cwd=wt, timeout=1200)
        res["ran"].append("demo without patch: rc=%d" % rc2)
        res["demo_fails_with_patch"] = rc1 != 0
        res["demo_passes_without_patch"] = rc2 == 0
        if rc2 != 0:
            res["demo_without_patch_tail"] = out2[-800:]
        for f in placed:
            os.remove(f)
        sh(["git", "apply", patch], cwd=wt)
        # checks
        res["checks"] = {}
        for c in checks:
            t0 = time.time()
            rc, out = sh(["./check", c], cwd=VERIF, env=dict(os.environ, VERIF_REPO=wt), timeout=3000)
            viol = [l for l in out.split("\n") if l.startswith("VIOLATION")]
            res["checks"][c] = {"rc": rc, "violation_lines": viol[:3], "seconds": round(time.time() - t0, 1),
                                "detected": rc == 1 and bool(viol), "tail": out[-600:]}
            res["ran"].append("VERIF_REPO=%s ./check %s: rc=%d %s" % (wt, c, rc, viol[:1]))
        res["detected_by"] = [c for c, r in res["checks"].items() if r["detected"]]
    finally:
        sh(["git", "-C", "/repo", "worktree", "remove", "--force", wt])
        # evidence files were rewritten by the runs against the mutated tree: the caller re-runs the checks on /repo
    confirmed = res.get("demo_fails_with_patch") and res.get("demo_passes_without_patch") and (skip_suite or res.get("suite_passes_with_patch"))
    res["confirmed"] = bool(confirmed)
    dst = os.path.join(VERIF, "seeded", name)
    if skip_suite and os.path.exists(os.path.join(dst, "meta.json")):
        # the suite was run for this seed in an earlier invocation: keep that record, and the history of check results
        old = json.load(open(os.path.join(dst, "meta.json")))
        if "suite_passes_with_patch" in old:
            res["suite_passes_with_patch"] = old["suite_passes_with_patch"]
            res["ran"].insert(0, "existing suite with patch: passed in an earlier invocation of tools/seedtest.py (repo head %s)" % old.get("repo_head"))
        res["earlier_results"] = (old.get("earlier_results") or []) + [{"repo_head": old.get("repo_head"), "detected_by": old.get("detected_by"),
                                  "checks": {c: {"detected": r.get("detected"), "violation_lines": r.get("violation_lines")} for c, r in (old.get("checks") or {}).items()}}]
    elif os.path.exists(os.path.join(dst, "meta.json")):
        old = json.load(open(os.path.join(dst, "meta.json")))
        res["earlier_results"] = (old.get("earlier_results") or []) + [{"repo_head": old.get("repo_head"), "detected_by": old.get("detected_by"),
                                  "checks": {c: {"detected": r.get("detected"), "violation_lines": r.get("violation_lines")} for c, r in (old.get("checks") or {}).items()}}]
    same = os.path.abspath(src) == os.path.abspath(dst)
    if confirmed or same:
        os.makedirs(dst, exist_ok=True)
        if not same:
            shutil.copyfile(patch, os.path.join(dst, "patch.diff"))
            if os.path.isdir(os.path.join(dst, "demo")):
                shutil.rmtree(os.path.join(dst, "demo"))
            shutil.copytree(demo_dir, os.path.join(dst, "demo"))
        elif patch != os.path.join(dst, "patch.diff"):
            shutil.copyfile(patch, os.path.join(dst, "patch.diff"))    # the patch was rebased on the current head
        json.dump(res, open(os.path.join(dst, "meta.json"), "w"), indent=1)
    print(json.dumps({k: res.get(k) for k in ("name", "confirmed", "suite_passes_with_patch", "demo_fails_with_patch",
                                              "demo_passes_without_patch", "detected_by")}, indent=1))
    for c, r in res.get("checks", {}).items():
        print(c, "detected" if r["detected"] else "MISSED", r["violation_lines"][:1], "%.0fs" % r["seconds"])
    if not confirmed:
        print(json.dumps(res, indent=1)[-2500:])


if __name__ == "__main__":
    main()
