#!/bin/bash
# MANIFEST.setup_cmd: build the framework from files on disk only (offline).
set -e
cd "$(dirname "$0")/.."
export GOFLAGS=-mod=mod GOPROXY=off GOSUMDB=off GOTOOLCHAIN=local CGO_ENABLED=0
mkdir -p evidence replays corpus
# 1. full .vo build of the Coq development (no -vos/-vok)
timeout 3400 python3 tools/mk.py || echo "WARNING: part of the Coq development failed to build; the checks that need it will report it"
# 2. warm the Go build cache for the harness against /repo's current tree
cp /repo/go.sum harness/go.sum
(cd harness && timeout 1700 go build -tags verif -o /dev/null ./cmd/... ) || echo "WARNING: part of the harness failed to build"; rm -f harness/go.sum
echo setup done
