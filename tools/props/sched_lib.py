"""Shared machinery of the Sched family checks C01 C02 C03 C15 (DESIGN.md section 5.0).

One invocation of a check = build the proofs of ITS property, build the driver harness/cmd/sched against the
current tree of /repo (tag verif), run it with a stream weighted towards the property, then for every run of
the real scheduler: (a) trace validation - the Coq acceptor Sched.Replay.accept decides whether the observed
visible trace + final node table is the projection of an execution of the model (a rejected trace is a
correspondence break), (b) the property's monitor is evaluated on what the implementation did, once inside Coq
(Sched/Check.v, mon_Cxx) and once independently here in python (py_mon_*).  A monitor failure is a concrete
failing input: it is shrunk against the real scheduler and reported with a replay file.
"""
import json
import os
import shutil
import sys
import time
from concurrent.futures import ThreadPoolExecutor

import vlib
from vlib import cbool, clist, cz

SHARD = 250
FAMILY = ("C01", "C02", "C03", "C15")
EPS = 200  # microseconds, the same tolerance as Sched/Check.v eps

ST = {0: "not started", 1: "running", 2: "failed", 3: "canceled", 4: "finished", 5: "skipped"}


# ------------------------------------------------------------------------------------------
# case -> Coq
# ------------------------------------------------------------------------------------------

def coq_step(s):
    return ("{| deps := %s; cof := %s; cos := %s; rlimit := %d; pre := %s; sfail := %s; repeat := false; cfails := %d |}"
            % (clist([str(d) for d in s["deps"]]), cbool(s["cof"]), cbool(s["cos"]),
               s["rlimit"] if s["retry"] else 0, cbool(s["pre"]), cbool(s["sfail"]), coq_cfails(s)))


def coq_cfails(s):
    """cfails: the creation of the step's command fails in its first cfails attempts (-1: in every attempt)"""
    cf = s.get("cfails", 0)
    return 1000000 if cf < 0 else cf


def coq_event(e):
    if e["e"] == "s":
        return "EStart %d %s" % (e["i"], cz(e["t"]))
    if e["e"] == "e":
        return "EEnd %d %s %s" % (e["i"], cbool(e.get("ok", False)), cz(e["t"]))
    if e["e"] == "x" and e["i"] >= 0:      # the attempt ended without a command: its creation failed
        return "ECreateFail %d %s" % (e["i"], cz(e["t"]))
    return None


def coq_case(c):
    evs = [coq_event(e) for e in c["events"]]
    evs = [e for e in evs if e is not None]
    fin = ["(%d, %d, %d)" % (f["st"], f["rc"], f["dc"]) for f in c["final"]]
    return ("{| c_steps := %s; c_k := %d; c_dry := %s; c_done := %s; c_ivl := %s; c_trace := %s; c_final := %s; "
            "c_err := %s; c_status := %d |}"
            % (clist([coq_step(s) for s in c["steps"]]), c["maxactive"], cbool(c["dry"]), cbool(c["done"]),
               clist([cz(s["ivl"] if s["retry"] else 0) for s in c["steps"]]), clist(evs), clist(fin),
               cbool(c["err"]), c["status"]))


HEADER = ("From Coq Require Import List ZArith Bool.\nImport ListNotations.\n"
          "From BD.Sched Require Import Model Replay Check.\n")


def eval_shard(ctx, name, cases):
    txt = (HEADER + "Definition cases : list case := [\n%s\n].\n"
           "Definition M := Eval vm_compute in mismatches cases.\nPrint M.\n") % ";\n".join(coq_case(c) for c in cases)
    rc, out, dt = vlib.coq_eval(ctx.scratch, name, txt, timeout=900)
    if rc != 0:
        return None, out[-1500:]
    res = vlib.coq_list_result(out, "M")
    if res is None:
        return None, out[-1500:]
    return res, None


def case_weight(c):
    return 20 + len(c["events"]) * (2 + len(c["steps"]))


def model_eval(ctx, cases, tag="cases"):
    """-> dict case-position -> verdict list [stage, idx, C01, C02, C03, C15] for the cases that are not clean.
    Shards are cut by weight (events x steps) so that wide DAGs do not make one shard slow."""
    shards, cur, w = [], [], 0
    for pos, c in enumerate(cases):
        cw = case_weight(c)
        if cur and (w + cw > 12000 or len(cur) >= SHARD):
            shards.append(cur)
            cur, w = [], 0
        cur.append((pos, c))
        w += cw
    if cur:
        shards.append(cur)
    with ThreadPoolExecutor(max_workers=14) as ex:
        results = list(ex.map(lambda t: eval_shard(ctx, "%s_%d" % (tag, t[0]), [c for _, c in t[1]]), enumerate(shards)))
    bad = {}
    for sh, (res, err) in zip(shards, results):
        if res is None:
            ctx.fail("correspondence", "the model could not be evaluated on a shard of cases (coqc failed)", {"log": err})
            continue
        for item in res:
            bad[sh[item[0]][0]] = list(item[1:])
    return bad


# ------------------------------------------------------------------------------------------
# independent monitors (python)
# ------------------------------------------------------------------------------------------

def permits(c, d):
    st = c["final"][d]["st"]
    s = c["steps"][d]
    return st == 4 or (st == 2 and s["cof"]) or (st == 5 and s["cos"])


def blocks(c, d):
    st = c["final"][d]["st"]
    s = c["steps"][d]
    return (st == 2 and not s["cof"]) or st == 3 or (st == 5 and not s["cos"])


def snap_permits(c, d, v):
    s = c["steps"][d]
    return v == 4 or (v == 2 and s["cof"]) or (v == 5 and s["cos"])


def py_mon_C01(c):
    """RunStart(i) after the last RunEnd(d) of each dependency d, no later RunStart(d), the dependency's
    state at the instant of the start (snapshot taken inside Run) lets i proceed."""
    evs = c["events"]
    for p, e in enumerate(evs):
        if e["e"] not in ("s", "x") or e["i"] < 0:     # an attempt of step i begins (x: the creation of its command fails)
            continue
        for d in c["steps"][e["i"]]["deps"]:
            opn = False
            for q in evs[:p]:
                if q["i"] == d and q["e"] == "s":
                    opn = True
                elif q["i"] == d and q["e"] == "e":
                    opn = False
            if opn:
                return "step %d entered Run while dependency %d was executing (event %d)" % (e["i"], d, p)
            if any(q["i"] == d and q["e"] in ("s", "x") for q in evs[p + 1:]):
                return "dependency %d of step %d was attempted again after step %d had started (event %d)" % (d, e["i"], e["i"], p)
            if e["e"] == "s" and not snap_permits(c, d, e["snap"][d]):
                return ("step %d entered Run while dependency %d was '%s' (event %d)"
                        % (e["i"], d, ST.get(e["snap"][d], "?"), p))
            if not permits(c, d):
                return "step %d ran although dependency %d ended '%s'" % (e["i"], d, ST.get(c["final"][d]["st"], "?"))
    return None


def attempts(c, i):
    """attempts of step i: Runs of its command and failed creations of that command (an attempt without a command)"""
    return sum(1 for e in c["events"] if e["e"] in ("s", "x") and e["i"] == i)


def outcomes(c, i):
    return [bool(e.get("ok", False)) if e["e"] == "e" else False for e in c["events"] if e["e"] in ("e", "x") and e["i"] == i]


PREK_TEXT = {0: "$VAR=1 (met)", 1: "$VAR unset (unmet)", 2: "`echo 1`=1 (met)", 3: "`echo 0`=1 (unmet)",
             4: "`false`='' (exit 1: unmet)", 5: "`true`='' (met)", 6: "`test -e missing`='' (exit 1: unmet)",
             7: "`print 1; exit 3`=1 (exit 3: unmet)"}


def pres_text(s):
    if s.get("prek"):
        return " [" + "; ".join(PREK_TEXT.get(k, str(k)) for k in s["prek"]) + "]"
    if s.get("pres"):
        return " [" + "; ".join("met" if m else "unmet" for m in s["pres"]) + "]"
    return ""


def py_mon_C02(c):
    for i, s in enumerate(c["steps"]):
        st = c["final"][i]["st"]
        a = attempts(c, i)
        os_ = outcomes(c, i)
        if st in (0, 1):
            return "step %d is still '%s' after the run ended" % (i, ST[st])
        if any(blocks(c, d) for d in s["deps"]):
            if a != 0 or st not in (3, 5):
                return "step %d is downstream of a blocking dependency but ended '%s' after %d execution(s)" % (i, ST[st], a)
            ok = False
            for d in s["deps"]:
                ds, dd = c["final"][d]["st"], c["steps"][d]
                if (ds == 2 and not dd["cof"] and st == 3) or (ds == 3 and st == 3) or (ds == 5 and not dd["cos"] and st == 5):
                    ok = True
            if not ok:
                return "step %d is '%s' but no dependency justifies that label" % (i, ST[st])
        elif not s["pre"]:
            if a != 0 or st != 5:
                return "step %d has an unmet precondition%s but ended '%s' after %d execution(s)" % (i, pres_text(s), ST[st], a)
        elif c["dry"]:
            if a != 0 or st != 4:
                return "dry run: step %d ended '%s' after %d execution(s)" % (i, ST[st], a)
        elif s["sfail"]:
            if a != 0 or st != 2:
                return "step %d cannot be set up but ended '%s' after %d execution(s)" % (i, ST[st], a)
        else:
            if a < 1 or len(os_) != a:
                return "step %d may proceed but was executed %d time(s) (%d completed)" % (i, a, len(os_))
            lim = s["rlimit"] if s["retry"] else 0
            if os_[-1] and st != 4:
                return "step %d succeeded on its last attempt but ended '%s'" % (i, ST[st])
            if not os_[-1] and (st != 2 or a != lim + 1):
                return "step %d failed its last attempt (%d of %d allowed) and ended '%s'" % (i, a, lim + 1, ST[st])
    return None


def py_mon_C03(c):
    for i, s in enumerate(c["steps"]):
        a = attempts(c, i)
        os_ = outcomes(c, i)
        lim = s["rlimit"] if s["retry"] else 0
        opn = False
        for e in c["events"]:
            if e["i"] != i:
                continue
            if e["e"] == "s":
                if opn:
                    return "step %d was started while an execution of it was still open" % i
                opn = True
            elif e["e"] == "e":
                opn = False
            elif e["e"] == "x" and opn:
                return "step %d: a new attempt began while an execution of it was still open" % i
        if len(os_) != a:
            return "step %d: %d executions started, %d completed" % (i, a, len(os_))
        if a > lim + 1:
            return "step %d executed %d times with retry limit %d" % (i, a, lim)
        if any(os_[:-1]):
            return "step %d was executed again after a successful attempt" % i
        if os_ and not os_[-1] and a != lim + 1:
            return "step %d gave up after %d attempt(s) with retry limit %d" % (i, a, lim)
        # script: fails k times
        f = s["fails"]
        cf = s.get("cfails", 0)           # the first cf attempts fail at the creation of the command, the next f in Run
        want = lim + 1 if (f < 0 or cf < 0 or cf + f > lim) else cf + f + 1
        runnable = not (c["dry"] or any(blocks(c, d) for d in s["deps"]) or not s["pre"] or s["sfail"])
        if runnable and a != want:
            return "step %d executed %d time(s), its script and limit call for %d" % (i, a, want)
        if not runnable and a != 0:
            return "step %d is not runnable but was executed %d time(s)" % (i, a)
        rc = c["final"][i]["rc"]
        if rc != max(a - 1, 0):
            return "step %d: recorded retry count %d after %d execution(s)" % (i, rc, a)
    return None


def py_mon_C15(c):
    k = c["maxactive"]
    if c.get("hung"):
        return "the run did not complete (maxActiveRuns=%d)" % k
    if k <= 0:
        return None
    opn = set()
    waiting = {}
    evs = c["events"]
    for p, e in enumerate(evs):
        i = e["i"]
        if e["e"] == "s":
            occ = sum(1 for j, te in waiting.items()
                      if j != i and e["t"] + EPS < te + c["steps"][j]["ivl"])
            if len(opn) + occ + 1 > k:
                return ("%d step(s) executing and %d inside their retry interval when step %d entered Run with "
                        "maxActiveRuns=%d (event %d)" % (len(opn), occ, i, k, p))
            waiting.pop(i, None)
            opn.add(i)
        elif e["e"] == "e":
            opn.discard(i)
            if not e.get("ok", False) and any(q["e"] in ("s", "x") and q["i"] == i for q in evs[p + 1:]):
                waiting[i] = e["t"]
        elif e["e"] == "x" and i >= 0:     # an attempt whose command could not be created: it held a slot when it began
            occ = sum(1 for j, te in waiting.items()
                      if j != i and e["t"] + EPS < te + c["steps"][j]["ivl"])
            if len(opn) + occ + 1 > k:
                return ("%d step(s) executing and %d inside their retry interval when an attempt of step %d began with "
                        "maxActiveRuns=%d (event %d)" % (len(opn), occ, i, k, p))
            waiting.pop(i, None)
            if any(q["e"] in ("s", "x") and q["i"] == i for q in evs[p + 1:]):
                waiting[i] = e["t"]
    return None


PY_MON = {"C01": py_mon_C01, "C02": py_mon_C02, "C03": py_mon_C03, "C15": py_mon_C15}
MON_POS = {"C01": 2, "C02": 3, "C03": 4, "C15": 5}


# ------------------------------------------------------------------------------------------
# running the driver, shrinking
# ------------------------------------------------------------------------------------------

INPUT_KEYS = ("k", "stream", "steps", "maxactive", "dry", "done", "policy", "pause", "rs")


def inputs_of(c):
    return {k: c[k] for k in INPUT_KEYS if k in c}


def usable(cases):
    out = []
    for c in cases:
        if c.get("final"):
            c["events"] = c.get("events") or []
            out.append(c)
    return out


def run_driver(ctx, tool, tier, focus, name="sched"):
    p = os.path.join(ctx.scratch, name + ".jsonl")
    # the driver has its own per-run watchdog, hung budget and time limit (300 s / 1500 s); this timeout is a last resort
    rc, out, dt = vlib.run_tool(tool, [p, tier, focus], env_extra={"VERIF_SEED": str(ctx.seed)},
                                timeout=1700 if tier == "thorough" else 420)
    if rc != 0:
        return None, out, dt
    return vlib.read_jsonl(p), out, dt


def rerun(ctx, tool, cases, name="rerun"):
    p_in = os.path.join(ctx.scratch, name + "-in.jsonl")
    with open(p_in, "w") as f:
        for c in cases:
            f.write(json.dumps(inputs_of(c)) + "\n")
    p = os.path.join(ctx.scratch, name + "-out.jsonl")
    rc, out, dt = vlib.run_tool(tool, [p, "replay", p_in], timeout=420)
    return usable(vlib.read_jsonl(p)) if rc == 0 else []


def confirm_hung(ctx, tool, cases, rerun_fn):
    """A run that did not return within the driver's watchdog is run again, alone (a driver process of its own, nothing
    else running in it), twice.  It stays a failing input if a re-run hangs as well; if every re-run terminates the
    observation was not reproduced (machine load / a stalled process): the original run - whose trace was cut by the
    watchdog's stop request - is not judged, and is reported in the evidence."""
    hung = [c for c in cases if c.get("hung")]
    if not hung:
        return cases
    dropped, confirmed = [], 0
    for n, c in enumerate(hung):
        if n >= 12 and confirmed:
            break               # a real hang has been confirmed: the others stay as they are
        again = []
        for r in range(2):
            res = rerun_fn(ctx, tool, [c], "hungcheck%d_%d" % (n, r))
            again += res
            if not res or any(x.get("hung") for x in res):
                break
        c["hung_reruns"] = ["hung" if x.get("hung") else "ended" for x in again] or ["no result"]
        if len(again) == 2 and not any(x.get("hung") for x in again):
            dropped.append(c)
        else:
            confirmed += 1
    if dropped:
        ctx.notes.append("%d run(s) had not returned when the driver's watchdog expired but terminated in both of two re-runs alone: "
                         "not reproduced, not judged (first: stream %s k=%s, wall %s us)"
                         % (len(dropped), dropped[0].get("stream"), dropped[0].get("k"), dropped[0].get("wall")))
        ctx.cov["hung_not_reproduced"] = [inputs_of(c) for c in dropped[:3]]
    return [c for c in cases if not any(c is d for d in dropped)]


def skipped_note(ctx, skipped, total):
    by = {}
    for c in skipped:
        key = (c.get("note") or "")[:110]
        by[key] = by.get(key, 0) + 1
    ctx.notes.append("%d of %d generated case(s) were not run / not judged: %s"
                     % (len(skipped), total, "; ".join("%d x %s" % (n, k) for k, n in sorted(by.items(), key=lambda t: -t[1]))))
    ctx.cov["skipped_runs"] = len(skipped)


def drop_step(c, i):
    """the case without step i (dependencies on it removed, indices shifted)"""
    d = json.loads(json.dumps(inputs_of(c)))
    steps = []
    for j, s in enumerate(d["steps"]):
        if j == i:
            continue
        s["deps"] = [x - 1 if x > i else x for x in s["deps"] if x != i]
        steps.append(s)
    d["steps"] = steps
    d["stream"] = "shrunk"
    return d


def shrink(ctx, tool, c, bad, rounds=12, tries=3):
    """Greedy deletion of steps / edges / flags while the monitor `bad` still fails on the real scheduler
    (each candidate is run `tries` times: the scheduler is timing dependent)."""
    cur = c
    for _ in range(rounds):
        cands = []
        n = len(cur["steps"])
        if n > 1:
            for i in range(n):
                cands.append(drop_step(cur, i))
        for i in range(n):
            for j in range(len(cur["steps"][i]["deps"])):
                d = json.loads(json.dumps(inputs_of(cur)))
                del d["steps"][i]["deps"][j]
                d["stream"] = "shrunk"
                cands.append(d)
        if not cands:
            break
        many = [dict(x) for x in cands for _ in range(tries)]
        res = [x for x in rerun(ctx, tool, many, "shrink") if bad(x)]
        if not res:
            break
        cur = min(res, key=lambda x: (len(x["steps"]), sum(len(s["deps"]) for s in x["steps"])))
    return cur


# ------------------------------------------------------------------------------------------
# evidence helpers
# ------------------------------------------------------------------------------------------

def shape_key(c):
    return json.dumps([[s["deps"], s["cof"], s["cos"], s["rlimit"] if s["retry"] else 0, s["pre"], s["sfail"], s["fails"]]
                       for s in c["steps"]] + [c["maxactive"], c["dry"]])


def release_class(c):
    """order of the Run entries/exits (which step, entry or exit) - the interleaving actually observed"""
    return "".join("%s%d" % (e["e"], e["i"]) for e in c["events"])


def high_water(c):
    opn, hw = 0, 0
    for e in c["events"]:
        if e["e"] == "s":
            opn += 1
            hw = max(hw, opn)
        elif e["e"] == "e":
            opn -= 1
    return hw


def width(c):
    """largest antichain is expensive; use the number of steps without dependencies as a lower bound"""
    return sum(1 for s in c["steps"] if not s["deps"])


def distribution(cases):
    d = {"streams": {}, "sizes": {}, "policy": {}, "maxactive": {}, "final_status": {}, "run_status": {},
         "with_retry_policy": 0, "retried_runs": 0, "retry_exhausted_runs": 0, "unmet_precondition_runs": 0,
         "setup_failure_runs": 0, "blocked_step_runs": 0, "continue_on_used_runs": 0, "dry_runs": 0,
         "capacity_reached_runs": 0, "capacity_with_retry_wait_runs": 0, "high_water": {}, "events_total": 0,
         "deps_not_in_index_order": 0, "done_nil_runs": 0, "fails_vs_limit": {"below": 0, "at": 0, "above": 0, "always": 0}}
    for c in cases:
        d["streams"][c["stream"]] = d["streams"].get(c["stream"], 0) + 1
        n = len(c["steps"])
        d["sizes"][n] = d["sizes"].get(n, 0) + 1
        d["policy"][c["policy"]] = d["policy"].get(c["policy"], 0) + 1
        d["maxactive"][c["maxactive"]] = d["maxactive"].get(c["maxactive"], 0) + 1
        d["run_status"][ST.get(c["status"], "?")] = d["run_status"].get(ST.get(c["status"], "?"), 0) + 1
        d["events_total"] += len(c["events"])
        for f in c["final"]:
            d["final_status"][ST.get(f["st"], "?")] = d["final_status"].get(ST.get(f["st"], "?"), 0) + 1
        if any(s["retry"] for s in c["steps"]):
            d["with_retry_policy"] += 1
        if any(f["rc"] > 0 for f in c["final"]):
            d["retried_runs"] += 1
        if any(f["st"] == 2 and s["retry"] and s["rlimit"] > 0 and f["rc"] == s["rlimit"]
               for f, s in zip(c["final"], c["steps"])):
            d["retry_exhausted_runs"] += 1
        if any(not s["pre"] for s in c["steps"]):
            d["unmet_precondition_runs"] += 1
        if any(s.get("cfails") for s in c["steps"]):
            d["creation_failure_runs"] = d.get("creation_failure_runs", 0) + 1
        if any(s.get("prek") for s in c["steps"]):
            d["backtick_precondition_runs"] = d.get("backtick_precondition_runs", 0) + 1
            if any(k in (4, 6, 7) for s in c["steps"] for k in (s.get("prek") or [])):
                d["nonzero_exit_precondition_runs"] = d.get("nonzero_exit_precondition_runs", 0) + 1
        if any(len(s.get("pres") or []) > 1 for s in c["steps"]):
            d["multi_precondition_runs"] = d.get("multi_precondition_runs", 0) + 1
            if any(len(s.get("pres") or []) > 1 and not s["pres"][0] and s["pres"][-1] for s in c["steps"]):
                d["unmet_then_met_precondition_runs"] = d.get("unmet_then_met_precondition_runs", 0) + 1
        if any(s["sfail"] for s in c["steps"]):
            d["setup_failure_runs"] += 1
        if c["final"] and any(any(blocks(c, x) for x in s["deps"]) for s in c["steps"]):
            d["blocked_step_runs"] += 1
        if c["final"] and any(c["final"][x]["st"] in (2, 5) and permits(c, x) for s in c["steps"] for x in s["deps"]):
            d["continue_on_used_runs"] += 1
        if c["dry"]:
            d["dry_runs"] += 1
        if not c["done"]:
            d["done_nil_runs"] += 1
        for s in c["steps"]:
            lim = s["rlimit"] if s["retry"] else 0
            if s["fails"] < 0:
                d["fails_vs_limit"]["always"] += 1
            elif s["fails"] > 0:
                d["fails_vs_limit"]["below" if s["fails"] < lim else ("at" if s["fails"] == lim else "above")] += 1
        hw = high_water(c)
        d["high_water"][hw] = d["high_water"].get(hw, 0) + 1
        if c["maxactive"] > 0 and hw == c["maxactive"] and n > c["maxactive"]:
            d["capacity_reached_runs"] += 1
            if any(f["rc"] > 0 for f in c["final"]):
                d["capacity_with_retry_wait_runs"] += 1
        if any(x > i for i, s in enumerate(c["steps"]) for x in s["deps"]):
            d["deps_not_in_index_order"] += 1
    return d


# ------------------------------------------------------------------------------------------
# the check
# ------------------------------------------------------------------------------------------

STAGE = {1: "event %d of the observed trace is not enabled in the model",
         2: "the model cannot finish where the real run finished (sub-stage %d)",
         3: "the final node table of the real run differs from the model's",
         4: "Schedule's error / Status(g) of the real run differ from the model's"}


def describe(v):
    stg, idx = v[0], v[1]
    if stg == 0:
        return "accepted"
    t = STAGE.get(stg, "rejected")
    return t % idx if "%d" in t else t


def stale_flip_signature(c):
    """Decidable signature of the done == nil stale-worker flip on an observed run: a step with a retry policy is seen
    'finished' (in a snapshot taken at some Run entry, or in the final table) although none of its attempts so far
    had succeeded; or a dependent enters Run while such a dependency (no successful attempt yet) is back to
    not-started / running (the transient 'finished' was overwritten by the retry path)."""
    if c["done"] or c["dry"]:
        return False
    retrying = {i for i, s in enumerate(c["steps"]) if s["retry"] and s["rlimit"] > 0}
    ok_seen = set()
    for e in c["events"]:
        if e["e"] == "s":
            snap = e.get("snap") or []
            for i, v in enumerate(snap):
                if v == 4 and i in retrying and i not in ok_seen:
                    return True
            for d in c["steps"][e["i"]]["deps"]:
                if d in retrying and d not in ok_seen and d < len(snap) and snap[d] in (0, 1):
                    return True
        elif e["e"] == "e" and e.get("ok", False):
            ok_seen.add(e["i"])
    for i in retrying:
        if c["final"][i]["st"] == 4 and i not in ok_seen:
            return True
    return False


def classify(c):
    """decidable class of a failing case, matched against known_findings.d"""
    return {"dry": c["dry"], "done": c["done"], "stale_flip": stale_flip_signature(c)}


def dbg(msg):
    if os.environ.get("VERIF_DEBUG"):
        sys.stderr.write("[%.1f] %s\n" % (time.time(), msg))


def evaluate(ctx, pid, tool, cases, tag, shrink_fail=True):
    """Evaluates acceptor + monitors on the given runs; registers failures.  Returns number of accepted traces."""
    dbg("model_eval start %d" % len(cases))
    bad = model_eval(ctx, cases, tag)
    dbg("model_eval done, %d not clean" % len(bad))
    pymon = PY_MON[pid]
    accepted = 0
    for pos, c in enumerate(cases):
        v = bad.get(pos, [0, 0, 1, 1, 1, 1])
        if c.get("hung"):
            # the model proves every execution finite (C15_all_executions_finite) and the scheduler never stuck
            # (C15_progress): a run that does not return is a concrete failing input of C15, a break for the others
            what = ("the run did not terminate: Schedule had not returned after the watchdog time (%s); maxActiveRuns=%d"
                    % (c.get("note") or "", c["maxactive"]))
            ctx.fail("monitor" if pid == "C15" else "correspondence", "%s: %s" % (pid, what), c, cls=dict(classify(c), hung=True))
            continue
        why = pymon(c)
        coq_mon_ok = v[MON_POS[pid]] == 1
        if why is not None or not coq_mon_ok:
            what = why or "the Coq monitor mon_%s fails on this run" % pid
            if (why is None) != coq_mon_ok:
                what += " [python and Coq monitors disagree: python=%s coq=%s]" % ("ok" if why is None else "fails", "ok" if coq_mon_ok else "fails")
            small = c
            if shrink_fail and tool is not None and len(ctx.failures) < 3:
                dbg("shrink start")
                small = shrink(ctx, tool, c, lambda x: x.get("final") and (pymon(x) is not None))
                dbg("shrink done")
            ctx.fail("monitor", "%s: %s" % (pid, what), small, cls=classify(c))
            continue
        if v[0] != 0:
            ctx.fail("correspondence", "trace of the real scheduler rejected by the model: " + describe(v),
                     {"verdict": v, "case": c}, cls=classify(c))
            continue
        accepted += 1
    return accepted


def agent_dry_part(ctx):
    """C03, agent level: agent.New(...).Run with Options{Dry:true} (shared driver harness/cmd/agentrun): zero executor
    events, no history action, no history file; compared with Agent/Run.v as well."""
    from props import agent_lib
    acases = agent_lib.run_cases(ctx, ["dry"])
    if acases is None:
        return
    for c in acases:
        why = agent_lib.monitor(c)
        if why is not None:
            ctx.fail("monitor", "C03: " + why, c, cls={"class": "agent-" + c["class"], "sub": c["sub"]})
    agent_lib.check_model(ctx, acases, tag="c03_agent")
    ctx.cov["agent_dry_runs"] = agent_lib.summary(acases)
    ctx.cov["agent_dry_runs_total"] = len(acases)


def agent_real_monitor(c, pid):
    """C02 / C03 on REAL `script:` and command steps with retries, at agent level (node.setupScript / teardown, the real
    command executor): the step's script fails its first F runs; limit L.  Expected by C02_final_states / C03_exact:
    F <= L: finished after F+1 runs with retry count F, the dependent runs; otherwise failed after L+1 runs with retry
    count L, the dependent is canceled and does not run."""
    if c.get("infra"):
        return None
    if c.get("kind") == "yamlpre":
        return yaml_pre_monitor(c)
    if c.get("kind") == "retryrun":
        return retry_run_monitor(c, pid)
    what = "%s step (fails its first %s run(s), retry limit %d)" % (
        "`script:`" if c["script"] else "command", "all" if c["fails"] < 0 else c["fails"], c["rlimit"])
    if c.get("hung"):
        return "agent run with a %s did not end" % what
    good = 0 <= c["fails"] <= c["rlimit"]
    runs = c["fails"] + 1 if good else c["rlimit"] + 1
    if pid == "C02":
        if good and (c["s1"] != "finished" or c["s2"] != "finished" or not c["dep_ran"] or c["status"] != "finished"):
            return ("%s: run %d of the script would succeed, but the step ended '%s' after %d run(s) (retry count %d), its "
                    "dependent '%s' (%s), the run '%s'" % (what, c["fails"] + 1, c["s1"], c["attempts"], c["s1_retry"], c["s2"],
                                                       "ran" if c["dep_ran"] else "did not run", c["status"]))
        if not good and (c["s1"] != "failed" or c["s2"] != "canceled" or c["dep_ran"] or c["status"] != "failed"):
            return ("%s: every permitted run fails, but the step ended '%s', its dependent '%s' (%s), the run '%s'"
                    % (what, c["s1"], c["s2"], "ran" if c["dep_ran"] else "did not run", c["status"]))
    if c["attempts"] != runs or c["s1_retry"] != runs - 1:
        return ("%s: the script ran %d time(s), retry count %d; its outcome script and limit call for %d run(s), retry count %d "
                "(step ended '%s')" % (what, c["attempts"], c["s1_retry"], runs, runs - 1, c["s1"]))
    return None


def yaml_pre_monitor(c):
    """C02 on a DAG loaded from YAML (dag.Load, the real start path) whose preconditions refer to the output variable of an
    upstream step - a value that exists only at run time: `met` ($VAR == go, VAR printed by `produce`) is executed and so is
    its child; `unmet` (${VAR} == "", unmet because VAR = go) is skipped without running, and so is its child."""
    if c.get("hung"):
        return "agent run of the YAML DAG with preconditions on an output variable did not end"
    nd, ran = c.get("nodes") or {}, c.get("ran") or {}
    st = lambda n: (nd.get(n) or {}).get("st", "?")
    if st("produce") != "finished":
        return "YAML DAG: step `produce` (echo go, output: VAR) ended '%s'" % st("produce")
    for n in ("met", "met-child"):
        if st(n) != "finished" or not ran.get(n):
            return ("YAML DAG: the precondition of step `met` (\"$VAR\" expected \"go\"; VAR is the output variable of its dependency, "
                    "which printed go) is met, but step `%s` ended '%s' and its command %s (run reported '%s'): the condition was "
                    "not evaluated with the run-time value" % (n, st(n), "ran" if ran.get(n) else "did not run", c.get("status")))
    for n in ("unmet", "unmet-child"):
        if st(n) != "skipped" or ran.get(n):
            return ("YAML DAG: the precondition of step `unmet` (\"${VAR}\" expected \"\"; VAR = go at run time) is unmet, but step "
                    "`%s` ended '%s' and its command %s: unmet => skipped and not executed, descendants skipped"
                    % (n, st(n), "ran" if ran.get(n) else "did not run"))
    return None


def retry_run_monitor(c, pid):
    """C02 / C03 on a recorded run plus its retry run (agent with RetryTarget): s1 used up its retries in the recorded run; in
    the retry run it fails `more` <= limit more times and then succeeds: the retry budget is per run - s1 ends finished
    after more+1 executions with retry count `more`, its dependent s2 executes, the run is finished."""
    what = ("retry run of a recorded run in which step s1 (retry limit %d) failed all %d attempts; in the retry run its script fails "
            "%d more time(s) and then succeeds" % (c["rlimit"], c.get("runs1", 0), c.get("more", 0)))
    if c.get("hung"):
        return what + ": the run did not end"
    nd, ran = c.get("nodes") or {}, c.get("ran") or {}
    s1, s2 = nd.get("s1") or {}, nd.get("s2") or {}
    more = c.get("more", 0)
    if pid == "C02" and (s1.get("st") != "finished" or s2.get("st") != "finished" or not ran.get("s2") or c.get("status") != "finished"):
        return ("%s: s1 ended '%s' after %d execution(s) in this run (retry count %s), its dependent s2 '%s' (%s), the run '%s'"
                % (what, s1.get("st"), c.get("attempts", 0), s1.get("rc"), s2.get("st"), "ran" if ran.get("s2") else "did not run",
                   c.get("status")))
    if c.get("attempts") != more + 1 or s1.get("rc") != more:
        return ("%s: s1 was executed %d time(s) in the retry run and ends with retry count %s; the limit applies per run and calls "
                "for %d execution(s), retry count %d (s1 ended '%s')"
                % (what, c.get("attempts", 0), s1.get("rc"), more + 1, more, s1.get("st")))
    return None


def agent_real_part(ctx, tool, pid):
    work = os.path.join(ctx.scratch, "agentreal-work")
    shutil.rmtree(work, ignore_errors=True)
    os.makedirs(work, exist_ok=True)
    p = os.path.join(ctx.scratch, "agentreal.jsonl")
    if os.path.exists(p):
        os.remove(p)
    rc, out, dt = vlib.run_tool(tool, [p, "agentreal", work], timeout=150)
    cases = vlib.read_jsonl(p) if os.path.exists(p) else []
    shutil.rmtree(work, ignore_errors=True)
    if rc != 0 or not cases:
        ctx.fail("correspondence", "agent-level script/retry driver failed", {"log": out[-1500:]})
        return
    for c in cases:
        if c.get("infra"):
            ctx.notes.append("agentreal case %s not observed: %s" % (c["sub"], c["infra"]))
        why = agent_real_monitor(c, pid)
        if why is not None:
            ctx.fail("monitor", "%s: %s" % (pid, why), c, cls={"kind": "agent-real", "sub": c["sub"], "script": c.get("script")})
    ctx.cov["agent_real_script_runs"] = [{k: c[k] for k in ("script", "fails", "rlimit", "attempts", "s1", "s1_retry", "s2", "dep_ran", "status")}
                                         for c in cases if not c.get("kind")]
    ctx.cov["agent_real_yaml_precondition_runs"] = [{k: c.get(k) for k in ("nodes", "ran", "status")} for c in cases if c.get("kind") == "yamlpre"]
    ctx.cov["agent_real_retry_runs"] = [{k: c.get(k) for k in ("rlimit", "more", "runs1", "run1", "attempts", "nodes", "ran", "status")}
                                        for c in cases if c.get("kind") == "retryrun"]
    ctx.cov["agent_real_script_s"] = round(dt, 1)


def run_family(ctx, pid, replay_cases=None, agent_again=False):
    extra = ["Sched/Check.vo"]
    if pid == "C03":
        from props import agent_lib
        extra += agent_lib.EXTRA_VO
    ctx.proofs(extra=extra)
    tool, out, _ = vlib.go_build("sched", ctx.scratch)
    if tool is None:
        ctx.fail("correspondence", "harness does not build against /repo", {"log": out[-2000:]})
        return ctx.finish()
    if replay_cases is None:
        cases, out, dt = run_driver(ctx, tool, ctx.tier, pid)
        if cases is None:
            ctx.fail("correspondence", "sched driver failed", {"log": out[-2000:]})
            return ctx.finish()
        corpus = os.path.join(vlib.VERIF, "corpus", pid + ".jsonl")
        if os.path.exists(corpus):
            pre = rerun(ctx, tool, vlib.read_jsonl(corpus), "corpus")
            for c in pre:
                c["stream"] = "corpus"
            cases = pre + cases
        ctx.cov["driver_s"] = round(dt, 1)
    else:
        cases = rerun(ctx, tool, replay_cases, "replay")
    lost = [c for c in cases if not c.get("final")]
    skipped = [c for c in lost if (c.get("note") or "").startswith("skipped:")]
    lost = [c for c in lost if c not in skipped]
    if skipped:
        skipped_note(ctx, skipped, len(cases))
    if lost:
        ctx.fail("correspondence", "the driver could not run %d generated case(s): %s" % (len(lost), (lost[0].get("note") or "")[:200]),
                 inputs_of(lost[0]))
    cases = confirm_hung(ctx, tool, usable(cases), rerun)
    accepted = evaluate(ctx, pid, tool, cases, "cases")
    nontrivial = set()
    for c in cases:
        if any(s["deps"] for s in c["steps"]):
            nontrivial.add((shape_key(c), release_class(c)))
    ctx.cov["evaluations"] = len(cases)
    ctx.cov["traces_validated_against_impl"] = accepted
    ctx.cov["distinct_nontrivial"] = len(nontrivial)
    ctx.cov["rule"] = ("one evaluation = one run of the real scheduler.Schedule on a generated DAG with the scripted executor; "
                       "its visible trace and final table are replayed through the Coq model (Sched.Replay.accept) and the "
                       "monitor of %s is evaluated on it in Coq and in python; distinct = distinct (DAG shape, flags, retry "
                       "limits, outcome scripts, maxActiveRuns, observed order of Run entries/exits); non-trivial = at least "
                       "one dependency edge" % pid)
    ctx.cov["distribution"] = distribution(cases)
    for c in cases[3:4] + cases[len(cases) // 2: len(cases) // 2 + 2] + cases[-1:]:
        ctx.sample({k: c[k] for k in ("stream", "steps", "maxactive", "policy", "events", "final", "err", "status")})
    ctx.cov["trusted_base"] += [
        "Sched model (coq/Sched/Model.v): goroutine scheduling = arbitrary interleaving of the mutex-delimited sections "
        "of scheduler.go/node.go; isReady's dependency reads as one atomic read; node teardown (log flush) does not fail; "
        "steps with both retryPolicy and repeatPolicy are outside the model",
        "no premise about Schedule's done channel any more (fix f9e55a3; the flip scenario is run as stream `flip` of C01)",
        "scripted executor `verifscript` (harness/cmd/sched) stands for the command executor; retry intervals are observed "
        "with a tolerance of %d us, never proved" % EPS,
    ]
    ctx.cov["trusted_base"] += [
        "theorem premise norepeat: no step has a repeatPolicy (repeating steps belong to C05; the generated DAGs have none)",
        "theorem premise wf_deps (only C15_progress / C15_can_complete): the dependency relation has a rank function, i.e. is "
        "acyclic with all names resolved - what NewExecutionGraph guarantees (C14)",
        "acceptor Sched/Replay.v is proved sound (accept_sound: accepted trace => execution of the model with that visible "
        "projection and final table); its completeness is what this run measures",
    ]
    ctx.assumptions = ["runs without stop request / timeout (those are C04/C05)", "no repeatPolicy steps in the generated DAGs",
                       "Schedule is given a done channel as the agent does in 15 of 16 runs, nil (like the package's tests) in the rest"]
    if pid in ("C02", "C03") and (replay_cases is None or agent_again):
        agent_real_part(ctx, tool, pid)
    if pid == "C03" and replay_cases is None:
        dbg("agent dry part")
        agent_dry_part(ctx)
        dbg("agent dry part done")
    if ctx.tier == "thorough":
        ctx.coqchk()

    def search():
        more, _, _ = run_driver(ctx, tool, "search", pid, "search")
        if not more:
            return None
        more = usable(more)
        for c in more:
            if PY_MON[pid](c) is not None:
                return shrink(ctx, tool, c, lambda x: x.get("final") and PY_MON[pid](x) is not None)
        return None

    return ctx.finish(search=search)


def replay_family(ctx, pid, path):
    body = json.load(open(path))
    cases = []
    for f in body.get("failures", []):
        cs = f.get("case")
        if isinstance(cs, dict) and "steps" in cs:
            cases.append(cs)
        elif isinstance(cs, dict) and isinstance(cs.get("case"), dict) and "steps" in cs["case"]:
            cases.append(cs["case"])
    if isinstance(body.get("failing_input"), dict) and "steps" in body["failing_input"]:
        cases.append(body["failing_input"])
    if isinstance(body.get("case"), dict) and "steps" in body["case"]:
        cases.append(body["case"])
    # timing dependent: each case is re-run several times (a replay file may ask for more with "repeat")
    cases = [dict(c) for c in cases for _ in range(int(body.get("repeat", 5)))]
    # a failure of the agent-level real-process part: that part (fixed cases) is run again
    again = any(isinstance(f.get("case"), dict) and f["case"].get("class") == "agentreal" for f in body.get("failures", []))
    return run_family(ctx, pid, replay_cases=cases, agent_again=again)
