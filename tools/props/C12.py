"""C12 - a finished step's log holds everything the step printed (DESIGN.md section 5, C12).

Correspondence: the Coq model `Log` (bufio.Writer Write/Flush/ReadFrom, MultiWriter, page-slotted pipe, setup / setupExec /
teardown with the `done` flag, attempts and stale teardowns) evaluated on byte-position codes against the files left by the
real scheduler running real `sh` children that print a position-dependent pattern.
Monitor (the property itself, independent of the model): the run ends; the file named by State.Log holds every stdout byte
of the last attempt in order and - unless `stderr:` is set - every stderr byte; the `stdout:` / `stderr:` files hold every
byte of the last attempt's stream.
The model and the check describe the REPAIRED code (8880f0d, f5eca82): F12a / F12b / F12c are fixed, no known finding is
left for this property; a case that would have been one of them is an ordinary violation now.
"""
import json
import os

import vlib
from vlib import clist, cbool
from props import paramslog_lib as pl

BUF = 4096


# ---- the case --------------------------------------------------------------------------------------------------
def sizes(c):
    so = c["size"] if c["emit"] in ("out", "both") else 0
    se = c["size"] if c["emit"] in ("err", "both") else 0
    return so, se


def n_attempts(c):
    return min(c["fails"], c["retries"]) + 1


def multi(c):
    return c["stdout"] or c["output"]


def log_flow(c):
    so, se = sizes(c)
    return so + (0 if c["stderr"] else se)


def runs(o, which):
    """Real runs of a file projection as [(attempt, start, len)]."""
    if not o or not o.get("exists"):
        return []
    return [(r["a"], r["s"], r["n"]) for r in (o.get("runs_" + which) or [])]


def has_full(rs, a, n):
    return n == 0 or any(ra == a and rs_ == 0 and rn == n for ra, rs_, rn in rs)


# ---- monitor ---------------------------------------------------------------------------------------------------
EXEC_STR = 131066     # longest value execve takes in OUTV=value (MAX_ARG_STRLEN 131072 incl. name, = and NUL)


def exec_limit(c):
    """After an attempt captured more than execve accepts in one environment string (Execute does os.Setenv) the next
    attempt of the step cannot be started (E2BIG); that attempt captures nothing, so the one after it starts again.
    Such cases are judged by simulating this alternation; they are outside the Log model."""
    return c["output"] and log_flow(c) > EXEC_STR and n_attempts(c) >= 2


def simulate_exec_limit(c):
    """-> (children run, last attempt ran?, index of the last child)"""
    rc, child, prev_ran, ran = 0, 0, False, False
    while True:
        if prev_ran:
            ran, failed = False, True            # E2BIG
        else:
            ran, failed = True, child < c["fails"]
            child += 1
        prev_ran = ran
        if failed and rc < c["retries"]:
            rc += 1
            continue
        return child, ran, child - 1


def classify(c, where):
    """Class of a property failure of case c (decidable from the configuration and the symptom)."""
    if where == "hang":
        return "hang"
    return "loss:" + where


def monitor(c):
    """None or (what, cls)."""
    if c.get("err"):
        return ("the run could not be made: %s" % c["err"], {"class": "harness"})
    base = {"stdout": c["stdout"], "stderr": c["stderr"], "output": c["output"], "retries>0": n_attempts(c) >= 2}
    if c.get("hang"):
        return ("the step never finishes (watchdog): output=%s, %d bytes towards the log" % (c["output"], log_flow(c)),
                dict(base, **{"class": classify(c, "hang")}))
    so, se = sizes(c)
    last = n_attempts(c) - 1
    if c.get("full"):
        # a redirect target whose writes fail (/dev/full): attempts may fail for that reason alone, so the last attempt is
        # the last one that ran; whatever happens to the redirect, the step's own log holds what that attempt printed
        lastf = (c.get("attempts") or 0) - 1
        lo, le = runs(c["log"], "out"), runs(c["log"], "err")
        if lastf < 0 or not has_full(lo, lastf, so) or (not c["stderr"] and not has_full(le, lastf, se)):
            return ("a redirect target that cannot be written (/dev/full as %s:): State.Log lacks bytes of the last attempt (%d): stdout runs %r "
                    "of %d, stderr runs %r of %d" % ("stdout" if c["full"] == 1 else "stderr", lastf, lo, so, le, 0 if c["stderr"] else se),
                    dict(base, **{"class": classify(c, "log-full-redirect")}))
        if c["full"] == 2 and c["stdout"] and not has_full(runs(c["out_file"], "out"), lastf, so):
            return ("stderr: is /dev/full and the stdout: file lacks bytes of the last attempt: runs %r of %d" % (runs(c["out_file"], "out"), so),
                    dict(base, **{"class": classify(c, "stdout-file")}))
        if c["full"] == 1 and c["stderr"] and not has_full(runs(c["err_file"], "err"), lastf, se):
            return ("stdout: is /dev/full and the stderr: file lacks bytes of the last attempt: runs %r of %d" % (runs(c["err_file"], "err"), se),
                    dict(base, **{"class": classify(c, "stderr-file")}))
        return None
    if exec_limit(c):
        nchild, ran, lastc = simulate_exec_limit(c)
        lo, le = runs(c["log"], "out"), runs(c["log"], "err")
        ok = c.get("attempts") == nchild
        if ran:
            ok = ok and has_full(lo, lastc, so) and (c["stderr"] or has_full(le, lastc, se))
        else:
            ok = ok and c["log"].get("len", 0) == 0
        if not ok:
            return ("with captures beyond the execve limit (every other attempt cannot start): child ran %s times (expected %d), State.Log "
                    "runs %r / %r, last attempt %s" % (c.get("attempts"), nchild, lo, le, "ran child %d" % lastc if ran else "could not start"),
                    dict(base, **{"class": "exec-limit"}))
        return None
    if c.get("attempts") != last + 1:
        return ("the child ran %s times, expected %d attempts" % (c.get("attempts"), last + 1), dict(base, **{"class": "attempts"}))
    lo, le = runs(c["log"], "out"), runs(c["log"], "err")
    if not has_full(lo, last, so) or (not c["stderr"] and not has_full(le, last, se)):
        return ("State.Log lacks bytes of the last attempt: stdout runs %r of %d, stderr runs %r of %d" % (lo, so, le, 0 if c["stderr"] else se),
                dict(base, **{"class": classify(c, "log")}))
    if c["stdout"] and not has_full(runs(c["out_file"], "out"), last, so):
        return ("the stdout: file lacks bytes of the last attempt: runs %r of %d" % (runs(c["out_file"], "out"), so),
                dict(base, **{"class": classify(c, "stdout-file")}))
    if c.get("same"):
        # stdout: and stderr: name one file (two descriptors): it must hold every stdout and every stderr byte
        if not has_full(runs(c["out_file"], "err"), last, se):
            return ("stdout: and stderr: name the same file and it lacks stderr bytes of the last attempt: stdout runs %r of %d, stderr runs %r of %d"
                    % (runs(c["out_file"], "out"), so, runs(c["out_file"], "err"), se), dict(base, **{"class": classify(c, "same-file")}))
        return None
    if c["stderr"] and not has_full(runs(c["err_file"], "err"), last, se):
        return ("the stderr: file lacks bytes of the last attempt: runs %r of %d" % (runs(c["err_file"], "err"), se),
                dict(base, **{"class": classify(c, "stderr-file")}))
    return None


# ---- model side ------------------------------------------------------------------------------------------------
HEADER = ("From Coq Require Import List Bool Arith NArith.\nImport ListNotations.\n"
          "From BD.Log Require Import Model Check.\n")


def model_blk(c):
    b = c["blk"] if c["blk"] > 0 else max(c["size"], 1)
    if c["size"] > 131072:
        # how a large stream is chunked is not observable (and, by C12_complete_partial, irrelevant where nothing is
        # lost); many small chunks only make the evaluation quadratic (file ++ chunk)
        return max(32768, c["size"] // 4)
    return max(1, min(b, 32768))


def coq_case(c):
    so, se = sizes(c)
    na = n_attempts(c)
    return "(%s, %s, %s, %s, N.to_nat %d%%N, %s)" % (
        cbool(c["stdout"]), cbool(c["stderr"]), cbool(c["output"]), cbool(c["script"]), model_blk(c),
        clist(["(%d, %d)%%N" % (so, se)] * na))


def parse_rows(out):
    """rows printed by Coq as tuples of primitive integers (hexadecimal)"""
    import re
    flat = re.sub(r"\s+", " ", out)
    m = re.search(r"\bM\s*=\s*\[(.*?)\]\s*:", flat)
    if not m:
        return None
    rows = []
    for tup in re.findall(r"\(([^()]*)\)", m.group(1)):
        nums = [int(x, 16) for x in re.findall(r"0x([0-9a-fA-F]+)%uint63", tup)]
        if len(nums) == 4:
            rows.append(tuple(nums))
    return rows


def decode_rows(rows, n):
    """rows (case, kind, a, b) -> per case {kind: [(attempt, stream, pos, len)]}"""
    out = [{0: [], 1: [], 2: [], 4: []} for _ in range(n)]
    for k, kind, a, b in rows:
        out[k][kind].append((a >> 41, (a >> 40) & 1, a & ((1 << 40) - 1), b))
    return out


def project(segs, stream):
    """Model runs of one stream, merged when contiguous."""
    res = []
    for a, s, p, n in segs:
        if s != stream or n == 0:
            continue
        if res and res[-1][0] == a and res[-1][1] + res[-1][2] == p:
            res[-1] = (a, res[-1][1], res[-1][2] + n)
        else:
            res.append((a, p, n))
    return res


def eval_model(ctx, variants):
    """variants: list of cases -> list of decoded predictions (or None)."""
    # heavy cases (megabyte streams) are spread over the shards
    order = sorted(enumerate(variants), key=lambda t: -(t[1]["size"] * n_attempts(t[1])))
    nsh = max(1, min(14, (len(order) + 7) // 8))
    shards = [order[i::nsh] for i in range(nsh)]

    def ev(t):
        idx, sh = t
        terms = [coq_case(c) for _, c in sh]
        rc, out, dt = vlib.coq_eval(ctx.scratch, "c12_cases_%d_%d" % (id(variants) % 9973, idx),
                                    HEADER + "Definition cases : list lcase := [\n%s\n].\nDefinition M := Eval vm_compute in eval_cases cases.\nPrint M.\n"
                                    % ";\n".join(terms), timeout=900)
        if rc != 0:
            return None, out[-1500:]
        return parse_rows(out), None
    res = [None] * len(variants)
    import time as _t
    t0 = _t.time()
    results = pl.run_parallel(ev, list(enumerate(shards)), workers=14)
    ctx.cov["model_eval_s"] = round(ctx.cov.get("model_eval_s", 0) + _t.time() - t0, 1)
    for sh, (rows, err) in zip(shards, results):
        if rows is None:
            ctx.fail("correspondence", "the model could not be evaluated on a shard of cases (coqc failed)", {"log": err})
            continue
        dec = decode_rows(rows, len(sh))
        for (gi, _), d in zip(sh, dec):
            res[gi] = d
    return res


def cmp_file(c, pred_segs, obs, sink):
    """Compare the model's prediction for one file with the observation; returns None or a text."""
    for stream, which in ((0, "out"), (1, "err")):
        mr = project(pred_segs, stream)
        rr = runs(obs, which)
        if mr != rr:
            return "%s, %s bytes: model %r, implementation %r" % (sink, which, mr, rr)
    return None


def compare(c, pred):
    if pred is None:
        return "no prediction"
    if c.get("hang"):
        return "the model always finishes, the implementation hangs"
    r = cmp_file(c, pred[0], c["log"], "State.Log")
    if r:
        return r
    if c["stdout"]:
        r = cmp_file(c, pred[1], c["out_file"], "stdout: file")
        if r:
            return r
    elif c["out_file"].get("exists"):
        return "a stdout: file exists though none is configured"
    if c["stderr"]:
        r = cmp_file(c, pred[2], c["err_file"], "stderr: file")
        if r:
            return r
    if c["output"] and c.get("out_var") is not None:
        r = cmp_file(c, pred[4], c["out_var"], "captured output")
        if r:
            return r
    return None


def model_check(ctx, cases):
    """Returns list of (case, what)."""
    todo = [c for c in cases if not c.get("err") and not exec_limit(c) and not c.get("same") and not c.get("full")]
    ctx.cov["not_modelled_failing_redirect"] = sum(1 for c in cases if c.get("full"))   # monitor + theorem C12_teardown_flushes_log
    ctx.cov["not_compared_exec_limit"] = sum(1 for c in cases if exec_limit(c))
    ctx.cov["not_modelled_same_file"] = sum(1 for c in cases if c.get("same"))   # judged by the monitor only
    preds = eval_model(ctx, todo)
    bad = []
    for c, p in zip(todo, preds):
        r = compare(c, p)
        if r is not None:
            bad.append((c, r))
    return bad


# ---- shrinking -------------------------------------------------------------------------------------------------
IN_KEYS = ("stream", "stdout", "stderr", "output", "script", "retries", "fails", "emit", "size", "blk", "slowdone", "done", "handler", "same", "full")


def inputs(c):
    return {k: c[k] for k in IN_KEYS}


def candidates(c):
    out = []
    b = inputs(c)
    for k in ("stdout", "stderr", "output", "script"):
        if b[k]:
            out.append(dict(b, **{k: False}))
    if b["retries"] > 0:
        out.append(dict(b, retries=b["retries"] - 1, fails=max(0, b["fails"] - 1)))
    if b["fails"] > b["retries"]:
        out.append(dict(b, fails=b["retries"]))
    if b["emit"] == "both":
        out += [dict(b, emit="out"), dict(b, emit="err")]
    for s in (0, 1, b["size"] // 2, b["size"] - 1):
        if 0 <= s < b["size"]:
            out.append(dict(b, size=s))
    if b["blk"] != 0:
        out.append(dict(b, blk=0))
    if b.get("done"):
        out.append(dict(b, done=0))
    if b.get("slowdone"):
        out.append(dict(b, slowdone=0))
    if b.get("same") == 2:
        out.append(dict(b, same=1))
    if b.get("full") and b["size"] > 1:
        out.append(dict(b, size=1))
    return out


def slim(c):
    d = {k: v for k, v in c.items() if k not in ("other_logs", "ms")}
    for f in ("log", "out_file", "err_file", "out_var"):
        if isinstance(d.get(f), dict):
            d[f] = {k: v for k, v in d[f].items() if k in ("exists", "len", "n_out", "n_err", "runs_out", "runs_err")}
    return d


def judge(ctx, tool, cases):
    nshr = 0
    for c in cases:
        m = monitor(c)
        if m is None:
            continue
        what, cls = m
        if ctx.match_known(cls, "monitor") is None and nshr < 2:
            nshr += 1
            want = cls.get("class")
            try:
                c2 = pl.greedy_shrink(tool, ctx, c, candidates,
                                      lambda x: (monitor(x) or (None, {}))[1].get("class") == want, rounds=12)
                m2 = monitor(c2)
                if m2:
                    c, (what, cls) = c2, m2
            except Exception:
                pass
        ctx.fail("monitor", what, slim(c), cls=cls)


def run(ctx, replay_cases=None):
    ctx.proofs(extra=["Log/Check.vo"])
    tool, out, _ = vlib.go_build("logs", ctx.scratch)
    if tool is None:
        ctx.fail("correspondence", "harness does not build against /repo", {"log": out[-2000:]})
        return ctx.finish()
    cases = []
    if replay_cases is None:
        corpus = os.path.join(vlib.VERIF, "corpus", "C12.jsonl")
        if os.path.exists(corpus):
            cases += pl.replay_cases(tool, ctx, vlib.read_jsonl(corpus), tag="corpus")
        p = os.path.join(ctx.scratch, "logs.jsonl")
        rc, out, dt = vlib.run_tool(tool, [p, ctx.tier], env_extra={"VERIF_SEED": str(ctx.seed)}, timeout=3400)
        if rc != 0:
            ctx.fail("correspondence", "logs driver failed", {"log": out[-2000:]})
            return ctx.finish()
        cases += vlib.read_jsonl(p)
        ctx.cov["driver_s"] = round(dt, 1)
    else:
        cases = replay_cases
    for c in cases:
        c.setdefault("done", 0)
        c.setdefault("handler", "")
        c.setdefault("same", 0)
        c.setdefault("full", 0)
    bad = model_check(ctx, cases)
    judge(ctx, tool, cases)
    for c, what in bad:
        ctx.fail("correspondence", "model and implementation differ: " + what, slim(c), cls={"class": "correspondence"})
    # evidence
    seen = set()
    hist = {"wiring": {}, "retries": {}, "emit": {}, "size": {}, "final": {}, "stream": {}, "done_channel": {}, "node": {}}
    for c in cases:
        if c["size"] > 0:
            seen.add(json.dumps(inputs(c), sort_keys=True))
        w = "+".join(k for k in ("stdout", "stderr", "output", "script") if c[k]) or "log-only"
        for k, v in (("wiring", w), ("retries", c["retries"]), ("emit", c["emit"]), ("size", c["size"] if c["stream"] == "matrix" else "random"),
                     ("final", "hang" if c.get("hang") else c.get("node_status")), ("stream", c["stream"]),
                     ("done_channel", "slow reader" if c.get("slowdone") else "prompt reader" if c.get("done") else "none"),
                     ("node", ("handler on" + c["handler"] + (" exit 1" if c["fails"] else " exit 0")) if c.get("handler") else "step")):
            hist[k][str(v)] = hist[k].get(str(v), 0) + 1
    ctx.cov["evaluations"] = len(cases)
    ctx.cov["traces_validated_against_impl"] = len(cases)
    ctx.cov["distinct_nontrivial"] = len(seen)
    ctx.cov["rule"] = ("one case = one real scheduler run of one step (or one lifecycle handler) with real sh children; distinct = distinct (stdout, stderr, output, script, "
                       "retry limit, failing attempts, streams, size, block size, done-reader delay); non-trivial = the step prints at least one byte")
    ctx.cov["distribution"] = hist
    ctx.cov["bytes_compared"] = sum((c["log"].get("len", 0) + c["out_file"].get("len", 0) + c["err_file"].get("len", 0)) for c in cases if not c.get("err"))
    for c in [x for x in cases if x["retries"] > 0 and x["stdout"]][:1] + [x for x in cases if x["size"] >= 65536 and not x["output"]][:1]:
        ctx.sample(slim(c))
    ctx.cov["trusted_base"] += [
        "re-implemented library / OS semantics: bufio.Writer (4096) Write/Flush/ReadFrom, io.MultiWriter, io.Copy chunking (<= 32 KiB), "
        "exec.Cmd sharing one pipe for identical Stdout/Stderr, bytes.Buffer",
        "log file names of successive attempts differ (start times in different milliseconds)",
        "after a write error on a closed file the model drops the rest of the stream (what exec.Cmd does next is not modelled)",
    ]
    ctx.assumptions = ["C12_complete: none beyond at least one attempt (every configuration, number of retries, chunking, size)",
                       "`stdout:` and `stderr:` naming one file (two descriptors on one path) is outside the Log model: judged by the monitor only",
                       "a redirect target whose writes fail (/dev/full) is judged by the monitor; in the model a failing descriptor is one that rejects "
                       "writes, and C12_teardown_flushes_log shows the log writer is flushed whatever the other writers' state",
                       "after a capture beyond the execve limit (131067 bytes) later attempts of the same step cannot be started (E2BIG) and "
                       "print nothing: those cases are judged as such and not compared with the model"]
    if ctx.tier == "thorough":
        ctx.coqchk()

    def search():
        p2 = os.path.join(ctx.scratch, "logs-search.jsonl")
        rc2, _, _ = vlib.run_tool(tool, [p2, "quick"], env_extra={"VERIF_SEED": str(ctx.seed + 104729)}, timeout=1500)
        if rc2 != 0:
            return None
        for c in vlib.read_jsonl(p2):
            m = monitor(c)
            if m and ctx.match_known(m[1], "monitor") is None:
                return {"case": slim(c), "what": m[0]}
        return None
    return ctx.finish(search=search)


def replay(ctx, path):
    body = json.load(open(path))
    cases = [f["case"] for f in body.get("failures", []) if isinstance(f.get("case"), dict) and "emit" in f["case"]]
    fi = body.get("failing_input")
    if isinstance(fi, dict):
        cases.append(fi.get("case", fi))
    if isinstance(body.get("case"), dict):
        cases.append(body["case"])
    cases = [inputs(dict({"done": 0, "handler": "", "same": 0, "full": 0}, **c)) for c in cases
             if isinstance(c, dict) and all(k in c for k in IN_KEYS if k not in ("done", "handler", "same", "full"))]
    tool, out, _ = vlib.go_build("logs", ctx.scratch)
    if tool is None:
        ctx.fail("correspondence", "harness does not build against /repo", {"log": out[-2000:]})
        return ctx.finish()
    return run(ctx, replay_cases=pl.replay_cases(tool, ctx, cases, tag="replay"))
