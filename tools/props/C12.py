"""C12 - a finished step's log holds everything the step printed (DESIGN.md section 5, C12).

Correspondence: the Coq model `Log` (bufio.Writer Write/Flush/ReadFrom, MultiWriter, page-slotted pipe, setup / setupExec /
teardown with the `done` flag, attempts and stale teardowns) evaluated on byte-position codes against the files left by the
real scheduler running real `sh` children that print a position-dependent pattern.
Monitor (the property itself, independent of the model): the run ends; the file named by State.Log holds every stdout byte
of the last attempt in order and - unless `stderr:` is set - every stderr byte; the `stdout:` / `stderr:` files hold every
byte of the last attempt's stream.
Known findings (narrow classes): F12a retry-multi-unflushed, F12b retry-stale-teardown, F12c output-exceeds-pipe.
"""
import json
import os

import vlib
from vlib import clist, cbool
from props import paramslog_lib as pl

BUF = 4096
HALF = 32768
PIPE = 65536


# ---- the case --------------------------------------------------------------------------------------------------
def sizes(c):
    so = c["size"] if c["emit"] in ("out", "both") else 0
    se = c["size"] if c["emit"] in ("err", "both") else 0
    return so, se


def n_attempts(c):
    return min(c["fails"], c["retries"]) + 1


def multi(c):
    return c["stdout"] or c["output"]


def log_flow(c):
    so, se = sizes(c)
    return so + (0 if c["stderr"] else se)


def runs(o, which):
    """Real runs of a file projection as [(attempt, start, len)]."""
    if not o or not o.get("exists"):
        return []
    return [(r["a"], r["s"], r["n"]) for r in (o.get("runs_" + which) or [])]


def has_full(rs, a, n):
    return n == 0 or any(ra == a and rs_ == 0 and rn == n for ra, rs_, rn in rs)


# ---- monitor ---------------------------------------------------------------------------------------------------
def classify(c, where):
    """Class of a property failure of case c (decidable from the configuration and the symptom)."""
    na = n_attempts(c)
    if where == "hang":
        if c["output"] and log_flow(c) > HALF:
            return "output-exceeds-pipe"
        return "hang"
    if c["stream"] == "slowdone" and na >= 2:
        return "retry-stale-teardown"
    if na >= 2 and multi(c) and where in ("log", "stdout-file"):
        return "retry-multi-unflushed"
    return "loss:" + where


def script_lost(c):
    """An attempt of a `script:` step did not get to run its child: teardown removes Node.scriptFile, which after a
    retry is the NEXT attempt's script when the stale worker is late (F12b)."""
    return (c["script"] and n_attempts(c) >= 2 and not c.get("hang") and not c.get("err")
            and 0 < (c.get("attempts") or 0) < n_attempts(c))


def monitor(c):
    """None or (what, cls)."""
    if c.get("err"):
        return ("the run could not be made: %s" % c["err"], {"class": "harness"})
    base = {"stdout": c["stdout"], "stderr": c["stderr"], "output": c["output"], "retries>0": n_attempts(c) >= 2}
    if c.get("hang"):
        return ("the step never finishes (watchdog 5 s): output=%s, %d bytes towards the capture pipe" % (c["output"], log_flow(c)),
                dict(base, **{"class": classify(c, "hang")}))
    so, se = sizes(c)
    last = n_attempts(c) - 1
    if c.get("attempts") != last + 1:
        cl = "attempts"
        if script_lost(c):
            cl = "retry-stale-teardown"   # the stale teardown removed the script file of the attempt that followed
        return ("the child ran %s times, expected %d attempts" % (c.get("attempts"), last + 1), dict(base, **{"class": cl}))
    lo, le = runs(c["log"], "out"), runs(c["log"], "err")
    if not has_full(lo, last, so) or (not c["stderr"] and not has_full(le, last, se)):
        return ("State.Log lacks bytes of the last attempt: stdout runs %r of %d, stderr runs %r of %d" % (lo, so, le, 0 if c["stderr"] else se),
                dict(base, **{"class": classify(c, "log")}))
    if c["stdout"] and not has_full(runs(c["out_file"], "out"), last, so):
        return ("the stdout: file lacks bytes of the last attempt: runs %r of %d" % (runs(c["out_file"], "out"), so),
                dict(base, **{"class": classify(c, "stdout-file")}))
    if c["stderr"] and not has_full(runs(c["err_file"], "err"), last, se):
        return ("the stderr: file lacks bytes of the last attempt: runs %r of %d" % (runs(c["err_file"], "err"), se),
                dict(base, **{"class": classify(c, "stderr-file")}))
    return None


# ---- model side ------------------------------------------------------------------------------------------------
HEADER = ("From Coq Require Import List Bool Arith NArith.\nImport ListNotations.\n"
          "From BD.Log Require Import Model Check.\n")


def model_blk(c, aligned=False):
    if aligned:
        return 32768
    b = c["blk"] if c["blk"] > 0 else max(c["size"], 1)
    if c["size"] > 131072:
        # how a large stream is chunked is not observable (and, by C12_complete_partial, irrelevant where nothing is
        # lost); many small chunks only make the evaluation quadratic (file ++ chunk)
        return max(32768, c["size"] // 4)
    return max(1, min(b, 32768))


def coq_case(c, lates, aligned=False):
    so, se = sizes(c)
    na = n_attempts(c)
    return "(%s, %s, %s, %s, N.to_nat %d%%N, %s, %s)" % (
        cbool(c["stdout"]), cbool(c["stderr"]), cbool(c["output"]), cbool(c["script"]), model_blk(c, aligned),
        clist(["(%d, %d)%%N" % (so, se)] * na), clist(["N.to_nat %d%%N" % d for d in lates]))


def parse_rows(out):
    """rows printed by Coq as tuples of primitive integers (hexadecimal)"""
    import re
    flat = re.sub(r"\s+", " ", out)
    m = re.search(r"\bM\s*=\s*\[(.*?)\]\s*:", flat)
    if not m:
        return None
    rows = []
    for tup in re.findall(r"\(([^()]*)\)", m.group(1)):
        nums = [int(x, 16) for x in re.findall(r"0x([0-9a-fA-F]+)%uint63", tup)]
        if len(nums) == 4:
            rows.append(tuple(nums))
    return rows


def decode_rows(rows, n):
    """rows (case, kind, a, b) -> per case {kind: [(attempt, stream, pos, len)] , 'blocked': bool}"""
    out = [{"blocked": False, 0: [], 1: [], 2: [], 4: []} for _ in range(n)]
    for k, kind, a, b in rows:
        if kind == 3:
            out[k]["blocked"] = (a == 1)
        else:
            out[k][kind].append((a >> 41, (a >> 40) & 1, a & ((1 << 40) - 1), b))
    return out


def project(segs, stream):
    """Model runs of one stream, merged when contiguous."""
    res = []
    for a, s, p, n in segs:
        if s != stream or n == 0:
            continue
        if res and res[-1][0] == a and res[-1][1] + res[-1][2] == p:
            res[-1] = (a, res[-1][1], res[-1][2] + n)
        else:
            res.append((a, p, n))
    return res


def eval_model(ctx, variants):
    """variants: list of (case, lates, aligned) -> list of decoded predictions (or None)."""
    # heavy cases (megabyte streams) are spread over the shards
    order = sorted(enumerate(variants), key=lambda t: -(t[1][0]["size"] * n_attempts(t[1][0])))
    nsh = max(1, min(14, (len(order) + 7) // 8))
    shards = [order[i::nsh] for i in range(nsh)]

    def ev(t):
        idx, sh = t
        terms = [coq_case(c, lates, al) for _, (c, lates, al) in sh]
        rc, out, dt = vlib.coq_eval(ctx.scratch, "c12_cases_%d_%d" % (id(variants) % 9973, idx),
                                    HEADER + "Definition cases : list lcase := [\n%s\n].\nDefinition M := Eval vm_compute in eval_cases cases.\nPrint M.\n"
                                    % ";\n".join(terms), timeout=900)
        if rc != 0:
            return None, out[-1500:]
        return parse_rows(out), None
    res = [None] * len(variants)
    import time as _t
    t0 = _t.time()
    results = pl.run_parallel(ev, list(enumerate(shards)), workers=14)
    ctx.cov["model_eval_s"] = round(ctx.cov.get("model_eval_s", 0) + _t.time() - t0, 1)
    for sh, (rows, err) in zip(shards, results):
        if rows is None:
            ctx.fail("correspondence", "the model could not be evaluated on a shard of cases (coqc failed)", {"log": err})
            continue
        dec = decode_rows(rows, len(sh))
        for (gi, _), d in zip(sh, dec):
            res[gi] = d
    return res


def cmp_file(c, pred_segs, obs, sink, tolerant):
    """Compare the model's prediction for one file with the observation; returns None or a text."""
    so, se = sizes(c)
    for stream, which, full in ((0, "out", so), (1, "err", se)):
        mr = project(pred_segs, stream)
        rr = runs(obs, which)
        if mr == rr:
            continue
        if not tolerant:
            return "%s, %s bytes: model %r, implementation %r" % (sink, which, mr, rr)
        # unflushed attempts (k >= 1, MultiWriter wiring): how much of the tail is lost depends on how the copying
        # goroutine happened to chunk the stream; the model bounds the loss by one buffer (4096 bytes)
        md = {a: (s, n) for a, s, n in mr}
        rd = {a: (s, n) for a, s, n in rr}
        if len(md) != len(mr) or len(rd) != len(rr):
            return "%s, %s bytes: repeated attempt in %r / %r" % (sink, which, mr, rr)
        for a in set(md) | set(rd):
            ms, mn = md.get(a, (0, 0))
            rs_, rn = rd.get(a, (0, 0))
            if (ms, mn) == (rs_, rn):
                continue
            if a == 0 or a < 0 or rs_ != 0 or ms != 0:
                return "%s, %s bytes, attempt %d: model %r, implementation %r" % (sink, which, a, md.get(a), rd.get(a))
            if log_flow(c) < BUF:
                return "%s, %s bytes, attempt %d (flow < 4096, nothing can reach the file): model %r, implementation %r" % (sink, which, a, md.get(a), rd.get(a))
            if not (max(0, full - BUF) <= rn <= full):
                return "%s, %s bytes, attempt %d: implementation kept %d of %d bytes, the model bounds the loss by 4096" % (sink, which, a, rn, full)
    return None


def compare(c, pred, tolerant):
    if pred is None:
        return "no prediction"
    if pred["blocked"] != bool(c.get("hang")):
        return "model %s, implementation %s" % ("blocks on the capture pipe" if pred["blocked"] else "finishes", "hangs" if c.get("hang") else "finishes")
    if c.get("hang"):
        return None
    r = cmp_file(c, pred[0], c["log"], "State.Log", tolerant)
    if r:
        return r
    if c["stdout"]:
        r = cmp_file(c, pred[1], c["out_file"], "stdout: file", tolerant)
        if r:
            return r
    elif c["out_file"].get("exists"):
        return "a stdout: file exists though none is configured"
    if c["stderr"]:
        r = cmp_file(c, pred[2], c["err_file"], "stderr: file", False)
        if r:
            return r
    if c["output"] and c.get("out_var") is not None:
        r = cmp_file(c, pred[4], c["out_var"], "captured output", False)
        if r:
            return r
    return None


def late_candidates(c):
    """Where the stale teardown of attempt 0 may land among the actions of attempt 1 (retries = 1)."""
    so, se = sizes(c)
    blk = model_blk(c)
    nch = (so + blk - 1) // blk + (se + blk - 1) // blk
    return [0, 1, 2] + sorted(set([2 + max(1, nch // 2), 2 + nch])) + [3 + nch, 10 ** 6]


def model_check(ctx, cases):
    """Returns list of (case, what)."""
    variants, owner = [], []
    for i, c in enumerate(cases):
        if c.get("err"):
            continue
        if script_lost(c):
            # the child indices no longer line up with the attempts; the script file is not part of the model
            c["_stale"] = True
            ctx.cov["script_removed_by_stale_teardown"] = ctx.cov.get("script_removed_by_stale_teardown", 0) + 1
            continue
        na = n_attempts(c)
        variants.append((c, [0] * (na - 1), False))
        owner.append(i)
        if c["output"] and HALF < log_flow(c) <= PIPE:
            variants.append((c, [0] * (na - 1), True))       # page-aligned chunks: the other possible verdict
            owner.append(i)
    preds = eval_model(ctx, variants)
    by_case = {}
    for i, p in zip(owner, preds):
        by_case.setdefault(i, []).append(p)
    bad, second = [], []
    for i, ps in by_case.items():
        c = cases[i]
        tol = n_attempts(c) >= 2 and multi(c)
        if c.get("hang") and c["output"] and HALF < log_flow(c) <= PIPE:
            # between half a pipe and a full pipe the copy blocks or not depending on how the stream happens to be
            # chunked (pipe slots are pages): both verdicts are executions of the model
            ctx.cov["pipe_window_hangs"] = ctx.cov.get("pipe_window_hangs", 0) + 1
            continue
        rs = [compare(c, p, tol) for p in ps]
        if any(r is None for r in rs):
            continue
        if n_attempts(c) >= 2 and not c.get("hang"):
            second.append((i, rs[0]))     # maybe a stale teardown (F12b): look for an interleaving that explains it
        else:
            bad.append((c, rs[0]))
    ctx.cov["stale_teardown_explained"] = 0
    if second:
        v2, o2 = [], []
        for i, _ in second:
            c = cases[i]
            na = n_attempts(c)
            for d in late_candidates(c):
                v2.append((c, [d] + [0] * (na - 2), False))
                o2.append(i)
        p2 = eval_model(ctx, v2)
        expl = {}
        for i, p in zip(o2, p2):
            if compare(cases[i], p, True) is None:
                expl[i] = True
        for i, r in second:
            c = cases[i]
            if expl.get(i):
                ctx.cov["stale_teardown_explained"] += 1
                c["_stale"] = True
            elif c["stream"] == "slowdone" and prefix_only(c):
                # the teardown landed inside the copy loop: how far the copy got is a matter of timing
                ctx.cov["stale_teardown_loose"] = ctx.cov.get("stale_teardown_loose", 0) + 1
                c["_stale"] = True
            else:
                bad.append((c, r))
    return bad


def prefix_only(c):
    last = n_attempts(c) - 1
    for o in (c["log"], c["out_file"], c["err_file"]):
        for which in ("out", "err"):
            for a, s, n in runs(o, which):
                if a < 0 or s != 0:
                    return False
    return all(a == last for a, s, n in runs(c["log"], "out") + runs(c["log"], "err"))


# ---- shrinking -------------------------------------------------------------------------------------------------
IN_KEYS = ("stream", "stdout", "stderr", "output", "script", "retries", "fails", "emit", "size", "blk", "slowdone")


def inputs(c):
    return {k: c[k] for k in IN_KEYS}


def candidates(c):
    out = []
    b = inputs(c)
    for k in ("stdout", "stderr", "output", "script"):
        if b[k]:
            out.append(dict(b, **{k: False}))
    if b["retries"] > 0:
        out.append(dict(b, retries=b["retries"] - 1, fails=max(0, b["fails"] - 1)))
    if b["fails"] > b["retries"]:
        out.append(dict(b, fails=b["retries"]))
    if b["emit"] == "both":
        out += [dict(b, emit="out"), dict(b, emit="err")]
    for s in (0, 1, b["size"] // 2, b["size"] - 1):
        if 0 <= s < b["size"]:
            out.append(dict(b, size=s))
    if b["blk"] != 0:
        out.append(dict(b, blk=0))
    return out


def slim(c):
    d = {k: v for k, v in c.items() if k not in ("other_logs", "ms", "_stale")}
    for f in ("log", "out_file", "err_file", "out_var"):
        if isinstance(d.get(f), dict):
            d[f] = {k: v for k, v in d[f].items() if k in ("exists", "len", "n_out", "n_err", "runs_out", "runs_err")}
    return d


def judge(ctx, tool, cases):
    nshr = 0
    for c in cases:
        m = monitor(c)
        if m is None:
            continue
        what, cls = m
        if ctx.match_known(cls, "monitor") is None and nshr < 2:
            nshr += 1
            want = cls.get("class")
            try:
                c2 = pl.greedy_shrink(tool, ctx, c, candidates,
                                      lambda x: (monitor(x) or (None, {}))[1].get("class") == want, rounds=12)
                m2 = monitor(c2)
                if m2:
                    c, (what, cls) = c2, m2
            except Exception:
                pass
        ctx.fail("monitor", what, slim(c), cls=cls)


def run(ctx, replay_cases=None):
    ctx.proofs(extra=["Log/Check.vo"])
    tool, out, _ = vlib.go_build("logs", ctx.scratch)
    if tool is None:
        ctx.fail("correspondence", "harness does not build against /repo", {"log": out[-2000:]})
        return ctx.finish()
    cases = []
    if replay_cases is None:
        corpus = os.path.join(vlib.VERIF, "corpus", "C12.jsonl")
        if os.path.exists(corpus):
            cases += pl.replay_cases(tool, ctx, vlib.read_jsonl(corpus), tag="corpus")
        p = os.path.join(ctx.scratch, "logs.jsonl")
        rc, out, dt = vlib.run_tool(tool, [p, ctx.tier], env_extra={"VERIF_SEED": str(ctx.seed)}, timeout=3400)
        if rc != 0:
            ctx.fail("correspondence", "logs driver failed", {"log": out[-2000:]})
            return ctx.finish()
        cases += vlib.read_jsonl(p)
        ctx.cov["driver_s"] = round(dt, 1)
    else:
        cases = replay_cases
    bad = model_check(ctx, cases)
    # a spontaneous stale teardown (the race exists without a slow reader too) is the same finding
    for c in cases:
        if c.get("_stale") and c["stream"] != "slowdone":
            c["stream"] = "slowdone"
    judge(ctx, tool, cases)
    for c, what in bad:
        ctx.fail("correspondence", "model and implementation differ: " + what, slim(c), cls={"class": "correspondence"})
    # evidence
    seen = set()
    hist = {"wiring": {}, "retries": {}, "emit": {}, "size": {}, "final": {}, "stream": {}}
    for c in cases:
        if c["size"] > 0:
            seen.add(json.dumps(inputs(c), sort_keys=True))
        w = "+".join(k for k in ("stdout", "stderr", "output", "script") if c[k]) or "log-only"
        for k, v in (("wiring", w), ("retries", c["retries"]), ("emit", c["emit"]), ("size", c["size"] if c["stream"] == "matrix" else "random"),
                     ("final", "hang" if c.get("hang") else c.get("node_status")), ("stream", c["stream"])):
            hist[k][str(v)] = hist[k].get(str(v), 0) + 1
    ctx.cov["evaluations"] = len(cases)
    ctx.cov["traces_validated_against_impl"] = len(cases)
    ctx.cov["distinct_nontrivial"] = len(seen)
    ctx.cov["rule"] = ("one case = one real scheduler run of one step with real sh children; distinct = distinct (stdout, stderr, output, script, "
                       "retry limit, failing attempts, streams, size, block size, done-reader delay); non-trivial = the step prints at least one byte")
    ctx.cov["distribution"] = hist
    ctx.cov["bytes_compared"] = sum((c["log"].get("len", 0) + c["out_file"].get("len", 0) + c["err_file"].get("len", 0)) for c in cases if not c.get("err"))
    for c in [x for x in cases if x["retries"] > 0 and x["stdout"]][:1] + [x for x in cases if x["size"] >= 65536 and not x["output"]][:1]:
        ctx.sample(slim(c))
    ctx.cov["trusted_base"] += [
        "re-implemented library / OS semantics: bufio.Writer (4096) Write/Flush/ReadFrom, io.MultiWriter, io.Copy chunking (<= 32 KiB), "
        "exec.Cmd sharing one pipe for identical Stdout/Stderr, Linux pipe (16 page slots, sub-page merge rule of pipe_write)",
        "log file names of successive attempts differ (start times in different milliseconds)",
        "after a write error on a closed file the model drops the rest of the stream (what exec.Cmd does next is not modelled)",
    ]
    ctx.assumptions = ["C12_complete_partial: one attempt (no retry happened) and (output unset or at most 32768 bytes towards the capture pipe)",
                       "C12_complete_retry_direct_partial: any number of attempts, but neither `stdout:` nor `output:` configured and every stale "
                       "worker tears down before the next attempt is set up",
                       "C12_capture_partial: output set, one attempt, at most 32768 bytes"]
    if ctx.tier == "thorough":
        ctx.coqchk()

    def search():
        p2 = os.path.join(ctx.scratch, "logs-search.jsonl")
        rc2, _, _ = vlib.run_tool(tool, [p2, "quick"], env_extra={"VERIF_SEED": str(ctx.seed + 104729)}, timeout=1500)
        if rc2 != 0:
            return None
        for c in vlib.read_jsonl(p2):
            m = monitor(c)
            if m and ctx.match_known(m[1], "monitor") is None:
                return {"case": slim(c), "what": m[0]}
        return None
    return ctx.finish(search=search)


def replay(ctx, path):
    body = json.load(open(path))
    cases = [f["case"] for f in body.get("failures", []) if isinstance(f.get("case"), dict) and "emit" in f["case"]]
    fi = body.get("failing_input")
    if isinstance(fi, dict):
        cases.append(fi.get("case", fi))
    if isinstance(body.get("case"), dict):
        cases.append(body["case"])
    cases = [inputs(c) for c in cases if isinstance(c, dict) and all(k in c for k in IN_KEYS)]
    tool, out, _ = vlib.go_build("logs", ctx.scratch)
    if tool is None:
        ctx.fail("correspondence", "harness does not build against /repo", {"log": out[-2000:]})
        return ctx.finish()
    return run(ctx, replay_cases=pl.replay_cases(tool, ctx, cases, tag="replay"))
