"""C06 - history queries return exactly what was recorded, per DAG (DESIGN.md section 5, C06).

proof:          coq/Props/C06.v (refinement of the string-level model of jsondb to a run map, Hist/Proofs*.v)
correspondence: seeded operation histories on the real jsondb (harness/cmd/hist) replayed on the Coq model
                (Hist/Check.v, vm_compute; thorough tier additionally through the extracted OCaml model)
monitor:        the abstract specification (run map) evaluated in python on the implementation's answers
                (hist_lib.Monitor): find / latest (today) / recent n / isolation / retention."""
import json
import os
import subprocess
from concurrent.futures import ThreadPoolExecutor

import vlib
from props import hist_lib as HL

QUICK_N = 160
QUICK_OPS = 40


ZONES = ["Asia/Tokyo", "America/Los_Angeles"]


def gen_histories(ctx, tool, n, maxops, procs=8, env=None, base=0, tag="hist"):
    """runs the driver in `procs` processes over disjoint index ranges; returns the executed histories"""
    per = (n + procs - 1) // procs
    jobs = []
    for i in range(procs):
        first = base + i * per
        cnt = min(per, n - i * per)
        if cnt <= 0:
            break
        jobs.append((os.path.join(ctx.scratch, "%s-%d.jsonl" % (tag, i)), first, cnt))

    def one(j):
        p, first, cnt = j
        e = {"VERIF_SEED": str(ctx.seed)}
        e.update(env or {})
        return vlib.run_tool(tool, [p, "gen", cnt, maxops, first], env_extra=e, timeout=3000)
    with ThreadPoolExecutor(max_workers=procs) as ex:
        res = list(ex.map(one, jobs))
    hs = []
    for (p, _, _), (rc, out, dt) in zip(jobs, res):
        if rc != 0:
            ctx.fail("correspondence", "history driver failed", {"log": out[-2000:]})
            continue
        hs += vlib.read_jsonl(p)
    for h in hs:
        h.setdefault("steps", [])
    return hs


def execute(ctx, tool, inputs, tag="replay"):
    """executes histories given in input form (names + ops) on the current tree, each in the zone it was made for (`tz`, default UTC)"""
    hs = []
    zones = []
    for h in inputs:
        if h.get("tz", "UTC") not in zones:
            zones.append(h.get("tz", "UTC"))
    for zi, z in enumerate(zones):
        p_in = os.path.join(ctx.scratch, "%s-%d-in.jsonl" % (tag, zi))
        with open(p_in, "w") as f:
            for h in inputs:
                if h.get("tz", "UTC") == z:
                    f.write(json.dumps(h) + "\n")
        p = os.path.join(ctx.scratch, "%s-%d-out.jsonl" % (tag, zi))
        rc, out, dt = vlib.run_tool(tool, [p, "replay", p_in], timeout=3000, env_extra={"TZ": z})
        if rc != 0:
            return None
        hs += vlib.read_jsonl(p)
    for h in hs:
        h.setdefault("steps", [])       # a history all of whose ops were skipped
    return hs


def zone_slice(ctx, tool, n, maxops):
    """the same driver in a child process whose zone is NOT UTC (one civil clock: start times and `today` are local): start clocks around
    local midnight and around 00:00 UTC; the monitor judges `latest of today` (reader with latestStatusToday) by the reader's local date"""
    hs = []
    have = [z for z in ZONES if os.path.exists(os.path.join("/usr/share/zoneinfo", z))]
    ctx.cov["zones"] = ["UTC"] + have
    for zi, z in enumerate(have):
        hs += gen_histories(ctx, tool, n, maxops, procs=4, env={"TZ": z, "VERIF_CLOCKS": "zone"}, base=50000 + 5000 * zi, tag="zone%d" % zi)
    return hs


def unknown_failures(ctx, h):
    return [f for f in HL.Monitor(h).run() if ctx.match_known({"class": f["cls"], "query": f["query"]}, "monitor") is None]


def shrink(ctx, tool, h):
    """greedy deletion of operations while the monitor still reports a failure outside the known classes"""
    cur = HL.strip_exec(h)
    best = h
    improved = True
    rounds = 0
    while improved and rounds < 6:
        improved = False
        rounds += 1
        i = len(cur["ops"]) - 1
        while i >= 0:
            cand = dict(cur)
            cand["ops"] = cur["ops"][:i] + cur["ops"][i + 1:]
            res = execute(ctx, tool, [cand], "shr")
            if res and unknown_failures(ctx, res[0]):
                cur, best, improved = cand, res[0], True
            i -= 1
    return best


def report_monitor(ctx, tool, h, fails, do_shrink=True):
    """one ctx.fail per (history, class); unknown classes are shrunk first"""
    seen = set()
    for f in fails:
        cls = {"class": f["cls"], "query": f["query"]}
        key = (f["cls"], f["query"] if f["cls"] == "other" else "")
        if key in seen:
            continue
        seen.add(key)
        hh, ff = h, f
        if ctx.match_known(cls, "monitor") is None and do_shrink and ctx.cov.get("_shrunk", 0) < 2:
            # shrinking re-executes the history once per deleted op: only the first failing inputs are minimised
            ctx.cov["_shrunk"] = ctx.cov.get("_shrunk", 0) + 1
            hh = shrink(ctx, tool, h)
            fs2 = unknown_failures(ctx, hh)
            if fs2:
                ff = fs2[0]
                cls = {"class": ff["cls"], "query": ff["query"]}
        what = ("%s of DAG %s after step %d (%s) is not what the recorded history says: expected %s, the store answered %s"
                % (ff["query"] + " " + str(ff["which"]), ff["name"], ff["step"], hh["steps"][ff["step"]]["op"]["t"] if ff["step"] < len(hh["steps"]) else "?",
                   json.dumps(ff["want"])[:300], json.dumps(ff["got"])[:300]))
        ctx.fail("monitor", what, {"history": HL.strip_exec(hh), "failure": ff}, cls=cls)


def analyse(ctx, tool, hs, do_shrink=True):
    """monitor + model correspondence on executed histories; fills coverage counters"""
    cov = ctx.cov
    classes = cov.setdefault("classes", {})
    opk = cov.setdefault("op_kinds", {})
    seen = cov.setdefault("_seen", set())
    in_domain = []
    for h in hs:
        for s in h["steps"]:
            t = s["op"]["t"]
            opk[t] = opk.get(t, 0) + 1
        m = HL.Monitor(h)
        fails = m.run()
        hcls = set(f["cls"] for f in fails)
        for c in hcls or {"spec-conform"}:
            classes[c] = classes.get(c, 0) + 1
        if any(n for n in h["names"] if HL.name_class(n["d"])):
            classes["has-hazardous-name"] = classes.get("has-hazardous-name", 0) + 1
        if HL.nontrivial(h):
            seen.add(HL.hist_key(h))
        if fails:
            report_monitor(ctx, tool, h, fails, do_shrink)
        if m.upd_open:
            classes["update-during-run"] = classes.get("update-during-run", 0) + 1
        in_domain.append(h)
        cov["evaluations"] += sum(len(s["per"]) * (7 + len(s["reqs"])) for s in h["steps"])
    cov["_shard"] = cov.get("_shard", 0) + 1
    bad, prem = HL.model_check(ctx, in_domain, tag="s%d_" % cov["_shard"])
    cov["histories_satisfying_all_theorem_premises"] = cov.get("histories_satisfying_all_theorem_premises", 0) + len(prem)
    for h in prem:
        # the theorem says model = specification on these; with the correspondence the implementation must be conform
        fs = HL.Monitor(h).run()
        if fs:
            ctx.fail("proof", "a history satisfying every premise of the C06 theorems is not answered as the specification says "
                     "(theorem, correspondence and monitor disagree)", {"history": HL.strip_exec(h), "failure": fs[0]})
    for h, stepi, namei, comp in bad:
        nm = h["names"][namei]["d"] if namei < len(h["names"]) else "?"
        ctx.fail("correspondence", "model and implementation differ at step %d (%s), DAG %s, component %s"
                 % (stepi, h["steps"][stepi]["op"]["t"] if stepi < len(h["steps"]) else "?", nm, HL.COMPONENT.get(comp, comp)),
                 {"history": HL.strip_exec(h), "step": stepi, "name": nm, "component": HL.COMPONENT.get(comp, comp)})
    cov["traces_validated_against_impl"] += len(in_domain) - len(set(id(b[0]) for b in bad))
    cov["histories"] = cov.get("histories", 0) + len(hs)
    return bad


def run(ctx, replay_inputs=None):
    HL.authoritative_known(ctx)
    ctx.proofs(extra=["Hist/Check.vo", "Hist/CheckPrem.vo"])
    tool, out, _ = vlib.go_build("hist", ctx.scratch)
    if tool is None:
        ctx.fail("correspondence", "harness does not build against /repo", {"log": out[-2000:]})
        return ctx.finish()
    ctx.cov["evaluations"] = 0
    if replay_inputs is not None:
        hs = execute(ctx, tool, replay_inputs) or []
        analyse(ctx, tool, hs, do_shrink=False)
    else:
        # corpus (minimised past failures and the recorded findings) first
        corpus = []
        cp = os.path.join(vlib.VERIF, "corpus", "C06.jsonl")
        if os.path.exists(cp):
            corpus = vlib.read_jsonl(cp)
        if corpus:
            analyse(ctx, tool, execute(ctx, tool, corpus, "corpus") or [])
        n, maxops = (QUICK_N, QUICK_OPS) if ctx.tier == "quick" else (1200, 60)
        hs = gen_histories(ctx, tool, n, maxops)
        analyse(ctx, tool, hs)
        zs = zone_slice(ctx, tool, 24 if ctx.tier == "quick" else 60, 30)
        ctx.cov["zone_slice_histories"] = len(zs)
        analyse(ctx, tool, zs)
        for h in hs[3:5]:
            ctx.sample({"names": [x["d"] for x in h["names"]],
                        "ops": [" ".join(str(v) for k, v in s["op"].items() if k in ("t", "d", "d2", "stamp", "req", "tag", "days")) for s in h["steps"]][:14],
                        "answers_after_last_op": h["steps"][-1]["per"][0] if h["steps"] else None})
        if ctx.tier == "thorough":
            extracted_sweep(ctx, tool)
    seen = ctx.cov.pop("_seen", set())
    ctx.cov.pop("_shard", None)
    ctx.cov.pop("_shrunk", None)
    ctx.cov["distinct_nontrivial"] = len(seen)
    ctx.cov["rule"] = ("operation histories (open/write/close/update/rename/removeold/removeall/touch, 5-40 ops quick, -60/-200 thorough) over 4-6 DAG "
                       "names drawn from {plain, space, dots, shared prefixes a/ab/a.b, _c suffix, glob metacharacters, stamp-like substring}, start stamps "
                       "from a pool engineered for same-ms/same-second/same-minute/midnight collisions, executed on the real jsondb with three store instances (TZ=UTC, plus a slice in child processes with TZ=Asia/Tokyo and TZ=America/Los_Angeles and start clocks around local midnight / 00:00 UTC); "
                       "after EVERY op 7 status queries per name + FindByRequestID for every request id + a directory dump are compared with the Coq model "
                       "(correspondence) and with the abstract run map (monitor).  evaluations = query answers checked; distinct = distinct (names, ops) histories; "
                       "non-trivial = some DAG has >= 2 runs and an update/rename/retention/touch occurs")
    ctx.cov["trusted_base"] += [
        "Section variables of the theorems: loc (data directory without glob characters or stamp-like substrings), dirhash (md5) with the premise that directory names of distinct DAGs differ",
        "re-implemented library semantics: filepath.Match/Glob (Hist/GoMatch.v), the time-stamp regexp scan, sort.Slice as stable insertion sort (<= 12 files per DAG), strings.Replace/TrimSuffix, bufio.Writer 4096 split, O_APPEND appends",
        "model domain: at most 12 history files per DAG directory (sort.Slice is an insertion sort there), ASCII names; cache eviction not modelled",
        "monitor: the run-map specification re-implemented in python (tools/props/hist_lib.py)",
    ]
    ctx.assumptions = [
        "request ids of one DAG pairwise distinct; start stamps of one DAG pairwise distinct (milliseconds); a path is never re-created",
        "per-path string premises names_okb (evaluated on every generated history; they hold for the hazardous names too since 8ffc003/e6d6379)",
        "a run that was opened but has no status yet is not listed (readers skip it since 3aa388e)",
        "rename to a different DAG; rename/retention not applied to the DAG whose run is being recorded (proof simplifications; covered by the differential run)",
    ]
    if ctx.tier == "thorough":
        ctx.coqchk()
    return ctx.finish(search=lambda: search(ctx, tool))


def search(ctx, tool):
    """extra budget when only a proof obligation / the correspondence broke: more histories through the monitor"""
    old_seed = ctx.seed
    for extra in range(1, 4):
        ctx.seed = old_seed + 7919 * extra
        hs = gen_histories(ctx, tool, 400, 60)
        for h in hs:
            fs = unknown_failures(ctx, h)
            if fs:
                hh = shrink(ctx, tool, h)
                ctx.seed = old_seed
                return {"history": HL.strip_exec(hh), "failure": (unknown_failures(ctx, hh) or fs)[0]}
    ctx.seed = old_seed
    return None


# ------------------------------------------------------------------------------------------------
# thorough tier: volume through the extracted model
# ------------------------------------------------------------------------------------------------

def extracted_sweep(ctx, tool):
    from props import hist_extract
    hist_extract.sweep(ctx, tool)


def replay(ctx, path):
    body = json.load(open(path))
    inputs = []

    def take(x):
        if isinstance(x, dict):
            if "names" in x and "ops" in x:
                inputs.append(x)
            else:
                for v in x.values():
                    take(v)
        elif isinstance(x, list):
            for v in x:
                take(v)
    take(body)
    return run(ctx, replay_inputs=inputs)
