"""C04 (Sched family, runs with handlers / stop / timeout) - see tools/props/sched2_lib.py and DESIGN.md section 5, C04."""
from props import sched2_lib


def run(ctx):
    return sched2_lib.run_family2(ctx, "C04")


def replay(ctx, path):
    return sched2_lib.replay_family2(ctx, "C04", path)
