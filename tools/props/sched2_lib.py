"""Shared machinery of C04 (run outcome and lifecycle handlers) and C05 (stop and timeout) - DESIGN.md section 5.

The driver harness/cmd/sched runs the REAL scheduler with lifecycle handlers, stop requests (Scheduler.Signal, injected
at every visible event index and inside the two windows "slow step precondition" / "slow executor creation"), SIGKILL
escalation, repeating steps and DAG timeouts.  Every run is (a) replayed through the Coq model by the power-set acceptor
Sched/Replay2.v (a rejected trace is a correspondence break) and (b) judged by the property monitors, in Coq
(Sched/Check2.v) and independently here in python.  Genuine defects of the pinned code (F4a, F5a, F5b, F5c, F5d) are
recognised by decidable classes of the failing case and matched against known_findings.d.
"""
import json
import os
import sys
import time
from concurrent.futures import ThreadPoolExecutor

import vlib
from vlib import cbool, clist, cz
from props import sched_lib

EPS = 200
ST = sched_lib.ST
HNAME = ["HExit", "HSuccess", "HFailure", "HCancel"]
HTEXT = ["onExit", "onSuccess", "onFailure", "onCancel"]
SIGTERM, SIGKILL, SIGINT = 15, 9, 2
SIGNUM = {"SIGINT": 2, "SIGTERM": 15, "SIGKILL": 9, "SIGHUP": 1, "SIGQUIT": 3}


# ------------------------------------------------------------------------------------------
# case -> Coq
# ------------------------------------------------------------------------------------------

def coq_step2(s):
    return ("{| deps := %s; cof := %s; cos := %s; rlimit := %d; pre := %s; sfail := %s; repeat := %s; cfails := %d |}"
            % (clist([str(d) for d in s["deps"]]), cbool(s["cof"]), cbool(s["cos"]),
               s["rlimit"] if s["retry"] else 0, cbool(s["pre"]), cbool(s["sfail"]), cbool(s.get("repeat", False)),
               sched_lib.coq_cfails(s)))


def coq_event2(e):
    k, t = e["e"], cz(e["t"])
    if k == "s":
        return "E2Start %d %s" % (e["i"], t)
    if k == "e":
        return "E2End %d %s %s" % (e["i"], cbool(e.get("ok", False)), t)
    if k == "x":
        # a refused handler command has no counterpart in the model (since fix 246fa0b): the trace is then rejected
        return ("E2Refused %d %s" % (e["i"], t)) if e["i"] >= 0 else None
    if k == "k":
        return ("E2Kill %d %s" % (e["i"], t)) if e["i"] >= 0 else None
    if k == "sc":
        return "E2SigCall %s" % t
    if k == "sr":
        return "E2SigRet %s" % t
    if k == "hs":
        return "E2HStart %s %s" % (HNAME[e["i"]], t)
    if k == "he":
        return "E2HEnd %s %s %s" % (HNAME[e["i"]], cbool(e.get("ok", False)), t)
    return None


def deadline(c):
    """the instant of the DAG deadline on the trace's clock (us), or None"""
    return (c.get("started", 0) + c["timeout"]) if c.get("timeout") else None


def status_h(c):
    for e in c["events"]:
        if e["e"] == "hs":
            return e.get("a", 0)
    return 7


def handlers_on(c):
    hs = c.get("handlers") or []
    return [bool(hs[h]["on"]) if h < len(hs) else False for h in range(4)]


def handlers_sfail(c):
    """the set-up of the handler's node fails (its stdout goes into a directory that does not exist)"""
    hs = c.get("handlers") or []
    return [bool(hs[h].get("sfail")) if h < len(hs) else False for h in range(4)]


def coq_case2(c):
    evs = [x for x in (coq_event2(e) for e in c["events"]) if x is not None]
    hf = c.get("hfinal") or [-1, -1, -1, -1]
    return ("{| d_steps := %s; d_k := %d; d_dry := %s; d_done := %s; d_sigs := %d; d_tmo := %s; d_hon := %s; d_hsf := %s; "
            "d_ivl := %s; d_rivl := %s; d_trace := %s; d_final := %s; d_hfinal := %s; d_err := %s; d_status := %d; "
            "d_status_h := %d; d_status_ret := %d |}"
            % (clist([coq_step2(s) for s in c["steps"]]), c["maxactive"], cbool(c["dry"]), cbool(c["done"]),
               sum(1 for e in c["events"] if e["e"] == "sc"),
               ("(Some %s)" % cz(deadline(c))) if c.get("timeout") else "None",
               clist([cbool(b) for b in handlers_on(c)]), clist([cbool(b) for b in handlers_sfail(c)]),
               clist([cz(s["ivl"] if s["retry"] else 0) for s in c["steps"]]),
               clist([cz(s.get("rivl", 0)) for s in c["steps"]]),
               clist(evs), clist(["(%d, %d)" % (f["st"], f["rc"]) for f in c["final"]]),
               clist([str(6 if x < 0 else x) for x in hf]), cbool(c["err"]), c.get("status_end", c["status"]),
               status_h(c), c["status"]))


HEADER2 = ("From Coq Require Import List ZArith Bool.\nImport ListNotations.\n"
           "From BD.Sched Require Import Model Replay Replay2 Check2.\n")


def eval_shard2(ctx, name, cases):
    txt = (HEADER2 + "Definition cases : list case2 := [\n%s\n].\n"
           "Definition M := Eval vm_compute in mismatches2 cases.\nPrint M.\n") % ";\n".join(coq_case2(c) for c in cases)
    rc, out, dt = vlib.coq_eval(ctx.scratch, name, txt, timeout=1200)
    if rc != 0:
        return None, out[-1500:]
    res = vlib.coq_list_result(out, "M")
    if res is None:
        return None, out[-1500:]
    return res, None


def model_eval2(ctx, cases, tag="cases2", shard=24):
    """-> {position: [stage, idx, states, C04, C05]} for the cases that are not clean"""
    shards = [list(enumerate(cases))[i:i + shard] for i in range(0, len(cases), shard)]
    with ThreadPoolExecutor(max_workers=14) as ex:
        results = list(ex.map(lambda t: eval_shard2(ctx, "%s_%d" % (tag, t[0]), [c for _, c in t[1]]), enumerate(shards)))
    bad = {}
    for sh, (res, err) in zip(shards, results):
        if res is None:
            ctx.fail("correspondence", "the model could not be evaluated on a shard of cases (coqc failed)", {"log": err})
            continue
        for item in res:
            bad[sh[item[0]][0]] = list(item[1:])
    return bad


# ------------------------------------------------------------------------------------------
# independent monitors (python).  Each returns (why, class) or None
# ------------------------------------------------------------------------------------------

def stop_times(c):
    """[(t_call, t_ret, sig)] of the Signal calls made by the driver"""
    out, cur = [], None
    for e in c["events"]:
        if e["e"] == "sc":
            cur = (e["t"], e.get("sig", SIGTERM))
        elif e["e"] == "sr" and cur is not None:
            out.append((cur[0], e["t"], cur[1]))
            cur = None
    return out


def open_at(c, pos):
    """steps whose Run is open just before event position pos"""
    opn = set()
    for e in c["events"][:pos]:
        if e["e"] == "s":
            opn.add(e["i"])
        elif e["e"] == "e":
            opn.discard(e["i"])
    return opn


def attempts(c, i):
    return sum(1 for e in c["events"] if e["e"] == "s" and e["i"] == i)


def handler_for(status):
    return {4: [1], 2: [2], 3: [3]}.get(status, [])


def lost_cancel_flip(c):
    """The final relabelling of the worker (running -> finished) tests and sets the status under two separate lock
    acquisitions; a Signal that cancels the node in between is overwritten.  Decidable signature: Signal forwarded its
    signal to step i AFTER i's command had ended successfully (so it saw the node running and flipped it to canceled
    in the same critical section) and the node still ends 'finished'.  The model has no such execution."""
    evs = c["events"]
    for i, f in enumerate(c.get("final") or []):
        if f["st"] != 4:
            continue
        ends = [e for e in evs if e["e"] == "e" and e.get("i") == i]
        if not ends or not ends[-1].get("ok", False):
            continue
        late = [e for e in evs if e["e"] == "k" and e.get("i") == i and e["t"] > ends[-1]["t"]]
        if late:
            return ("step %d was canceled by the stop request (Signal found it running %d us after its command had ended "
                    "and forwarded the signal) but ends 'finished': the worker's final running->finished relabelling "
                    "overwrote the cancel" % (i, late[0]["t"] - ends[-1]["t"]), {"kind": "cancel-flip-lost"})
    return None


def py_mon_C04(c):
    r0 = lost_cancel_flip(c)
    if r0 is not None:
        return r0
    evs = c["events"]
    on = handlers_on(c)
    started = [e["i"] if e["e"] == "hs" else -1 - e["i"] for e in evs if e["e"] == "hs" or (e["e"] == "x" and e["i"] < 0)]
    timed_out = bool(c.get("timeout")) and any(e["t"] >= deadline(c) for e in evs)
    # the outcome the handlers were chosen for is not directly visible: the outcomes that explain the handlers that ran
    # a handler whose node cannot be set up is marked failed and not run; the handlers after it still run (onExit last)
    sf = handlers_sfail(c) if not c["dry"] else [False] * 4
    cands = [s for s in (4, 2, 3) if [h for h in handler_for(s) + [0] if on[h] and not sf[h]] == started]
    if not cands:
        return ("handlers started %s: no outcome explains this list (configured: %s%s)"
                % ([HTEXT[h] for h in started], [HTEXT[h] for h in range(4) if on[h]],
                   ("; set-up fails for: %s" % [HTEXT[h] for h in range(4) if on[h] and sf[h]]) if any(sf) else ""),
                {"kind": "handlers"})
    seen_h = False
    for e in evs:
        if e["e"] in ("hs", "he") or (e["e"] == "x" and e["i"] < 0):
            seen_h = True
        elif seen_h and e["e"] in ("s", "e"):
            return ("a step event (%s of step %d) after a lifecycle handler had started" % (e["e"], e["i"]), {"kind": "handlers"})
    for e in evs:
        if e["e"] == "x" and e["i"] < 0:
            return ("%s was chosen but its command was refused (expired context): it never ran" % HTEXT[-1 - e["i"]],
                    {"kind": "timeout-handlers-refused"})
    hf = c.get("hfinal")
    if hf:
        ends = {e["i"]: e.get("ok", False) for e in evs if e["e"] == "he"}
        why = None
        for s0 in cands:
            why = None
            due = handler_for(s0) + [0]
            for h in range(4):
                if not on[h]:
                    continue
                wantst = (4 if ends[h] else 2) if h in ends else (2 if (sf[h] and h in due) else 0)
                if hf[h] != wantst:
                    why = ("%s ended in state '%s', its run says '%s'" % (HTEXT[h], ST.get(hf[h], "?"), ST.get(wantst, "?")), {"kind": "handlers"})
                    break
            if why is None:
                break
        if why is not None:
            return why
    fin = [f["st"] for f in c["final"]]
    all_ok = all(x in (4, 5) for x in fin)
    if not c["dry"]:
        for i, x in enumerate(fin):
            if x == 4 and attempts(c, i) == 0:
                return ("step %d is reported finished but its command never ran (run reported '%s')" % (i, ST.get(c["status"], "?")),
                        {"kind": "finished-without-running"})
            if x == 4:
                # "finished" means completed: the step's last attempt succeeded (C04_finished_means_ran)
                last = [e for e in evs if e["e"] in ("e", "x") and e.get("i") == i][-1:]
                if last and not (last[0]["e"] == "e" and last[0].get("ok", False)):
                    return ("step %d is reported finished but its last attempt failed (run reported '%s'; Schedule was %s a done channel)"
                            % (i, ST.get(c["status"], "?"), "given" if c["done"] else "not given"),
                            {"kind": "finished-after-failure", "done": bool(c["done"])})
    last_step_t = max([e["t"] for e in evs if e["e"] in ("s", "e")], default=-1)
    first_h_t = min([e["t"] for e in evs if e["e"] in ("hs",) or (e["e"] == "x" and e["i"] < 0)], default=None)
    # a stop that completed before the last step event certainly preceded the choice of the handlers; one after it may
    # have come before or after the choice (that instant is not visible)
    stop_before_choice = any(e["e"] == "sr" and e["t"] < last_step_t for e in evs)
    stop_any = any(e["e"] == "sc" for e in evs)

    def consistent(s):
        if timed_out:
            return True
        if s == 4:
            return all_ok
        if s == 2:
            return any(x == 2 for x in fin) and not (stop_before_choice and not all_ok)
        return stop_any and not all_ok
    good = [s for s in cands if consistent(s)]
    if not good:
        return ("the handlers that ran (%s) were chosen for outcome %s, which contradicts the final node table %s%s"
                % ([HTEXT[h] for h in started], " or ".join(ST.get(s, "?") for s in cands), [ST.get(x) for x in fin],
                   " (a stop had been requested)" if stop_any else ""), {"kind": "outcome"})
    if not stop_any and not timed_out and not c.get("hung"):
        want_err = any(x == 2 for x in fin)
        if bool(c["err"]) != want_err:
            failing = [HTEXT[e["i"]] for e in evs if e["e"] == "he" and not e.get("ok", False)]
            return ("Schedule returned %s although %s (handlers that failed: %s): the run's error must follow the steps, "
                    "not the lifecycle handlers" % ("an error" if c["err"] else "no error",
                                                    "no step failed" if not want_err else "a step failed", failing or "none"),
                    {"kind": "run-error"})
    if c["status"] not in good:
        late = any(e["e"] == "sc" and e["t"] > last_step_t for e in evs)
        return ("the handlers were chosen for outcome '%s' (%s ran) but the run is reported '%s' when Schedule returns"
                % ("/".join(ST.get(s, "?") for s in good), [HTEXT[h] for h in started], ST.get(c["status"], "?")),
                {"kind": "stop-during-handlers" if late and c["status"] == 3 else "outcome"})
    return None


def py_mon_C05(c):
    evs = c["events"]
    if c.get("hung"):
        return ("the run did not end", {"kind": "hung"})
    r0 = lost_cancel_flip(c)
    if r0 is not None:
        return r0
    fin = [f["st"] for f in c["final"]]
    if not c["dry"]:
        for i, x in enumerate(fin):
            if x == 4 and attempts(c, i) == 0:
                return ("step %d is reported finished but its command never ran (stopped run reported '%s')" % (i, ST.get(c["status"], "?")),
                        {"kind": "finished-without-running"})
    # Signal windows
    pos = 0
    first = True
    while pos < len(evs):
        if evs[pos]["e"] != "sc":
            pos += 1
            continue
        ret = next((q for q in range(pos + 1, len(evs)) if evs[q]["e"] == "sr"), len(evs))
        sig = evs[pos].get("sig", SIGTERM)
        before = open_at(c, pos)
        after = open_at(c, ret)
        win = evs[pos:ret]
        for i in sorted(before):
            s = c["steps"][i]
            kills = [e for e in win if e["e"] == "k" and e["i"] == i]
            if s.get("repeat"):
                if kills:
                    return ("repeating step %d was sent a signal" % i, {"kind": "repeat-signalled"})
                continue
            if i in after and not kills:
                if not first:
                    return ("step %d was still executing when Signal(%d) was called again and received nothing "
                            "(the first call had flipped it to canceled)" % (i, sig), {"kind": "escalation-noop"})
                return ("step %d was executing during the stop request and received no signal" % i, {"kind": "not-signalled"})
            want = SIGNUM.get(s.get("sigonstop") or "", sig) if first else sig
            for e in kills:
                if e.get("sig") != want:
                    return ("step %d received signal %s, expected %s" % (i, e.get("sig"), want), {"kind": "wrong-signal"})
        first = False
        pos = ret + 1
    for e in evs:
        if e["e"] == "k" and e["i"] >= 0 and c["steps"][e["i"]].get("repeat"):
            return ("repeating step %d was sent a signal" % e["i"], {"kind": "repeat-signalled"})
    stops = stop_times(c)
    if stops:
        t_ret = stops[0][1]
        # a Kill that reaches the executor before its command has started must be delivered when it starts (fix fc2d5bb):
        # the command then ends at once, killed
        for p, e in enumerate(evs):
            if e["e"] == "k" and e["i"] >= 0 and e["i"] not in open_at(c, p):
                s = c["steps"][e["i"]]
                if s.get("repeat") or (s.get("ignore") and e.get("sig") != SIGKILL):
                    continue
                nxt = next((q for q in range(p + 1, len(evs)) if evs[q]["e"] == "s" and evs[q]["i"] == e["i"]), None)
                if nxt is None:
                    continue
                end = next((evs[q] for q in range(nxt + 1, len(evs)) if evs[q]["e"] == "e" and evs[q]["i"] == e["i"]), None)
                if end is None or end.get("ok", False) or end["t"] - evs[nxt]["t"] > 2500:
                    return ("the stop signal reached step %d before its command had started and was lost: the command "
                            "started afterwards and ran unsignalled" % e["i"], {"kind": "signal-before-start-lost"})
        for p, e in enumerate(evs):
            if e["e"] != "s" or e["t"] <= t_ret:
                continue
            s = c["steps"][e["i"]]
            prev_end = max([q["t"] for q in evs[:p] if q["e"] == "e" and q["i"] == e["i"]], default=None)
            if s.get("repeat") and prev_end is not None and t_ret < prev_end + s.get("rivl", 0) - EPS:
                return ("repeating step %d started another iteration although the stop request had completed during its "
                        "interval" % e["i"], {"kind": "repeat-reentered"})
            if s["retry"] and prev_end is not None and t_ret < prev_end + s["ivl"] - EPS:
                return ("step %d was retried although the stop request had completed during its retry interval" % e["i"],
                        {"kind": "retry-after-stop"})
            if e["t"] > t_ret + 25000 + s.get("slowcreate", 0):
                return ("step %d started %d us after the stop request had completed" % (e["i"], e["t"] - t_ret), {"kind": "start-after-stop"})
        all_ok = all(x in (4, 5) for x in fin)
        stop_before_end = stops[0][0] <= max([e["t"] for e in evs if e["e"] in ("s", "e")], default=-1) or not evs
        if not all_ok and c["status"] != 3 and not (c.get("timeout") and any(e["t"] >= deadline(c) for e in evs)):
            last_step_t = max([e["t"] for e in evs if e["e"] in ("s", "e")], default=-1)
            if stops[0][1] < last_step_t:   # a stop after the last step event may have come after the outcome was decided
                return ("the run was stopped with steps %s but is reported '%s'" % ([ST.get(x) for x in fin], ST.get(c["status"], "?")),
                        {"kind": "outcome"})
    if c.get("timeout"):
        T = deadline(c)
        for e in evs:
            if e["e"] == "s" and e["t"] > T + 15000:
                return ("the command of step %d started %d us after the DAG deadline" % (e["i"], e["t"] - T), {"kind": "start-after-deadline"})
        for i in open_at(c, len(evs)):
            return ("step %d never ended" % i, {"kind": "hung"})
        # an attempt that fails after the deadline is the step's last one, whatever its retry policy says (the deadline is
        # tested before the retry policy): the step is not launched again, and its retry count only counts failures from
        # before the deadline.  (Exact: the deadline is g.StartAt() + timeout on the clock of the events; 1 us rounding.)
        for i in range(len(c["steps"])):
            mine = [e for e in evs if e["e"] in ("s", "e", "x") and e.get("i") == i]
            failed = [(p, e) for p, e in enumerate(mine) if e["e"] in ("e", "x") and not e.get("ok", False)]
            late = [p for p, e in failed if e["t"] > T + 1]
            if late and len(mine) > late[0] + 1:
                nxt = mine[late[0] + 1]
                return ("step %d was launched again %d us after the DAG deadline: its attempt had been cut by the deadline "
                        "(ended %d us after it) and it had retries left (limit %d)"
                        % (i, nxt["t"] - T, mine[late[0]]["t"] - T, c["steps"][i].get("rlimit", 0)), {"kind": "retry-after-deadline"})
            early = sum(1 for p, e in failed if e["t"] <= T + 1)
            if i < len(c["final"]) and c["final"][i]["rc"] > early:
                return ("step %d ends with retry count %d but only %d of its attempts failed before the DAG deadline: an attempt "
                        "cut by the deadline was treated as an ordinary failure and retried"
                        % (i, c["final"][i]["rc"], early), {"kind": "retry-after-deadline"})
        cut = [p for p, e in enumerate(evs) if e["e"] == "e" and e["t"] >= T and not e.get("ok", False)]
        for e in evs:
            if e["e"] == "e" and e["t"] > T + 20000 and any(q["e"] == "s" and q["i"] == e["i"] and q["t"] < T for q in evs):
                return ("step %d was still executing %d us after the DAG deadline" % (e["i"], e["t"] - T), {"kind": "deadline-not-enforced"})
        for e in evs:
            if e["e"] == "x" and e["i"] < 0:
                return ("after the timeout %s was chosen but its command was refused (expired context): it never ran" % HTEXT[-1 - e["i"]],
                        {"kind": "timeout-handlers-refused"})
    return None


PY_MON2 = {"C04": py_mon_C04, "C05": py_mon_C05}
MON_POS2 = {"C04": 3, "C05": 4}

INPUT_KEYS2 = sched_lib.INPUT_KEYS + ("fresh", "handlers", "stop", "timeout")


def inputs_of2(c):
    return {k: c[k] for k in INPUT_KEYS2 if k in c}


def rerun2(ctx, tool, cases, name="rerun2"):
    p_in = os.path.join(ctx.scratch, name + "-in.jsonl")
    with open(p_in, "w") as f:
        for c in cases:
            f.write(json.dumps(inputs_of2(c)) + "\n")
    p = os.path.join(ctx.scratch, name + "-out.jsonl")
    rc, out, dt = vlib.run_tool(tool, [p, "replay", p_in], timeout=420)
    return sched_lib.usable(vlib.read_jsonl(p)) if rc == 0 else []


STAGE2 = {1: "event %d of the observed trace has no matching state of the model (or the state set exploded)",
          2: "no state of the model is Done with the observed final node table / handler states / Schedule error / Status"}


def describe2(v):
    t = STAGE2.get(v[0], "rejected")
    return (t % v[1] if "%d" in t else t) + " [%d model state(s)]" % v[2]


def distribution2(cases):
    d = {"streams": {}, "run_status": {}, "handler_subsets": {}, "stop_at_event": {}, "with_stop": 0, "with_timeout": 0,
         "kill_events": 0, "handler_events": 0, "signal_calls": 0, "sigkill_calls": 0, "ignore_steps_runs": 0,
         "repeat_steps_runs": 0, "slow_precondition_runs": 0, "slow_creation_runs": 0, "stop_during_handlers_runs": 0,
         "refused_commands": 0, "final_status": {}}
    for c in cases:
        d["streams"][c["stream"]] = d["streams"].get(c["stream"], 0) + 1
        s = ST.get(c["status"], "?")
        d["run_status"][s] = d["run_status"].get(s, 0) + 1
        m = "".join("1" if b else "0" for b in handlers_on(c))
        d["handler_subsets"][m] = d["handler_subsets"].get(m, 0) + 1
        if c.get("stop"):
            d["with_stop"] += 1
            a = c["stop"]["at"]
            d["stop_at_event"][a] = d["stop_at_event"].get(a, 0) + 1
        if c.get("timeout"):
            d["with_timeout"] += 1
        if any(handlers_sfail(c)):
            d["handler_setup_failure_runs"] = d.get("handler_setup_failure_runs", 0) + 1
        for i, f in enumerate(c["final"]):
            d["final_status"][ST.get(f["st"], "?")] = d["final_status"].get(ST.get(f["st"], "?"), 0) + 1
            # a stop during a retry interval: the retrying worker's reset undoes the canceled label (Props/C05.v (4))
            if f["st"] == 0 and attempts(c, i) > 0:
                d["attempted_but_labelled_not_started"] = d.get("attempted_but_labelled_not_started", 0) + 1
        for e in c["events"]:
            if e["e"] == "k":
                d["kill_events"] += 1
            elif e["e"] in ("hs", "he"):
                d["handler_events"] += 1
            elif e["e"] == "sc":
                d["signal_calls"] += 1
                if e.get("sig") == SIGKILL:
                    d["sigkill_calls"] += 1
            elif e["e"] == "x":
                d["refused_commands"] += 1
        if any(s.get("ignore") for s in c["steps"]):
            d["ignore_steps_runs"] += 1
        if any(s.get("repeat") for s in c["steps"]):
            d["repeat_steps_runs"] += 1
        if any(s.get("slowpre") for s in c["steps"]):
            d["slow_precondition_runs"] += 1
        if any(s.get("slowcreate") for s in c["steps"]):
            d["slow_creation_runs"] += 1
        hs_t = next((e["t"] for e in c["events"] if e["e"] == "hs"), None)
        if hs_t is not None and any(e["e"] == "sc" and e["t"] > hs_t for e in c["events"]):
            d["stop_during_handlers_runs"] += 1
    return d


def nontrivial_key2(c):
    return (sched_lib.shape_key(c), json.dumps([c.get("handlers"), c.get("stop"), c.get("timeout")]),
            "".join("%s%d" % (e["e"], e["i"]) for e in c["events"]))


def evaluate2(ctx, pid, tool, cases, tag):
    sched_lib.dbg("model_eval2 start %d" % len(cases))
    bad = model_eval2(ctx, cases, tag)
    sched_lib.dbg("model_eval2 done, %d not clean" % len(bad))
    mon = PY_MON2[pid]
    accepted = 0
    for pos, c in enumerate(cases):
        v = bad.get(pos, [0, 0, 0, 1, 1])
        if c.get("hung") and pid != "C05":
            ctx.fail("correspondence", "%s: the run did not terminate: Schedule had not returned after the watchdog time (%s)"
                     % (pid, c.get("note") or ""), c, cls={"kind": "hung", "stream": c["stream"]})
            continue
        r = mon(c)
        coq_ok = v[MON_POS2[pid]] == 1
        if r is not None:
            why, cls = r
            ctx.fail("monitor", "%s: %s" % (pid, why), c, cls=dict(cls, stream=c["stream"]))
            if v[0] == 0:
                accepted += 1
            continue
        if not coq_ok:
            ctx.fail("monitor", "%s: the Coq monitor mon2_%s fails on this run [python monitor passes]" % (pid, pid), c,
                     cls={"kind": "coq-monitor", "stream": c["stream"]})
            continue
        if v[0] != 0:
            ctx.fail("correspondence", "trace of the real scheduler rejected by the model: " + describe2(v),
                     {"verdict": v, "case": c}, cls={"kind": "rejected", "stream": c["stream"]})
            continue
        accepted += 1
    return accepted


def agent_stop_monitor(c):
    """C05 on REAL processes at agent level (Agent.Run + Agent.Signal, command executor): the wall-clock clause"""
    if c.get("infra"):
        return None
    if c.get("hung"):
        return "agent run (%s) did not end after the stop request" % c["sub"]
    if c["sub"] != "killbeforerun" and c["status"] != "canceled":
        return "agent run (%s) stopped while its step was executing is reported '%s'" % (c["sub"], c["status"])
    if c["sub"] == "plain" and c["stop_to_end_ms"] > 2500:
        return "a plain `sleep` step took %d ms to end after the stop request" % c["stop_to_end_ms"]
    if c["sub"] == "group" and c["child_alive"]:
        return "the forked child of a step survived the stop request (signal not sent to the process group)"
    if c["sub"] == "group" and c["stop_to_end_ms"] > 2500:
        return "a forking step took %d ms to end after the stop request" % c["stop_to_end_ms"]
    if c["sub"] == "orphan" and c["stop_to_end_ms"] > 2500:
        return ("a step whose shell had exited while its background child still held the step's output was not ended by the "
                "stop request: the run ended %d ms after it (the child's own end: %d s; MaxCleanUpTime %d s) - the signal, its "
                "re-sends and the SIGKILL escalation did not reach the process group"
                % (c["stop_to_end_ms"], c["sleep_s"], c["max_cleanup_s"]))
    if c["sub"] == "orphan" and c["child_alive"]:
        return "the background child of a step whose shell had already exited survived the stop request"
    if c["sub"] == "killbeforerun" and (c["stop_to_end_ms"] > 1500 or not c["err"]):
        return ("the command executor lost a signal that arrived before its process existed: Run took %d ms (error %r)"
                % (c["stop_to_end_ms"], c["err"]))
    if c["sub"] == "httpsos":
        bound = c["max_cleanup_s"] * 1000 + 3000 + 2500
        if c["stop_to_end_ms"] > min(bound, c["sleep_s"] * 1000 - 1500):
            return ("stop over the agent's socket handler (POST /stop), step with signalOnStop SIGINT whose process ignores "
                    "SIGINT: it was not force-killed - the run ended %d ms after the stop request (MaxCleanUpTime %d s; the "
                    "command's own end: %d s): the SIGKILL after MaxCleanUpTime did not reach it as SIGKILL"
                    % (c["stop_to_end_ms"], c["max_cleanup_s"], c["sleep_s"]))
        if not c.get("exit_ran"):
            return "stop over the agent's socket handler: the run ended canceled but the onExit handler did not run"
    if c["sub"] == "ignoreterm":
        # MaxCleanUpTime, plus the 3 s granularity of agent.signal's wait loop, plus tolerance; and well before the
        # command's own end
        bound = c["max_cleanup_s"] * 1000 + 3000 + 2500
        if c["stop_to_end_ms"] > min(bound, c["sleep_s"] * 1000 - 1500):
            return ("a step ignoring SIGTERM was not force-killed: the run ended %d ms after the stop request "
                    "(MaxCleanUpTime %d s; the command's own end: %d s)" % (c["stop_to_end_ms"], c["max_cleanup_s"], c["sleep_s"]))
    return None


def agent_stop_part(ctx, tool):
    work = os.path.join(ctx.scratch, "agentstop-work")
    os.makedirs(work, exist_ok=True)
    p = os.path.join(ctx.scratch, "agentstop.jsonl")
    rc, out, dt = vlib.run_tool(tool, [p, "agentstop", work], timeout=120)
    cases = vlib.read_jsonl(p) if os.path.exists(p) else []
    if rc != 0 or not cases:
        ctx.fail("correspondence", "agent-level stop driver failed", {"log": out[-1500:]})
        return
    for c in cases:
        if c.get("infra"):
            ctx.notes.append("agentstop case %s not observed: %s" % (c["sub"], c["infra"]))
        why = agent_stop_monitor(c)
        if why is not None:
            ctx.fail("monitor", "C05: " + why, c, cls={"kind": "agent-" + c["sub"]})
    ctx.cov["agent_real_process_runs"] = [{k: c[k] for k in ("sub", "max_cleanup_s", "sleep_s", "stop_to_end_ms", "status", "child_alive", "exit_ran") if k in c} for c in cases]
    ctx.cov["agent_real_process_s"] = round(dt, 1)


def run_family2(ctx, pid, replay_cases=None, agent_again=False):
    extra = ["Sched/Check2.vo"]
    from props import agent_lib
    if pid == "C04":
        extra += agent_lib.EXTRA_VO
    ctx.proofs(extra=extra)
    tool, out, _ = vlib.go_build("sched", ctx.scratch)
    if tool is None:
        ctx.fail("correspondence", "harness does not build against /repo", {"log": out[-2000:]})
        return ctx.finish()
    if replay_cases is None:
        cases, out, dt = sched_lib.run_driver(ctx, tool, ctx.tier, pid)
        if cases is None:
            ctx.fail("correspondence", "sched driver failed", {"log": out[-2000:]})
            return ctx.finish()
        ctx.cov["driver_s"] = round(dt, 1)
    else:
        cases = rerun2(ctx, tool, replay_cases, "replay")
    lost = [c for c in cases if not c.get("final")]
    skipped = [c for c in lost if (c.get("note") or "").startswith("skipped:")]
    lost = [c for c in lost if c not in skipped]
    if skipped:
        sched_lib.skipped_note(ctx, skipped, len(cases))
    if lost:
        ctx.fail("correspondence", "the driver could not run %d generated case(s): %s" % (len(lost), (lost[0].get("note") or "")[:200]),
                 inputs_of2(lost[0]))
    cases = sched_lib.confirm_hung(ctx, tool, sched_lib.usable(cases), rerun2)
    accepted = evaluate2(ctx, pid, tool, cases, "cases2")
    ctx.cov["evaluations"] = len(cases)
    ctx.cov["traces_validated_against_impl"] = accepted
    ctx.cov["distinct_nontrivial"] = len({nontrivial_key2(c) for c in cases if c.get("stop") or c.get("timeout") or any(handlers_on(c))})
    ctx.cov["rule"] = ("one evaluation = one run of the real scheduler.Schedule with scripted executor, lifecycle handlers and (for the "
                       "stop/timeout streams) Scheduler.Signal calls / a DAG timeout injected by the driver; the visible trace (Run "
                       "entries/exits, Kill calls with their signal, refused commands, handler Run entries/exits, Signal call/return) "
                       "and the final node/handler tables are replayed through the Coq model by the power-set acceptor "
                       "(Sched/Replay2.v) and judged by the monitor of %s in Coq and in python; distinct = distinct (DAG, flags, "
                       "handler subset and outcomes, stop instant, timeout, observed event order); non-trivial = has a handler, a "
                       "stop or a timeout" % pid)
    ctx.cov["distribution"] = distribution2(cases)
    for c in cases[:1] + cases[len(cases) // 2: len(cases) // 2 + 2] + cases[-1:]:
        ctx.sample({k: c[k] for k in ("stream", "steps", "handlers", "stop", "timeout", "events", "final", "hfinal", "err", "status") if k in c})
    if pid == "C04" and replay_cases is None:
        acases = agent_lib.run_cases(ctx, ["pre"])
        if acases is not None:
            for c in acases:
                why = agent_lib.monitor(c)
                if why is not None:
                    ctx.fail("monitor", "C04: " + why, c, cls={"kind": "agent-" + c["class"], "sub": c["sub"]})
            agent_lib.check_model(ctx, acases, tag="c04_agent")
            ctx.cov["agent_precondition_runs"] = agent_lib.summary(acases)
    if pid == "C05" and (replay_cases is None or agent_again):
        agent_stop_part(ctx, tool)
    ctx.cov["trusted_base"] += [
        "Sched model (coq/Sched/Model.v): goroutine scheduling = arbitrary interleaving of the mutex-delimited sections of "
        "scheduler.go/node.go; Signal = flag + one atomic section per node; node teardown does not fail; the executor refuses an "
        "expired context (as os/exec does) - encoded in the guards of WExecStart/HStart",
        "theorem premises: norepeat for the outcome theorems (no premise about the done channel since fix 614b59e); the stop "
        "theorems (no new start, signal reaches) hold for every configuration",
        "scripted executor `verifscript` stands for the command executor: it ends on Kill unless scripted to ignore the signal, "
        "loses a Kill that arrives before its Run has started (command.go:68-75), honours its context",
        "wall-clock bounds (MaxCleanUpTime) are observed with tolerance, never proved",
    ]
    ctx.assumptions = ["stop requests are Scheduler.Signal calls made by the driver as agent.signal makes them"]
    if ctx.tier == "thorough":
        ctx.coqchk()

    def search():
        more, _, _ = sched_lib.run_driver(ctx, tool, "search", pid, "search")
        for c in sched_lib.usable(more or []):
            r = PY_MON2[pid](c)
            if r is not None and ctx.match_known(dict(r[1], stream=c["stream"]), "monitor") is None:
                return c
        return None

    return ctx.finish(search=search)


def replay_family2(ctx, pid, path):
    body = json.load(open(path))
    cases = []
    for f in body.get("failures", []):
        cs = f.get("case")
        if isinstance(cs, dict) and "steps" in cs:
            cases.append(cs)
        elif isinstance(cs, dict) and isinstance(cs.get("case"), dict) and "steps" in cs["case"]:
            cases.append(cs["case"])
    for k in ("failing_input", "case"):
        if isinstance(body.get(k), dict) and "steps" in body[k]:
            cases.append(body[k])
    cases = [dict(c) for c in cases for _ in range(int(body.get("repeat", 5)))]
    # a failure of the agent-level real-process part: that part (fixed cases) is run again
    again = any(isinstance(f.get("case"), dict) and f["case"].get("class") == "agentstop" for f in body.get("failures", []))
    return run_family2(ctx, pid, replay_cases=cases, agent_again=again)
