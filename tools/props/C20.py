"""C20 - control actions through the API respect the state of the run (DESIGN.md section 5, C20).

Tie to the code: harness/cmd/api calls the real frontend/dag.Handler (configured on a generated
operations.BlackdaggerAPI) over a real client and scratch data store; (1) monitors = the clauses of the property
on the response code, the spawned argv, the stop requests and the byte-level dump before/after every call,
(2) the Coq model coq/Api (`post`, `create`, `delete`) replays every case and must show the same."""
import json
import os

import vlib
from vlib import cstring, clist
from props import storeapi_lib as L

NODE_TEXT = {4: "finished", 2: "failed"}


# ---------------------------------------------------------------------------------------------
# monitors
# ---------------------------------------------------------------------------------------------

def snap(d):
    return (sorted(map(tuple, d["defs"])), sorted((h["dir"], r["file"], r["sha"]) for h in d["hist"] for r in h["runs"]),
            sorted(d["flags"]))


def loc_dir(d, loc):
    for h in d["hist"]:
        if h["loc"] == loc:
            return h["dir"]
    return None


def json_diff(a, b, path=""):
    """Paths at which two JSON values differ."""
    if type(a) != type(b):
        return [path]
    if isinstance(a, dict):
        out = []
        for k in set(a) | set(b):
            if k not in a or k not in b:
                out.append(path + "/" + k)
            else:
                out += json_diff(a[k], b[k], path + "/" + k)
        return out
    if isinstance(a, list):
        if len(a) != len(b):
            return [path + "/#len"]
        out = []
        for i, (x, y) in enumerate(zip(a, b)):
            out += json_diff(x, y, "%s/%d" % (path, i))
        return out
    return [] if a == b else [path]


def monitor_case(c):
    """List of (step index, what, cls)."""
    out = []
    live = {}   # name -> (reqid, status)
    hung = set()  # names whose process owns the control socket but does not answer
    prev = None
    for i, s in enumerate(c["steps"]):
        cur = s["dump"]
        k = s["kind"]

        def fail(what, **cls):
            out.append((i, what, cls))
        if k == "live":
            live[s["name"]] = (s["reqid"], s["status"])
            hung.discard(s["name"])
        elif k == "hang":
            live.pop(s["name"], None)
            hung.add(s["name"])
        elif k == "unlive":
            live.pop(s["name"], None)
            hung.discard(s["name"])
        same = prev is not None and snap(prev) == snap(cur)
        if k == "exec" and s.get("exec_note") != "skipped":
            b = c["steps"][i - 1].get("body") or {}
            name = lambda t: t.split("|")[2] if t.count("|") >= 2 else t
            if s.get("exec_note"):
                fail("the real `start` run on the spawned command line did not complete: %s" % s["exec_note"][:200],
                     **{"class": "real-start-failed"})
            elif s["saw"] != s["want"] or name(s["saw_env"]) != name(s["want_env"]):
                fail("start parameters %r given to the API: the real run started with the spawned argv %r recorded parameters %r "
                     "(step saw NAME=%r) instead of %r (NAME=%r)" % (b.get("params"), s.get("argv"), s["saw"], name(s["saw_env"]),
                                                                      s["want"], name(s["want_env"])),
                     **{"class": "start-params-not-delivered"})
        if k == "details" and prev is not None and (not same or s["spawns"] or s["stops"]):
            fail("viewing a DAG changed the store", **{"class": "details-side-effect"})
        if k == "post":
            b = s["body"]
            act = b.get("action")
            running = live.get(s["name"], (None, 0))[1] == 1
            code = s["code"]
            if act == "start" and running and (code == 200 or s["spawns"] or not same):
                fail("start accepted (code %d, %d spawn) while the DAG is running" % (code, len(s["spawns"])), **{"class": "start-while-running"})
            if act == "stop" and not running and (code == 200 or s["stops"] or not same):
                fail("stop accepted (code %d) while the DAG is not running" % code, **{"class": "stop-while-not-running"})
            if act in ("mark-success", "mark-failed") and running and (code == 200 or not same):
                fail("status edit accepted (code %d) while the DAG is running" % code, **{"class": "mark-while-running"})
            if s.get("phase_before") == "handler" and s.get("phase_after") == "handler" and \
                    act in ("start", "mark-success", "mark-failed") and (code == 200 or s["spawns"] or not same):
                fail("%s accepted (code %d, %d spawn, history %s) while the run is in progress: all its steps have ended and its exit "
                     "handler is executing (the process is alive and still owns the run's history file)"
                     % (act, code, len(s["spawns"]), "unchanged" if same else "CHANGED"), **{"class": "accepted-during-lifecycle-handler"})
            if act in ("mark-success", "mark-failed") and s["name"] in hung and (code == 200 or not same):
                fail("status edit accepted (code %d) while the DAG's process is alive (it owns the control socket) but does not "
                     "answer: the history of a running run was edited" % code, **{"class": "mark-while-unresponsive"})
            if code != 200:
                spawned_retry = act == "retry" and b.get("requestId")
                if not same or s["stops"] or (s["spawns"] and not spawned_retry):
                    fail("a refused action (%s, code %d) changed the store or started / stopped something" % (act, code),
                         **{"class": "refused-has-effects", "action": str(act)})
            malformed = (act is None or act not in ("start", "suspend", "stop", "retry", "mark-success", "mark-failed", "save", "rename")
                         or (act in ("mark-success", "mark-failed") and (not b.get("requestId") or not b.get("step")))
                         or (act == "retry" and not b.get("requestId")) or (act == "rename" and not b.get("value")))
            if malformed and code == 200:
                fail("a malformed action (%s) was accepted" % act, **{"class": "malformed-accepted", "action": str(act)})
            if act == "start" and code == 200:
                p = b.get("params", "")
                locs = [a[-1] for a in s["spawns"]]
                if len(s["spawns"]) != 1:
                    if "\x00" not in p:
                        fail("accepted start spawned %d processes" % len(s["spawns"]), **{"class": "start-spawn-count"})
                else:
                    argv = s["spawns"][0]
                    got = None
                    if len(argv) == 2 and argv[0] == "start":
                        got = ""
                    elif len(argv) == 4 and argv[:2] == ["start", "-p"]:
                        q = argv[2]
                        got = q[1:-1] if len(q) > 1 and q[0] == '"' and q[-1] == '"' else q   # cmd/start.go removeQuotes
                    if got is None:
                        fail("accepted start spawned an unexpected command line %r" % argv, **{"class": "start-argv-shape"})
                    elif got != p:
                        crlf = got == p.replace("\r", "\\r").replace("\n", "\\n")
                        fail("start parameters %r reach the process as %r" % (p, got), **{"class": "start-params-rewritten", "crlf": crlf})
                    if not locs[0].endswith(".yaml"):
                        fail("accepted start was given a location that is not the DAG file", **{"class": "start-argv-shape"})
                if not same:
                    fail("start changed the store", **{"class": "start-side-effect"})
            if act in ("mark-success", "mark-failed") and code == 200:
                to = 4 if act == "mark-success" else 2
                if sorted(map(tuple, prev["defs"])) != sorted(map(tuple, cur["defs"])) or sorted(prev["flags"]) != sorted(cur["flags"]):
                    fail("status edit touched definitions or flags", **{"class": "mark-side-effect"})
                if s["spawns"] or s["stops"]:
                    fail("status edit started or stopped something", **{"class": "mark-side-effect"})
                df = s["diff"]
                if len(df) != 1 or df[0]["old"] is None or df[0]["new"] is None:
                    fail("accepted status edit changed %d history files (exactly one must grow by one status)" % len(df), **{"class": "mark-not-exactly-one-run"})
                else:
                    old, new = df[0]["old"], df[0]["new"]
                    own = loc_dir(cur, s.get("loc") or "") or None
                    if new[:len(old)] != old or len(new) != len(old) + 1 or not old:
                        fail("accepted status edit did not append exactly one status to the run's file", **{"class": "mark-not-append"})
                    else:
                        o, n = None, None
                        for ln in reversed(old):        # the previous last status = the last line that IS a status
                            try:
                                o = json.loads(ln)
                                break
                            except ValueError:
                                continue
                        try:
                            n = json.loads(new[-1])
                        except ValueError:
                            n = None
                        if n is None:
                            fail("the status appended by the edit is not a parseable line (glued to a torn tail?)", **{"class": "mark-not-append"})
                        elif o is None or o.get("RequestId") != b.get("requestId"):
                            fail("status edit landed in the file of another run (%r)" % (o or {}).get("RequestId"), **{"class": "mark-wrong-run"})
                        else:
                            idx = [j for j, nd in enumerate(o.get("Nodes") or []) if nd["Step"]["Name"] == b.get("step")]
                            allowed = set()
                            if idx:
                                allowed = {"/Nodes/%d/Status" % idx[-1], "/Nodes/%d/StatusText" % idx[-1]}
                            gone = live.get(s["name"], (None, 0))[0] != b.get("requestId")
                            if o.get("Status") == 1 and gone:
                                allowed |= {"/Status", "/StatusText"}
                            diffs = set(json_diff(o, n))
                            if not idx or not diffs <= allowed:
                                fail("status edit changed %s (allowed: %s)" % (sorted(diffs - allowed), sorted(allowed)), **{"class": "mark-not-exact"})
                            elif n["Nodes"][idx[-1]]["Status"] != to or n["Nodes"][idx[-1]]["StatusText"] != NODE_TEXT[to]:
                                fail("status edit wrote status %r / %r instead of %d" % (n["Nodes"][idx[-1]]["Status"], n["Nodes"][idx[-1]]["StatusText"], to),
                                     **{"class": "mark-wrong-value"})
                            elif o.get("Status") == 1 and gone and (n.get("Status") != 2 or n.get("StatusText") != "failed"):
                                fail("a run recorded as running whose process is gone was not relabelled failed by the edit", **{"class": "mark-relabel"})
                # ... and the edit must be what every reader of the history sees afterwards
                qb, qa = s.get("q_before"), s.get("q_after")
                if qb is not None and qa is not None:
                    rq, stp = b.get("requestId"), b.get("step")

                    def edited(ln):
                        e = json.loads(json.dumps(ln))
                        idx = [j for j, nd in enumerate(e["nodes"]) if nd["n"] == stp]
                        if idx:
                            e["nodes"][idx[-1]]["s"] = to
                        return e

                    def differs(got, want):
                        """not equal, up to the permitted relabel running -> failed of a run whose process is gone"""
                        if got is None or want is None:
                            return got is not want
                        if isinstance(got, list):
                            return len(got) != len(want) or any(differs(g, w) for g, w in zip(got, want))
                        if got["r"] != want["r"] or got["nodes"] != want["nodes"]:
                            return True
                        # running and its relabel failed are one class here: the server's status cache hands out the object that
                        # GetLatestStatus relabelled in memory, so a query may show either before the file is re-read (the byte-level
                        # clauses above check the recorded top-level status exactly)
                        norm = lambda x: 2 if x == 1 else x
                        return norm(got["s"]) != norm(want["s"])
                    problems = []
                    if qb["byreq"] is None or qa["byreq"] is None:
                        problems.append("GetStatusByRequestID does not answer for the edited run")
                    elif differs(qa["byreq"], edited(qb["byreq"])):
                        problems.append("GetStatusByRequestID shows %s, expected %s" % (qa["byreq"], edited(qb["byreq"])))
                    want_recent = [edited(x) if x["r"] == rq else x for x in qb["recent"]]
                    if differs(qa["recent"], want_recent):
                        problems.append("recent history shows %s, expected %s" % (qa["recent"], want_recent))
                    if s["name"] in live:
                        pass    # the latest status is what the live agent answers on its socket, not the history
                    elif qb["latest"] is not None and qb["latest"]["r"] == rq:
                        if differs(qa["latest"], edited(qb["latest"])):
                            problems.append("latest status shows %s, expected %s" % (qa["latest"], edited(qb["latest"])))
                    elif differs(qa["latest"], qb["latest"]):
                        problems.append("latest status of the DAG changed although another run was edited")
                    if problems:
                        fail("accepted status edit (200) is not what the history queries show afterwards: " + "; ".join(problems)[:600],
                             **{"class": "mark-not-visible"})
                if len(df) == 1:
                    name_dir = None
                    for h in cur["hist"]:
                        if h["dir"] == df[0]["dir"]:
                            name_dir = h["loc"]
                    if name_dir is not None and not name_dir.endswith("/" + s["name"] + ".yaml"):
                        fail("status edit landed in the history of another DAG (%s)" % name_dir, **{"class": "mark-wrong-dag"})
        prev = cur
    return out


# ---------------------------------------------------------------------------------------------
# model side
# ---------------------------------------------------------------------------------------------

def c_opt(s):
    return "None" if s is None else "(Some %s)" % cstring(s)


def c_body(b):
    return "(mkBody %s %s %s %s %s)" % (c_opt(b.get("action")), cstring(b.get("value", "")), cstring(b.get("requestId", "")),
                                        cstring(b.get("step", "")), cstring(b.get("params", "")))


def c_step(s, real):
    k = s["kind"]
    if k == "mkdag":
        return "SMk %s %s" % (cstring(s["name"]), cstring(s["text"]))
    if k == "rec":
        return "SRec %s (%d)%%Z %s %s" % (cstring(L.map_path(s["loc"], real)), s["stamp"], clist([L.c_status(l) for l in s["lines"]]),
                                         "true" if s.get("closed") else "false")
    if k == "live":
        return "SLive %s %s %d" % (cstring(L.map_path(s["loc"], real)), cstring(s["reqid"]), s.get("status", 0))
    if k == "hang":     # the agent accepts the connection and never answers: live status st_timeout (99)
        return "SLive %s %s 99" % (cstring(L.map_path(s["loc"], real)), cstring(""))
    if k == "unlive":
        return "SUnlive %s" % cstring(L.map_path(s["loc"], real))
    if k == "stubexit":
        return "SExit %s" % ("true" if s.get("exit", 0) == 0 else "false")
    if k == "post":
        return "SPost %s %s" % (cstring(s["name"]), c_body(s["body"]))
    if k == "create":
        return "SCreate %s %s" % (c_opt(s["body"].get("action")), c_opt(s["body"].get("value", "")))
    if k == "surgery":
        mode = {"torn-prefix": 0, "torn-nonl": 1, "twin": 2}[s["mode"]]
        return "SSurgery %s (%d)%%Z %d %s" % (cstring(L.map_path(s["loc"], real)), s["stamp"], mode,
                                              clist([L.c_status(l) for l in s.get("lines") or []]))
    if k == "delete":
        return "SDelete %s" % cstring(s["name"])
    if k == "details":
        return "SDetails %s" % cstring(s["name"])
    raise ValueError(k)


def reader_view(h):
    """The runs of a history directory the way every reader of the history sees them (the Api model is at that level;
    the file level is C07's): an original X.dat is dropped when its compacted copy X_c.dat exists, and a line that is
    not a status (a torn tail) is no status."""
    files = {r["file"] for r in h["runs"]}
    out = []
    for r in h["runs"]:
        if not r["file"].endswith("_c.dat") and r["file"][:-4] + "_c.dat" in files:
            continue
        out.append((r["stamp"], [l for l in r["lines"] if l["r"] != "?garbage"]))
    return out


def c_obs(s, real):
    d = s["dump"]
    defs = clist(["(%s, %s)" % (cstring(L.MDIR + "/" + f), cstring(t)) for f, t in d["defs"]])
    hist = clist(["(%s, %s)" % (cstring(L.map_path(h["loc"], real)), clist([L.c_run(st, ls) for st, ls in reader_view(h)]))
                  for h in d["hist"]])
    spawns = clist([clist([cstring(L.map_path(a, real)) for a in argv]) for argv in s["spawns"]])
    stops = clist([cstring(L.map_path(x, real)) for x in s["stops"]])
    return "mkAObs %d %s %s %s %s %s" % (s["code"], spawns, stops, defs, hist, clist([cstring(f) for f in d["flags"]]))


def c_case(c):
    return clist(["(%s, %s)" % (c_step(s, c["dir"]), c_obs(s, c["dir"])) for s in c["steps"]])


CODES = {1: "response code", 2: "spawned command lines", 3: "definition files", 4: "history files", 5: "suspend flags", 7: "stop requests"}


def model_check(ctx, cases, texts):
    ids = lambda key: clist([cstring(t) for t, v in sorted(texts.items()) if v[key]])
    header = ("From Coq Require Import List String Ascii ZArith.\nImport ListNotations.\nOpen Scope string_scope.\n"
              "From BD.DagStore Require Import Model Check.\nFrom BD.Api Require Import Model Check.\n"
              "Definition cases : list (list (astep * aobs)) := [\n%%s\n].\n"
              "Definition M := Eval vm_compute in amismatches %s %s %s %s \"T0\" cases.\nPrint M.\n"
              % (ids("valid"), ids("graph"), ids("valid"), cstring(L.MDIR)))
    shards = L.shard(cases, lambda c: len(c["steps"]), 330)
    res = L.eval_shards(ctx, "cases_c20", header, shards, c_case)
    bad = []
    for sh, (r, err) in zip(shards, res):
        if r is None:
            ctx.fail("correspondence", "the model could not be evaluated on a shard of cases (coqc failed)", {"log": err})
            continue
        for (k, i, code) in r:
            bad.append((sh[k], i, code))
    return bad


# ---------------------------------------------------------------------------------------------

def build_real_binary(ctx):
    """The real blackdagger binary of the tree under test (vlib.REPO), built inside the scratch copy of the harness
    module (whose go.mod replaces the module by vlib.REPO), so that nothing is written to /repo or /verif."""
    out_bin = os.path.join(ctx.scratch, "blackdagger")
    rc, out, dt = vlib.sh(["go", "build", "-o", out_bin, "github.com/ErdemOzgen/blackdagger"],
                          cwd=os.path.join(ctx.scratch, "harness"), env=vlib.env_go(), timeout=1500)
    return (out_bin if rc == 0 else None), out


def run_tool_cases(ctx, tool, args, seed=None):
    p = os.path.join(ctx.scratch, "api-%d.jsonl" % len(os.listdir(ctx.scratch)))
    extra = {"VERIF_SEED": str(ctx.seed if seed is None else seed)}
    if getattr(ctx, "bdbin", None):
        extra["VERIF_BDBIN"] = ctx.bdbin
    rc, out, dt = vlib.run_tool(tool, [p] + args, env_extra=extra, timeout=3000)
    if rc != 0 or not os.path.exists(p):
        return None, None, out
    rows = vlib.read_jsonl(p)
    os.remove(p)
    return rows[0], rows[1:], out


OBSERVED = ("phase_before", "phase_after", "dump", "code", "spawns", "stops", "diff", "note", "loc", "q_before", "q_after", "argv", "saw", "saw_env", "want", "want_env", "exec_note")


def strip(c, upto=None):
    steps = c["steps"] if upto is None else c["steps"][:upto + 1]
    return {"k": c.get("k", 0), "stream": c.get("stream", "replay"), "state": c.get("state", ""), "row": c.get("row", ""),
            "steps": [{k: v for k, v in s.items() if k not in OBSERVED} for s in steps]}


def slim(c, upto=None):
    steps = c["steps"] if upto is None else c["steps"][:upto + 1]
    return {"k": c.get("k", 0), "stream": c.get("stream", ""), "state": c.get("state", ""), "row": c.get("row", ""),
            "steps": [{k: v for k, v in s.items() if k not in ("dump",)} for s in steps]}


def rerun(ctx, tool, cases):
    p_in = os.path.join(ctx.scratch, "replay-in.jsonl")
    with open(p_in, "w") as f:
        for c in cases:
            f.write(json.dumps(strip(c)) + "\n")
    head, rows, out = run_tool_cases(ctx, tool, ["replay", p_in])
    return head, rows or []


def shrink(ctx, tool, c, i, cls):
    steps = c["steps"][:i + 1]

    def still(cand):
        if not cand:
            return False
        head, rows = rerun(ctx, tool, [{"k": 0, "steps": cand}])
        return bool(rows) and any(k == cls for _, _, k in monitor_case(rows[0]))
    small = L.greedy_shrink(steps, still, budget=25)
    head, rows = rerun(ctx, tool, [dict(strip(c), steps=small, stream=c.get("stream", "") + "-shrunk")])
    return slim(rows[0]) if rows else slim(c, i)


def fragment_is_truth(ctx):
    """known_findings.d/<id>.json is the source of truth for this property's findings: the merged known_findings.json
    may lag behind (an entry repaired since - state "fixed" - must suppress nothing)."""
    frag = os.path.join(vlib.VERIF, "known_findings.d", ctx.pid + ".json")
    if os.path.exists(frag):
        ctx.known = [k for k in json.load(open(frag)) if k.get("property") == ctx.pid and k.get("state") == "known"]


def run(ctx, replay_cases=None):
    fragment_is_truth(ctx)
    ctx.proofs(extra=["Api/Check.vo"])
    tool, out, _ = vlib.go_build("api", ctx.scratch)
    if tool is None:
        ctx.fail("correspondence", "harness does not build against /repo", {"log": out[-2000:]})
        return ctx.finish()
    ctx.bdbin, bout = build_real_binary(ctx)
    if ctx.bdbin is None:
        ctx.fail("correspondence", "the blackdagger binary does not build from /repo", {"log": bout[-2000:]})
        return ctx.finish()
    if replay_cases is None:
        head, cases, out = run_tool_cases(ctx, tool, [ctx.tier])
        if head is None:
            ctx.fail("correspondence", "api driver failed", {"log": out[-2000:]})
            return ctx.finish()
        corpus = os.path.join(vlib.VERIF, "corpus", "C20.jsonl")
        if os.path.exists(corpus):
            _, rows = rerun(ctx, tool, vlib.read_jsonl(corpus))
            for j, r in enumerate(rows):
                r["k"], r["stream"] = 100000 + j, "corpus"
            cases = rows + cases
    else:
        head, cases = rerun(ctx, tool, replay_cases)
        if head is None:
            ctx.fail("correspondence", "api driver failed on the replay input", {})
            return ctx.finish()
    texts = {t["id"]: t for t in head["texts"]}
    for t in texts.values():
        if t["valid"] != t["load"]:
            ctx.fail("correspondence", "dag.LoadYAML and dag.LoadWithoutEval disagree on a text of the pool", {"text": t["id"]})

    # ---- monitors --------------------------------------------------------------------------
    table = {}
    actions, codes, streams = {}, {}, {}
    seen = set()
    reported = {}
    ncalls = 0
    for c in cases:
        if c.get("fatal"):
            ctx.fail("monitor", "the real handler panicked: %s" % c["fatal"][:300], strip(c), cls={"class": "panic"})
            continue
        streams[c["stream"]] = streams.get(c["stream"], 0) + 1
        for s in c["steps"]:
            if s["kind"] in ("post", "create", "delete", "details"):
                ncalls += 1
                a = (s.get("body") or {}).get("action") if s["kind"] == "post" else s["kind"]
                actions[str(a)] = actions.get(str(a), 0) + 1
                codes[str(s["code"])] = codes.get(str(s["code"]), 0) + 1
        if c["stream"] in ("table", "table-shapes", "table-unresponsive", "table-big"):
            last = c["steps"][-1]
            table.setdefault(c["row"], {})[c["state"]] = last["code"]
        if any(s["kind"] == "post" and s["code"] == 200 for s in c["steps"][4:]):
            seen.add(json.dumps(strip(c), sort_keys=True))
        for (i, what, cls) in monitor_case(c):
            key = json.dumps(cls, sort_keys=True)
            reported[key] = reported.get(key, 0) + 1
            if ctx.match_known(cls, "monitor") is None and reported[key] <= 3:
                case = shrink(ctx, tool, c, i, cls)
            else:
                case = slim(c, i)
            ctx.fail("monitor", what, case, cls=cls)

    # ---- model -----------------------------------------------------------------------------
    good = [c for c in cases if not c.get("fatal")]
    # the realrun cases use a per-case definition text (a script path inside): monitors only
    for c, i, code in model_check(ctx, [c for c in good if c["stream"] not in ("realrun", "real-agent")], texts):
        s = c["steps"][i]
        ctx.fail("correspondence", "model and implementation differ at step %d (%s %s %s): %s; implementation answered %d" %
                 (i, s["kind"], s.get("name", ""), (s.get("body") or {}).get("action"), CODES.get(code, code), s["code"]),
                 dict(slim(c, i), failing_step=i))

    # ---- evidence --------------------------------------------------------------------------
    ctx.cov["evaluations"] = ncalls
    ctx.cov["traces_validated_against_impl"] = len(good)
    ctx.cov["distinct_nontrivial"] = len(seen)
    ctx.cov["rule"] = ("cases = set-up (definitions, recorded runs through the real jsondb, live agents as real sock.Servers) followed by "
                       "calls of the real operation handlers; every case is replayed on the Coq model (response code, spawned argv, stop "
                       "requests, all definition / history files, flags compared after every step) and checked by the property monitors; "
                       "distinct = distinct cases, non-trivial = contains an accepted (200) action after the set-up")
    ctx.cov["streams"] = streams
    ctx.cov["actions"] = actions
    ctx.cov["response_codes"] = codes
    ctx.cov["table_rows"] = len(table)
    ctx.cov["table_states"] = sorted({st for r in table.values() for st in r})
    ctx.cov["table_cells"] = sum(len(r) for r in table.values())
    ctx.cov["table_sample"] = {r: table[r] for r in list(table)[:1] + ["stop", "mark-success/req-cur/step-s1", "mark-success/req-wrong/step-s1"] if r in table}
    ctx.cov["monitor_classes_seen"] = reported
    ctx.cov["real_start_runs"] = sum(1 for c in good for s in c["steps"] if s["kind"] == "exec" and s.get("exec_note") != "skipped")
    for c in good[:1] + good[-1:]:
        ctx.sample(slim(c))
    ctx.cov["trusted_base"] += [
        "Section variables of Api: valid / graph_ok (verdicts of the loader and of NewExecutionGraph per text, supplied by the harness), "
        "retry_ok (exit status of the spawned retry process), tmpl, dir",
        "live agents are modelled as (request id, status) answered on the DAG's socket, plus the state st_timeout = the process accepts "
        "the connection and never answers (a real listener that accepts and stays silent; every client request waits out its 3 s timeout)",
        "history at the abstract level (location -> runs -> status lines), run stamps distinct; latestStatusToday=false",
        "start parameters end to end: for 10 parameter strings the spawned argv is executed with the real blackdagger binary built from "
        "the tree under test (start on a one-step DAG); recorded Status.Params and the step's $NAME are compared with dag.Load of the given string",
        "a real agent (in the driver's process) runs a DAG with a slow exit handler; start / mark-* issued while the handler executes must be "
        "refused (monitor only: the Api model has no lifecycle phases - a live agent answers running until it is gone); a live agent whose "
        "status JSON exceeds 64 KiB (400 steps) is one of the running states of the table",
        "handlers are called directly (the swagger layer in front of them, which rejects unknown / missing actions earlier, is bypassed)",
        "re-implemented on strings: escapeArg, removeQuotes (bytes; parameters are valid UTF-8 after JSON decoding), name -> path rules of DagStore",
    ]
    ctx.assumptions = ["DAG ids are single path elements; run start stamps pairwise distinct; request ids of the recorded runs of a DAG distinct",
                       "C20_start_params: parameters free of CR, LF and NUL (params_safe); refuted otherwise (F20a)"]
    if ctx.tier == "thorough":
        ctx.coqchk()

    def search():
        # extra budget: further generated cases (other seeds) through the monitors
        for extra in (1, 2, 3):
            head2, more, _ = run_tool_cases(ctx, tool, ["quick"], seed=ctx.seed + extra)
            for c in more or []:
                if c.get("fatal"):
                    continue
                for (i, what, cls) in monitor_case(c):
                    if ctx.match_known(cls, "monitor") is None:
                        return dict(slim(c, i), what=what, cls=cls)
        return None
    return ctx.finish(search=search)


def replay(ctx, path):
    body = json.load(open(path))
    items = [f.get("case") for f in body.get("failures", [])]
    if isinstance(body.get("failing_input"), dict):
        items.append(body["failing_input"])
    if "steps" in body:
        items.append(body)
    cases = [c for c in items if isinstance(c, dict) and "steps" in c]
    return run(ctx, replay_cases=cases)
