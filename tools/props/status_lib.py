"""Helpers of the C08 check (reported status is truthful): monitors on in-process agent cases, the crash
enumeration on the real binary (SIGKILL by time offset and by strace injection at the k-th system call),
and the printer of the Coq cases file.  See DESIGN.md section 5, C08 and harness/cmd/status/main.go."""
import json
import os
import re
import shutil
import signal
import socket
import subprocess
import threading
import time
from concurrent.futures import ThreadPoolExecutor
from datetime import datetime

import vlib

NONE, RUNNING, FAILED, CANCELED, FINISHED, SKIPPED = 0, 1, 2, 3, 4, 5
DONE_OK = (FINISHED, SKIPPED)


# ------------------------------------------------------------------------------------------------
# in-process cases
# ------------------------------------------------------------------------------------------------

def _ts(s):
    try:
        return datetime.fromisoformat(s.replace("Z", "+00:00"))
    except Exception:
        return None


def table(p):
    return [n["st"] for n in p["nodes"]]


def same_status(a, b):
    """projected equality of two statuses (what the property compares: overall, per node state/attempts/log/times)."""
    if a is None or b is None:
        return a is b
    if (a["st"], a["text"], a["req"], a["started"], a["finished"]) != (b["st"], b["text"], b["req"], b["started"], b["finished"]):
        return False
    if len(a["nodes"]) != len(b["nodes"]):
        return False
    keys = ("name", "st", "rc", "dc", "log", "started", "finished", "err")
    for x, y in zip(a["nodes"], b["nodes"]):
        if any(x[k] != y[k] for k in keys):
            return False
    for h in ("exit", "success", "failure", "cancel"):
        x, y = a["h"].get(h), b["h"].get(h)
        if (x is None) != (y is None):
            return False
        if x is not None and any(x[k] != y[k] for k in keys):
            return False
    return True


def corrected(p):
    """status.go CorrectRunningStatus on a projection"""
    if p is not None and p["st"] == RUNNING:
        q = dict(p)
        q["st"], q["text"] = FAILED, "failed"
        return q
    return p


def is_main(role):
    return role.endswith(").Run")


def final_write(c):
    mains = [w for w in c["writes"] if is_main(w["role"])]
    return mains[1] if len(mains) >= 2 else None


def stale_after_final(c):
    """writes whose snapshot was computed before the final status was handed to the store, and that reached the
    file after it"""
    fw = final_write(c)
    if fw is None:
        return []
    return [w for w in c["writes"] if w is not fw and not w.get("dropped") and not w.get("err")
            and w["t0"] <= fw["t2"] and w["t2"] >= fw["t2"] and w["seq"] != fw["seq"] and w["t1"] >= fw["t1"]]


def monitor_inproc(c):
    """The property on one in-process run.  Returns a list of (what, cls)."""
    out = []
    if c.get("infra"):
        return [("driver could not run the case: " + c["infra"], {"class": "infra"})]
    stop = c["kind"] in ("stop", "stopcommit") and c["t_stop"] >= 0
    ev = {}
    for e in c["exec"]:
        ev.setdefault(e["name"], []).append(e)
    steps = {s["name"]: s for s in c["steps"]}
    allev = c["exec"]
    first0 = min([e["t0"] for e in allev], default=None)
    last1 = max([e["t1"] for e in allev], default=None) if all(e["t1"] >= 0 for e in allev) else None
    for w in c["writes"]:
        if w.get("dropped"):
            # the real jsondb.Write dereferences its nil writer after Close: the process would have crashed here
            out.append(("the agent called the history store's Write after Close (jsondb would panic on its nil writer): write #%d by %s"
                        % (w["seq"], w["role"]), {"class": "write-after-close"}))
    if "PANIC" in (c.get("run_err") or ""):
        out.append(("agent.Run panicked: " + c["run_err"][:200], {"class": "panic"}))

    # ---- live: every answer obtained while the run was in progress ------------------------------------
    fw = final_write(c)
    stale = stale_after_final(c)
    mains = [w for w in c["writes"] if is_main(w["role"])]
    s0_done = mains[0]["t2"] if mains else None
    for p in c["polls"]:
        if p.get("err") or p["st"] is None:
            if c["t_close0"] and p["t1"] >= c["t_close0"] and p["t0"] <= c["t_close1"] + 2000:
                # a reader racing with Close's compaction (the original is unlinked under it): the property is silent about
                # the instant between "in progress" and "process ended"; counted, not judged
                c.setdefault("_obs", {}).setdefault("read_error_during_compaction", 0)
                c["_obs"]["read_error_during_compaction"] += 1
                continue
            if p.get("err") == "EOF" and (s0_done is None or p["t0"] <= s0_done):
                out.append(("status query during start-up fails: the newest history file exists and is still empty (EOF)",
                            {"class": "empty-newest-history-file"}))
                continue
            out.append(("GetLatestStatus failed during the run: %s" % p.get("err"), {"class": "live-error"}))
            continue
        t0, t1, s = p["t0"], p["t1"], p["st"]
        if t0 < c["t_run0"] or t1 > c["t_run1"]:
            continue
        if c["t_close0"] and t1 >= c["t_close0"] and t0 <= c["t_close1"] + 2000 and s["req"] != c["req"]:
            # a reader racing with Close's compaction: it listed the original, which was unlinked under it before the twin was
            # listed - since 3aa388e the unreadable file is skipped and the default status is answered (before: an error).
            # The property is silent about the instant between "in progress" and "process ended"; counted, not judged
            c.setdefault("_obs", {}).setdefault("read_error_during_compaction", 0)
            c["_obs"]["read_error_during_compaction"] += 1
            continue
        if stale and fw is not None and t1 >= fw["t2"]:
            continue      # answered from a history that ends with a stale snapshot: judged once, below
        in_progress = first0 is not None and last1 is not None and t0 > first0 and t1 < last1
        if in_progress:
            if s["st"] != RUNNING:
                out.append(("status reported while the run was in progress is %r, not running" % s["text"], {"class": "live-not-running"}))
            if s["req"] != c["req"]:
                out.append(("status reported while the run was in progress belongs to another run", {"class": "live-wrong-run"}))
        for n in s["nodes"] + [h for h in s["h"].values() if h]:
            es = ev.get(n["name"], [])
            if n["st"] == FINISHED and not any(e["ok"] and 0 <= e["t1"] <= t1 for e in es):
                if stop and not es:
                    out.append(("step %s reported finished although the run was stopped before its command ever ran" % n["name"],
                                {"class": "stop-committed-step-finished"}))
                else:
                    out.append(("step %s reported finished before its command had ended" % n["name"], {"class": "live-early-finished"}))
            if n["st"] == FAILED and not any((not e["ok"]) and 0 <= e["t1"] <= t1 for e in es):
                out.append(("step %s reported failed but no attempt had failed" % n["name"], {"class": "live-early-failed"}))
            if stop and t1 >= c["t_stop"]:
                continue
            if n["name"] in steps:
                if any(e["t0"] < t0 and (e["t1"] < 0 or e["t1"] > t1) for e in es) and n["st"] != RUNNING:
                    out.append(("step %s was executing during the whole request but reported as %s" % (n["name"], n["text"]), {"class": "live-stale"}))
                if n["st"] == NONE and steps[n["name"]]["rlimit"] == 0 and any(e["t0"] < t0 for e in es):
                    out.append(("step %s reported not started after its command had started" % n["name"], {"class": "live-stale"}))
                if n["st"] in (CANCELED, SKIPPED) and not stop and es:
                    out.append(("step %s reported %s although its command was executed" % (n["name"], n["text"]), {"class": "live-wrong"}))

    # ---- final: the persisted status = the final state = what happened ----------------------------------
    F, L = c["final"], c["latest"]
    if c.get("latest_err") or L is None or F is None:
        out.append(("no final status could be read after the run: %s" % c.get("latest_err"), {"class": "final-missing"}))
        return out
    if stop and fw is not None and not stale and same_status(L, fw["st"]) and same_status(c["by_req"], fw["st"]) \
            and table(L) == table(F) and F["st"] == CANCELED:
        # the stop request was delivered when the run was already over: the cancel flag was set after the final status had
        # been written; what is persisted is what the run's main thread saw last
        pass
    elif not same_status(L, F) or not same_status(c["by_req"], F):
        stale = stale_after_final(c)
        which = L if not same_status(L, F) else c["by_req"]
        cls = {"class": "final-differs"}
        if stale and any(same_status(which, corrected(w["st"])) for w in stale):
            cls = {"class": "stale-snapshot-after-final"}
        out.append(("the persisted status of the finished run (overall %r, steps %s) is not its final state (overall %r, steps %s)"
                    % (which["text"], table(which), F["text"], table(F)), cls))
    if L["st"] == RUNNING and not (stale_after_final(c)):
        out.append(("finished run reported as running", {"class": "final-running"}))
    if c["sock_after"]:
        out.append(("socket file left behind by a run that ended normally", {"class": "socket-left"}))
    if not c.get("recent_has_run", True):
        out.append(("after the run has ended it is missing from the recent history", {"class": "ended-run-missing-from-history"}))
    for n in F["nodes"] + [h for h in F["h"].values() if h]:
        es = ev.get(n["name"], [])
        is_step = n["name"] in steps
        if es:
            last = es[-1]
            killed = any(e["killed"] for e in es)
            if n["log"] == "" or not n["log_exists"]:
                out.append(("step %s was executed but its recorded log path does not exist" % n["name"], {"class": "final-log"}))
            a, b = _ts(n["started"]), _ts(n["finished"])
            if a is None or b is None or a > b:
                out.append(("step %s: recorded start %r is not before finish %r" % (n["name"], n["started"], n["finished"]), {"class": "final-times"}))
            if not killed and not stop:
                want = FINISHED if last["ok"] else FAILED
                if n["st"] != want:
                    out.append(("step %s: last attempt %s but recorded as %s" % (n["name"], "succeeded" if last["ok"] else "failed", n["text"]), {"class": "final-state"}))
                if is_step and (n["rc"] != len(es) - 1 or n["dc"] != len(es)):
                    out.append(("step %s was attempted %d time(s) but RetryCount=%d DoneCount=%d are recorded" % (n["name"], len(es), n["rc"], n["dc"]), {"class": "final-attempts"}))
            if killed and n["st"] not in (CANCELED, FAILED):
                out.append(("step %s was killed by the stop request but recorded as %s" % (n["name"], n["text"]), {"class": "final-state"}))
        elif is_step:
            ok = (CANCELED, SKIPPED, NONE) if stop else (CANCELED, SKIPPED)
            if stop and n["st"] == FINISHED:
                out.append(("step %s is recorded as finished although the run was stopped before its command ever ran" % n["name"],
                            {"class": "stop-committed-step-finished"}))
            elif n["st"] not in ok or n["rc"] != 0:
                out.append(("step %s never executed but is recorded as %s" % (n["name"], n["text"]), {"class": "final-state"}))
    if F["st"] == FINISHED and any(n["st"] not in DONE_OK for n in F["nodes"]):
        out.append(("run recorded as finished but a step is %s" % [n["text"] for n in F["nodes"] if n["st"] not in DONE_OK][0], {"class": "final-overall"}))
    if F["st"] in (NONE, RUNNING):
        out.append(("ended run recorded as %s" % F["text"], {"class": "final-overall"}))
    a, b = _ts(F["started"]), _ts(F["finished"])
    if a is None or b is None or a > b:
        out.append(("run: recorded start %r is not before finish %r" % (F["started"], F["finished"]), {"class": "final-times"}))
    return out


def monitor_cache(c):
    """A long-lived reader (one client with its status cache) follows a run that appends its records within one second and dies
    without compaction: after every append the reported status must be the last persisted one."""
    out = []
    if c.get("infra") or not c.get("cache"):
        return [("driver could not run the cache stream: %s" % c.get("infra"), {"class": "infra"})]
    for rd in c["cache"]["reads"]:
        got, want = rd["st"], rd["want"]
        if rd.get("err") or got is None:
            out.append(("long-lived reader: GetLatestStatus fails after append #%d: %s" % (rd["after_write"], rd.get("err")), {"class": "cached-reader-error"}))
        elif got["st"] != want["st"] or table(got) != table(want) or got["req"] != want["req"]:
            out.append(("a long-lived reader reports %r %s after the run appended status #%d (%r %s) within the same second and died without "
                        "compaction: the reported status is not the last persisted one"
                        % (got["text"], table(got), rd["after_write"], want["text"], table(want)), {"class": "stale-cached-status"}))
    return out


def reported_after_death(line):
    """what client.GetLatestStatus makes of a persisted line when nobody answers on the socket (specification side:
    running is shown as failed)"""
    return FAILED if line["st"] == RUNNING else line["st"]


def monitor_prefixes(c):
    """Kill right after the j-th history line reached the file (a legal kill point: between two system calls): the file
    then holds lines 0..j and the reported status is that of line j.  It must be neither running nor finished unless
    every step is finished or skipped."""
    out = []
    lines = c.get("raw_lines") or []
    fw = final_write(c)
    for j, ln in enumerate(lines):
        if ln["st"] < 0:
            continue
        if fw is not None and same_status(ln, fw["st"]):
            break
        r = reported_after_death(ln)
        t = table(ln)
        if r == RUNNING:
            out.append((j, "killed run reported as running", {"class": "dead-running"}))
        elif r == FINISHED and any(s not in DONE_OK for s in t):
            cls = {"class": "kill-between-steps"} if all(s in (NONE, RUNNING, FINISHED, SKIPPED) for s in t) else {"class": "dead-finished-other"}
            out.append((j, "a kill after history line %d leaves the cut-short run reported as finished (steps %s)" % (j, t), cls))
    return out


# ------------------------------------------------------------------------------------------------
# Coq cases (correspondence of the persisted snapshot sequence / live answers with the model)
# ------------------------------------------------------------------------------------------------

def coq_node(n):
    return "(%d, %d)" % (n["st"], n["rc"])


PIN_US = 60000      # a status counts as settled when the executor's last event for the step is this much older than the snapshot


def pins_of(c, w, after_stop):
    """per node: does the executor's ground truth say the node held this status for a while when the snapshot was taken?"""
    out = []
    t = w["t0"]
    for n in w["st"]["nodes"]:
        es = [e for e in c["exec"] if e["name"] == n["name"]]
        pin = False
        if not after_stop:
            if n["st"] == RUNNING:
                pin = any(e["t0"] < t - PIN_US and (e["t1"] < 0 or e["t1"] > t + 1000) for e in es)
            elif n["st"] in (FAILED, FINISHED):
                pin = bool(es) and all(0 <= e["t1"] < t - PIN_US for e in es)
            elif n["st"] == NONE:
                pin = n["rc"] == 0 and not any(e["t0"] < t + 1000 for e in es)
        out.append(pin)
    return out


def coq_snap(p, hc, he, pins):
    """hc / he: hints for the cancel flag and lastError (0 false / as the model has it, 1 true, 2 unknown)"""
    return "(%d, (%d, %d), %s, %s)" % (p["st"], hc, he, vlib.clist([coq_node(n) for n in p["nodes"]]), vlib.clist([vlib.cbool(b) for b in pins]))


def role_of(c, w):
    """0 main, 1 done-consumer goroutine, 2 first-status goroutine"""
    if is_main(w["role"]):
        return 0
    labels = sorted({x["role"] for x in c["writes"] if not is_main(x["role"])}, key=lambda r: int(re.sub(r"\D", "", r.split("func")[-1]) or 0))
    if len(labels) >= 2:
        return 1 if w["role"] == labels[0] else 2
    n = len([x for x in c["writes"] if x["role"] == w["role"]])
    dones = len([e for e in c["exec"] if e["t1"] >= 0])
    return 1 if (n > 1 or n == dones) and dones > 0 else 2


def coq_case(c):
    """(nsteps, writes in file order as (role, snapshot), live answers in time order)"""
    stop = c["kind"] in ("stop", "stopcommit") and c["t_stop"] >= 0
    ws = [w for w in c["writes"] if not w.get("dropped") and not w.get("err")]
    ws.sort(key=lambda w: (w["t2"], w["seq"]))
    out = []
    fail_end = {}
    for e in c["exec"]:
        if not e["ok"] and e["t1"] >= 0:
            fail_end[e["name"]] = max(fail_end.get(e["name"], 0), e["t1"])
    for w in ws:
        s = w["st"]
        after_stop = stop and w["t0"] >= c["t_stop"]
        hc = 2 if after_stop else 0
        failed = [n["name"] for n in s["nodes"] if n["st"] == FAILED]
        he = 0
        # lastError is written a few instructions after the node status: a snapshot taken right then may miss it
        if failed and any(w["t0"] - fail_end.get(nm, -10 ** 9) < 5000 for nm in failed):
            he = 2
        if after_stop:
            he = 2
        out.append("(%d, %s)" % (role_of(c, w), coq_snap(s, hc, he, pins_of(c, w, after_stop))))
    lives = []
    ts = [e["t0"] for e in c["exec"]]
    te = [e["t1"] for e in c["exec"]]
    first0 = min(ts) if ts else None
    last1 = max(te) if te and all(t >= 0 for t in te) else None
    for p in c["polls"]:
        if p.get("err") or p["st"] is None or first0 is None or last1 is None:
            continue
        if not (p["t0"] > first0 and p["t1"] < last1):
            continue      # only answers obtained while the run was in progress: those come through the socket
        s = p["st"]
        if s["req"] != c["req"]:
            continue
        lives.append("(%d, %s)" % (s["st"], vlib.clist([coq_node(n) for n in s["nodes"]])))
    # thin out repeated identical answers
    thin = [x for i, x in enumerate(lives) if i == 0 or x != lives[i - 1]]
    return "(%d, %s, %s)" % (len(c["steps"]), vlib.clist(out), vlib.clist(thin))


# ------------------------------------------------------------------------------------------------
# crash enumeration on the real binary
# ------------------------------------------------------------------------------------------------

SCENARIOS = {
    # chain with short sleeps: between-step windows of one polling period (100 ms) exist
    "chain": {
        "steps": ["a", "b", "c"], "fails": [],
        "yaml": """name: chain
schedule: "* * * * *"
steps:
  - name: a
    command: sh -c "touch $M/a.start; sleep 0.03; touch $M/a.end"
  - name: b
    command: sh -c "touch $M/b.start; sleep 0.03; touch $M/b.end"
    depends:
      - a
  - name: c
    command: sh -c "touch $M/c.start; sleep 0.03; touch $M/c.end"
    depends:
      - b
"""},
    # a step that fails on its first attempt and is retried; an exit handler
    "retry": {
        "steps": ["a", "b"], "fails": [],
        "yaml": """name: retry
schedule: "* * * * *"
handlerOn:
  exit:
    command: sh -c "touch $M/exit.end"
steps:
  - name: a
    command: sh -c "touch $M/a.start; if test -f $M/a.try; then touch $M/a.end; else touch $M/a.try; exit 1; fi"
    retryPolicy:
      limit: 1
      intervalSec: 0
  - name: b
    command: sh -c "touch $M/b.start; sleep 0.02; touch $M/b.end"
    depends:
      - a
"""},
    # a failing step: the run ends failed, the dependent step is canceled
    "fail": {
        "steps": ["a", "b", "c"], "fails": ["b"],
        "yaml": """name: fail
schedule: "* * * * *"
steps:
  - name: a
    command: sh -c "touch $M/a.start; sleep 0.01; touch $M/a.end"
  - name: b
    command: sh -c "touch $M/b.start; exit 3"
    depends:
      - a
  - name: c
    command: sh -c "touch $M/c.start; touch $M/c.end"
    depends:
      - b
"""},
}

SCENARIOS["big"] = {
    # every status line exceeds bufio's 4096-byte buffer: the JSON text and the newline reach the file in two write calls
    "steps": ["a", "b"], "fails": [],
    "yaml": """name: big
schedule: "* * * * *"
steps:
  - name: a
    description: "%s"
    command: sh -c "touch $M/a.start; sleep 0.01; touch $M/a.end"
  - name: b
    description: "%s"
    command: sh -c "touch $M/b.start; sleep 0.01; touch $M/b.end"
    depends:
      - a
""" % ("x" * 2400, "y" * 2400)}

SCENARIOS["prior"] = {
    # the history already holds a SUCCESSFUL run of the same DAG (made before the flag file exists); the run that is killed fails
    "steps": ["a", "b"], "fails": ["b"], "prior": True,
    "yaml": """name: prior
schedule: "* * * * *"
steps:
  - name: a
    command: sh -c "touch $M/a.start; sleep 0.01; touch $M/a.end"
  - name: b
    command: sh -c "touch $M/b.start; if test -f $BLACKDAGGER_HOME/fail.flag; then exit 3; fi; touch $M/b.end"
    depends:
      - a
"""}

SCENARIOS["huge"] = {
    # every status line exceeds 64 KiB (bufio.Scanner's default token limit; the pinned reader has no limit)
    "steps": ["a", "b"], "fails": [],
    "yaml": """name: huge
schedule: "* * * * *"
steps:
  - name: a
    description: "%s"
    command: sh -c "touch $M/a.start; sleep 0.01; touch $M/a.end"
  - name: b
    description: "%s"
    command: sh -c "touch $M/b.start; sleep 0.01; touch $M/b.end"
    depends:
      - a
""" % ("x" * 36000, "y" * 36000)}

FINAL = {"huge": (FINISHED, [FINISHED, FINISHED]), "prior": (FAILED, [FINISHED, FAILED]), "chain": (FINISHED, [FINISHED, FINISHED, FINISHED]), "retry": (FINISHED, [FINISHED, FINISHED]),
         "fail": (FAILED, [FINISHED, FAILED, CANCELED]), "big": (FINISHED, [FINISHED, FINISHED])}

# boundaries of the shutdown path after the final status has reached the history file
AFTER_FINAL = ("openat:history-reread", "unlinkat:history-tmp", "openat:history-compacted", "write:compacted-line",
               "renameat:history-tmp", "unlinkat:history-file", "fsync:compacted", "fsync:history", "close:compacted", "close:history")

TRACE = "write,openat,unlinkat,renameat,flock,socket,connect,bind,listen,accept4,fsync,mkdirat,close,read,epoll_ctl,clone,clone3,exit_group"
INJECTABLE = ["write", "openat", "unlinkat", "renameat", "flock", "socket", "connect", "bind", "listen", "fsync", "mkdirat", "close", "read", "epoll_ctl"]


class Crash:
    def __init__(self, scratch, blackdagger, helper):
        self.scratch = scratch
        self.bd = blackdagger
        self.helper = helper
        self.n = 0
        self.socks = set()
        self.lock = threading.Lock()
        self.prior = {}

    def home(self, scen):
        with self.lock:
            self.n += 1
            n = self.n
        h = os.path.join(self.scratch, "crash", "%s-%d" % (scen, n))
        os.makedirs(os.path.join(h, "dags"))
        os.makedirs(os.path.join(h, "m"))
        open(os.path.join(h, "dags", scen + ".yaml"), "w").write(SCENARIOS[scen]["yaml"])
        if SCENARIOS[scen].get("prior"):
            rc, err, _ = self.start(h, scen)
            o = self.latest(h, scen)
            L = o.get("latest") or {}
            with self.lock:
                self.prior[h] = {"rc": rc, "req": L.get("req"), "st": L.get("st")}
            open(os.path.join(h, "fail.flag"), "w").write("x")
            shutil.rmtree(os.path.join(h, "m"))
            os.makedirs(os.path.join(h, "m"))
            time.sleep(0.002)
        return h

    def env(self, h):
        e = dict(os.environ)
        e.update({"M": os.path.join(h, "m"), "BLACKDAGGER_HOME": h, "TZ": "UTC", "HOME": h})
        return e

    def dag(self, h, scen):
        return os.path.join(h, "dags", scen + ".yaml")

    def latest(self, h, scen):
        p = subprocess.run([self.helper, "latest", self.dag(h, scen), h], env=self.env(h), stdout=subprocess.PIPE,
                           stderr=subprocess.DEVNULL, text=True, timeout=60)
        try:
            o = json.loads(p.stdout.strip().split("\n")[-1])
        except Exception:
            return {"helper_failed": p.stdout[-300:]}
        if o.get("sock_addr"):
            self.socks.add(o["sock_addr"])
        return o

    def markers(self, h):
        return sorted(os.listdir(os.path.join(h, "m")))

    def start(self, h, scen, timeout=60):
        t0 = time.time()
        try:
            p = subprocess.run([self.bd, "start", "-q", self.dag(h, scen)], env=self.env(h), stdout=subprocess.DEVNULL,
                               stderr=subprocess.PIPE, text=True, timeout=timeout)
            return p.returncode, p.stderr[-400:], time.time() - t0
        except subprocess.TimeoutExpired:
            return 124, "timeout", time.time() - t0

    def reference(self, scen):
        """an uninterrupted traced run: per system call name the largest per-thread count (strace counts `when` per thread)"""
        h = self.home(scen)
        log = os.path.join(h, "strace.log")
        pr_ = subprocess.run(["strace", "-f", "-b", "execve", "-o", log, "-e", "trace=" + TRACE, self.bd, "start", "-q", self.dag(h, scen)],
                             env=self.env(h), stdout=subprocess.DEVNULL, stderr=subprocess.DEVNULL, timeout=120)
        self.ref_rc = getattr(self, "ref_rc", {})
        self.ref_rc[scen] = pr_.returncode
        self.ref_home = getattr(self, "ref_home", {})
        self.ref_home[scen] = h
        counts = {}
        for ln in open(log, errors="replace"):
            m = re.match(r"(\d+)\s+(\w+)\(", ln)
            if m and m.group(2) in INJECTABLE:
                counts.setdefault(m.group(2), {}).setdefault(m.group(1), 0)
                counts[m.group(2)][m.group(1)] += 1
        o = self.latest(h, scen)
        ok = o.get("latest") and o["latest"]["st"] == FINAL[scen][0] and table(o["latest"]) == FINAL[scen][1]
        return {k: max(v.values()) for k, v in counts.items()}, ok, o, targets(log)

    def kill_case(self, scen, how, arg):
        """how = 'time' (arg = ms after spawn) | 'sys' (arg = (syscall, k)).  Returns the case dict."""
        h = self.home(scen)
        env = self.env(h)
        case = {"scenario": scen, "how": how, "arg": arg, "home": os.path.basename(h)}
        cmd = [self.bd, "start", "-q", self.dag(h, scen)]
        log = os.path.join(h, "strace.log")
        if how == "time":
            p = subprocess.Popen(cmd, env=env, stdout=subprocess.DEVNULL, stderr=subprocess.DEVNULL)
            try:
                p.wait(timeout=arg / 1000.0)
                case["killed"] = False
            except subprocess.TimeoutExpired:
                p.send_signal(signal.SIGKILL)
                p.wait()
                case["killed"] = True
            case["rc"] = p.returncode
        else:
            sysc, k = arg
            p = subprocess.run(["strace", "-f", "-b", "execve", "-o", log, "-e", "trace=" + TRACE,
                                "-e", "inject=%s:signal=SIGKILL:when=%d" % (sysc, k)] + cmd,
                               env=env, stdout=subprocess.DEVNULL, stderr=subprocess.DEVNULL, timeout=120)
            case["rc"] = p.returncode
            case["killed"] = p.returncode in (137, -9)
            case["boundary"] = boundary(log, sysc) if case["killed"] else None
        case["disk_state"] = self.disk_state(h) if case.get("killed") else None
        if how == "sys":
            # the label comes from the strace log; it counts only together with what is on disk
            case["after_final"] = case["boundary"] in AFTER_FINAL and case["disk_state"] not in ("-", "?", None)
        return self.after_kill(case, h, scen)

    def disk_state(self, h):
        """what the LAST run has in the history directory, whatever the protocol: O = its original <run>.dat, T0 / Tm / T1 = its
        <run>_c.dat.tmp (empty / line not complete: no newline yet / complete), C = its published twin <run>_c.dat;
        joined by +, "-" = nothing.  Files of the prior run of scenario `prior` are not counted."""
        skip = (self.prior.get(h) or {}).get("req") or "\0"
        orig = twin = tmp = tpath = None
        try:
            for root, _, files in os.walk(os.path.join(h, "data")):
                for f in files:
                    if skip[:8] in f:
                        continue
                    if f.endswith("_c.dat.tmp"):
                        tpath = os.path.join(root, f)
                        tmp = os.path.getsize(tpath)
                    elif f.endswith("_c.dat"):
                        twin = True
                    elif f.endswith(".dat"):
                        orig = True
            parts = []
            if orig:
                parts.append("O")
            if tmp is not None:
                if tmp == 0:
                    parts.append("T0")
                else:
                    with open(tpath, "rb") as fh:
                        fh.seek(-1, 2)
                        parts.append("T1" if fh.read(1) == b"\n" else "Tm")
            if twin:
                parts.append("C")
            return "+".join(parts) or "-"
        except OSError:
            return "?"

    def slowed(self, h, scen, log):
        delay = "delay_enter=15000"
        return subprocess.Popen(["strace", "-f", "-b", "execve", "-o", log, "-e", "trace=write,unlinkat,fsync,renameat",
                                 "-e", "inject=write:" + delay, "-e", "inject=unlinkat:" + delay, "-e", "inject=fsync:" + delay,
                                 "-e", "inject=renameat:" + delay,
                                 self.bd, "start", "-q", self.dag(h, scen)], env=self.env(h), stdout=subprocess.DEVNULL,
                                stderr=subprocess.DEVNULL, start_new_session=True)

    def reference_states(self, scen):
        """the directory states an uninterrupted (slowed) run passes through, in order - whatever the compaction protocol is.
        The states after the first change of the plain "O" are the kill targets."""
        h = self.home(scen)
        p = self.slowed(h, scen, os.path.join(h, "strace.log"))
        seen = []
        t_end = time.time() + 60
        while time.time() < t_end and p.poll() is None:
            st = self.disk_state(h)
            if st != "?" and (not seen or seen[-1] != st):
                seen.append(st)
            time.sleep(0.0004)
        try:
            p.wait(timeout=30)
        except subprocess.TimeoutExpired:
            p.kill()
            p.wait()
        st = self.disk_state(h)
        if not seen or seen[-1] != st:
            seen.append(st)
        o = self.latest(h, scen)
        return seen

    def kill_in_state(self, scen, target):
        """SIGKILL while the last run's files in the history directory are in state `target` (one of the states an uninterrupted run
        was seen to pass through - nothing about the compaction protocol is presupposed): the run is slowed down by strace
        (every write / fsync / renameat / unlinkat of the process is delayed on entry), an observer polls the directory and
        kills the run's process when it sees the state.  What was really left on disk is recorded (`disk_state`)."""
        h = self.home(scen)
        env = self.env(h)
        case = {"scenario": scen, "how": "state", "arg": target, "home": os.path.basename(h), "after_final": True}
        log = os.path.join(h, "strace.log")
        p = self.slowed(h, scen, log)
        tracee = None
        t_end = time.time() + 60
        killed = False
        while time.time() < t_end and p.poll() is None:
            if tracee is None:
                try:
                    kids = open("/proc/%d/task/%d/children" % (p.pid, p.pid)).read().split()
                    if kids:
                        tracee = int(kids[0])
                except OSError:
                    pass
            if tracee is not None and self.disk_state(h) == target:
                # strace and the run's process form one process group (the step commands have their own and have ended)
                for f in (lambda: os.kill(tracee, signal.SIGKILL), lambda: os.killpg(p.pid, signal.SIGKILL)):
                    try:
                        f()
                        killed = True
                    except OSError:
                        pass
                break
            time.sleep(0.0004)
        try:
            p.wait(timeout=30)
        except subprocess.TimeoutExpired:
            p.kill()
            p.wait()
        case["killed"] = killed
        case["rc"] = p.returncode
        case["disk_state"] = self.disk_state(h)
        case["boundary"] = "state:" + case["disk_state"]
        return self.after_kill(case, h, scen)

    def after_kill(self, case, h, scen):
        env = self.env(h)
        time.sleep(0.09)      # orphaned step commands (30 ms sleeps) finish
        case["markers"] = self.markers(h)
        if h in self.prior:
            case["prior"] = self.prior[h]
        post = self.latest(h, scen)
        case["post"] = post
        if not case["killed"]:
            return case
        # --- restartable: a second start from the state the kill left (history, stale socket file) -------------
        snap = os.path.join(h, "data.killed")
        if os.path.isdir(os.path.join(h, "data")):
            shutil.copytree(os.path.join(h, "data"), snap)
        had_sock = bool(post.get("sock_file"))
        shutil.rmtree(os.path.join(h, "m"))
        os.makedirs(os.path.join(h, "m"))
        rc, err, dt = self.start(h, scen)
        case["restart"] = {"rc": rc, "err": err, "s": round(dt, 2), "markers": self.markers(h), "post": self.latest(h, scen)}
        # --- the daemon: one tick from the state the kill left --------------------------------------------------
        shutil.rmtree(os.path.join(h, "data"), ignore_errors=True)
        if os.path.isdir(snap):
            shutil.copytree(snap, os.path.join(h, "data"))
        addr = post.get("sock_addr")
        if had_sock and addr and not os.path.exists(addr):
            s = socket.socket(socket.AF_UNIX, socket.SOCK_STREAM)
            try:
                s.bind(addr)        # a bound-and-abandoned socket file, as the kill left it
            finally:
                s.close()
        shutil.rmtree(os.path.join(h, "m"))
        os.makedirs(os.path.join(h, "m"))
        try:
            p = subprocess.run([self.helper, "tick", self.dag(h, scen), h, self.bd], env=env, stdout=subprocess.PIPE,
                               stderr=subprocess.DEVNULL, text=True, timeout=90)
            case["tick"] = json.loads(p.stdout.strip().split("\n")[-1])
        except Exception as e:
            case["tick"] = {"outcome": "helper-failed", "messages": [repr(e)]}
        case["tick"]["markers"] = self.markers(h)
        case["tick"]["messages"] = [m[:160] for m in case["tick"].get("messages", [])][-6:]
        return case

    def cleanup(self):
        for s in self.socks:
            for f in (s, s + ".lock"):      # the start lock file next to the socket address is created on demand and never removed
                try:
                    os.unlink(f)
                except OSError:
                    pass


def _walk(log):
    """yields (tid, syscall, args, killed_here, label) for every call of the run's process in the strace log, with the file
    descriptors of the history file, its compaction twin, the logs and the socket tracked"""
    fds = {}
    pending = {}
    seen_create = False
    try:
        lines = open(log, errors="replace").read().split("\n")
    except OSError:
        return
    for ln in lines:
        m = re.match(r"(\d+)\s+(\w+)\((.*)", ln)
        if not m:
            r = re.match(r"(\d+)\s+<\.\.\. (\w+) resumed>.*=\s+(-?\d+)", ln)
            if r and r.group(2) == "openat" and r.group(1) in pending and int(r.group(3)) >= 0:
                fds[int(r.group(3))] = pending.pop(r.group(1))
            continue
        tid, sysc, args = m.group(1), m.group(2), m.group(3)
        killed = ln.rstrip().endswith("= ?")
        kind = None
        if sysc == "openat":
            hm = re.search(r"\.\d{8}\.\d\d:\d\d:\d\d\.\d{3}\.[^/\"]*?(_c)?\.dat(\.tmp)?\"", args)
            if hm and hm.group(1):
                kind = "hist_c"
            elif hm:
                kind = "hist"
            elif "start_" in args and ".log" in args:
                kind = "agentlog"
            elif ".log" in args:
                kind = "steplog"
            elif ".yaml" in args:
                kind = "dag"
            r = re.search(r"=\s+(\d+)\s*$", ln)
            if kind and r:
                fds[int(r.group(1))] = kind
            elif kind and "unfinished" in ln:
                pending[tid] = kind
            if kind == "hist_c":
                label = "openat:history-compacted"
            elif kind == "hist":
                label = "openat:history-file" if ("O_CREAT" in args and not seen_create) else "openat:history-reread"
                seen_create = seen_create or "O_CREAT" in args
            else:
                label = "openat:" + {"agentlog": "agent-log", "steplog": "step-log", "dag": "dag-file"}.get(kind, "other")
        elif sysc in ("write", "fsync", "close"):
            r = re.match(r"(\d+)", args)
            fk = fds.get(int(r.group(1))) if r else None
            if sysc == "write":
                if fk == "hist_c":
                    label = "write:compacted-line"
                elif fk == "hist" or "RequestId" in args:
                    label = "write:history-line"
                elif fk in ("agentlog", "steplog") or "time=" in args or "Summary" in args:
                    label = "write:log-line"
                elif "\\1\\0\\0" in args:
                    label = "write:eventfd"
                else:
                    label = "write:other"
            else:
                label = "%s:%s" % (sysc, {"hist_c": "compacted", "hist": "history", "agentlog": "agent-log", "steplog": "step-log"}.get(fk, "other"))
            if sysc == "close" and r and not killed:
                fds.pop(int(r.group(1)), None)
        elif sysc == "unlinkat":
            label = ("unlinkat:history-tmp" if ".dat.tmp" in args else "unlinkat:history-file" if ".dat" in args
                     else ("unlinkat:socket" if ".sock" in args else "unlinkat:other"))
        elif sysc == "renameat":
            label = "renameat:history-tmp" if ".dat.tmp" in args else "renameat:other"
        elif sysc == "flock":
            label = "flock:start-lock"
        elif sysc == "mkdirat":
            label = "mkdirat:" + ("data-dir" if "/data" in args else "log-dir" if "/logs" in args else "other")
        elif sysc in ("connect", "bind"):
            label = sysc + ":socket"
        else:
            label = sysc + ":other"
        yield tid, sysc, args, killed, label


def boundary(log, sysc):
    """which call of the run the injected SIGKILL landed on (the call that never returned)"""
    last = None
    for tid, sc_, args, killed, label in _walk(log):
        if sc_ == sysc:
            if killed:
                return label
            last = label
    return last or (sysc + ":?")


def targets(log):
    """(label, syscall, k) for the calls of the shutdown path of an uninterrupted traced run: k = how many calls of that name
    the thread had made (strace counts `when` per thread)"""
    cnt = {}
    out = []
    for tid, sysc, args, killed, label in _walk(log):
        if sysc not in INJECTABLE:
            continue
        cnt[(tid, sysc)] = cnt.get((tid, sysc), 0) + 1
        if label in AFTER_FINAL and not label.startswith("close:"):
            out.append((label, sysc, cnt[(tid, sysc)]))
    return out


def monitor_crash(case):
    """The property on one killed run of the real binary.  Returns a list of (what, cls)."""
    out = []
    scen = SCENARIOS[case["scenario"]]
    post = case["post"]
    if post.get("helper_failed") is not None:
        return [("status helper failed: %s" % post["helper_failed"], {"class": "infra"})]
    if case.get("ended"):
        # an uninterrupted run: once its process has ended the reported status is the final state it persisted (state, attempts,
        # log path per step), without an error, and the run is present in the recent history
        want_st, want_tbl = FINAL[case["scenario"]]
        L = post.get("latest")
        pr = case.get("prior")
        want_rc = 1 if scen["fails"] else 0
        if case.get("rc") != want_rc:
            out.append(("the run ended with exit code %s, scripted %s" % (case.get("rc"), want_rc), {"class": "infra"}))
        elif post.get("latest_err") or L is None:
            out.append(("after the run's process has ended its status cannot be read: %s" % post.get("latest_err"), {"class": "ended-run-status-error"}))
        elif L["st"] != want_st or table(L) != want_tbl or (pr and L.get("req") == pr.get("req")):
            out.append(("after the run's process has ended the DAG is reported %r %s, not the run's final state %s (history files %s)"
                        % (L["text"], table(L), want_tbl, post.get("files")), {"class": "ended-run-not-final"}))
        else:
            for n in L["nodes"]:
                if n["st"] in (FINISHED, FAILED) and (not n["log"] or not n["log_exists"]):
                    out.append(("step %s was executed but its recorded log path does not exist" % n["name"], {"class": "final-log"}))
                if case["scenario"] == "retry" and n["name"] == "a" and n["rc"] != 1:
                    out.append(("step a was attempted twice but RetryCount=%d is recorded" % n["rc"], {"class": "final-attempts"}))
        if post.get("recent", 0) < (2 if pr else 1):
            out.append(("after the run's process has ended the run is missing from the recent history (%d run(s) listed, files %s)"
                        % (post.get("recent", 0), post.get("files")), {"class": "ended-run-missing-from-history"}))
        if post.get("sock_file"):
            out.append(("socket file left behind by a run that ended normally", {"class": "socket-left"}))
        return out
    if not case["killed"]:
        return out
    marks = set(case["markers"])
    pr = case.get("prior")
    L = post.get("latest")
    def empty_class():
        """an empty ORIGINAL (kill between history Open and the first line) is the class of finding F7a; an empty compaction
        twin next to a complete original is something else"""
        files = post.get("files") or []
        if any(f.endswith(":0") and not f.rsplit(":", 1)[0].endswith("_c.dat") for f in files):
            return {"class": "empty-newest-history-file"}
        if any(f.endswith(":0") and f.rsplit(":", 1)[0].endswith("_c.dat") for f in files):
            return {"class": "empty-compaction-twin"}
        return None

    if post.get("latest_err"):
        cls = empty_class() or {"class": "dead-status-error"}
        out.append(("after the kill the latest status cannot be read: %s (files %s)" % (post["latest_err"], post.get("files")), cls))
    elif L is None:
        out.append(("after the kill no status is reported", {"class": "dead-status-missing"}))
    else:
        t = table(L)
        if L["st"] == RUNNING:
            out.append(("killed run reported as running", {"class": "dead-running"}))
        own = [f for f in (post.get("files") or []) if not (pr and (pr.get("req") or "\0")[:8] in f)]
        if pr and L.get("req") == pr.get("req"):
            # the status of the PREVIOUS run is reported: legitimate only while the killed run has nothing readable on disk
            # (a run killed before its first history line leaves no trace, as one killed before history Open)
            if any(not f.endswith(":0") for f in own):
                out.append(("the killed run has a history file with content %s but the DAG is reported with the previous run's status %r"
                            % (own, L["text"]), {"class": "previous-run-reported"}))
        elif L["st"] == FINISHED:
            incomplete = [s for s in scen["steps"] if s + ".end" not in marks and s not in scen["fails"]]
            if any(s not in DONE_OK for s in t) or incomplete:
                # `finished` answered while steps are pending (not started; or - the overall status being read before the node
                # table is copied - already running): the window of F8a.  A failed / canceled step in the table is something else.
                pending = all(s in (NONE, RUNNING, FINISHED, SKIPPED) for s in t) and (NONE in t or RUNNING in t)
                cls = {"class": "kill-between-steps"} if pending else {"class": "dead-finished-other"}
                out.append(("killed run reported as finished although step(s) %s never completed (reported steps %s, markers %s)"
                            % ([n["name"] for n in L["nodes"] if n["st"] not in DONE_OK] or incomplete, t, sorted(marks)), cls))
    ran_all = all((st + ".end") in marks for st in scen["steps"][:min([scen["steps"].index(f) for f in scen["fails"]], default=len(scen["steps"]))])
    pr = case.get("prior")
    if pr and (pr.get("rc") != 0 or pr.get("st") != FINISHED):
        out.append(("the prior run of scenario `prior` did not succeed", {"class": "infra"}))
    if pr and case.get("after_final") and ran_all and L is not None and L.get("req") == pr.get("req"):
        out.append(("killed inside the shutdown (%s, last run's files: %s) after its final status (failed) had been written: the DAG is reported with "
                    "the PREVIOUS run's status %r (request id of the previous run)" % (case["boundary"], case.get("disk_state"), L["text"]),
                    {"class": "shutdown-kill-previous-run"}))
    elif case.get("after_final") and ran_all and L is not None and not post.get("latest_err"):
        want_st, want_tbl = FINAL[case["scenario"]]
        if L["st"] != want_st or table(L) != want_tbl:
            out.append(("killed inside the shutdown (%s, history directory state %s), after the final status had been written: reported %r %s, not the final state %s"
                        % (case["boundary"], case.get("disk_state"), L["text"], table(L), want_tbl), {"class": "shutdown-kill-not-final"}))
    cur = post.get("current")
    if post.get("current_err") or cur is None or cur["st"] != NONE:
        out.append(("after the kill the socket probe does not say `not running`: %s %s" % (cur and cur["text"], post.get("current_err")), {"class": "dead-probe"}))
    r = case.get("restart")
    if r is not None:
        first_fail = min([scen["steps"].index(f) for f in scen["fails"]], default=len(scen["steps"]))
        want_end = set(s + ".end" for s in scen["steps"][:first_fail])
        ok_rc = (r["rc"] != 0) if scen["fails"] else (r["rc"] == 0)
        pl = r["post"].get("latest")
        want_st = FAILED if scen["fails"] else FINISHED
        if "already running" in r["err"] or "unix socket" in r["err"]:
            out.append(("second start refused after the kill: %s" % r["err"][-200:], {"class": "not-restartable"}))
        elif not ok_rc or not want_end <= set(r["markers"]) or pl is None or pl["st"] != want_st or r["post"].get("latest_err"):
            out.append(("second start after the kill did not run to its end: rc=%s markers=%s status=%s %s"
                        % (r["rc"], r["markers"], pl and pl["text"], r["err"][-200:]), {"class": "restart-incomplete"}))
        elif r["post"].get("sock_file"):
            out.append(("socket file left behind by the restarted run", {"class": "socket-left"}))
    tk = case.get("tick")
    if tk is not None and tk["outcome"] != "started":
        cls = {"class": "daemon-" + tk["outcome"]}
        if tk["outcome"] == "refused-error" and empty_class():
            cls = empty_class()
        out.append(("after the kill the scheduler daemon does not start the DAG at its next minute: %s %s" % (tk["outcome"], tk["messages"][-2:]), cls))
    return out


def enumerate_points(counts, tier, rng):
    """(syscall, k) pairs to inject at.  quick: a stride; thorough: all."""
    pts = []
    for sysc in INJECTABLE:
        mx = counts.get(sysc, 0)
        ks = list(range(1, mx + 1))
        if tier == "quick":
            cap = {"write": 12, "openat": 8, "unlinkat": 4, "fsync": 3, "mkdirat": 4, "close": 6, "read": 4, "epoll_ctl": 3}.get(sysc, 2)
            if len(ks) > cap:
                step = len(ks) / float(cap)
                off = rng.below(max(1, int(step)))
                ks = sorted({ks[min(len(ks) - 1, int(i * step) + off)] for i in range(cap)})
        pts += [(sysc, k) for k in ks]
    return pts


def run_crash(ctx, bd, helper, tier, rng, workers=8):
    cr = Crash(ctx.scratch, bd, helper)
    cases = []
    info = {}
    jobs = []
    wanted = []
    for scen in SCENARIOS:
        counts, ok, o, tg = cr.reference(scen)
        info[scen] = {"reference_ok": bool(ok), "per_thread_max": counts, "shutdown_calls": [t[0] for t in tg]}
        # the uninterrupted run is a case of its own: after the run's process has ended the reported status must be the final
        # state it persisted
        cases.append({"scenario": scen, "how": "reference", "arg": None, "killed": False, "ended": True, "rc": cr.ref_rc.get(scen),
                      "post": o, "markers": [], "prior": cr.prior.get(cr.ref_home.get(scen))})
        if not ok:
            continue
        pts = enumerate_points(counts, tier, rng)
        if tier == "quick" and scen != "chain":
            pts = pts[::3]
        if tier == "quick" and scen == "huge":
            pts = pts[::4]
        jobs += [(scen, "sys", p) for p in pts]
        if tier == "quick":
            offs = [4 + rng.below(6) + 11 * i for i in range(34 if scen == "chain" else 10)]
        else:
            offs = [2 + 3 * i + rng.below(3) for i in range(140)]
        jobs += [(scen, "time", o) for o in offs]
        # kill points INSIDE the shutdown compaction (re-read of the original, creation of the twin, its write(s), unlink of the
        # original, fsyncs): aimed at from the reference trace; thread placement varies between runs, so neighbours are tried too
        if scen in ("chain", "big") or tier != "quick":
            for (label, sysc, k) in tg:
                wanted.append((scen, label, sysc, k))
                jobs.append((scen, "sys", (sysc, k)))
    with ThreadPoolExecutor(max_workers=workers) as ex:
        for c in ex.map(lambda j: cr.kill_case(*j), jobs):
            cases.append(c)
        # kills INSIDE Close's compaction, by the state of the history directory (T0: tmp created and still empty, Tm: tmp mid-write,
        # T1: tmp complete, not yet renamed, C: twin published next to the original, D: original unlinked)
        reps = 1 if tier == "quick" else 3
        sj = []
        for scen in SCENARIOS:
            if not info[scen]["reference_ok"] or (tier == "quick" and scen not in ("chain", "big", "prior", "huge")):
                continue
            seq = cr.reference_states(scen)
            info[scen]["directory_states_of_an_uninterrupted_run"] = seq
            # every state from the first departure from the plain original on (the shutdown), each once
            k = next((i for i, x in enumerate(seq) if x not in ("-", "O")), len(seq))
            tg = []
            for x in seq[k:]:
                if x not in tg:
                    tg.append(x)
            sj += [(scen, st) for st in tg for _ in range(reps)]
        for c in ex.map(lambda j: cr.kill_in_state(*j), sj):
            cases.append(c)
    hit = {(c["scenario"], c.get("boundary")) for c in cases if c.get("killed")}
    states = {}
    for c in cases:
        if c.get("killed") and c.get("how") == "state":
            k = "%s/%s" % (c["scenario"], c["disk_state"])
            states[k] = states.get(k, 0) + 1
    info["shutdown_boundaries"] = {"aimed_at": sorted({"%s/%s" % (a, b) for a, b, _, _ in wanted}),
                                   "hit": sorted({"%s/%s" % (a, b) for a, b, _, _ in wanted if (a, b) in hit}),
                                   "states_left_by_a_kill_inside_the_shutdown (O original, T0/Tm/T1 tmp empty/mid-write/complete, C published twin)": states}
    cr.cleanup()
    return cases, info
