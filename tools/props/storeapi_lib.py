"""Shared helpers of the C18 / C20 checks: Coq printers for the DagStore / Api models, shard evaluation,
strace kill enumeration, greedy shrinking."""
import os
import re
import subprocess
from concurrent.futures import ThreadPoolExecutor

import vlib
from vlib import cstring, clist

MDIR = "/d"  # the DAGs directory as the model sees it (see map_path)


def map_path(p, real_dir):
    """The model's string functions (ext, craft, AddYamlExtension, find) only inspect the final path element and
    whether the path is absolute; the real scratch DAGs directory is therefore replaced by the short "/d"."""
    if p == real_dir:
        return MDIR
    if p.startswith(real_dir + "/"):
        return MDIR + p[len(real_dir):]
    return p


def c_node(n):
    return "mkNode %s %d" % (cstring(n["n"]), n["s"])


def c_status(l):
    return "mkStatus %s %d %s" % (cstring(l["r"]), l["s"], clist([c_node(n) for n in l.get("nodes") or []]))


def c_run(stamp, lines):
    return "mkRun (%d)%%Z %s" % (stamp, clist([c_status(l) for l in lines]))


def c_pair(a, b):
    return "(%s, %s)" % (a, b)


RES = {"ok": 0, "exists": 1, "notexist": 2, "invalid": 3}


def eval_shards(ctx, name, header, shards, fmt_case, result="M", workers=14, timeout=1800):
    """shards: list of lists of cases; each is written as `Definition cases := [...]` after `header` and
    evaluated; returns list (per shard) of parsed result lists or (None, log)."""
    def one(t):
        i, cs = t
        txt = header % ";\n".join(fmt_case(c) for c in cs)
        rc, out, dt = vlib.coq_eval(ctx.scratch, "%s_%d" % (name, i), txt, timeout=timeout)
        if rc != 0:
            return None, out[-2500:]
        r = vlib.coq_list_result(out, result)
        if r is None:
            return None, out[-2500:]
        return r, None
    with ThreadPoolExecutor(max_workers=workers) as ex:
        return list(ex.map(one, enumerate(shards)))


def shard(cases, weight, budget):
    """Greedy split of cases into shards of about `budget` total weight."""
    out, cur, w = [], [], 0
    for c in cases:
        wc = weight(c)
        if cur and w + wc > budget:
            out.append(cur)
            cur, w = [], 0
        cur.append(c)
        w += wc
    if cur:
        out.append(cur)
    return out


# ---------------------------------------------------------------------------------------------
# strace
# ---------------------------------------------------------------------------------------------

TRACE = "openat,write,close,renameat,renameat2,unlinkat,ftruncate,fchmod,fsync"
LINE = re.compile(r"^(?:(\d+)\s+)?(\w+)\((.*)$")


def strace_run(cmd, log=None, inject=None, timeout=60, follow=False):
    """Without -f only the initial (main) thread is traced, so an injection can only hit the main thread, which
    the helpers pin their work to (runtime.LockOSThread in init)."""
    a = ["strace"] + (["-f"] if follow else []) + ["-o", log or "/dev/null", "-e", "trace=" + TRACE]
    if isinstance(inject, tuple):
        a += ["-e", "inject=%s:signal=SIGKILL:when=%d" % inject]
    elif inject:            # list of raw inject expressions, e.g. "write:error=ENOSPC:when=3+"
        for x in inject:
            a += ["-e", "inject=" + x]
    try:
        p = subprocess.run(a + cmd, stdout=subprocess.PIPE, stderr=subprocess.STDOUT, timeout=timeout, text=True)
        return p.returncode, p.stdout
    except subprocess.TimeoutExpired:
        return 124, "[timeout]"


def main_thread_calls(log):
    """(syscall name, rest of line) of the main thread (the first tracee of the log), resumed lines ignored."""
    out = []
    main = None
    for line in open(log, errors="replace"):
        m = LINE.match(line)
        if not m:
            continue
        if main is None:
            main = m.group(1) or ""
        if (m.group(1) or "") != main:
            continue
        out.append((m.group(2), m.group(3)))
    return out


def greedy_shrink(items, still_fails, budget=40):
    """Delete one element at a time (from the end) while still_fails(list) holds."""
    cur = list(items)
    tries = 0
    changed = True
    while changed and tries < budget:
        changed = False
        for i in range(len(cur) - 1, -1, -1):
            if tries >= budget:
                break
            cand = cur[:i] + cur[i + 1:]
            tries += 1
            if still_fails(cand):
                cur = cand
                changed = True
    return cur
