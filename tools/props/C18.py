"""C18 - DAG definitions are created, saved, renamed and deleted safely (DESIGN.md section 5, C18).

Tie to the code: harness/cmd/store drives the real client.New(...)/DAGStore/jsondb over a scratch directory;
(1) monitors = the clauses of the property evaluated on the dumps before/after every operation, (2) the Coq model
coq/DagStore replays every sequence (vm_compute) and must show the same results and the same files, (3) the
save-crash enumeration kills one real UpdateSpec at every system call (strace inject) and looks at the bytes left."""
import json
import os
import shutil

import vlib
from vlib import cstring, clist
from props import storeapi_lib as L

PLAIN_EXT = ("", ".yaml")


API_OPS = ("adelete", "arename", "asave", "adetails")   # the same operations through the real API handler


def ext_of(name):
    b = name.rsplit("/", 1)[-1]
    i = b.rfind(".")
    return b[i:] if i >= 0 else ""


def dotted(name):
    """Names with a foreign extension (the F18c class, repaired by fe0ec16).  Used only to LABEL a violation: since
    the repair no monitor makes an exception for these names."""
    return ext_of(name) not in PLAIN_EXT


# ---------------------------------------------------------------------------------------------
# monitors (independent of the model)
# ---------------------------------------------------------------------------------------------

class D:
    def __init__(self, d):
        self.defs = {f: t for f, t in d["defs"]}
        self.hfiles = {}
        self.byloc = {}
        for h in d["hist"]:
            for r in h["runs"]:
                self.hfiles[(h["dir"], r["file"])] = r["sha"]
                self.byloc.setdefault(h["loc"], {})[(h["dir"], r["file"])] = r["sha"]
        self.flags = frozenset(d["flags"])
        self.recent = {r["loc"]: tuple(r["reqs"]) for r in d["recent"]}
        self.loc_of = {r["name"]: r["loc"] for r in d["recent"]}

    def same(self, o):
        return self.defs == o.defs and self.hfiles == o.hfiles and self.flags == o.flags


def subseq(a, b):
    it = iter(b)
    return all(x in it for x in a)


def monitor_op(op, d0, d1, texts, dags_dir):
    """Returns a list of (what, cls) - the clauses of C18 that the observed step violates."""
    bad = []
    kind = {"adelete": "delete", "arename": "rename", "asave": "save", "adetails": "get"}.get(op["op"], op["op"])
    via_api = op["op"] in API_OPS
    ok = op["res"] == "ok"
    changed = {f for f in d0.defs if f in d1.defs and d0.defs[f] != d1.defs[f]}
    removed = {f for f in d0.defs if f not in d1.defs}
    added = {f for f in d1.defs if f not in d0.defs}
    hist_same = d0.hfiles == d1.hfiles
    flags_same = d0.flags == d1.flags

    def fail(what, **cls):
        cls.setdefault("op", op["op"])
        bad.append((what, cls))

    if kind in ("create", "createraw"):
        if changed or removed:
            fail("create changed or removed an existing definition %s" % sorted(changed | removed), **{"class": "create-overwrites"})
        if not hist_same or not flags_same:
            fail("create touched history or flags", **{"class": "create-side-effect"})
        want = "T0" if kind == "create" else op["text"]
        if ok and (len(added) != 1 or d1.defs[next(iter(added))] != want):
            fail("accepted create did not produce exactly one new definition holding the given text", **{"class": "create-result"})
        if not ok and added:
            fail("refused create left a file behind", **{"class": "create-result"})
    elif kind == "save":
        valid = texts[op["text"]]["load"]   # independent oracle: the same bytes through dag.LoadWithoutEval
        if ok and op.get("loads") is False:
            fail("after an accepted save the stored definition does not load any more (%s)" % op.get("load_err", "")[:120],
                 **{"class": "save-invalid"})
        if not hist_same or not flags_same:
            fail("save touched history or flags", **{"class": "save-side-effect"})
        if removed or added:
            fail("save created or removed a definition", **{"class": "save-result"})
        if not valid and (changed or ok):
            fail("a text the loader rejects was saved (or the save was reported as done)", **{"class": "save-invalid"})
        if valid and not ok and changed:
            fail("failed save changed a definition", **{"class": "save-result"})
        if valid and ok:
            if len(changed) > 1 or any(d1.defs[f] != op["text"] for f in changed):
                fail("accepted save did not put exactly the given text into one definition", **{"class": "save-result"})
            if not changed and op["text"] not in d1.defs.values():
                fail("accepted save left no definition holding the given text", **{"class": "save-result"})
    elif kind in ("rename", "srename"):
        if not flags_same:
            fail("rename touched the flags", **{"class": "rename-side-effect"})
        if changed:
            if len(changed) == 1 and len(removed) == 1 and not added:
                fail("rename onto an existing DAG replaced its definition %s" % sorted(changed), **{"class": "rename-onto-existing"})
            else:
                fail("rename changed definitions %s" % sorted(changed), **{"class": "rename-overwrites-other"})
        if len(removed) > 1:
            fail("rename removed more than the source", **{"class": "rename-result"})
        if not ok and not d0.same(d1):
            fail("a rename reported as failed changed the store (definitions %s -> %s)" % (sorted(removed), sorted(added)),
                 **{"class": "failed-rename-has-effects", "dotted": dotted(op["name"]) or dotted(op["new"])})
        if kind == "srename" and not hist_same:
            fail("store-level rename touched the history", **{"class": "rename-side-effect"})
        if ok and kind == "rename":
            lo, ln = d0.loc_of.get(op["name"]), d0.loc_of.get(op["new"])
            if len(removed) == 1 and len(added | changed) == 1:
                src, dst = next(iter(removed)), next(iter(added | changed))
                if d1.defs[dst] != d0.defs[src]:
                    fail("renamed definition does not hold the old bytes", **{"class": "rename-bytes"})
            if lo and ln and lo != ln:
                fresh = not changed and not d0.recent.get(ln)
                if not subseq(d0.recent.get(lo, ()), d1.recent.get(ln, ())) or (fresh and d1.recent.get(ln, ()) != d0.recent.get(lo, ())):
                    fail("history of the old name is not what the new name answers after the rename", **{"class": "rename-history"})
                if d1.recent.get(lo, ()):
                    fail("history still answers under the old name after the rename", **{"class": "rename-history"})
                for l in d0.recent:
                    if l not in (lo, ln) and d0.recent[l] != d1.recent.get(l):
                        fail("rename changed the history of an unrelated DAG", **{"class": "rename-history-other"})
    elif kind == "delete":
        if not flags_same:
            fail("delete touched the flags", **{"class": "delete-side-effect"})
        if changed or added:
            fail("delete changed or created a definition", **{"class": "delete-other"})
        if len(removed) > 1 or (ok and len(removed) != 1) or (not ok and removed):
            fail("delete removed %d definitions (result %s)" % (len(removed), op["res"]), **{"class": "delete-result"})
        addressed = (op.get("loc") or "").rsplit("/", 1)[-1]
        if removed and removed != {addressed}:
            fail("delete of %r removed the definition %s instead of %s: another DAG's definition" % (op["name"], sorted(removed), addressed),
                 **{"class": "delete-wrong-definition"})
        if via_api and not ok and not d0.same(d1):
            fail("a delete refused by the API (%s) changed the store (history of the DAG erased?)" % op["res"],
                 **{"class": "failed-delete-has-effects"})
        for l in set(d0.byloc) | set(d1.byloc):
            if l != op.get("loc") and d0.byloc.get(l) != d1.byloc.get(l):
                fail("delete changed the history of another DAG (%s)" % l, **{"class": "delete-other-history"})
        if ok and d1.recent.get(op.get("loc"), ()):
            fail("history of the deleted DAG still answers", **{"class": "delete-history-left"})
        for f in d1.defs:
            l = dags_dir + "/" + f
            if f.endswith(".yaml") and l in d0.recent and d0.recent[l] != d1.recent.get(l):
                fail("delete of %r removed the history of the remaining DAG %s" % (op["name"], f),
                     **{"class": "delete-dotted-alias" if dotted(op["name"]) else "delete-other-history"})
    elif kind in ("list", "get"):
        if not d0.same(d1):
            fail("%s changed the store" % kind, **{"class": "read-side-effect"})
    elif kind == "suspend":
        if d0.defs != d1.defs or not hist_same:
            fail("suspend touched definitions or history", **{"class": "suspend-side-effect"})
    elif kind == "run":
        if d0.defs != d1.defs or not flags_same:
            fail("recording a run touched definitions or flags", **{"class": "run-side-effect"})
    return bad


def monitor_case(c, texts):
    """List of (op index, what, cls)."""
    out = []
    prev = D(c["init"])
    for i, op in enumerate(c["ops"]):
        cur = D(op["dump"])
        for what, cls in monitor_op(op, prev, cur, texts, c["dir"]):
            out.append((i, what, cls))
        prev = cur
    return out


# ---------------------------------------------------------------------------------------------
# model side
# ---------------------------------------------------------------------------------------------

def c_op(op, real):
    k = op["op"]
    n = cstring(op.get("name", ""))
    if k == "adelete":
        return "XADelete %s" % n
    if k == "arename":
        return "XARename %s %s" % (n, cstring(op.get("new", "")))
    if k == "asave":
        return "XASave %s %s" % (n, cstring(op["text"]))
    if k == "adetails":
        return "XADetails %s" % n
    return "XOp (%s)" % c_op0(op, real)


def c_op0(op, real):
    k = op["op"]
    n = cstring(op.get("name", ""))
    if k == "create":
        return "OCreate %s %s" % (n, cstring("T0"))
    if k == "createraw":
        return "OCreate %s %s" % (n, cstring(op["text"]))
    if k == "save":
        return "OSave %s %s" % (n, cstring(op["text"]))
    if k == "rename":
        return "ORename %s %s" % (n, cstring(op["new"]))
    if k == "srename":
        return "OStoreRename %s %s" % (n, cstring(op["new"]))
    if k == "delete":
        return "ODelete %s %s" % (n, cstring(L.map_path(op["loc"], real)))
    if k == "suspend":
        return "OSuspend %s %s" % (n, "true" if op.get("on") else "false")
    if k == "run":
        return "ORun %s (%d)%%Z %s true" % (cstring(L.map_path(op["loc"], real)), op.get("stamp", 0),
                                           clist([L.c_status(l) for l in op["sts"]]))
    if k == "list":
        return "OList"
    if k == "get":
        return "OGet %s" % n
    raise ValueError(k)


def c_obs(op, real):
    d = op["dump"]
    defs = clist(["(%s, %s)" % (cstring(L.MDIR + "/" + f), cstring(t)) for f, t in d["defs"]])
    hist = clist(["(%s, %s)" % (cstring(L.map_path(h["loc"], real)), clist([L.c_run(r["stamp"], r["lines"]) for r in h["runs"]]))
                  for h in d["hist"]])
    res = op["code"] if op["op"] in API_OPS else L.RES.get(op["res"], 9)
    return "mkObs %d %s %d %s %s %s" % (res, clist([cstring(x) for x in op.get("out") or []]),
                                        op.get("errs", 0), defs, hist, clist([cstring(f) for f in d["flags"]]))


def c_case(c):
    return clist(["(%s, %s)" % (c_op(o, c["dir"]), c_obs(o, c["dir"])) for o in c["ops"]])


CODES = {1: "result class", 2: "output", 3: "definition files", 4: "history files", 5: "suspend flags", 6: "error count of List"}


def model_check(ctx, cases, texts):
    valid = clist([cstring(t) for t, v in sorted(texts.items()) if v["load"]])
    meta = clist([cstring(t) for t, v in sorted(texts.items()) if v["meta"]])
    graph = clist([cstring(t) for t, v in sorted(texts.items()) if v["graph"]])
    header = ("From Coq Require Import List String Ascii ZArith.\nImport ListNotations.\nOpen Scope string_scope.\n"
              "From BD.DagStore Require Import Model Check.\n"
              "Definition cases : list (list (xop * obs)) := [\n%%s\n].\n"
              "Definition M := Eval vm_compute in mismatches %s %s %s %s cases.\nPrint M.\n" % (valid, graph, meta, cstring(L.MDIR)))
    shards = L.shard(cases, lambda c: len(c["ops"]), 260)
    res = L.eval_shards(ctx, "cases_c18", header, shards, c_case)
    bad = []
    for sh, (r, err) in zip(shards, res):
        if r is None:
            ctx.fail("correspondence", "the model could not be evaluated on a shard of cases (coqc failed)", {"log": err})
            continue
        for (k, i, code) in r:
            bad.append((sh[k], i, code))
    return bad


# ---------------------------------------------------------------------------------------------
# save-crash enumeration
# ---------------------------------------------------------------------------------------------

def classify_bytes(b, old, new):
    if b == old:
        return "old"
    if b == new:
        return "new"
    if b is None:
        return "missing"
    if new.startswith(b):
        return "prefix-of-new"
    return "other"


def killed_at(log):
    """Where the kill landed, from the killed run's own log: (position of the killed call relative to the first
    call after MARK-begin, name of the call); position -1 = before the save began."""
    calls = L.main_thread_calls(log)
    if not calls:
        return None, None
    b = next((i for i, (s, r) in enumerate(calls) if "MARK-begin" in r), None)
    if b is None or b == len(calls) - 1:
        return -1, calls[-1][0]
    return len(calls) - 1 - (b + 1), calls[-1][0]


def crash_enum(ctx, tool, pairs, pre_points):
    """For each (old id, new id): one traced uninterrupted UpdateSpec, then runs killed on entry of the k-th call of
    a system call name (strace inject).  The runtime issues calls of its own on the main thread now and then, so
    the position where a kill landed is read from the killed run's own log and k is adjusted until every call of
    the save has been the kill point at least once."""
    recs = []
    for old_id, new_id in pairs:
        d = os.path.join(ctx.scratch, "crash-%s-%s" % (old_id, new_id))
        shutil.rmtree(d, ignore_errors=True)
        os.makedirs(d)
        rc, out, _ = vlib.run_tool(tool, ["crash-setup", d, old_id])
        victim = os.path.join(d, "dags", "victim.yaml")
        other = os.path.join(d, "dags", "victim2.yaml")
        if rc != 0 or not os.path.exists(victim):
            ctx.fail("correspondence", "crash-setup failed", {"log": out[-1000:]})
            continue
        old = open(victim, "rb").read()
        other_b = open(other, "rb").read()
        log = os.path.join(d, "trace.log")
        rc, out = L.strace_run([tool, "crash-helper", d, new_id], log=log)
        if rc not in (0, 3):        # 3 = the save was rejected
            ctx.fail("correspondence", "traced UpdateSpec run failed (strace rc=%d)" % rc, {"log": out[-1000:]})
            continue
        accepted = out.strip().endswith("OK")
        new = open(victim, "rb").read()
        calls = L.main_thread_calls(log)
        try:
            b = next(i for i, (s, r) in enumerate(calls) if "MARK-begin" in r)
            e = next(i for i, (s, r) in enumerate(calls) if "MARK-end" in r)
        except StopIteration:
            ctx.fail("correspondence", "markers not found in the strace log", {"log": open(log).read()[-1500:]})
            continue
        window = [s for s, _ in calls[b + 1:e]]

        def one(s, k, faults=None):
            """kill on entry of call #k of s; or (faults = raw strace inject expressions) injected errors / error + kill"""
            open(victim, "wb").write(old)
            open(other, "wb").write(other_b)
            klog = os.path.join(d, "kill.log")
            rc, out = L.strace_run([tool, "crash-helper", d, new_id], log=klog, inject=faults or (s, k))
            pos, name = killed_at(klog) if rc not in (0, 3) else (len(window) + 1, None)
            left = open(victim, "rb").read() if os.path.exists(victim) else None
            oth = open(other, "rb").read() if os.path.exists(other) else None
            lrc, lout, _ = vlib.run_tool(tool, ["crash-list", d])
            try:
                listing = json.loads(lout.strip().split("\n")[-1])
            except ValueError:
                listing = {"listed": None, "files": None, "errs": -1}
            for fn in os.listdir(os.path.join(d, "dags")):      # strays of this kill are not inherited by the next one
                if fn not in ("victim.yaml", "victim2.yaml"):
                    os.remove(os.path.join(d, "dags", fn))
            want = new if accepted else old
            lcode = 0 if left == old else 1 if left == b"" else 2 if left == want else 3
            r = {"kind": "save-fault" if faults else "save-crash", "faults": faults, "verdict": {0: "accepted", 3: "rejected"}.get(rc, "killed"),
                 "old": old_id, "new": new_id, "accepted": accepted, "syscall": s, "when": k, "left_code": lcode,
                 "pos": pos, "window": window, "killed": rc not in (0, 3), "left": classify_bytes(left, old, new if accepted else old),
                 "left_len": None if left is None else len(left), "neighbour_intact": oth == other_b,
                 "listed": listing.get("listed"), "list_errs": listing.get("errs"), "files": listing.get("files"),
                 "uninterrupted": "new" if new != old else "old"}
            recs.append(r)
            return r
        cnt = {}
        pre = []
        for s, _ in calls[:b + 1]:
            cnt[s] = cnt.get(s, 0) + 1
            pre.append((s, cnt[s]))
        for (s, k) in (pre[-pre_points:] if pre_points else []):
            one(s, k)
        # the calls of the save itself (and the first call after it), each aimed at until hit
        targets = list(enumerate(window + ["openat"]))
        hit = set()
        for j, s in targets:
            cnt[s] = cnt.get(s, 0) + 1
            k = cnt[s]
            for attempt in range(8):
                r = one(s, k)
                if r["killed"] and r["pos"] is not None:
                    hit.add(r["pos"])
                if r["pos"] == j or j in hit:
                    break
                if r["pos"] is None:
                    continue
                # landed early: the runtime made an extra call of this name before the target; late: one fewer
                k += 1 if r["pos"] < j else -1
                if k < 1:
                    break
        # faults on the save's own path (full disk, quota, file size limit, directory not writable, I/O error): every call
        # of the save from its first occurrence on fails with an error (when=k+), alone and followed by a kill in what
        # the code does next; a save that is rejected must leave the old text, an accepted one the new text
        if accepted and window:
            first = {}
            seen_w = dict((sname, c) for sname, c in ((x, sum(1 for y, _ in calls[:b + 1] if y == x)) for x in set(window)))
            for sname in window:
                seen_w[sname] += 1
                first.setdefault(sname, seen_w[sname])
            errs = {"openat": "EACCES", "write": "ENOSPC", "fchmod": "EPERM", "fsync": "EIO", "close": "EIO", "renameat": "EACCES",
                    "renameat2": "EACCES", "unlinkat": "EACCES", "ftruncate": "ENOSPC"}
            for sname, k in sorted(first.items()):
                one(sname, k, faults=["%s:error=%s:when=%d+" % (sname, errs.get(sname, "EIO"), k)])     # persistent
                if sname in ("openat", "write", "renameat"):
                    one(sname, k, faults=["%s:error=%s:when=%d" % (sname, errs.get(sname, "EIO"), k)])  # once
            kw = first.get("write")
            ko = first.get("openat")
            if kw and ko:
                # the temporary file cannot be created / written once, and the process is killed at its next write
                one("openat", ko, faults=["openat:error=EACCES:when=%d" % ko, "write:signal=SIGKILL:when=%d" % kw])
                one("write", kw, faults=["write:error=ENOSPC:when=%d" % kw, "write:signal=SIGKILL:when=%d" % (kw + 1)])
        missed = [j for j, _ in targets if j not in hit]
        if missed:
            ctx.notes.append("save-crash %s->%s: kill points %s of the save were not hit" % (old_id, new_id, missed))
        shutil.rmtree(d, ignore_errors=True)
    return recs


WINDOW = ["openat", "write", "fchmod", "fsync", "close", "renameat"]


def crash_model(ctx, recs, texts):
    """The model's crash states of UpdateSpec against the bytes left by the killed runs.  The window
    [openat(O_EXCL) temp, write, fchmod, fsync, close, renameat] is primitive steps 3..8 of save_prims
    (after Validate and Exists); a kill on entry of call j of the window = 2 + j completed steps."""
    want = []
    for r in recs:
        if r["pos"] is None or r["kind"] == "save-fault":
            continue
        if r["pos"] < 0:
            n = 0
        elif r["window"] == WINDOW:
            n = min(2 + r["pos"], 8)
        elif r["window"] == []:
            n = 8
        else:
            ctx.fail("correspondence", "UpdateSpec no longer performs create-temp, write, chmod, sync, close, rename: the "
                     "primitive steps of the model (save_prims) do not describe it", {"window": r["window"], "pair": [r["old"], r["new"]]})
            return
        want.append((r, n))
    # text ids stand for the contents, except the empty text, which the crash states compare with
    tid = lambda t: "" if texts[t]["len"] == 0 else t
    valid = clist([cstring(tid(t)) for t, v in sorted(texts.items()) if v["load"]])
    items = clist(["(crash_code (in_ids %s) %s \"victim\" %s %s %d, List.length (crash_listed (in_ids %s) (in_ids %s) %s \"victim\" %s %s %d))"
                   % (valid, cstring(L.MDIR), cstring(tid(r["old"])), cstring(tid(r["new"])), n,
                      valid, valid, cstring(L.MDIR), cstring(tid(r["old"])), cstring(tid(r["new"])), n)
                   for r, n in want])
    txt = ("From Coq Require Import List String.\nImport ListNotations.\nOpen Scope string_scope.\n"
           "From BD.DagStore Require Import Model Check.\nDefinition M := Eval vm_compute in %s.\nPrint M.\n" % items)
    rc, out, dt = vlib.coq_eval(ctx.scratch, "crash_c18", txt)
    res = vlib.coq_list_result(out, "M") if rc == 0 else None
    if res is None or len(res) != len(want):
        ctx.fail("correspondence", "crash states of the model could not be evaluated", {"log": out[-1500:]})
        return
    for (r, n), (m, nlisted) in zip(want, res):
        if nlisted != 1:
            ctx.fail("correspondence", "the model lists %d DAGs in a crash state of a save of the only definition" % nlisted, r)
        if r["left_code"] != m:
            ctx.fail("correspondence", "bytes left by a kill before primitive step %d of UpdateSpec differ from the model's "
                     "crash state (impl %s = code %d, model code %d; 0 old, 1 empty, 2 new, 3 other)" % (n, r["left"], r["left_code"], m), r)


# ---------------------------------------------------------------------------------------------

def run_tool_cases(ctx, tool, args):
    p = os.path.join(ctx.scratch, "store-%d.jsonl" % len(os.listdir(ctx.scratch)))
    rc, out, dt = vlib.run_tool(tool, [p] + args, env_extra={"VERIF_SEED": str(ctx.seed)}, timeout=3000)
    if rc != 0 or not os.path.exists(p):
        return None, None, out
    rows = vlib.read_jsonl(p)
    os.remove(p)
    head = rows[0]
    return head, rows[1:], out


def rerun(ctx, tool, cases):
    p_in = os.path.join(ctx.scratch, "replay-in.jsonl")
    with open(p_in, "w") as f:
        for c in cases:
            f.write(json.dumps({"k": c.get("k", 0), "stream": c.get("stream", "replay"),
                                "ops": [{k: v for k, v in o.items() if k not in ("dump", "res", "err", "out", "errs")} for o in c["ops"]]}) + "\n")
    head, rows, out = run_tool_cases(ctx, tool, ["replay", p_in])
    return head, rows or []


def slim(c, upto=None):
    """The case without the dumps (for replay files)."""
    ops = c["ops"] if upto is None else c["ops"][:upto + 1]
    return {"k": c["k"], "stream": c["stream"], "ops": [{k: v for k, v in o.items() if k != "dump"} for o in ops]}


def shrink(ctx, tool, c, i, cls, texts):
    """Greedy deletion of operations while a violation of the same class remains."""
    ops = c["ops"][:i + 1]

    def still(cand):
        if not cand:
            return False
        head, rows = rerun(ctx, tool, [{"k": 0, "stream": "shrink", "ops": cand}])
        return bool(rows) and any(k == cls for _, _, k in monitor_case(rows[0], texts))
    small = L.greedy_shrink(ops, still, budget=30)
    head, rows = rerun(ctx, tool, [{"k": c["k"], "stream": c["stream"] + "-shrunk", "ops": small}])
    return slim(rows[0]) if rows else slim(c, i)


def fragment_is_truth(ctx):
    """known_findings.d/<id>.json is the source of truth for this property's findings: the merged known_findings.json
    may lag behind (an entry repaired since - state "fixed" - must suppress nothing)."""
    frag = os.path.join(vlib.VERIF, "known_findings.d", ctx.pid + ".json")
    if os.path.exists(frag):
        ctx.known = [k for k in json.load(open(frag)) if k.get("property") == ctx.pid and k.get("state") == "known"]


def run(ctx, replay_cases=None):
    fragment_is_truth(ctx)
    ctx.proofs(extra=["DagStore/Check.vo"])
    tool, out, _ = vlib.go_build("store", ctx.scratch)
    if tool is None:
        ctx.fail("correspondence", "harness does not build against /repo", {"log": out[-2000:]})
        return ctx.finish()
    import time as _t
    t_phase = {"start": _t.time()}
    if replay_cases is None:
        corpus = os.path.join(vlib.VERIF, "corpus", "C18.jsonl")
        pre = vlib.read_jsonl(corpus) if os.path.exists(corpus) else []
        head, cases, out = run_tool_cases(ctx, tool, [ctx.tier])
        if head is None:
            ctx.fail("correspondence", "store driver failed", {"log": out[-2000:]})
            return ctx.finish()
        if pre:
            _, rows = rerun(ctx, tool, pre)
            for j, r in enumerate(rows):
                r["k"], r["stream"] = 100000 + j, "corpus"
            cases = rows + cases
    else:
        head, cases = rerun(ctx, tool, replay_cases)
        if head is None:
            ctx.fail("correspondence", "store driver failed on the replay input", {})
            return ctx.finish()
    texts = {t["id"]: t for t in head["texts"]}
    for t in texts.values():
        if t["valid"] != t["load"]:
            ctx.fail("correspondence", "dag.LoadYAML (the validation inside UpdateSpec) and dag.LoadWithoutEval (the independent "
                     "oracle) disagree on a text of the pool; the model uses one verdict for both", {"text": t["id"], "kind": t["kind"]})
    if not texts["T0"]["valid"]:
        ctx.fail("monitor", "the template text written by CreateDAG is not a valid definition", {"text": "T0"})

    t_phase["driver_done"] = _t.time()
    # ---- monitors --------------------------------------------------------------------------
    nops = 0
    kinds, results, streams = {}, {}, {}
    seen = set()
    reported = {}
    for c in cases:
        if c.get("fatal"):
            ctx.fail("monitor", "an operation of the real store panicked: %s" % c["fatal"], slim(c))
            continue
        streams[c["stream"]] = streams.get(c["stream"], 0) + 1
        for o in c["ops"]:
            nops += 1
            kinds[o["op"]] = kinds.get(o["op"], 0) + 1
            results[o["op"] + ":" + o["res"]] = results.get(o["op"] + ":" + o["res"], 0) + 1
        if any(o["res"] == "ok" and o["op"] in ("rename", "delete", "save") for o in c["ops"]):
            seen.add(json.dumps([[o["op"], o.get("name"), o.get("new"), o.get("text"), o.get("stamp")] for o in c["ops"]]))
        for (i, what, cls) in monitor_case(c, texts):
            key = json.dumps(cls, sort_keys=True)
            reported[key] = reported.get(key, 0) + 1
            if ctx.match_known(cls, "monitor") is None and reported[key] <= 3:
                case = shrink(ctx, tool, c, i, cls, texts)
            else:
                case = slim(c, i)
            case["failing_op"] = min(i, len(case["ops"]) - 1)
            ctx.fail("monitor", what, case, cls=cls)

    t_phase["monitors_done"] = _t.time()
    # ---- model -----------------------------------------------------------------------------
    good = [c for c in cases if not c.get("fatal")]
    for c, i, code in model_check(ctx, good, texts):
        o = c["ops"][i]
        ctx.fail("correspondence", "model and implementation differ after operation %d (%s %s): %s" %
                 (i, o["op"], o.get("name", ""), CODES.get(code, code)),
                 dict(slim(c, i), failing_op=i, impl_result=o["res"], impl_err=o.get("err"), impl_defs=o["dump"]["defs"]))

    t_phase["model_done"] = _t.time()
    # ---- save-crash ------------------------------------------------------------------------
    pairs = [("T1", "T2"), ("T2", "T3"), ("T1", "T6"), ("T5", "T1"), ("T1", "T5"), ("T2", "T4"), ("T1", "T9")]
    if ctx.tier == "thorough":
        pairs += [("T6", "T1"), ("T0", "T7"), ("T6", "T3"), ("T7", "T0")]
    recs = crash_enum(ctx, tool, pairs, pre_points=3 if ctx.tier == "quick" else 400)
    ckinds = {}
    for r in recs:
        ckinds[r["left"]] = ckinds.get(r["left"], 0) + 1
        if not r["neighbour_intact"]:
            ctx.fail("monitor", "a kill during UpdateSpec damaged another definition file", r, cls={"class": "save-crash-neighbour"})
        if r["listed"] != ["victim.yaml", "victim2.yaml"] or r["list_errs"] != 0:
            ctx.fail("monitor", "after a kill on entry of %s #%d during UpdateSpec the DAG listing is %s with %s errors (files: %s): "
                     "a left-over of the save is shown as a DAG, or a DAG is missing" % (r["syscall"], r["when"], r["listed"], r["list_errs"], r["files"]),
                     r, cls={"class": "save-crash-listing"})
        if r["kind"] == "save-fault" and r["left"] in ("old", "new") and \
                ((r["verdict"] == "rejected" and r["left"] != "old" and r["old"] != r["new"]) or (r["verdict"] == "accepted" and r["left"] != "new")):
            ctx.fail("monitor", "under the injected fault %s the save was %s but the definition holds the %s text" % (r["faults"], r["verdict"], r["left"]),
                     r, cls={"class": "save-fault-verdict"})
        if r["left"] not in ("old", "new"):
            in_window = r["pos"] is not None and 0 <= r["pos"] <= len(r["window"])
            cls = {"class": "save-killed-after-truncate" if (r["left"] == "prefix-of-new" and in_window) else "save-crash-garbage"}
            how = ("under the injected fault %s (save %s)" % (r["faults"], r["verdict"])) if r["kind"] == "save-fault" else \
                  ("after a kill on entry of %s #%d" % (r["syscall"], r["when"]))
            ctx.fail("monitor", "%s during UpdateSpec the definition holds neither the old nor the new text (%s, %s bytes)"
                     % (how, r["left"], r["left_len"]), r, cls=cls)
    crash_model(ctx, recs, texts)
    t_phase["crash_done"] = _t.time()
    ks = list(t_phase)
    ctx.cov["phase_seconds"] = {ks[i + 1]: round(t_phase[ks[i + 1]] - t_phase[ks[i]], 1) for i in range(len(ks) - 1)}

    # ---- evidence --------------------------------------------------------------------------
    ctx.cov["evaluations"] = nops + len(recs)
    ctx.cov["traces_validated_against_impl"] = len(good) + len(recs)
    ctx.cov["distinct_nontrivial"] = len(seen)
    ctx.cov["rule"] = ("operation sequences through the real client/DAGStore/jsondb, replayed on the Coq model (results, every "
                       "definition file, every history file, flags compared after every operation) and checked by the property "
                       "monitors; distinct = distinct op sequences, non-trivial = contains an accepted save, rename or delete; "
                       "plus one killed real UpdateSpec per (system call, k)")
    ctx.cov["streams"] = streams
    ctx.cov["op_kinds"] = kinds
    ctx.cov["op_results"] = results
    ctx.cov["sequences"] = len(cases)
    ctx.cov["save_crash_runs"] = len(recs)
    ctx.cov["save_crash_left"] = ckinds
    ctx.cov["names"] = head["names"]
    ctx.cov["texts"] = {t["id"]: {k: t[k] for k in ("kind", "len", "valid", "meta", "graph")} for t in texts.values()}
    ctx.cov["monitor_classes_seen"] = reported
    for c in good[:1] + good[-1:]:
        ctx.sample(slim(c))
    for r in recs[-2:]:
        ctx.sample(r)
    ctx.cov["trusted_base"] += [
        "Section variables of DagStore: valid (verdict of dag.LoadYAML per text - supplied by the harness for every text of the pool, "
        "checked equal to LoadWithoutEval's), meta_ok (LoadMetadata), dir",
        "texts are represented in the model by identifiers (the model never inspects bytes; identifiers are assigned by content hash)",
        "the scratch DAGs directory is replaced by /d in the model (its string functions inspect only the final path element)",
        "abstract history (location -> runs) instead of the jsondb file layout; run stamps distinct (generator), C06/C07 own the file level",
        "re-implemented on strings: filepath.Ext, AddYamlExtension, craftFilePath, find, normalizeFilename",
        "crash model: a kill stops UpdateSpec between two primitive steps or inside the write; strace injects SIGKILL on syscall entry",
    ]
    ctx.assumptions = ["names are single path elements (no /), not empty, . or ..; the process working directory holds no definition",
                       "run start stamps pairwise distinct (same-second ordering is C06's finding F6a)",
                       "the DAGs directory is an absolute path"]
    if ctx.tier == "thorough":
        ctx.coqchk()

    def search():
        # extra budget: further generated sequences (other seeds) through the monitors
        for extra in (1, 2, 3):
            p = os.path.join(ctx.scratch, "extra-%d.jsonl" % extra)
            rc, out, dt = vlib.run_tool(tool, [p, "quick"], env_extra={"VERIF_SEED": str(ctx.seed + extra)}, timeout=600)
            if rc != 0:
                return None
            rows = vlib.read_jsonl(p)
            os.remove(p)
            tx = {t["id"]: t for t in rows[0]["texts"]}
            for c in rows[1:]:
                if c.get("fatal"):
                    continue
                for (i, what, cls) in monitor_case(c, tx):
                    if ctx.match_known(cls, "monitor") is None:
                        return dict(slim(c, i), what=what, cls=cls)
        return None
    return ctx.finish(search=search)


def replay(ctx, path):
    body = json.load(open(path))
    cases = []
    crash = False
    items = [f.get("case") for f in body.get("failures", [])]
    if isinstance(body.get("failing_input"), dict):
        items.append(body["failing_input"])
    if "ops" in body or "kind" in body:
        items.append(body)
    for c in items:
        if isinstance(c, dict) and "ops" in c:
            cases.append(c)
        if isinstance(c, dict) and c.get("kind") == "save-crash":
            crash = True
    if not cases and not crash:
        cases = []
    return run(ctx, replay_cases=cases)
