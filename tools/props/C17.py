"""C17 - no API request gets through without valid credentials when auth is on (DESIGN.md section 5, C17).

Proofs: coq/Props/C17.v over coq/Auth/Model.v.  Correspondence: harness/cmd/auth sends the header grammar through the real
middleware chain (middleware.Setup + SetupGlobalMiddleware around a sentinel); the outcome class is compared with `observe`
evaluated inside Coq.  Monitor (independent of the model, python's own base64): a request reaches the sentinel only with no auth
configured or carrying the configured basic pair or the configured token; standard forms always pass; the rest is 401."""
import base64
import json
import os
from concurrent.futures import ThreadPoolExecutor

import vlib
from vlib import cstring

SHARD = 1500
CLASSES = {0: "redirect", 1: "notfound", 2: "static", 3: "401", 4: "api", 5: "cors-preflight", -1: "other"}


# ------------------------------------------------------------------------------------------------
# the property, evaluated on what the implementation did
# ------------------------------------------------------------------------------------------------
def bts(s):
    return s.encode("utf-8")


def carries_basic(c):
    """the header is a Basic header (any case) whose base64 text decodes to the configured user:password"""
    if not c["hb"]:
        return False
    h = bts(c["hdr"])
    if len(h) < 6 or h[:6].lower() != b"basic ":
        return False
    try:
        raw = base64.b64decode(h[6:].replace(b"\r", b"").replace(b"\n", b""), validate=True)
    except Exception:
        return False
    if b":" not in raw:
        return False
    u, p = raw.split(b":", 1)
    return u == bts(c["u"]) and p == bts(c["p"])


def carries_token(c):
    """the configured non-empty token is one of the space-separated words of the header"""
    return c["ht"] and c["t"] != "" and bts(c["t"]) in bts(c["hdr"]).split(b" ")


def std_basic(c):
    return c["hb"] and ":" not in c["u"] and c["hdr"] == "Basic " + base64.b64encode(bts(c["u"] + ":" + c["p"])).decode("ascii")


def std_bearer(c):
    return c["ht"] and c["t"] != "" and " " not in c["t"] and c["hdr"] == "Bearer " + c["t"]


def clean_api_path(c):
    """an API path in plain form (no escaped characters): <base path>/api..."""
    return c["rawpath"] == "" and c["path"].startswith(c["base"] + "/api") and not (c["base"] != "" and c["path"] == "/")


def monitor(c):
    """None or a description of how the property fails on this observation"""
    auth_on = c["hb"] or c["ht"]
    cb, ct = carries_basic(c), carries_token(c)
    if c["api"] and auth_on and not cb and not ct:
        return "a request without the configured secret reached the API handler"
    if clean_api_path(c):
        if auth_on and not cb and not ct and (c["code"] != 401 or c["api"] or c["static"]):
            return "a request carrying neither secret was not answered 401 (code %d)" % c["code"]
        if c["method"] != "OPTIONS":
            if std_basic(c) and not c["api"]:
                return "the configured user:password in the standard Basic form was refused (code %d)" % c["code"]
            if std_bearer(c) and not c["api"]:
                return "the configured token in the standard Bearer form was refused (code %d)" % c["code"]
            if not auth_on and not c["api"]:
                return "no auth configured, yet the request did not reach the API handler (code %d)" % c["code"]
    return None


def cls_of(c):
    return {"config": ("none", "basic", "token", "both")[int(c["hb"]) + 2 * int(c["ht"])], "scheme": c.get("scheme"),
            "spacing": c.get("spacing"), "payload": c.get("payload")}


# ------------------------------------------------------------------------------------------------
# model side
# ------------------------------------------------------------------------------------------------
def coq_case(c):
    b = "Some (%s, %s)" % (cstring(c["u"]), cstring(c["p"])) if c["hb"] else "None"
    t = "Some %s" % cstring(c["t"]) if c["ht"] else "None"
    k = c["class"] if c["class"] >= 0 else 99
    return "((%s, %s, %s), %s, %s, %s, %s, %d, %d)" % (b, t, cstring(c["base"]), cstring(c["method"]), cstring(c["path"]),
                                                       cstring(c["rawpath"]), cstring(c["hdr"]), k, c.get("std", 0))


def eval_shard(ctx, idx, cases):
    txt = ("From Coq Require Import List String Ascii.\nImport ListNotations.\nOpen Scope string_scope.\n"
           "From BD.Auth Require Import Model Check.\n"
           "Definition cases : list case := [\n%s\n].\n"
           "Definition M := Eval vm_compute in mismatches cases.\nPrint M.\n") % ";\n".join(coq_case(c) for c in cases)
    rc, out, dt = vlib.coq_eval(ctx.scratch, "cases_c17_%d" % idx, txt)
    if rc != 0:
        return None, out[-1500:]
    res = vlib.coq_list_result(out, "M")
    if res is None:
        return None, out[-1500:]
    return res, None


def model_check(ctx, cases):
    shards = [cases[i:i + SHARD] for i in range(0, len(cases), SHARD)]
    bad = []
    with ThreadPoolExecutor(max_workers=14) as ex:
        results = list(ex.map(lambda t: eval_shard(ctx, t[0], t[1]), enumerate(shards)))
    for sh, (res, err) in zip(shards, results):
        if res is None:
            ctx.fail("correspondence", "the model could not be evaluated on a shard of cases (coqc failed)", {"log": err})
            continue
        for (k, m) in res:
            bad.append((sh[k], m))
    return bad


# ------------------------------------------------------------------------------------------------
def rerun(tool, ctx, cases, tag="re"):
    p_in = os.path.join(ctx.scratch, tag + "-in.jsonl")
    with open(p_in, "w") as f:
        for c in cases:
            f.write(json.dumps(c) + "\n")
    p = os.path.join(ctx.scratch, tag + "-out.jsonl")
    rc, out, dt = vlib.run_tool(tool, [p, "replay", p_in])
    return vlib.read_jsonl(p) if rc == 0 else []


def shrink(tool, ctx, c):
    """Greedy deletion of header bytes (then method/path simplification) while the monitor still fails."""
    cur = c
    for _ in range(60):
        h = cur["hdr"]
        cands = []
        for i in range(len(h)):
            x = dict(cur)
            x["hdr"] = h[:i] + h[i + 1:]
            x["std"] = 0
            cands.append(x)
        if cur["method"] != "GET":
            x = dict(cur)
            x["method"] = "GET"
            cands.append(x)
        res = [x for x in rerun(tool, ctx, cands, "shr") if monitor(x)]
        if not res:
            break
        cur = min(res, key=lambda x: (len(x["hdr"]), x["method"] != "GET"))
    return cur


def key(c):
    return (c["hb"], c["u"], c["p"], c["ht"], c["t"], c["base"], c["method"], c["path"], c["rawpath"], c["hdr"])


def run(ctx, replay_cases=None):
    ctx.proofs(extra=["Auth/Check.vo"])
    tool, out, _ = vlib.go_build("auth", ctx.scratch)
    if tool is None:
        ctx.fail("correspondence", "harness does not build against /repo", {"log": out[-2000:]})
        return ctx.finish()
    if replay_cases is None:
        cases = []
        corpus = os.path.join(vlib.VERIF, "corpus", "C17.jsonl")
        if os.path.exists(corpus):
            cases += rerun(tool, ctx, vlib.read_jsonl(corpus), "corpus")
        p = os.path.join(ctx.scratch, "auth.jsonl")
        rc, out, dt = vlib.run_tool(tool, [p, ctx.tier], env_extra={"VERIF_SEED": str(ctx.seed)}, timeout=3000)
        if rc != 0:
            ctx.fail("correspondence", "auth driver failed", {"log": out[-2000:]})
            return ctx.finish()
        cases += vlib.read_jsonl(p)
    else:
        cases = replay_cases
    # monitor: the property on what the implementation did
    nfail = 0
    for c in cases:
        why = monitor(c)
        if why:
            nfail += 1
            ctx.fail("monitor", why, shrink(tool, ctx, c) if nfail <= 3 else c, cls=cls_of(c))
        elif c["class"] < 0:
            ctx.fail("correspondence", "unexpected response (code %d) from the middleware chain" % c["code"], c, cls=cls_of(c))
    # correspondence: the model on the same requests
    bad = model_check(ctx, cases)
    for c, m in bad:
        if m == 9:
            ctx.fail("correspondence", "the model's standard-form constructor differs from the header built with Go's encoding/base64", c, cls=cls_of(c))
        else:
            ctx.fail("correspondence", "model outcome %s differs from the implementation's %s" % (CLASSES.get(m, m), CLASSES.get(c["class"], c["class"])),
                     c, cls=cls_of(c))
    fill_evidence(ctx, cases)
    if ctx.tier == "thorough":
        ctx.coqchk()

    def search():
        # a proof obligation or the correspondence broke but no monitor failed: the whole grammar through the monitor
        p = os.path.join(ctx.scratch, "search.jsonl")
        rc, out, dt = vlib.run_tool(tool, [p, "thorough"], env_extra={"VERIF_SEED": str(ctx.seed + 1)}, timeout=3000)
        if rc != 0:
            return None
        for c in vlib.read_jsonl(p):
            if monitor(c):
                return shrink(tool, ctx, c)
        return None
    return ctx.finish(search=search)


def fill_evidence(ctx, cases):
    seen = set()
    hist = {"class": {}, "stream": {}, "config": {}, "scheme": {}, "payload": {}, "spacing": {}, "method": {}}
    reached = passed_std = carried = 0
    for c in cases:
        cl = cls_of(c)
        hist["class"][CLASSES.get(c["class"], "other")] = hist["class"].get(CLASSES.get(c["class"], "other"), 0) + 1
        hist["stream"][c.get("stream", "?")] = hist["stream"].get(c.get("stream", "?"), 0) + 1
        for k in ("config", "scheme", "payload", "spacing"):
            hist[k][str(cl[k])] = hist[k].get(str(cl[k]), 0) + 1
        hist["method"][c["method"]] = hist["method"].get(c["method"], 0) + 1
        if c["class"] in (3, 4, 5) and (c["hb"] or c["ht"]):
            reached += 1
            seen.add(key(c))
        if std_basic(c) or std_bearer(c):
            passed_std += 1
        if carries_basic(c) or carries_token(c):
            carried += 1
    ctx.cov["evaluations"] = len(cases)
    ctx.cov["traces_validated_against_impl"] = len(cases)
    ctx.cov["distinct_nontrivial"] = len(seen)
    ctx.cov["rule"] = ("requests sent through the real chain (middleware.Setup + SetupGlobalMiddleware, httptest) and through the Coq "
                       "`observe`; distinct = distinct (configuration, secrets, base path, method, path, raw path, header); non-trivial = "
                       "the request reached the authentication middlewares (outcome 401 / API / cors) with basic and/or token auth configured")
    ctx.cov["distribution"] = hist
    ctx.cov["reached_auth_with_auth_on"] = reached
    ctx.cov["standard_form_requests"] = passed_std
    ctx.cov["requests_carrying_a_configured_secret"] = carried
    ctx.cov["exhaustive"] = ctx.tier == "thorough"
    for c in cases[:1] + cases[len(cases) // 2:len(cases) // 2 + 1] + cases[-2:]:
        ctx.sample({k: c[k] for k in ("stream", "hb", "u", "p", "ht", "t", "base", "method", "path", "hdr", "code", "class")})
    ctx.cov["trusted_base"] += [
        "re-implemented library semantics inside the model: encoding/base64 StdEncoding (alphabet, required padding, CR/LF skipped, "
        "non-strict trailing bits), net/http parseBasicAuth, http.StripPrefix, strings.Split/Cut/HasPrefix - each exercised by the grammar",
        "requests enter at the handler (httptest + ServeHTTP): header trimming and URL parsing of net/http's server are outside",
        "the monitor's notion of a carried secret uses python's base64 (validate=True after removing CR/LF)"]
    ctx.assumptions = ["C17_complete premises: user name without ':', token non-empty and without space (RFC 7617 / 6750 forms)",
                       "byte strings are modelled as lists of 8-bit characters; secrets in the harness are valid UTF-8"]


def replay(ctx, path):
    body = json.load(open(path))
    cases = [f["case"] for f in body.get("failures", []) if isinstance(f.get("case"), dict) and "hdr" in f["case"]]
    if isinstance(body.get("failing_input"), dict) and "hdr" in body["failing_input"]:
        cases.append(body["failing_input"])
    if isinstance(body.get("case"), dict) and "hdr" in body["case"]:
        cases.append(body["case"])
    tool, out, _ = vlib.go_build("auth", ctx.scratch)
    if tool is None:
        ctx.fail("correspondence", "harness does not build against /repo", {"log": out[-2000:]})
        return ctx.finish()
    return run(ctx, replay_cases=rerun(tool, ctx, cases, "replay"))
