"""C08 - reported status is truthful: live while running, final afterwards, never stuck (DESIGN.md section 5, C08).

(i)  in-process agent cases (harness/cmd/status inproc): the real agent.New(...).Run with a scripted executor; every
     status handed to the history store, the raw history lines, every answer of the real client.GetLatestStatus polled
     through the real unix socket, the final persisted status - against the executor's ground truth (monitors) and against
     the model's allowed sequences (Status/Check.v, evaluated by vm_compute).
(ii) the real `blackdagger` binary, killed by SIGKILL at time offsets and at the k-th system call (strace injection) of
     start-up / execution / shutdown; afterwards: client.GetLatestStatus in a fresh process, a second `start`, one tick of
     the real scheduler daemon."""
import json
import os
import subprocess
import time

import vlib
from props import status_lib as sl


def build_binary(ctx):
    out = os.path.join(ctx.scratch, "blackdagger")
    rc, log, dt = vlib.sh(["go", "build", "-o", out, "."], cwd=vlib.REPO, env=vlib.env_go(), timeout=1500)
    return (out if rc == 0 else None), log, dt


SPEC_KEYS = ("k", "kind", "steps", "handlers", "handler_fails", "stop_at_ms", "hold_ms")


def run_inproc(ctx, tool, seed, tier, tag="inproc", specs=None):
    work = os.path.join(ctx.scratch, tag + "-work")
    os.makedirs(work, exist_ok=True)
    p = os.path.join(ctx.scratch, tag + ".jsonl")
    args = ["inproc", p, tier, work]
    if specs is not None:
        sp = os.path.join(ctx.scratch, tag + "-specs.jsonl")
        with open(sp, "w") as f:
            for c in specs:
                f.write(json.dumps({k: c[k] for k in SPEC_KEYS if k in c}) + "\n")
        args.append(sp)
    rc, out, dt = vlib.run_tool(tool, args, env_extra={"VERIF_SEED": str(seed)}, timeout=3000)
    if rc != 0:
        return None, out, dt
    return vlib.read_jsonl(p), out, dt


def unknown_classes(ctx, c):
    out = [cls["class"] for _, cls in sl.monitor_inproc(c) if ctx.match_known(cls, "monitor") is None]
    out += [cls["class"] for _, _, cls in sl.monitor_prefixes(c) if ctx.match_known(cls, "monitor") is None]
    return set(out)


def shrink(ctx, tool, c, budget=10):
    """greedy deletion (last step, handlers, failure scripts, retries, long holds) while a monitor of the same class still
    fails on a re-run of the reduced case"""
    want = unknown_classes(ctx, c)
    if not want:
        return c, 0
    cur = c
    runs = 0

    def variants(x):
        x = {k: json.loads(json.dumps(x[k])) for k in SPEC_KEYS if k in x}
        if len(x["steps"]) > 1:
            y = json.loads(json.dumps(x))
            last = y["steps"].pop()["name"]
            for st in y["steps"]:
                st["depends"] = [d for d in st["depends"] if d != last]
            yield y
        if x["handlers"]:
            y = json.loads(json.dumps(x))
            y["handlers"], y["handler_fails"] = [], {}
            yield y
        for i, st in enumerate(x["steps"]):
            if st["fails"] or st["rlimit"] or not st["pre"] or st["cof"] or st["cos"]:
                y = json.loads(json.dumps(x))
                y["steps"][i].update({"fails": 0, "rlimit": 0, "pre": True, "cof": False, "cos": False})
                yield y

    progress = True
    while progress and runs < budget:
        progress = False
        for v in variants(cur):
            if runs >= budget:
                break
            runs += 1
            res, _, _ = run_inproc(ctx, tool, ctx.seed, "quick", tag="shrink%d" % runs, specs=[v])
            if res and not res[0].get("infra") and unknown_classes(ctx, res[0]) & want:
                cur, progress = res[0], True
                break
    return cur, runs


def slim(c):
    """a case without the bulk (for replay files / samples)"""
    d = {k: c[k] for k in ("k", "kind", "steps", "handlers", "handler_fails", "stop_at_ms", "hold_ms", "exec", "run_err") if k in c}
    d["writes"] = [{"seq": w["seq"], "role": w["role"], "t0": w["t0"], "t2": w["t2"], "held": w["held"], "dropped": w.get("dropped"),
                    "overall": w["st"]["text"], "steps": sl.table(w["st"])} for w in c.get("writes", [])]
    d["raw_lines"] = [{"overall": l["text"], "steps": sl.table(l)} for l in c.get("raw_lines") or []]
    for k in ("final", "latest"):
        if c.get(k):
            d[k] = {"overall": c[k]["text"], "steps": sl.table(c[k]), "nodes": c[k]["nodes"]}
    d["polls"] = len(c.get("polls", []))
    d["line_bytes"] = c.get("line_bytes")
    return d


def eval_coq(ctx, cases, name):
    txt = ("From Coq Require Import List Arith.\nImport ListNotations.\nFrom BD.Status Require Import Model Check.\n"
           "Definition cases : list ccase := [\n%s\n].\n"
           "Definition M := Eval vm_compute in mismatches cases.\nPrint M.\n") % ";\n".join(sl.coq_case(c) for c in cases)
    rc, out, dt = vlib.coq_eval(ctx.scratch, name, txt)
    if rc != 0:
        return None, out[-1500:]
    return vlib.coq_list_result(out, "M"), None


CODES = {1: "a persisted line's overall status is not Scheduler.Status of its node table",
         2: "the first persisted line is not S0 (all steps not started, written by the main thread)",
         3: "more than two lines by the main thread or more than one by the first-status goroutine",
         4: "the persisted lines, in file order, are not one chain of scheduler states",
         5: "a persisted line is not a state from which the final state is reachable",
         6: "a live answer does not carry the forced status running",
         7: "the live answers are not a chain of scheduler states",
         8: "a live answer is not a state from which the final state is reachable",
         9: "a line follows the main thread's final status"}


def check_inproc(ctx, cases, stats, coq_name="cases_c08", tool=None):
    """monitors + model correspondence on in-process cases; returns number of monitor failures (unknown ones included)"""
    nfail = 0
    good = []
    shrunk = 0
    for c in [x for x in cases if x.get("kind") == "cache"]:
        stats["cache_streams"] = stats.get("cache_streams", 0) + 1
        stats["cache_same_second"] = stats.get("cache_same_second", 0) + (1 if (c.get("cache") or {}).get("same_second") else 0)
        seen = set()
        for what, cls in sl.monitor_cache(c):
            if what in seen:
                continue
            seen.add(what)
            nfail += 1
            stats["monitor_classes"][cls["class"]] = stats["monitor_classes"].get(cls["class"], 0) + 1
            ctx.fail("monitor", what, {"kind": "cache", "steps": c["steps"], "cache": c.get("cache")}, cls=cls)
    cases = [x for x in cases if x.get("kind") != "cache"]
    for c in cases:
        if tool is not None and shrunk < 2 and not c.get("infra") and unknown_classes(ctx, c):
            # a failing input nobody knows yet: report it shrunk
            shrunk += 1
            small, runs = shrink(ctx, tool, c)
            stats["shrink_runs"] = stats.get("shrink_runs", 0) + runs
            if small is not c:
                for what, cls in sl.monitor_inproc(small):
                    ctx.fail("monitor", what, dict(slim(small), shrunk_from_case=c["k"]), cls=cls)
        if c.get("infra"):
            ctx.fail("correspondence", "driver could not run a case: " + c["infra"], slim(c), cls={"class": "infra"})
            continue
        good.append(c)
        seen = set()
        for what, cls in sl.monitor_inproc(c):
            key = (what, cls["class"])
            if key in seen:
                continue
            seen.add(key)
            nfail += 1
            stats["monitor_classes"][cls["class"]] = stats["monitor_classes"].get(cls["class"], 0) + 1
            ctx.fail("monitor", what, slim(c), cls=cls)
        for j, what, cls in sl.monitor_prefixes(c):
            stats["prefix_states"] += 0
            stats["monitor_classes"][cls["class"]] = stats["monitor_classes"].get(cls["class"], 0) + 1
            d = slim(c)
            d["kill_after_line"] = j
            nfail += 1
            ctx.fail("monitor", what, d, cls=cls)
        stats["prefix_states"] += len(c.get("raw_lines") or [])
        stats["read_errors_during_compaction"] = stats.get("read_errors_during_compaction", 0) + c.get("_obs", {}).get("read_error_during_compaction", 0)
        stats["live_answers"] += len([p for p in c["polls"] if p["st"] is not None and c["t_run0"] <= p["t0"] and p["t1"] <= c["t_run1"]])
        stats["lines"] += len(c["writes"])
    # ---- correspondence with the model -------------------------------------------------------------------------
    if good:
        res, err = eval_coq(ctx, good, coq_name)
        if res is None:
            ctx.fail("correspondence", "the model could not be evaluated on the cases (coqc failed)", {"log": err})
        else:
            for (k, code) in res:
                c = good[k]
                ctx.fail("correspondence", "model and implementation differ: " + CODES.get(code, str(code)), slim(c),
                         cls={"class": "model-%d" % code})
    return nfail


def check_crash(ctx, cases, stats):
    nfail = 0
    for c in cases:
        if c.get("ended"):
            stats["ended_runs"] = stats.get("ended_runs", 0) + 1
        if c.get("killed"):
            stats["kills"] += 1
            stats["by_how"][c["how"]] = stats["by_how"].get(c["how"], 0) + 1
            if c.get("boundary") and c["how"] == "sys":
                stats["boundaries"][c["boundary"]] = stats["boundaries"].get(c["boundary"], 0) + 1
            post = c["post"].get("latest")
            key = "err" if c["post"].get("latest_err") else (post["text"] if post else "none")
            stats["reported_after_kill"][key] = stats["reported_after_kill"].get(key, 0) + 1
        else:
            stats["not_killed"] += 1
        for what, cls in sl.monitor_crash(c):
            nfail += 1
            stats["monitor_classes"][cls["class"]] = stats["monitor_classes"].get(cls["class"], 0) + 1
            d = dict(c)
            d["post"] = {k: v for k, v in c["post"].items() if k != "current"}
            ctx.fail("monitor", what, d, cls=dict(cls, how=c["how"]))
    return nfail


def run(ctx):
    ctx.proofs(extra=["Status/Check.vo", "Status/ProofsCheck.vo", "Status/ProofsChain.vo"])
    tool, out, _ = vlib.go_build("status", ctx.scratch)
    if tool is None:
        ctx.fail("correspondence", "harness does not build against /repo", {"log": out[-2000:]})
        return ctx.finish()
    bd, out, _ = build_binary(ctx)
    if bd is None:
        ctx.fail("correspondence", "the blackdagger binary does not build from /repo", {"log": out[-2000:]})
        return ctx.finish()
    stats = {"monitor_classes": {}, "prefix_states": 0, "live_answers": 0, "lines": 0, "kills": 0, "not_killed": 0, "by_how": {},
             "boundaries": {}, "reported_after_kill": {}}
    t0 = time.time()
    # ---- corpus: minimised past failures first ------------------------------------------------------------------------
    corpus = os.path.join(vlib.VERIF, "corpus", "C08.jsonl")
    if os.path.exists(corpus):
        specs = vlib.read_jsonl(corpus)
        for i, sp in enumerate(specs):
            sp["k"] = 9000 + i
        res, out, _ = run_inproc(ctx, tool, ctx.seed, "quick", tag="corpus", specs=specs)
        if res is None:
            ctx.fail("correspondence", "status driver failed on the corpus", {"log": out[-2000:]})
        else:
            check_inproc(ctx, res, stats, coq_name="cases_c08_corpus")
            stats["corpus_cases"] = len(res)
    # ---- (i) in-process agent cases --------------------------------------------------------------------------------
    cases, out, dt = run_inproc(ctx, tool, ctx.seed, ctx.tier)
    if cases is None:
        ctx.fail("correspondence", "status driver failed", {"log": out[-2000:]})
        return ctx.finish()
    check_inproc(ctx, cases, stats, tool=tool)
    t1 = time.time()
    # ---- (ii) the real binary, killed ------------------------------------------------------------------------------
    rng = vlib.Rng(ctx.seed)
    crash, info = sl.run_crash(ctx, bd, tool, ctx.tier, rng, workers=8 if ctx.tier == "quick" else 10)
    check_crash(ctx, crash, stats)
    t2 = time.time()

    kinds = {}
    nontrivial = set()
    for c in cases:
        kinds[c["kind"]] = kinds.get(c["kind"], 0) + 1
        if any(s["depends"] for s in c["steps"]) and not c.get("infra"):
            nontrivial.add(json.dumps([c["kind"], c["steps"], c["handlers"], c["stop_at_ms"]], sort_keys=True))
    for c in crash:
        if c.get("killed"):
            nontrivial.add(json.dumps([c["scenario"], c["how"], c.get("boundary") or c["arg"]]))
    ctx.cov["evaluations"] = len(cases) + len(crash) + stats["prefix_states"] + stats["live_answers"]
    ctx.cov["traces_validated_against_impl"] = len(cases) + len(crash)
    ctx.cov["distinct_nontrivial"] = len(nontrivial)
    ctx.cov["rule"] = ("in-process: one case = one run of the real agent on a generated DAG (1-5 steps, retries, failures, unmet "
                       "preconditions, continueOn, handlers, optional stop request, optional held snapshot write); non-trivial = at least "
                       "one dependency edge; distinct by (kind, steps, scripts, handlers).  crash: one case = the real binary on a "
                       "scenario DAG killed at one point; distinct by (scenario, system-call boundary hit | time offset)")
    ctx.cov["inproc"] = {"cases": len(cases), "long_lived_reader_streams": stats.get("cache_streams", 0),
                         "long_lived_reader_streams_within_one_second": stats.get("cache_same_second", 0), "corpus_cases": stats.get("corpus_cases", 0), "kinds": kinds, "persisted_lines": stats["lines"], "live_answers": stats["live_answers"],
                         "synthesized_kill_prefixes": stats["prefix_states"], "seconds": round(t1 - t0, 1),
                         "observed_not_judged": {"status queries answered with an error or the default status while Close compacts the history (original unlinked under the reader)": stats.get("read_errors_during_compaction", 0)}}
    ctx.cov["crash"] = {"runs": len(crash), "uninterrupted_runs_judged": stats.get("ended_runs", 0), "killed": stats["kills"], "ended_before_the_kill": stats["not_killed"], "by_how": stats["by_how"],
                        "boundaries_hit": stats["boundaries"], "reported_after_kill": stats["reported_after_kill"],
                        "shutdown_boundaries": info.pop("shutdown_boundaries", None),
                        "kills_after_final_status": len([c for c in crash if c.get("after_final")]),
                        "scenarios": info, "seconds": round(t2 - t1, 1)}
    ctx.cov["monitor_classes"] = stats["monitor_classes"]
    ctx.cov["exhaustive"] = False
    ctx.cov["trusted_base"] += [
        "model (follows /repo after b9e9fa2 and 3aa388e): the step scheduler is abstract (any node may move at any time); sc.lastError is taken as written atomically with the node status (DESIGN.md section 7); a status line reaches the file atomically (torn lines are C07's); log-file teardown does not fail; the history holds this run only",
        "socket liveness is runtime behaviour: the model takes it as the boolean `alive` (bound socket of a live process answers, a dead one does not); checked on the real binary after every kill",
        "kill = SIGKILL of the run's process (kernel buffers survive); strace injection kills on entering the k-th call of one system-call name, counted per thread",
    ]
    for c in cases[:1]:
        ctx.sample(slim(c))
    for c in [x for x in crash if x.get("killed")][:2]:
        ctx.sample({k: c[k] for k in ("scenario", "how", "arg", "boundary", "markers") if k in c})
    ctx.assumptions = ["in-process runs use the scripted executor; crash scenarios use sh steps with marker files",
                       "history of one DAG per scratch data directory (no earlier runs): a run killed before its first history line leaves no trace"]
    if ctx.tier == "thorough":
        ctx.coqchk()

    def search():
        more, _, _ = run_inproc(ctx, tool, ctx.seed + 1, "quick", tag="search")
        for c in more or []:
            if c.get("kind") == "cache":
                continue
            bad = [w for w, cls in sl.monitor_inproc(c) if ctx.match_known(cls, "monitor") is None]
            bad += [w for _, w, cls in sl.monitor_prefixes(c) if ctx.match_known(cls, "monitor") is None]
            if bad:
                d = slim(c)
                d["what"] = bad[:3]
                return d
        return None

    return ctx.finish(search=search)


def replay(ctx, path):
    # the drivers are deterministic in (seed, tier) up to timing: re-run the whole check with the seed of the replay file
    body = json.load(open(path))
    ctx.seed = int(body.get("seed", ctx.seed))
    return run(ctx)
