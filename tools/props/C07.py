"""C07 - recorded history survives a crash at any instant (DESIGN.md section 5, C07).

proof:          coq/Props/C07.v (every crash state of open/write/close/update/chtimes answers as the run map before or after the
                operation; an update recorded after a kill inside a write/update is answered afterwards; retention / rename: the
                exact intermediate run map) -
                over all reachable states x all operations x all crash prefixes/torn tails of the MODEL
fault enumeration against the implementation (process kill, not power loss):
                harness/cmd/crash runs scripted scenarios on the real jsondb under
                `strace -f -e inject=<syscall>:signal=SIGKILL:when=<k>` for every system call of the victim phase seen in an
                uninterrupted traced run; additionally every byte prefix of the last append and of the temporary copy of Close is
                synthesised, and real partial writes are produced under RLIMIT_FSIZE.  A fresh process
                dumps the directory and asks the three queries.
correspondence: the surviving directory must be one of the model's crash states of the operation in progress (Hist/CheckCrash.v)
monitor:        P1-P4 evaluated in python on the real answers, from the scenario and the acknowledgements alone."""
import json
import os
import re
import shutil
import subprocess
from concurrent.futures import ThreadPoolExecutor

import vlib
from vlib import cstring, clist, cz
from props import hist_lib as HL

TRACE = "openat,write,fsync,rename,renameat,renameat2,unlink,unlinkat,mkdir,mkdirat,rmdir,close,ftruncate"
A, B, C = "/x/a.yaml", "/x/ab.yaml", "/x/c d.yaml"
E, F = "/x/sync.database.yaml", "/x/n_c.dat.tmp.yaml"


def op(t, **k):
    d = {"t": t}
    d.update(k)
    return d


def run_ops(d, stamp, req, tags, big=()):
    ops = [op("open", d=d, stamp=stamp, req=req)]
    for t in tags:
        ops.append(op("write", tag=t, big=(t in big)))
    ops.append(op("close"))
    return ops


R1 = ("20240101.10:00:00.100", "req-aaaa-1")
R2 = ("20240101.10:00:01.300", "req-bbbb-2")
R3 = ("20240102.09:00:00.000", "req-cccc-3")
R4 = ("20240103.09:00:00.000", "req-dddd-4")


def scenarios(tier):
    S = []
    # {0,1,2 completed prior runs} x a full run (open, write, write(big), close)
    S.append(("run-0prior", [A], [], run_ops(A, *R1, [1, 2], big=(2,))))
    S.append(("run-1prior", [A], run_ops(A, *R1, [1]), run_ops(A, *R2, [2, 3, 4], big=(3,))))
    S.append(("run-2prior", [A, B], run_ops(A, *R1, [1, 2]) + run_ops(A, *R2, [3]) + run_ops(B, *R3, [4]), run_ops(A, *R3, [5, 6])))
    # manual updates of completed (compacted) runs
    S.append(("update", [A, B], run_ops(A, *R1, [1]) + run_ops(A, *R2, [2]) + run_ops(B, *R3, [3]),
              [op("update", d=A, req=R1[1], tag=7), op("update", d=A, req=R2[1], tag=8, big=True), op("update", d=A, req=R1[1], tag=9)]))
    # rename with two DAGs present
    S.append(("rename", [A, B, C], run_ops(A, *R1, [1]) + run_ops(A, *R2, [2, 3]) + run_ops(B, *R3, [4]),
              [op("rename", d=A, d2=C)]))
    # retention: two of three runs aged, then delete the rest
    S.append(("removeold", [A, B], run_ops(A, *R1, [1]) + run_ops(A, *R2, [2]) + run_ops(A, *R3, [3]) + run_ops(B, *R4, [4])
              + [op("touchold", d=A, stamp=R1[0]), op("touchold", d=A, stamp=R2[0])],
              [op("removeold", d=A, days=7), op("removeold", d=A, days=0)]))
    # two runs back to back in one process
    S.append(("two-runs", [A], [], run_ops(A, *R1, [1]) + run_ops(A, *R2, [2, 3])))
    if tier == "thorough":
        S.append(("run-big", [A, B], run_ops(A, *R1, [1]) + run_ops(B, *R2, [2]), run_ops(A, *R3, [3, 4, 5, 6], big=(3, 4, 5))))
        S.append(("update-then-run", [A], run_ops(A, *R1, [1]), [op("update", d=A, req=R1[1], tag=5)] + run_ops(A, *R2, [6]) + [op("update", d=A, req=R2[1], tag=7)]))
        S.append(("rename-then-run", [A, C], run_ops(A, *R1, [1]) + run_ops(A, *R2, [2]), [op("rename", d=A, d2=C)] + run_ops(C, *R3, [3])))
    # DAG names that contain the store's own suffixes: the compacted / temporary names must be built from the END of the file name
    S.append(("run-dotdat", [E, F], run_ops(E, *R1, [1]) + run_ops(F, *R3, [7]), run_ops(E, *R2, [2, 3]) + run_ops(F, *R4, [8])))
    out = []
    for name, names, prior, victim in S:
        reqs = []
        for o in prior + victim:
            if o["t"] == "open" and o["req"] not in reqs:
                reqs.append(o["req"])
        # after the kill a new process updates every run the scenario opened (newest first): acknowledged => shown by all queries
        after = []
        if name.startswith("run-") or name == "two-runs":
            opens = [o for o in prior + victim if o["t"] == "open"]
            after = [op("update", d=o["d"], req=o["req"], tag=90 + i) for i, o in enumerate(reversed(opens))]
        out.append({"name": name, "names": names, "reqs": reqs, "prior": prior, "victim": victim, "after": after})
    return out


# ------------------------------------------------------------------------------------------------
# the specification side: runs with acknowledged / pending statuses (python, independent of the Coq model)
# ------------------------------------------------------------------------------------------------

class CRun:
    def __init__(self, d, stamp, req):
        self.d, self.stamp, self.req = d, stamp, req
        self.acked = []      # tags acknowledged
        self.pending = []    # tags whose write had started but was not acknowledged
        self.old = False     # aged by touchold
        self.closed = False
        self.maybe = False   # the run's Open itself was in progress


def spec_state(sc, n_acked, in_progress=True):
    """runs after prior + the first n_acked victim ops; the op victim[n_acked] (if any) is in progress"""
    runs, cur = [], None

    def apply(o, pending):
        nonlocal cur
        t = o["t"]
        if t == "open":
            cur = CRun(o["d"], o["stamp"], o["req"])
            cur.maybe = pending
            runs.append(cur)
        elif t == "write":
            if cur is not None:
                (cur.pending if pending else cur.acked).append(o["tag"])
        elif t == "close":
            if cur is not None and not pending:
                cur.closed = True
                cur = None
        elif t == "update":
            for r in runs:
                if r.d == o["d"] and r.req == o["req"] and r.acked:
                    (r.pending if pending else r.acked).append(o["tag"])
        elif t == "rename":
            if not pending:
                for r in runs:
                    if r.d == o["d"]:
                        r.d = o["d2"]
        elif t == "removeold":
            if not pending:
                runs[:] = [r for r in runs if not (r.d == o["d"] and (o["days"] == 0 or r.old))]
        elif t == "touchold":
            for r in runs:
                if r.d == o["d"] and (not o.get("stamp") or r.stamp == o["stamp"]):
                    r.old = True
    for o in sc["prior"]:
        apply(o, False)
    cur = None   # the prior phase ran in another process
    for o in sc["victim"][:n_acked]:
        apply(o, False)
    prog = sc["victim"][n_acked] if in_progress and n_acked < len(sc["victim"]) else None
    target = cur
    if prog is not None:
        apply(prog, True)
        if prog["t"] == "open":
            target = cur
    return runs, prog, target


def monitor(sc, n_acked, dump):
    """P1-P4 on what the real store answered after the kill.  Returns [(clause, text, class)]."""
    runs, prog, cur = spec_state(sc, n_acked)
    fails = []
    per = {p["d"]: p for p in dump["per"]}
    pt = prog["t"] if prog else None

    def find(d, req):
        return per[d]["finds"][sc["reqs"].index(req)] if d in per else {"c": 1}

    def ok_status(r, ans, allow_none=False):
        """status of run r no older than its last acknowledged one"""
        seq = r.acked + r.pending
        if ans["c"] != 0:
            return not r.acked and ans["c"] == 1
        if ans.get("r") != r.req or ans.get("t") not in seq:
            return False
        return seq.index(ans["t"]) >= (len(r.acked) - 1 if r.acked else 0)

    # the runs that the in-progress op touches
    touched = set()
    if pt in ("write", "close") and cur is not None:
        touched.add(id(cur))
    if pt == "open" and cur is not None:
        touched.add(id(cur))
    if pt == "update":
        for r in runs:
            if r.d == prog["d"] and r.req == prog["req"]:
                touched.add(id(r))
    for r in runs:
        if r.maybe:
            continue
        removable = pt == "removeold" and r.d == prog["d"] and (prog["days"] == 0 or r.old)
        if pt == "rename" and r.d == prog["d"]:
            # P1 during a rename: found under exactly one of the two names, intact
            a1, a2 = find(prog["d"], r.req), find(prog["d2"], r.req)
            good = [a for a in (a1, a2) if a["c"] == 0]
            if r.acked and not (len(good) == 1 and ok_status(r, good[0]) and all(a["c"] in (0, 1) for a in (a1, a2))):
                fails.append(("P1", "during rename run %s must be found under exactly one name: %s / %s" % (r.req, a1, a2), "other"))
            continue
        a = find(r.d, r.req)
        if a["c"] == 2:
            fails.append(("P1", "find of run %s answers an error" % r.req, "other"))
        elif id(r) in touched:
            if not ok_status(r, a):
                fails.append(("P2", "interrupted run %s: acknowledged %s pending %s, store answers %s" % (r.req, r.acked, r.pending, a), "other"))
        elif removable:
            if a["c"] == 0 and not ok_status(r, a):
                fails.append(("P1", "run %s (up for removal) is found damaged: %s" % (r.req, a), "other"))
        else:
            if not ok_status(r, a):
                fails.append(("P1", "completed run %s: last acknowledged %s, store answers %s" % (r.req, r.acked[-1:] or None, a), "other"))
    # P3 / P4 per DAG (not for the two names of a rename in progress, not for a DAG under retention in progress)
    for d in sc["names"]:
        if pt == "rename" and d in (prog["d"], prog["d2"]):
            continue
        if pt == "removeold" and d == prog["d"]:
            continue
        rs = sorted([r for r in runs if r.d == d], key=lambda r: r.stamp, reverse=True)
        with_data = [r for r in rs if r.acked]
        if d not in per:
            continue
        lat = per[d]["latest"]
        # P3: no error, and never older than the acknowledged data of the newest run that has some (or a newer run)
        if lat["c"] == 2:
            fails.append(("P3", "latest of %s answers an error" % d, "other"))
        elif with_data:
            top = with_data[0]
            cands = [r for r in rs if r.stamp >= top.stamp]
            if not (lat["c"] == 0 and any(r.req == lat.get("r") and ok_status(r, lat) for r in cands)):
                fails.append(("P3", "latest of %s = %s hides acknowledged data of run %s" % (d, lat, top.req), "other"))
        for key, n in (("rec1", 1), ("rec2", 2), ("rec5", 5)):
            got = per[d][key]
            reqs = [a.get("r") for a in got]
            dups = sorted(set(q for q in reqs if reqs.count(q) > 1))
            if dups:
                # since eb925d1 (F7b) no run may be listed twice at any kill point; the former narrow class (exactly the run being
                # closed, twice, inside Close) is kept as a label so that a regression is named, it is not a known finding any more
                narrow = pt == "close" and cur is not None and dups == [cur.req] and reqs.count(cur.req) == 2
                fails.append(("P4", "recent %d of %s lists a run twice: %s" % (n, d, reqs), "compaction-twin-listed-twice" if narrow else "other"))
            st = [next((r.stamp for r in rs if r.req == q), "") for q in reqs]
            if st != sorted(st, reverse=True):
                fails.append(("P4", "recent %d of %s is not newest first: %s" % (n, d, reqs), "other"))
            if any(a.get("r") not in [r.req for r in rs] for a in got):
                fails.append(("P4", "recent %d of %s lists an unknown run: %s" % (n, d, reqs), "other"))
            # every run with acknowledged data among the n newest listed runs must be present with a status no older than acknowledged
            # (a run whose only data is still pending may or may not be listed yet)
            for variant in ([r for r in rs if r.acked], [r for r in rs if r.acked or r.pending]):
                need = [r for r in variant[:n] if r.acked]
                if all(any(a.get("r") == r.req and ok_status(r, a) for a in got) for r in need):
                    break
            else:
                fails.append(("P4", "recent %d of %s = %s hides a run with acknowledged data" % (n, d, reqs), "other"))
    return fails


# ------------------------------------------------------------------------------------------------
# model side: scenario -> model ops
# ------------------------------------------------------------------------------------------------

def model_ops(sc, ops, state):
    """translates scenario ops to Coq `op` terms; state = bookkeeping of (d, stamp, r8, compacted, nstatus) and the open run"""
    out = []
    for o in ops:
        state["t"] += 1
        now = 1000 + state["t"]
        t = o["t"]
        if t == "open":
            state["cur"] = [o["d"], o["stamp"], o["req"], False, 0]
            state["files"].append(state["cur"])
            out.append("OOpen %s %s %s %s" % (cstring(o["d"]), cstring(o["stamp"]), cstring(o["req"]), cz(now)))
        elif t == "write":
            size = 4401 if o.get("big") else 201
            size += len(str(o["tag"])) - 1
            if state["cur"]:
                state["cur"][4] += 1
            out.append("OWrite %d %s %s" % (o["tag"], cz(size), cz(now)))
        elif t == "close":
            if state["cur"] and state["cur"][4] > 0:
                state["cur"][3] = True
            state["cur"] = None
            out.append("OClose %s" % cz(now))
        elif t == "update":
            size = (4401 if o.get("big") else 201) + len(str(o["tag"])) - 1
            out.append("OUpdate %s %s %d %s %s" % (cstring(o["d"]), cstring(o["req"]), o["tag"], cz(size), cz(now)))
        elif t == "rename":
            for f in state["files"]:
                if f[0] == o["d"]:
                    f[0] = o["d2"]
            out.append("ORename %s %s" % (cstring(o["d"]), cstring(o["d2"])))
        elif t == "removeold":
            out.append("ORemoveOld %s %s" % (cstring(o["d"]), cz(500 if o["days"] else 10 ** 9)))
            if o["days"] == 0:
                state["files"] = [f for f in state["files"] if f[0] != o["d"]]
        elif t == "touchold":
            for f in state["files"]:
                if f[0] == o["d"] and (not o.get("stamp") or f[1] == o["stamp"]):
                    out.append("OTouch %s %s %s %s %s" % (cstring(f[0]), cstring(f[1]), cstring(f[2][:8]), "true" if f[3] else "false", cz(1)))
    return out


def status_size(tag, big, req):
    # JSON length of harness statuses: measured constant + lengths (checked against the dumps by the model correspondence)
    return None


def coq_nfile(f):
    def line(l, tail=False):
        if tail:
            k = {"n": 0, "p": 1, "f": 2}[l["k"]]
            n = l.get("n", 0) if l["k"] == "f" else 0
        else:
            k = {"r": 0, "j": 1}[l["k"]]
            n = l.get("n", 0)
        return "(%d, %s, %d, %s)" % (k, cstring(l.get("r", "")), l.get("t", 0), cz(n))
    return "(%s, %s, %s, %s)" % (cstring(f["dir"]), cstring(f["name"]), clist([line(l) for l in f["lines"]]), line(f["tail"], True))


def coq_ccase(loc, sc, n_acked, dump, with_cur=True):
    st = {"t": 0, "cur": None, "files": []}
    done = model_ops(sc, sc["prior"], st)
    st["cur"] = None
    done += model_ops(sc, sc["victim"][:n_acked], st)
    cur = None
    if with_cur and n_acked < len(sc["victim"]):
        c = model_ops(sc, [sc["victim"][n_acked]], st)
        cur = c[0] if c else None
    return ("{| c_loc := %s; c_names := %s; c_done := %s; c_cur := %s; c_dirs := %s; c_files := %s |}"
            % (cstring(loc), clist(["(%s, %s)" % (cstring(d), cstring(HL.md5hex(d))) for d in sc["names"]]),
               clist(done), ("Some (%s)" % cur) if cur else "None",
               clist([cstring(d) for d in dump["dirs"]]), clist([coq_nfile(f) for f in dump["files"]])))


def model_members(ctx, cases, tag):
    """cases: list of (loc, sc, n_acked, dump); returns list of (state index or 0, number of crash states) per case"""
    if not cases:
        return []
    shards = [cases[i:i + 60] for i in range(0, len(cases), 60)]

    def one(t):
        i, sh = t
        txt = ("From Coq Require Import List String Ascii ZArith.\nImport ListNotations.\nOpen Scope string_scope.\n"
               "From BD.Hist Require Import GoMatch Model Check CheckCrash.\n")
        txt += HL.intern_strings("Definition cases : list ccase := [\n%s\n].\n" % ";\n".join(coq_ccase(*c) for c in sh))
        txt += "Definition M := Eval vm_compute in members cases.\nPrint M.\n"
        rc, out, dt = vlib.coq_eval(ctx.scratch, "cases_crash_%s_%d" % (tag, i), txt)
        if rc != 0:
            return None, out[-1500:]
        return vlib.coq_list_result(out, "M"), None
    with ThreadPoolExecutor(max_workers=12) as ex:
        res = list(ex.map(one, enumerate(shards)))
    out = []
    for sh, (r, err) in zip(shards, res):
        if r is None:
            ctx.fail("correspondence", "the model could not be evaluated on a shard of crash cases (coqc failed)", {"log": err})
            out += [None] * len(sh)
        else:
            out += list(r)
    return out


# ------------------------------------------------------------------------------------------------
# running the real store
# ------------------------------------------------------------------------------------------------

def sh(cmd, cwd=None, timeout=120):
    p = subprocess.run(cmd, cwd=cwd, stdout=subprocess.PIPE, stderr=subprocess.PIPE, text=True, timeout=timeout, env=vlib.env_go())
    return p.returncode, p.stdout, p.stderr


def restore(snap, work):
    shutil.rmtree(work, ignore_errors=True)
    shutil.copytree(snap, work, copy_function=shutil.copy2)


def acks(out):
    return [int(m.group(1)) for m in re.finditer(r"^ACK (\d+) ", out, re.M)]


def acks_ok(out):
    """the operations the store acknowledged WITHOUT an error"""
    return [int(m.group(1)) for m in re.finditer(r"^ACK (\d+) ok", out, re.M)]


def trace_points(log, datadir):
    """system calls of the store thread after the START marker: list of (syscall name, k, text) with k = count of that name in that
    thread so far.  The reference run is traced with -ff (one log per thread, no pid prefixes)."""
    import glob
    for f in glob.glob(log + ".*"):
        lines = open(f).read().split("\n")
        if not any(ln.startswith('write(1, "START') for ln in lines):
            continue
        counts, pts, started = {}, [], False
        for ln in lines:
            m = re.match(r"(\w+)\(", ln)
            if not m:
                continue
            name = m.group(1)
            counts[name] = counts.get(name, 0) + 1
            if started:
                pts.append((name, counts[name], ln[:110]))
            if ln.startswith('write(1, "START'):
                started = True
        return pts
    return []


def scenario_run(ctx, tool, sc, idx, limit=None, rng=None):
    """kills the victim phase of one scenario at its system calls; returns list of observations"""
    base = os.path.join(ctx.scratch, "c07-%d" % idx)
    os.makedirs(base, exist_ok=True)
    scf = os.path.join(base, "sc.json")
    json.dump(sc, open(scf, "w"))
    snap, work = os.path.join(base, "snap"), os.path.join(base, "d")
    os.makedirs(snap)
    rc, out, err = sh([tool, "run", snap, scf, "prior"])
    if rc != 0:
        ctx.fail("correspondence", "crash helper failed in the prior phase", {"scenario": sc["name"], "err": err[-800:]})
        return []
    # reference trace
    log = os.path.join(base, "ref.log")
    pts = []
    for attempt in range(3):
        restore(snap, work)
        for old in os.listdir(base):
            if old.startswith("ref.log"):
                os.remove(os.path.join(base, old))
        rc, out, err = sh(["strace", "-ff", "-e", "trace=" + TRACE, "-o", log, tool, "run", work, scf, "victim"])
        pts = trace_points(log, work)
        if pts:
            break
    if not pts:
        ctx.fail("correspondence", "no system call of the victim phase could be enumerated (strace reference run)", {"scenario": sc["name"], "err": err[-500:]})
        return []
    full_acks = acks(out)
    obs = []
    if len(full_acks) != len(sc["victim"]):
        ctx.fail("correspondence", "uninterrupted victim phase did not acknowledge every op", {"scenario": sc["name"], "out": out[-500:]})
        return []
    # the uninterrupted run itself (no kill)
    rc, dout, err = sh([tool, "dump", work, scf])
    obs.append({"sc": sc, "kill": None, "n_acked": len(sc["victim"]), "dump": json.loads(dout), "loc": work, "sysc": "none"})
    chosen = list(range(len(pts)))
    if limit is not None and len(chosen) > limit:
        # keep every store call (openat/unlinkat/rename/mkdir of the data dir, writes to store fds), sample the rest
        keep = [i for i in chosen if not pts[i][2].startswith('write(1,')]
        rest = [i for i in chosen if i not in keep]
        while len(keep) > limit:
            keep.pop(rng.below(len(keep)))
        while len(keep) < limit and rest:
            keep.append(rest.pop(rng.below(len(rest))))
        chosen = sorted(keep)
    for i in chosen:
        name, k, text = pts[i]
        restore(snap, work)
        klog = os.path.join(base, "k.log")
        rc, out, err = sh(["strace", "-f", "-e", "trace=" + TRACE, "-e", "inject=%s:signal=SIGKILL:when=%d" % (name, k), "-o", klog, tool, "run", work, scf, "victim"])
        na = len(acks(out))
        rc2, dout, err2 = sh([tool, "dump", work, scf])
        try:
            d = json.loads(dout)
        except Exception:
            ctx.fail("correspondence", "dump after kill failed", {"scenario": sc["name"], "kill": [name, k], "err": err2[-500:]})
            continue
        obs.append({"sc": sc, "kill": [name, k], "n_acked": na, "dump": d, "loc": work, "sysc": text, "killed": rc != 0})
        after_phase(tool, sc, scf, work, obs[-1])
    return obs, pts


def after_phase(tool, sc, scf, work, ob):
    """a new process records the scenario's `after` updates on the directory the kill left; what it acknowledged and what a fresh
    process is answered afterwards go into the observation (judged by check_after)"""
    if not sc.get("after"):
        return
    rc, out, err = sh([tool, "run", work, scf, "after"])
    rc, dout, err = sh([tool, "dump", work, scf])
    try:
        ob["after_dump"] = json.loads(dout)
        ob["after_acks"] = acks_ok(out)
    except Exception:
        pass


def byte_prefixes(ctx, tool, sc, idx, step=1):
    """every byte prefix of the last append of the victim phase (the victim's last op must be a write or an update)"""
    base = os.path.join(ctx.scratch, "c07b-%d" % idx)
    os.makedirs(base, exist_ok=True)
    n = len(sc["victim"]) - 1
    pre_sc = dict(sc)
    pre_sc["victim"] = sc["victim"][:n]
    scf, scf_pre = os.path.join(base, "sc.json"), os.path.join(base, "sc-pre.json")
    json.dump(sc, open(scf, "w"))
    json.dump(pre_sc, open(scf_pre, "w"))
    pre, post, work = os.path.join(base, "pre"), os.path.join(base, "post"), os.path.join(base, "d")
    for d, f in ((pre, scf_pre), (post, scf)):
        os.makedirs(d)
        sh([tool, "run", d, f, "prior"])
        sh([tool, "run", d, f, "victim"])
    # the file that grew
    grown = None
    for root, _, files in os.walk(post):
        for fn in files:
            p2 = os.path.join(root, fn)
            p1 = os.path.join(pre, os.path.relpath(p2, post))
            s1 = os.path.getsize(p1) if os.path.exists(p1) else None
            if s1 is not None and os.path.getsize(p2) > s1:
                grown = (os.path.relpath(p2, post), s1)
    if grown is None:
        return []
    rel, s1 = grown
    data = open(os.path.join(post, rel), "rb").read()[s1:]
    obs = []
    js = list(range(1, len(data), step))
    for near in (len(data) - 2, len(data) - 1):
        if near > 0 and near not in js:
            js.append(near)
    for j in sorted(js):
        restore(pre, work)
        with open(os.path.join(work, rel), "ab") as f:
            f.write(data[:j])
        rc, dout, err = sh([tool, "dump", work, scf])
        obs.append({"sc": sc, "kill": ["write-bytes", j], "n_acked": n, "dump": json.loads(dout), "loc": work, "sysc": "torn at byte %d of %d" % (j, len(data))})
        if sc.get("after"):
            # second phase: a new process records an update, acknowledged - it must be visible afterwards (F7c)
            rc, out, err = sh([tool, "run", work, scf, "after"])
            rc, dout, err = sh([tool, "dump", work, scf])
            obs[-1]["after_acks"] = acks_ok(out)
            obs[-1]["after_dump"] = json.loads(dout)
    return obs


def compaction_prefixes(ctx, tool, sc, idx, step=1):
    """the compaction window of Close byte by byte: the directory before the Close plus <run>_c.dat.tmp holding the first j bytes of
    the compacted line, j = 0 .. its length, and the state after the rename to <run>_c.dat with the original not yet unlinked.
    The victim's last op must be the close."""
    base = os.path.join(ctx.scratch, "c07c-%d" % idx)
    os.makedirs(base, exist_ok=True)
    n = len(sc["victim"]) - 1
    pre_sc = dict(sc)
    pre_sc["victim"] = sc["victim"][:n]
    scf, scf_pre = os.path.join(base, "sc.json"), os.path.join(base, "sc-pre.json")
    json.dump(sc, open(scf, "w"))
    json.dump(pre_sc, open(scf_pre, "w"))
    pre, post, work = os.path.join(base, "pre"), os.path.join(base, "post"), os.path.join(base, "d")
    for d, f in ((pre, scf_pre), (post, scf)):
        os.makedirs(d)
        sh([tool, "run", d, f, "prior"])
        sh([tool, "run", d, f, "victim"])
    twin = None
    for root, _, files in os.walk(post):
        for fn in files:
            p2 = os.path.join(root, fn)
            if fn.endswith("_c.dat") and not os.path.exists(os.path.join(pre, os.path.relpath(p2, post))):
                twin = os.path.relpath(p2, post)
    if twin is None:
        return []
    data = open(os.path.join(post, twin), "rb").read()
    js = sorted(set(list(range(0, len(data), step)) + [0, 1, len(data) - 2, len(data) - 1, len(data)]))
    obs = []
    for j in js:
        if j < 0:
            continue
        restore(pre, work)
        with open(os.path.join(work, twin + ".tmp"), "wb") as f:
            f.write(data[:j])
        rc, dout, err = sh([tool, "dump", work, scf])
        obs.append({"sc": sc, "kill": ["compaction-bytes", j], "n_acked": n, "dump": json.loads(dout), "loc": work,
                    "sysc": "temporary copy holds %d of %d bytes, original not unlinked" % (j, len(data))})
        after_phase(tool, sc, scf, work, obs[-1])
    # published (renamed), original not yet unlinked
    restore(pre, work)
    with open(os.path.join(work, twin), "wb") as f:
        f.write(data)
    rc, dout, err = sh([tool, "dump", work, scf])
    obs.append({"sc": sc, "kill": ["compaction-published", len(data)], "n_acked": n, "dump": json.loads(dout), "loc": work,
                "sysc": "compacted copy published, original not unlinked"})
    after_phase(tool, sc, scf, work, obs[-1])
    return obs


def fsize_stream(ctx, tool, sc, idx, step=1):
    """REAL partial writes: the victim phase runs under RLIMIT_FSIZE = K (crash helper, 4th argument), so the kernel itself cuts the
    write(2) that would take a file past K bytes and the process dies there; K sweeps 1 .. (largest file of the uninterrupted run) + 1.
    Unlike byte_prefixes nothing is synthesized: whatever the store's open flags / offsets make of the write is what survives
    (an Update that does not append but overwrites leaves prefix(new) + tail(old))."""
    base = os.path.join(ctx.scratch, "c07f-%d" % idx)
    os.makedirs(base, exist_ok=True)
    scf = os.path.join(base, "sc.json")
    json.dump(sc, open(scf, "w"))
    snap, ref, work = os.path.join(base, "snap"), os.path.join(base, "ref"), os.path.join(base, "d")
    os.makedirs(snap)
    rc, out, err = sh([tool, "run", snap, scf, "prior"])
    if rc != 0:
        ctx.fail("correspondence", "crash helper failed in the prior phase", {"scenario": sc["name"], "err": err[-800:]})
        return []
    restore(snap, ref)
    rc, out, err = sh([tool, "run", ref, scf, "victim"])
    if rc != 0 or len(acks(out)) != len(sc["victim"]):
        ctx.fail("correspondence", "uninterrupted victim phase did not acknowledge every op", {"scenario": sc["name"], "out": out[-500:]})
        return []

    def sizes(d):
        return sorted(os.path.getsize(os.path.join(r, f)) for r, _, fs in os.walk(d) for f in fs)
    marks = set(sizes(snap) + sizes(ref))
    top = max(max(marks) + 1, int(sc.get("fsize_top", 0)))   # fsize_top: for files that are gone again at the end (compaction)
    ks = set(range(1, top + 1, step))
    for m in marks:
        for dlt in (-1, 0, 1, 2, 4095, 4096, 4097):
            ks.add(m + dlt)
    obs = []
    for k in sorted(x for x in ks if 1 <= x <= top):
        restore(snap, work)
        rc, out, err = sh([tool, "run", work, scf, "victim", str(k)])
        na = len(acks(out))
        rc2, dout, err2 = sh([tool, "dump", work, scf])
        try:
            d = json.loads(dout)
        except Exception:
            ctx.fail("correspondence", "dump after a run under RLIMIT_FSIZE failed", {"scenario": sc["name"], "kill": ["fsize", k], "err": err2[-500:]})
            continue
        obs.append({"sc": sc, "kill": ["fsize", k], "n_acked": na, "dump": d, "loc": work,
                    "sysc": "write(2) cut by RLIMIT_FSIZE=%d" % k, "killed": rc != 0})
        if sc.get("after"):
            # a new process records an update on what the kill left (a REAL torn tail): acknowledged => visible afterwards (F7c, 32b069b)
            rc, out, err = sh([tool, "run", work, scf, "after"])
            rc, dout, err = sh([tool, "dump", work, scf])
            obs[-1]["after_acks"] = acks_ok(out)
            obs[-1]["after_dump"] = json.loads(dout)
    return obs


def fsize_scenarios(tier):
    S = [
        # a big update (two write(2)s: 4401 bytes + newline) of the OLDER of two completed, compacted runs
        {"name": "fsize-update-big", "names": [A, B], "reqs": [R1[1], R2[1], R3[1]],
         "prior": run_ops(A, *R1, [1]) + run_ops(A, *R2, [2]) + run_ops(B, *R3, [3]),
         "victim": [op("update", d=A, req=R1[1], tag=7, big=True)], "after": [], "fsize": 37},
        # small updates of a completed run whose compacted line is big, then of the newest run
        {"name": "fsize-update-small", "names": [A], "reqs": [R1[1], R2[1]],
         "prior": run_ops(A, *R1, [1], big=(1,)) + run_ops(A, *R2, [2]),
         "victim": [op("update", d=A, req=R1[1], tag=7), op("update", d=A, req=R2[1], tag=8), op("update", d=A, req=R2[1], tag=9)], "after": [], "fsize": 41},
        # a whole run: real partial writes of Write (small and big) next to a completed run
        {"name": "fsize-run", "names": [A], "reqs": [R1[1], R2[1]],
         "prior": run_ops(A, *R1, [1]),
         "victim": run_ops(A, *R2, [2, 3, 4], big=(3,)), "after": [op("update", d=A, req=R2[1], tag=9), op("update", d=A, req=R1[1], tag=8)],
         "fsize": 43, "fsize_top": 4900},
    ]
    if tier == "thorough":
        for s in S:
            s["fsize"] = 5
    return S


def check_after(o):
    """after the kill a NEW process records status updates on the surviving directory (phase `after`): an update that the store
    acknowledged must be what ALL THREE queries show afterwards - find returns it (F7c), recent lists the run with it, latest shows it
    when the run is the one latest answers with (the update must land in the file the listings read, whatever the kill left: torn
    tails, the temporary copy of Close, the published compacted copy next to the original)"""
    sc = o["sc"]
    fails = []
    if "after_dump" not in o:
        return fails
    runs, _, _ = spec_state(sc, o["n_acked"])
    per = {p["d"]: p for p in o["after_dump"]["per"]}
    for i, a in enumerate(sc["after"]):
        if a["t"] == "update" and i in o.get("after_acks", []):
            # later updates of the same run supersede
            later = [b for j, b in enumerate(sc["after"][i + 1:], i + 1) if b["t"] == "update" and b["req"] == a["req"] and j in o.get("after_acks", [])]
            if later or a["d"] not in per:
                continue
            ans = per[a["d"]]["finds"][sc["reqs"].index(a["req"])]
            if not (ans["c"] == 0 and ans.get("t") == a["tag"]):
                fails.append(("P2", "update %d of run %s acknowledged after the crash is not returned: %s" % (a["tag"], a["req"], ans), "update-after-torn-tail"))
            rec = per[a["d"]]["rec5"]
            mine = [x for x in rec if x.get("r") == a["req"]]
            if len(mine) != 1 or mine[0].get("t") != a["tag"]:
                fails.append(("P4", "update %d of run %s acknowledged after the crash is not what recent 5 of %s lists: %s"
                              % (a["tag"], a["req"], a["d"], [(x.get("r"), x.get("t")) for x in rec]), "other"))
            lat = per[a["d"]]["latest"]
            stamps = {r.req: r.stamp for r in runs if r.d == a["d"]}
            newest = stamps and a["req"] in stamps and all(stamps[a["req"]] >= st for st in stamps.values())
            if lat["c"] == 2 or (lat.get("r") == a["req"] and lat.get("t") != a["tag"]) or (newest and not (lat["c"] == 0 and lat.get("r") == a["req"])):
                fails.append(("P3", "update %d of run %s acknowledged after the crash is not what latest of %s shows: %s" % (a["tag"], a["req"], a["d"], lat), "other"))
    return fails


def evaluate(ctx, observations, tag):
    """monitor + model membership for a list of observations"""
    cov = ctx.cov
    members = model_members(ctx, [(o["loc"], o["sc"], o["n_acked"], o["dump"]) for o in observations], tag)
    for o, m in zip(observations, members):
        sc = o["sc"]
        cov["evaluations"] += 1
        key = (sc["name"], o["n_acked"], json.dumps(o["dump"]["files"], sort_keys=True))
        cov["_states"].add(key)
        prog = sc["victim"][o["n_acked"]]["t"] if o["n_acked"] < len(sc["victim"]) else "done"
        cov["in_progress_op"][prog] = cov["in_progress_op"].get(prog, 0) + 1
        fs = monitor(sc, o["n_acked"], o["dump"]) + check_after(o)
        seen = set()
        for clause, text, cls in fs:
            if (clause, cls) in seen:
                continue
            seen.add((clause, cls))
            ctx.fail("monitor", "%s violated after a kill at [%s] in scenario %s (%d ops acknowledged, %s in progress): %s"
                     % (clause, o["sysc"], sc["name"], o["n_acked"], prog, text),
                     {"scenario": sc, "kill": o["kill"], "n_acked": o["n_acked"], "clause": clause, "dump": o["dump"]},
                     cls={"class": cls, "clause": clause})
        if m is None:
            continue
        idx, nstates = m
        if idx == 0:
            ctx.fail("correspondence", "the directory surviving a kill at [%s] in scenario %s (%d ops acknowledged, %s in progress) is none of the %d crash states of the model"
                     % (o["sysc"], sc["name"], o["n_acked"], prog, nstates),
                     {"scenario": sc, "kill": o["kill"], "n_acked": o["n_acked"], "dump": o["dump"]})
        else:
            cov["traces_validated_against_impl"] += 1
            cov["_model_states"].add((sc["name"], o["n_acked"], idx))


def run(ctx, replay_cases=None):
    HL.authoritative_known(ctx)
    ctx.proofs(extra=["Hist/Check.vo", "Hist/CheckCrash.vo"])
    tool, out, _ = vlib.go_build("crash", ctx.scratch)
    if tool is None:
        ctx.fail("correspondence", "harness does not build against /repo", {"log": out[-2000:]})
        return ctx.finish()
    rc, o, e = sh(["strace", "-V"])
    if rc != 0:
        ctx.fail("correspondence", "strace is not available", {"err": e})
        return ctx.finish()
    ctx.cov.update({"evaluations": 0, "_states": set(), "_model_states": set(), "in_progress_op": {}, "kill_points": {}, "syscalls_hit": {}})
    rng = vlib.Rng(ctx.seed)
    scs = scenarios(ctx.tier)
    limit = 18 if ctx.tier == "quick" else None
    if replay_cases is not None:
        scs = replay_cases
        limit = None
    all_obs = []

    def one(t):
        i, sc = t
        return scenario_run(ctx, tool, sc, i, limit, vlib.Rng(ctx.seed + i))
    with ThreadPoolExecutor(max_workers=8) as ex:
        res = list(ex.map(one, enumerate(scs)))
    for sc, r in zip(scs, res):
        if not r:
            continue
        obs, pts = r
        all_obs += obs
        ctx.cov["kill_points"][sc["name"]] = {"syscalls_in_victim_phase": len(pts), "killed_at": len(obs) - 1}
        for o in obs:
            nm = o["sysc"].split("(")[0]
            ctx.cov["syscalls_hit"][nm] = ctx.cov["syscalls_hit"].get(nm, 0) + 1
    evaluate(ctx, all_obs, "k")
    # real partial writes under RLIMIT_FSIZE (also for replayed scenarios that came from this stream)
    fscs = [x for x in scs if x.get("fsize")] if replay_cases is not None else fsize_scenarios(ctx.tier)
    if fscs:
        def fone(t):
            i, sc = t
            return fsize_stream(ctx, tool, sc, i, int(sc["fsize"]))
        with ThreadPoolExecutor(max_workers=8) as ex:
            fres = list(ex.map(fone, enumerate(fscs)))
        fobs = []
        for sc, o in zip(fscs, fres):
            ctx.cov["kill_points"][sc["name"]] = {"rlimit_fsize_values": len(o), "died_inside_a_write": sum(1 for x in o if x.get("killed"))}
            fobs += o
        evaluate(ctx, fobs, "f")
    # byte-granular torn tails of a write and of an update (+ F7c: an update acknowledged after the torn write)
    if replay_cases is None:
        step = 23 if ctx.tier == "quick" else 1
        w = {"name": "torn-write", "names": [A], "reqs": [R1[1], R2[1]], "prior": run_ops(A, *R1, [1]),
             "victim": [op("open", d=A, stamp=R2[0], req=R2[1]), op("write", tag=2), op("write", tag=3)],
             "after": [op("update", d=A, req=R2[1], tag=9)]}
        u = {"name": "torn-update", "names": [A], "reqs": [R1[1]], "prior": run_ops(A, *R1, [1, 2]),
             "victim": [op("update", d=A, req=R1[1], tag=5)], "after": []}
        b = {"name": "torn-big-write", "names": [A], "reqs": [R1[1]], "prior": [],
             "victim": [op("open", d=A, stamp=R1[0], req=R1[1]), op("write", tag=1), op("write", tag=2, big=True)], "after": []}
        tb = []
        for i, (sc, st) in enumerate(((w, step), (u, step), (b, step * 19 if ctx.tier == "quick" else 4))):
            o = byte_prefixes(ctx, tool, sc, i, st)
            ctx.cov["kill_points"][sc["name"]] = {"byte_prefixes": len(o)}
            tb += o
        # the compaction window of Close, byte by byte (twin empty / torn / complete, original still there)
        c1 = {"name": "compaction-window", "names": [A], "reqs": [R1[1], R2[1]], "prior": run_ops(A, *R1, [1]),
              "victim": [op("open", d=A, stamp=R2[0], req=R2[1]), op("write", tag=2), op("write", tag=3), op("close")],
              "after": [op("update", d=A, req=R2[1], tag=91), op("update", d=A, req=R1[1], tag=92)]}
        c2 = {"name": "compaction-window-3runs", "names": [A, B], "reqs": [R1[1], R2[1], R3[1], R4[1]],
              "prior": run_ops(A, *R1, [1]) + run_ops(A, *R2, [2]) + run_ops(B, *R4, [9]),
              "victim": [op("open", d=A, stamp=R3[0], req=R3[1]), op("write", tag=3, big=(ctx.tier != "quick")), op("close")],
              "after": [op("update", d=A, req=R3[1], tag=91), op("update", d=A, req=R1[1], tag=92), op("update", d=B, req=R4[1], tag=93)]}
        for i, sc in enumerate((c1, c2)):
            o = compaction_prefixes(ctx, tool, sc, i, 29 if ctx.tier == "quick" else (1 if i == 0 else 7))
            ctx.cov["kill_points"][sc["name"]] = {"compaction_byte_prefixes": len(o)}
            tb += o
        evaluate(ctx, tb, "b")
    st = ctx.cov.pop("_states")
    ms = ctx.cov.pop("_model_states")
    ctx.cov["distinct_nontrivial"] = len(st)
    ctx.cov["distinct_model_crash_states_hit"] = len(ms)
    ctx.cov["rule"] = ("a case = (scenario, kill point): the real jsondb is SIGKILLed on entering the k-th system call of the victim phase (every openat/write/"
                       "unlinkat/renameat/mkdirat/fsync/close the store thread issues, strace fault injection), or its last append is cut at a byte, or it runs "
                       "under RLIMIT_FSIZE=K so that the kernel cuts the write(2) itself (real partial write, K swept over the file sizes); then a "
                       "fresh process dumps the directory and asks find/latest/recent; distinct = distinct (scenario, acknowledged ops, surviving "
                       "directory content); non-trivial = all (every case has a prior history or an operation in progress)")
    ctx.cov["trusted_base"] += [
        "crash model: process kill only (SIGKILL) - kernel buffers survive, fsync ordering is irrelevant; NOT power loss",
        "strace fault injection kills on ENTRY of the chosen system call; the store thread is pinned with runtime.LockOSThread",
        "the python P1-P4 monitor (tools/props/C07.py) and the scenario -> model-op translation",
        "Section variables loc/dirhash and premises as for C06",
    ]
    ctx.assumptions = [
        "process kill, not power loss; one recording process per DAG run (the agent), readers are fresh processes",
        "premises of C06 (safe names, distinct request ids / start seconds per DAG) for the theorems",
        "theorems: open/write/close/update/chtimes atomic (P1-P4); update after a torn write/update answered; retention / rename: every crash state answers as the run map with some of the expired runs removed / some of the runs moved (not atomic, by design)",
    ]
    if ctx.tier == "thorough":
        ctx.coqchk()
    return ctx.finish(search=lambda: search(ctx, tool))


def search(ctx, tool):
    """extra budget when only a proof obligation / the correspondence broke: EVERY kill point of every scenario (thorough set)
    through the P1-P4 monitor; returns the first failing input outside the known classes"""
    for i, sc in enumerate(scenarios("thorough")):
        r = scenario_run(ctx, tool, sc, 100 + i, None, vlib.Rng(ctx.seed))
        if not r:
            continue
        obs, pts = r
        for o in obs:
            for clause, text, cls in monitor(sc, o["n_acked"], o["dump"]):
                if ctx.match_known({"class": cls, "clause": clause}, "monitor") is None:
                    return {"scenario": sc, "kill": o["kill"], "n_acked": o["n_acked"], "clause": clause, "what": text}
    return None


def replay(ctx, path):
    body = json.load(open(path))
    scs = []

    def take(x):
        if isinstance(x, dict):
            if "victim" in x and "prior" in x:
                if x not in scs:
                    scs.append(x)
            else:
                for v in x.values():
                    take(v)
        elif isinstance(x, list):
            for v in x:
                take(v)
    take(body)
    for s in scs:
        s.setdefault("after", [])
        s.setdefault("name", "replay")
    return run(ctx, replay_cases=scs)
