"""Thorough tier of C06: volume through the EXTRACTED model.  Hist/Check.check_hcase is extracted to OCaml with
ExtrOcamlBasic only (nat, Z, string, ascii stay the extracted inductive types; no Extract Constant / Extract Inductive of
our own), compiled with ocamlfind ocamlopt in the scratch directory, and fed long histories executed on the real jsondb.
Extraction and the 120-line OCaml reader below are in the trusted base of this tier only."""
import json
import os
from concurrent.futures import ThreadPoolExecutor

import vlib
from props import hist_lib as HL

EXTRACT_V = """From Coq Require Extraction ExtrOcamlBasic.
From BD.Hist Require Import GoMatch Model Check.
Extraction Language OCaml.
Extraction "hist_model.ml" check_hcase.
"""

DRIVER_ML = r"""
open Hist_model
let rec nat_of_int n = if n <= 0 then O else S (nat_of_int (n - 1))
let rec int_of_nat = function O -> 0 | S n -> 1 + int_of_nat n
let rec pos_of_int n = if n = 1 then XH else if n land 1 = 1 then XI (pos_of_int (n lsr 1)) else XO (pos_of_int (n lsr 1))
let z_of_int n = if n = 0 then Z0 else if n > 0 then Zpos (pos_of_int n) else Zneg (pos_of_int (-n))
let ascii_of_char c = let n = Char.code c in let b i = (n lsr i) land 1 = 1 in Ascii (b 0, b 1, b 2, b 3, b 4, b 5, b 6, b 7)
let cstr (s : Stdlib.String.t) : Hist_model.string =
  let r = ref EmptyString in
  for i = Stdlib.String.length s - 1 downto 0 do r := String (ascii_of_char s.[i], !r) done; !r
let unhex (t : Stdlib.String.t) : Stdlib.String.t =   (* token "x<hex>" *)
  let n = (Stdlib.String.length t - 1) / 2 in
  Stdlib.String.init n (fun i -> Char.chr (int_of_string ("0x" ^ Stdlib.String.sub t (1 + 2 * i) 2)))
let s t = cstr (unhex t)
let i t = int_of_string t
let nat t = nat_of_int (i t)
let z t = z_of_int (i t)
(* token stream of one line *)
let toks = ref [||] and pos = ref 0
let next () = let t = !toks.(!pos) in incr pos; t
let rec many n f = if n = 0 then [] else let x = f () in x :: many (n - 1) f
let ans () = let c = nat (next ()) in let r = s (next ()) in let t = nat (next ()) in ((c, r), t)
let fnd () = let c = nat (next ()) in let f = s (next ()) in let r = s (next ()) in let t = nat (next ()) in (((c, f), r), t)
let lined () = let k = nat (next ()) in let r = s (next ()) in let t = nat (next ()) in let n = z (next ()) in (((k, r), t), n)
let alist () = let n = i (next ()) in many n ans
let parse_op () =
  match next () with
  | "open" -> let d = s (next ()) in let st = s (next ()) in let r = s (next ()) in OOpen (d, st, r, z (next ()))
  | "write" -> let t = nat (next ()) in let sz = z (next ()) in OWrite (t, sz, z (next ()))
  | "close" -> OClose (z (next ()))
  | "update" -> let d = s (next ()) in let r = s (next ()) in let t = nat (next ()) in let sz = z (next ()) in OUpdate (d, r, t, sz, z (next ()))
  | "rename" -> let d = s (next ()) in ORename (d, s (next ()))
  | "removeold" -> let d = s (next ()) in ORemoveOld (d, z (next ()))
  | "touch" -> let d = s (next ()) in let st = s (next ()) in let r8 = s (next ()) in let c = (next () = "1") in OTouch (d, st, r8, c, z (next ()))
  | x -> failwith ("op " ^ x)
let () =
  let k = ref 0 in
  let loc = ref EmptyString and today = ref EmptyString and nrec = ref O in
  let names = ref [] and steps = ref [] in
  let cop = ref None and creqs = ref [] and cper = ref [] and cdirs = ref [] and cfiles = ref [] in
  (try while true do
    let line = input_line stdin in
    toks := Array.of_list (Stdlib.String.split_on_char ' ' line); pos := 0;
    (match next () with
     | "H" -> loc := s (next ()); today := s (next ()); nrec := nat (next ()); names := []; steps := []
     | "N" -> let d = s (next ()) in names := (d, s (next ())) :: !names
     | "S" -> cop := None; creqs := []; cper := []; cdirs := []; cfiles := []
     | "O" -> cop := Some (parse_op ())
     | "Q" -> let n = i (next ()) in creqs := many n (fun () -> s (next ()))
     | "P" -> let a1 = ans () in let a2 = ans () in let a3 = ans () in
              let l1 = alist () in let l2 = alist () in let l3 = alist () in let l4 = alist () in
              let nf = i (next ()) in let fs = many nf fnd in
              cper := { o_latW = a1; o_lat0 = a2; o_lat1 = a3; o_rec1 = l1; o_rec2 = l2; o_recN = l3; o_recW = l4; o_finds = fs } :: !cper
     | "D" -> let n = i (next ()) in cdirs := many n (fun () -> s (next ()))
     | "F" -> let d = s (next ()) in let nm = s (next ()) in let sz = z (next ()) in let mt = z (next ()) in
              let nl = i (next ()) in let ls = many nl lined in let tl = lined () in
              cfiles := (((((d, nm), sz), mt), ls), tl) :: !cfiles
     | "X" -> (match !cop with
               | Some o -> steps := { s_op = o; s_reqs = !creqs; s_per = List.rev !cper; s_dirs = !cdirs; s_files = List.rev !cfiles } :: !steps
               | None -> ())
     | "E" -> let c = { h_loc = !loc; h_today = !today; h_nrec = !nrec; h_names = List.rev !names; h_steps = List.rev !steps } in
              let ((st, nm), comp) = check_hcase c in
              Printf.printf "%d %d %d %d\n%!" !k (int_of_nat st) (int_of_nat nm) (int_of_nat comp); incr k
     | _ -> ())
  done with End_of_file -> ())
"""


def hx(s):
    return "x" + s.encode("utf-8").hex()


def enc_ans(a):
    return "%d %s %d" % (a["c"], hx(a.get("r", "")), a.get("t", 0))


def enc_list(l):
    return " ".join(["%d" % len(l)] + [enc_ans(a) for a in l])


def enc_line(l, tail=False):
    k = ({"n": 0, "p": 1, "f": 2} if tail else {"r": 0, "j": 1})[l["k"]]
    return "%d %s %d %d" % (k, hx(l.get("r", "")), l.get("t", 0), l.get("n", 0))


def enc_op(o):
    t = o["t"]
    if t == "open":
        return "open %s %s %s %d" % (hx(o["d"]), hx(o["stamp"]), hx(o["req"]), o["now"])
    if t == "write":
        return "write %d %d %d" % (o["tag"], o["size"], o["now"])
    if t == "close":
        return "close %d" % o["now"]
    if t == "update":
        return "update %s %s %d %d %d" % (hx(o["d"]), hx(o["req"]), o["tag"], o["size"], o["now"])
    if t == "rename":
        return "rename %s %s" % (hx(o["d"]), hx(o["d2"]))
    if t == "removeold":
        return "removeold %s %d" % (hx(o["d"]), o["cutoff"])
    if t == "touch":
        return "touch %s %s %s %d %d" % (hx(o["d"]), hx(o["stamp"]), hx(o["r8"]), 1 if o.get("c") else 0, o["now"])
    raise ValueError(t)


def encode(h, out):
    out.write("H %s %s %d\n" % (hx(h["loc"]), hx(h["today"]), h["nrec"]))
    for n in h["names"]:
        out.write("N %s %s\n" % (hx(n["d"]), hx(n["h"])))
    for s in h["steps"]:
        out.write("S\nO %s\n" % enc_op(s["op"]))
        out.write("Q " + " ".join(["%d" % len(s["reqs"])] + [hx(r) for r in s["reqs"]]) + "\n")
        for p in s["per"]:
            out.write("P %s %s %s %s %s %s %s %s\n" % (
                enc_ans(p["latW"]), enc_ans(p["lat0"]), enc_ans(p["lat1"]), enc_list(p["rec1"]), enc_list(p["rec2"]),
                enc_list(p["recN"]), enc_list(p["recW"]),
                " ".join(["%d" % len(p["finds"])] + ["%d %s %s %d" % (a["c"], hx(a.get("f", "")), hx(a.get("r", "")), a.get("t", 0)) for a in p["finds"]])))
        out.write("D " + " ".join(["%d" % len(s["dirs"])] + [hx(d) for d in s["dirs"]]) + "\n")
        for f in s["files"]:
            out.write("F %s %s %d %d %s %s\n" % (hx(f["dir"]), hx(f["name"]), f["size"], f["mtime"],
                                                 " ".join(["%d" % len(f["lines"])] + [enc_line(l) for l in f["lines"]]), enc_line(f["tail"], True)))
        out.write("X\n")
    out.write("E\n")


def build(ctx):
    d = os.path.join(ctx.scratch, "extract")
    os.makedirs(d, exist_ok=True)
    open(os.path.join(d, "Extract.v"), "w").write(EXTRACT_V)
    rc, out, dt = vlib.sh(["coqc", "-R", vlib.COQ, vlib.NS, "Extract.v"], cwd=d, timeout=600)
    if rc != 0:
        return None, out
    open(os.path.join(d, "driver.ml"), "w").write(DRIVER_ML)
    rc, out, dt = vlib.sh(["ocamlfind", "ocamlopt", "-O3", "-w", "-a", "hist_model.mli", "hist_model.ml", "driver.ml", "-o", "histx"], cwd=d, timeout=600)
    if rc != 0:
        rc, out, dt = vlib.sh(["ocamlfind", "ocamlopt", "-w", "-a", "hist_model.mli", "hist_model.ml", "driver.ml", "-o", "histx"], cwd=d, timeout=600)
    if rc != 0:
        return None, out
    return os.path.join(d, "histx"), ""


def sweep(ctx, tool, n_total=12000, maxops=120, procs=14):
    """long histories on the real jsondb -> monitor (python) + extracted model (correspondence)"""
    from props import C06
    exe, log = build(ctx)
    if exe is None:
        ctx.fail("correspondence", "the extracted model does not build", {"log": log[-2000:]})
        return
    per = (n_total + procs - 1) // procs
    base = 100000   # disjoint from the histories of the in-Coq tiers
    stats = {"histories": 0, "mismatches": 0, "monitor_classes": {}, "ops": 0}

    def one(i):
        first = base + i * per
        p = os.path.join(ctx.scratch, "xh-%d.jsonl" % i)
        rc, out, dt = vlib.run_tool(tool, [p, "gen", per, maxops, first], env_extra={"VERIF_SEED": str(ctx.seed)}, timeout=6000)
        if rc != 0:
            return ("err", out[-800:])
        hs = vlib.read_jsonl(p)
        os.remove(p)
        res = []
        inp = os.path.join(ctx.scratch, "xh-%d.txt" % i)
        dom = []
        with open(inp, "w") as f:
            for h in hs:
                m = HL.Monitor(h)
                fails = m.run()
                res.append((h, fails, m.upd_open))
                if not m.upd_open:
                    encode(h, f)
                    dom.append(h)
        rc, out, dt = vlib.sh("%s < %s" % (exe, inp), timeout=6000)
        os.remove(inp)
        bad = []
        if rc != 0:
            return ("err", out[-800:])
        for line in out.strip().split("\n"):
            if not line:
                continue
            k, st, nm, comp = [int(x) for x in line.split()]
            if comp != 0:
                bad.append((dom[k], st, nm, comp))
        return ("ok", res, bad, len(dom))
    with ThreadPoolExecutor(max_workers=procs) as ex:
        results = list(ex.map(one, range(procs)))
    for r in results:
        if r[0] == "err":
            ctx.fail("correspondence", "extracted-model sweep failed", {"log": r[1]})
            continue
        _, res, bad, ndom = r
        for h, fails, upd in res:
            stats["histories"] += 1
            stats["ops"] += len(h["steps"])
            for c in set(f["cls"] for f in fails) or {"spec-conform"}:
                stats["monitor_classes"][c] = stats["monitor_classes"].get(c, 0) + 1
            if fails:
                C06.report_monitor(ctx, tool, h, fails, do_shrink=True)
            ctx.cov["evaluations"] += sum(len(s["per"]) * (7 + len(s["reqs"])) for s in h["steps"])
        ctx.cov["traces_validated_against_impl"] += ndom - len(bad)
        for h, stepi, namei, comp in bad:
            stats["mismatches"] += 1
            nm = h["names"][namei]["d"] if namei < len(h["names"]) else "?"
            ctx.fail("correspondence", "extracted model and implementation differ at step %d, DAG %s, component %s"
                     % (stepi, nm, HL.COMPONENT.get(comp, comp)), {"history": HL.strip_exec(h), "step": stepi, "name": nm})
    ctx.cov["extracted_sweep"] = stats
    ctx.cov["trusted_base"].append("thorough tier only: Coq extraction (ExtrOcamlBasic) of Hist/Check.check_hcase + OCaml reader (tools/props/hist_extract.py)")
