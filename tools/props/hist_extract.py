"""Thorough tier of C06: volume through the EXTRACTED model.  Hist/Check.check_hcase is extracted to OCaml with
ExtrOcamlBasic only (nat, Z, string, ascii stay the extracted inductive types; no Extract Constant / Extract Inductive of
our own), compiled with ocamlfind ocamlopt in the scratch directory, and fed long histories executed on the real jsondb.
Extraction and the 120-line OCaml reader below are in the trusted base of this tier only."""
import json
import os
from concurrent.futures import ThreadPoolExecutor

import vlib
from props import hist_lib as HL

EXTRACT_V = """From Coq Require Extraction ExtrOcamlBasic.
From BD.Hist Require Import GoMatch Model Check.
Extraction Language OCaml.
Extraction "hist_model.ml" check_hcase.
"""

DRIVER_ML = r"""
open Hist_model
let rec nat_of_int n = if n <= 0 then O else S (nat_of_int (n - 1))
let rec int_of_nat = function O -> 0 | S n -> 1 + int_of_nat n
let rec pos_of_int n = if n = 1 then XH else if n land 1 = 1 then XI (pos_of_int (n lsr 1)) else XO (pos_of_int (n lsr 1))
let z_of_int n = if n = 0 then Z0 else if n > 0 then Zpos (pos_of_int n) else Zneg (pos_of_int (-n))
let ascii_of_char c = let n = Char.code c in let b i = (n lsr i) land 1 = 1 in Ascii (b 0, b 1, b 2, b 3, b 4, b 5, b 6, b 7)
let cstr (s : Stdlib.String.t) : Hist_model.string =
  let r = ref EmptyString in
  for i = Stdlib.String.length s - 1 downto 0 do r := String (ascii_of_char s.[i], !r) done; !r
let unhex (t : Stdlib.String.t) : Stdlib.String.t =   (* token "x<hex>" *)
  let n = (Stdlib.String.length t - 1) / 2 in
  Stdlib.String.init n (fun i -> Char.chr (int_of_string ("0x" ^ Stdlib.String.sub t (1 + 2 * i) 2)))
let s t = cstr (unhex t)
let i t = int_of_string t
let nat t = nat_of_int (i t)
let z t = z_of_int (i t)
(* token stream of one line *)
let toks = ref [||] and pos = ref 0
let next () = let t = !toks.(!pos) in incr pos; t
let rec many n f = if n = 0 then [] else let x = f () in x :: many (n - 1) f
let ans () = let c = nat (next ()) in let r = s (next ()) in let t = nat (next ()) in ((c, r), t)
let fnd () = let c = nat (next ()) in let f = s (next ()) in let r = s (next ()) in let t = nat (next ()) in (((c, f), r), t)
let lined () = let k = nat (next ()) in let r = s (next ()) in let t = nat (next ()) in let n = z (next ()) in (((k, r), t), n)
let alist () = let n = i (next ()) in many n ans
let parse_op () =
  match next () with
  | "open" -> let d = s (next ()) in let st = s (next ()) in let r = s (next ()) in OOpen (d, st, r, z (next ()))
  | "write" -> let t = nat (next ()) in let sz = z (next ()) in OWrite (t, sz, z (next ()))
  | "close" -> OClose (z (next ()))
  | "update" -> let d = s (next ()) in let r = s (next ()) in let t = nat (next ()) in let sz = z (next ()) in OUpdate (d, r, t, sz, z (next ()))
  | "rename" -> let d = s (next ()) in ORename (d, s (next ()))
  | "removeold" -> let d = s (next ()) in ORemoveOld (d, z (next ()))
  | "touch" -> let d = s (next ()) in let st = s (next ()) in let r8 = s (next ()) in let c = (next () = "1") in OTouch (d, st, r8, c, z (next ()))
  | x -> failwith ("op " ^ x)
let () =
  let k = ref 0 in
  let loc = ref EmptyString and today = ref EmptyString and nrec = ref O in
  let names = ref [] and steps = ref [] in
  let cop = ref None and creqs = ref [] and cper = ref [] and cdirs = ref [] and cfiles = ref [] in
  (try while true do
    let line = input_line stdin in
    toks := Array.of_list (Stdlib.String.split_on_char ' ' line); pos := 0;
    (match next () with
     | "H" -> loc := s (next ()); today := s (next ()); nrec := nat (next ()); names := []; steps := []
     | "N" -> let d = s (next ()) in names := (d, s (next ())) :: !names
     | "S" -> cop := None; creqs := []; cper := []; cdirs := []; cfiles := []
     | "O" -> cop := Some (parse_op ())
     | "Q" -> let n = i (next ()) in creqs := many n (fun () -> s (next ()))
     | "P" -> let a1 = ans () in let a2 = ans () in let a3 = ans () in
              let l1 = alist () in let l2 = alist () in let l3 = alist () in let l4 = alist () in
              let nf = i (next ()) in let fs = many nf fnd in
              cper := { o_latW = a1; o_lat0 = a2; o_lat1 = a3; o_rec1 = l1; o_rec2 = l2; o_recN = l3; o_recW = l4; o_finds = fs } :: !cper
     | "D" -> let n = i (next ()) in cdirs := many n (fun () -> s (next ()))
     | "F" -> let d = s (next ()) in let nm = s (next ()) in let sz = z (next ()) in let mt = z (next ()) in
              let nl = i (next ()) in let ls = many nl lined in let tl = lined () in
              cfiles := (((((d, nm), sz), mt), ls), tl) :: !cfiles
     | "X" -> (match !cop with
               | Some o -> steps := { s_op = o; s_reqs = !creqs; s_per = List.rev !cper; s_dirs = !cdirs; s_files = List.rev !cfiles } :: !steps
               | None -> ())
     | "E" -> let c = { h_loc = !loc; h_today = !today; h_nrec = !nrec; h_names = List.rev !names; h_steps = List.rev !steps } in
              let ((st, nm), comp) = check_hcase c in
              Printf.printf "%d %d %d %d\n%!" !k (int_of_nat st) (int_of_nat nm) (int_of_nat comp); incr k
     | _ -> ())
  done with End_of_file -> ())
"""


def hx(s):
    return "x" + s.encode("utf-8").hex()


def enc_ans(a):
    return "%d %s %d" % (a["c"], hx(a.get("r", "")), a.get("t", 0))


def enc_list(l):
    return " ".join(["%d" % len(l)] + [enc_ans(a) for a in l])


def enc_line(l, tail=False):
    k = ({"n": 0, "p": 1, "f": 2} if tail else {"r": 0, "j": 1})[l["k"]]
    return "%d %s %d %d" % (k, hx(l.get("r", "")), l.get("t", 0), l.get("n", 0))


def enc_op(o):
    t = o["t"]
    if t == "open":
        return "open %s %s %s %d" % (hx(o["d"]), hx(o["stamp"]), hx(o["req"]), o["now"])
    if t == "write":
        return "write %d %d %d" % (o["tag"], o["size"], o["now"])
    if t == "close":
        return "close %d" % o["now"]
    if t == "update":
        return "update %s %s %d %d %d" % (hx(o["d"]), hx(o["req"]), o["tag"], o["size"], o["now"])
    if t == "rename":
        return "rename %s %s" % (hx(o["d"]), hx(o["d2"]))
    if t == "removeold":
        return "removeold %s %d" % (hx(o["d"]), o["cutoff"])
    if t == "touch":
        return "touch %s %s %s %d %d" % (hx(o["d"]), hx(o["stamp"]), hx(o["r8"]), 1 if o.get("c") else 0, o["now"])
    raise ValueError(t)


def encode(h, out):
    out.write("H %s %s %d\n" % (hx(h["loc"]), hx(h["today"]), h["nrec"]))
    for n in h["names"]:
        out.write("N %s %s\n" % (hx(n["d"]), hx(n["h"])))
    for s in h["steps"]:
        out.write("S\nO %s\n" % enc_op(s["op"]))
        out.write("Q " + " ".join(["%d" % len(s["reqs"])] + [hx(r) for r in s["reqs"]]) + "\n")
        for p in s["per"]:
            out.write("P %s %s %s %s %s %s %s %s\n" % (
                enc_ans(p["latW"]), enc_ans(p["lat0"]), enc_ans(p["lat1"]), enc_list(p["rec1"]), enc_list(p["rec2"]),
                enc_list(p["recN"]), enc_list(p["recW"]),
                " ".join(["%d" % len(p["finds"])] + ["%d %s %s %d" % (a["c"], hx(a.get("f", "")), hx(a.get("r", "")), a.get("t", 0)) for a in p["finds"]])))
        out.write("D " + " ".join(["%d" % len(s["dirs"])] + [hx(d) for d in s["dirs"]]) + "\n")
        for f in s["files"]:
            out.write("F %s %s %d %d %s %s\n" % (hx(f["dir"]), hx(f["name"]), f["size"], f["mtime"],
                                                 " ".join(["%d" % len(f["lines"])] + [enc_line(l) for l in f["lines"]]), enc_line(f["tail"], True)))
        out.write("X\n")
    out.write("E\n")


def build(ctx):
    d = os.path.join(ctx.scratch, "extract")
    os.makedirs(d, exist_ok=True)
    open(os.path.join(d, "Extract.v"), "w").write(EXTRACT_V)
    rc, out, dt = vlib.sh(["coqc", "-R", vlib.COQ, vlib.NS, "Extract.v"], cwd=d, timeout=600)
    if rc != 0:
        return None, out
    open(os.path.join(d, "driver.ml"), "w").write(DRIVER_ML)
    rc, out, dt = vlib.sh(["ocamlfind", "ocamlopt", "-O3", "-w", "-a", "hist_model.mli", "hist_model.ml", "driver.ml", "-o", "histx"], cwd=d, timeout=600)
    if rc != 0:
        rc, out, dt = vlib.sh(["ocamlfind", "ocamlopt", "-w", "-a", "hist_model.mli", "hist_model.ml", "driver.ml", "-o", "histx"], cwd=d, timeout=600)
    if rc != 0:
        return None, out
    return os.path.join(d, "histx"), ""


def _worker(args):
    """one process: generate + execute histories on the real jsondb, monitor them, run the extracted model"""
    i, per, maxops, first, scratch, seed, tool, exe = args
    p = os.path.join(scratch, "xh-%d.jsonl" % i)
    rc, out, dt = vlib.run_tool(tool, [p, "gen", per, maxops, first], env_extra={"VERIF_SEED": str(seed), "VERIF_NOTEAR": "1"}, timeout=6000)   # the extracted driver knows store operations only
    if rc != 0:
        return {"err": out[-800:]}
    hs = vlib.read_jsonl(p)
    os.remove(p)
    r = {"n": 0, "ops": 0, "evals": 0, "classes": {}, "failing": [], "bad": [], "ndom": 0}
    inp = os.path.join(scratch, "xh-%d.txt" % i)
    dom = []
    with open(inp, "w") as f:
        for h in hs:
            h.setdefault("steps", [])
            m = HL.Monitor(h)
            fails = m.run()
            r["n"] += 1
            r["ops"] += len(h["steps"])
            r["evals"] += sum(len(s["per"]) * (7 + len(s["reqs"])) for s in h["steps"])
            for c in set(x["cls"] for x in fails) or {"spec-conform"}:
                r["classes"][c] = r["classes"].get(c, 0) + 1
            if fails:
                firsts, seen = [], set()
                for x in fails:
                    if (x["cls"], x["query"] if x["cls"] == "other" else "") not in seen:
                        seen.add((x["cls"], x["query"] if x["cls"] == "other" else ""))
                        firsts.append(x)
                unknown = any(x["cls"] == "other" for x in firsts)
                r["failing"].append((h if unknown else HL.strip_exec(h), firsts, unknown))
            encode(h, f)
            dom.append(h)
    rc, out, dt = vlib.sh("%s < %s" % (exe, inp), timeout=6000)
    os.remove(inp)
    if rc != 0:
        return {"err": out[-800:]}
    r["ndom"] = len(dom)
    for line in out.strip().split("\n"):
        if not line:
            continue
        k, st, nm, comp = [int(x) for x in line.split()]
        if comp != 0:
            r["bad"].append((HL.strip_exec(dom[k]), [n["d"] for n in dom[k]["names"]], st, nm, comp))
    return r


def sweep(ctx, tool, n_total=4500, maxops=100, procs=14):
    """long histories on the real jsondb -> monitor (python) + extracted model (correspondence), in worker processes"""
    from concurrent.futures import ProcessPoolExecutor
    from props import C06
    exe, log = build(ctx)
    if exe is None:
        ctx.fail("correspondence", "the extracted model does not build", {"log": log[-2000:]})
        return
    chunks = procs * 4
    per = (n_total + chunks - 1) // chunks
    base = 100000   # disjoint from the histories of the in-Coq tiers
    stats = {"histories": 0, "mismatches": 0, "monitor_classes": {}, "ops": 0}
    jobs = [(i, per, maxops, base + i * per, ctx.scratch, ctx.seed, tool, exe) for i in range(chunks)]
    with ProcessPoolExecutor(max_workers=procs) as ex:
        results = list(ex.map(_worker, jobs))
    for r in results:
        if "err" in r:
            ctx.fail("correspondence", "extracted-model sweep failed", {"log": r["err"]})
            continue
        stats["histories"] += r["n"]
        stats["ops"] += r["ops"]
        ctx.cov["evaluations"] += r["evals"]
        for c, v in r["classes"].items():
            stats["monitor_classes"][c] = stats["monitor_classes"].get(c, 0) + v
        for h, firsts, unknown in r["failing"]:
            if unknown:
                C06.report_monitor(ctx, tool, h, firsts, do_shrink=True)
            else:
                for f in firsts:
                    ctx.fail("monitor", "%s of DAG %s after step %d is not what the recorded history says" % (f["query"], f["name"], f["step"]),
                             {"history": h, "failure": f}, cls={"class": f["cls"], "query": f["query"]})
        ctx.cov["traces_validated_against_impl"] += r["ndom"] - len(r["bad"])
        for h, names, stepi, namei, comp in r["bad"]:
            stats["mismatches"] += 1
            nm = names[namei] if namei < len(names) else "?"
            ctx.fail("correspondence", "extracted model and implementation differ at step %d, DAG %s, component %s"
                     % (stepi, nm, HL.COMPONENT.get(comp, comp)), {"history": h, "step": stepi, "name": nm})
    ctx.cov["extracted_sweep"] = stats
    ctx.cov["trusted_base"].append("thorough tier only: Coq extraction (ExtrOcamlBasic) of Hist/Check.check_hcase + OCaml reader (tools/props/hist_extract.py)")
