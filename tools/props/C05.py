"""C05 (Sched family, runs with handlers / stop / timeout) - see tools/props/sched2_lib.py and DESIGN.md section 5, C05."""
from props import sched2_lib


def run(ctx):
    return sched2_lib.run_family2(ctx, "C05")


def replay(ctx, path):
    return sched2_lib.replay_family2(ctx, "C05", path)
