"""C19 - listing, viewing and validating a DAG has no side effects (DESIGN.md section 5, C19).

proof          coq/Props/C19.v (Loader/Proofs.v): for ALL definitions, `noEval` => the effect log of the builder model
               is empty - outside the two input classes the faithful model refutes (F19a logDir, F19b default
               parameters), which the `_partial` theorem excludes by explicit premises; with evaluation on, the effects
               are exactly those of env, params and logDir.
correspondence harness/cmd/load (c19): a command substitution `touch <dir>/<field>` and a reference $CANARY_<field>
               (whose value is a second substitution) planted in every string-valued field; through LoadYAML,
               LoadMetadata, LoadWithoutEval, DAGStore.UpdateSpec / GetDetails / GetMetadata / List / ListPagination /
               Grep / Find / TagList, the scheduler daemon's entry reader, the display path of the web server (client
               GetStatus / GetAllStatus / GetAllStatusPagination / GetStatusByRequestID / GetDAGSpec, graph construction
               for validation, the API handlers GetDagDetails / ListDags), and Load as positive control.  Observed:
               canary files, os.Environ() difference - compared with the model's effect log for the same tree.
monitor        the property itself: a non-executing entry point creates no canary file and leaves the environment
               as it was.
"""
import json
import os

import vlib
from props import loader_lib as L

METADATA_ONLY = {e for e, ep in L.C19_ENTRY.items() if ep == 1}


def monitor_case(c):
    """The property on one canary case: yields (what, cls)."""
    for e in L.NON_EXECUTING:
        o = c["obs"].get(e)
        if o is None:
            continue
        scope = "metadata" if e in METADATA_ONLY else "full"
        fields = sorted({x[:-4] if x.endswith(".env") else x for x in o["canaries"]})
        for f in fields:
            yield ("%s executed the command substitution planted in `%s`" % (e, f),
                   {"effect": "exec", "field": f, "scope": scope, "entry": e})
        keys = sorted(o.get("envset") or {})
        pos = [k for k in keys if k.isdigit()]
        other = [k for k in keys if not k.isdigit()]
        if pos:
            yield ("%s exported the positional parameters %s to the environment of the loading process" % (e, ",".join("$" + k for k in pos)),
                   {"effect": "setenv", "field": "params-positional", "scope": scope, "entry": e})
        for k in other:
            yield ("%s set the environment variable %r of the loading process" % (e, k),
                   {"effect": "setenv", "field": k, "scope": scope, "entry": e})
        for k in o.get("envdel") or []:
            yield ("%s removed the environment variable %r" % (e, k), {"effect": "unsetenv", "field": k, "scope": scope, "entry": e})


def slim(c):
    out = {k: c[k] for k in ("kind", "stream", "planted", "cdir", "tree", "yaml") if k in c}
    out["obs"] = {e: {k: v for k, v in o.items() if k in ("cls", "err", "canaries", "envset", "envdel") and v}
                  for e, o in c["obs"].items()}
    return out


def expectations(c):
    """unique (options index, digest) pairs and the entry points behind each"""
    groups = {}
    for e, o in c["obs"].items():
        d = L.digest_c19(o, c["cdir"])
        groups.setdefault((L.C19_ENTRY[e], tuple(d)), []).append(e)
    return groups


def mk_term(c):
    exp = [(ep, list(d)) for (ep, d) in expectations(c)]
    return lambda I: L.coq_case(c["tree"], c["oracle"], c["env0"], c["fname"], 1, exp, I)


def gen(ctx, tool, seed, tier, tag):
    p = os.path.join(ctx.scratch, "load19-%s.jsonl" % tag)
    rc, out, dt = vlib.run_tool(tool, [p, tier, "c19"], env_extra={"VERIF_SEED": str(seed), "VERIF_REPO": vlib.REPO}, timeout=3000)
    if rc != 0:
        return None, out
    return [c for c in vlib.read_jsonl(p) if c.get("kind") == "c19"], out


def failing_keys(c):
    return sorted({json.dumps({k: v for k, v in cls.items() if k != "entry"}, sort_keys=True) for _, cls in monitor_case(c)})


def run(ctx, replay_cases=None):
    L.refresh_known(ctx)
    ctx.proofs(extra=["Loader/Check.vo"])
    tool, out, _ = vlib.go_build("load", ctx.scratch)
    if tool is None:
        ctx.fail("correspondence", "harness does not build against /repo", {"log": out[-2000:]})
        return ctx.finish()
    if replay_cases is None:
        cases, out = gen(ctx, tool, ctx.seed, ctx.tier, "main")
        if cases is None:
            ctx.fail("correspondence", "load driver failed", {"log": out[-2000:]})
            return ctx.finish()
        corpus = os.path.join(vlib.VERIF, "corpus", "C19.jsonl")
        if os.path.exists(corpus) and os.path.getsize(corpus) > 0:
            p = os.path.join(ctx.scratch, "corpus-out.jsonl")
            rc, o2, _ = vlib.run_tool(tool, [p, "replay", corpus], env_extra={"VERIF_REPO": vlib.REPO})
            if rc == 0:
                cases = [c for c in vlib.read_jsonl(p) if c.get("kind") == "c19"] + cases
    else:
        cases = [c for c in replay_cases if c.get("kind") == "c19"]
    dropped = [c for c in cases if c["stream"] == "dropped"]
    cases = [c for c in cases if c["stream"] != "dropped"]

    # ---- monitor -------------------------------------------------------------------------------------------
    shrunk = {}
    for c in cases:
        for what, cls in monitor_case(c):
            case = slim(c)
            if ctx.match_known(cls, "monitor") is None:
                key = json.dumps({k: v for k, v in cls.items() if k != "entry"}, sort_keys=True)
                if key not in shrunk and len(shrunk) < 2:
                    shrunk[key] = slim(L.shrink_tree(tool, ctx, c, "c19", lambda x, key=key: key in failing_keys(x)))
                case = shrunk.get(key, case)
            ctx.fail("monitor", what, case, cls=cls)

    # ---- the harness must be able to see effects at all (positive control through Load) -------------------------
    if replay_cases is None:
        allv = [c for c in cases if c["stream"] == "all-valid"]
        seen = set(allv[0]["obs"]["Load"]["canaries"]) if allv else set()
        need = {"env.map", "env.map.env", "logDir", "params"}
        if not need <= seen or "CANARY_SET_ENVMAP" not in (allv[0]["obs"]["Load"].get("envset") or {} if allv else {}):
            ctx.fail("correspondence", "positive control failed: Load did not produce the effects the canaries are meant to reveal "
                     "(the harness would not notice a violation)", {"seen": sorted(seen)}, cls={"effect": "control"})

    # ---- correspondence ----------------------------------------------------------------------------------------
    bad, err = L.model_mismatches(ctx, "c19", [mk_term(c) for c in cases], shard=40)
    if err is not None:
        ctx.fail("correspondence", "the model could not be evaluated on a shard of cases (coqc failed)", {"log": err})
    for k, ep in bad[:30]:
        c = cases[k]
        ents = sorted(e for (p, d), es in expectations(c).items() if p == ep for e in es)
        info = slim(c)
        info["entries"] = ents
        if len([1 for f in ctx.failures if f["kind"] == "correspondence"]) < 3:
            info["model_digest"] = L.show(L.model_digest(ctx, mk_term(c), ep))
            info["impl_digests"] = {e: L.show(L.digest_c19(c["obs"][e], c["cdir"])) for e in ents}
        ctx.fail("correspondence", "effects of the implementation differ from the model's effect log (options of %s; entry points %s)"
                 % (L.ENTRY_NAME[ep], ", ".join(ents)), info, cls={"effect": "correspondence"})

    # ---- evidence ----------------------------------------------------------------------------------------------
    streams = {}
    planted = set()
    distinct = set()
    canaries_by_entry = {}
    for c in cases:
        streams[c["stream"]] = streams.get(c["stream"], 0) + 1
        planted |= set(c["planted"] or [])
        if c["planted"]:
            distinct.add(c["yaml"])
        for e, o in c["obs"].items():
            for x in o["canaries"]:
                canaries_by_entry.setdefault(e, set()).add(x)
    n_entries = len(L.C19_ENTRY)
    ctx.cov["evaluations"] = len(cases) * n_entries
    ctx.cov["traces_validated_against_impl"] = len(cases) * n_entries
    ctx.cov["distinct_nontrivial"] = len(distinct)
    ctx.cov["rule"] = ("canary definitions loaded through %d entry points each; canary files and os.Environ() difference compared with "
                       "the model's effect log on the same tree; distinct = distinct YAML documents, non-trivial = at least one canary planted"
                       % n_entries)
    ctx.cov["streams"] = streams
    ctx.cov["fields_planted"] = sorted(planted)
    ctx.cov["fields_planted_count"] = len(planted)
    ctx.cov["entry_points"] = sorted(L.C19_ENTRY)
    ctx.cov["canaries_fired_by_entry"] = {e: sorted(v) for e, v in sorted(canaries_by_entry.items())}
    ctx.cov["dropped"] = len(dropped)
    ctx.cov["model_mismatches"] = len(bad)
    for c in cases[1:2] + cases[-1:]:
        ctx.sample({"stream": c["stream"], "planted": c["planted"][:6], "yaml": c["yaml"][:300],
                    "obs": {e: {"canaries": o["canaries"], "env": sorted(o.get("envset") or {})} for e, o in c["obs"].items() if e in ("LoadYAML", "LoadMetadata", "Load")}})
    ctx.cov["trusted_base"] += [
        "effects = what the canaries can reveal: files created by planted `touch` commands and the difference of os.Environ(); "
        "other kinds of effect (network, writes by other means) are outside the observation",
        "command outputs are modelled for the harmless commands the generator uses (echo / touch / true / false)",
        "yaml.v2 + mapstructure typing rules (coq/Loader/Decode.v), parameter tokenizer supplied per string by the harness",
    ]
    ctx.assumptions = ["the effect log of the model has one entry per exec.Command(..).Output() of substituteCommands / parseParamValue "
                       "and per successful os.Setenv; reads (os.ExpandEnv) are not effects",
                       "DAGStore.UpdateSpec writes the validated file: that write is the operation itself, not a side effect of loading"]
    if ctx.tier == "thorough":
        ctx.coqchk()

    def search():
        for i in range(1, 3):
            more, _ = gen(ctx, tool, ctx.seed + 104729 * i, "thorough" if i == 2 else "quick", "search%d" % i)
            for c in more or []:
                if c["stream"] == "dropped":
                    continue
                for what, cls in monitor_case(c):
                    if ctx.match_known(cls, "monitor") is None:
                        return {"what": what, "class": cls, "case": slim(c)}
        return None
    return ctx.finish(search=search)


def replay(ctx, path):
    body = json.load(open(path))
    items = [f.get("case") for f in body.get("failures", [])]
    if isinstance(body.get("failing_input"), dict):
        items.append(body["failing_input"].get("case", body["failing_input"]))
    if isinstance(body.get("case"), dict):
        items.append(body["case"])
    items = [c for c in items if isinstance(c, dict) and c.get("kind") == "c19"]
    tool, out, _ = vlib.go_build("load", ctx.scratch)
    if tool is None:
        ctx.fail("correspondence", "harness does not build against /repo", {"log": out[-2000:]})
        return ctx.finish()
    p_in = os.path.join(ctx.scratch, "replay-in.jsonl")
    with open(p_in, "w") as f:
        for c in items:
            f.write(json.dumps(c) + "\n")
    p = os.path.join(ctx.scratch, "replay-out.jsonl")
    rc, out, dt = vlib.run_tool(tool, [p, "replay", p_in], env_extra={"VERIF_REPO": vlib.REPO})
    if rc != 0:
        ctx.fail("correspondence", "load driver failed", {"log": out[-2000:]})
        return ctx.finish()
    return run(ctx, replay_cases=vlib.read_jsonl(p))
