"""C13 - any file content is either rejected with an error or yields a runnable DAG (DESIGN.md section 5, C13).

proof          coq/Props/C13.v (Loader/Proofs.v, DecodeProofs.v, LoadProofs.v, CronPlug.v): for ALL untyped trees, options
               and environments the loader model (decode + build, following the repaired code) never panics; every
               accepted step / handler has a name, a valid signal and something to execute; every accepted schedule
               parses; the status of every accepted DAG is serialisable (the agent's status endpoint does not reach its
               nil *httpError path); evaluating conditions never crashes.  All clauses are full statements.
correspondence harness/cmd/load: definition trees (grammar + mutations + systematic streams) rendered to YAML, through
               LoadYAML / LoadMetadata / LoadWithoutEval / Load of /repo; outcome class, projected DAG, environment
               difference, JSON round trip of the status, EvalConditions - compared with the model on the same tree.
monitor        the property itself on what the implementation did, judged by independent criteria (not by the model): no
               panic from any entry point; accepted => one step per element of `steps:` and one handler per entry of
               `handlerOn:` (the steps were validated), each named and executable, schedules parse, the STORED signal
               names are valid (unix.SignalNum != 0), status marshals and reads back, GET /status on an agent set up for
               the accepted DAG answers 200, evaluating an accepted condition does not crash; what LoadYAML accepts,
               LoadWithoutEval accepts too.
raw bytes      random bytes / damaged fixtures / deep nesting / alias bombs in a guarded child process: crashes only
               (robustness testing in support - no theorem speaks about the YAML library).
"""
import json
import os

import vlib
from props import loader_lib as L

FULL = ("yaml", "noeval", "load")


def step_list(d):
    out = [("step%d" % i, i, s) for i, s in enumerate(d["steps"])]
    for h in ("exit", "success", "failure", "cancel"):
        if d["handlers"].get(h) is not None:
            out.append((h, h, d["handlers"][h]))
    return out


def monitor_case(c):
    """The property on one tree case.  Yields (what, cls) for every violation."""
    tree, oracle = c["tree"], c["oracle"]
    for e, r in c["res"].items():
        ep = L.ENTRY_NAME[L.ENTRY[e]]
        if r["cls"] == "panic":
            yield ("%s panicked at %s: %s" % (ep, r.get("at"), r.get("msg")),
                   {"defect": "panic", "at": r.get("at"), "shape": L.panic_shape(r.get("at") or "", tree, oracle)})
            continue
        if r["cls"] != "ok":
            continue
        d = r["dag"]
        for lst in d["sched"]:
            for x in lst:
                if oracle["cron"].get(x) != 0:
                    yield ("%s accepted the schedule %r, which the cron parser does not parse" % (ep, x),
                           {"defect": "unparseable-schedule"})
        if e not in FULL:
            continue
        # a full entry point must have looked at every step / handler definition of the document: the accepted DAG
        # holds one step per element of `steps:` and one handler per non-null entry of `handlerOn:`
        want_steps, want_handlers = defined_steps(tree)
        got_handlers = sorted(h for h in ("exit", "success", "failure", "cancel") if d["handlers"].get(h) is not None)
        if want_steps is not None and (len(d["steps"]) != want_steps or got_handlers != want_handlers):
            yield ("%s accepted the document but its DAG has %d step(s) and handlers %s where the document defines %d step(s) and "
                   "handlers %s: the steps were not validated" % (ep, len(d["steps"]), got_handlers, want_steps, want_handlers),
                   {"defect": "steps-not-validated", "entry": ep})
        for name, where, s in step_list(d):
            if s["name"] == "":
                yield ("%s accepted %s without a name" % (ep, name), {"defect": "unnamed-step"})
            if s["cmd"] == "" and s["cwa"] == "" and s["etype"] == "" and not s["sub"]:
                yield ("%s accepted %s (%r) with nothing to execute (no command, executor type or sub-workflow)" % (ep, name, s["name"]),
                       {"defect": "not-executable", "shape": L.not_executable_shape(tree, where)})
            if s["sig"] != "" and not oracle["sig"].get(s["sig"]):
                yield ("%s accepted the signal name %r" % (ep, s["sig"]), {"defect": "invalid-signal"})
        if not d["json_ok"]:
            yield ("the status of the DAG accepted by %s cannot be serialised: %s" % (ep, d.get("json_err")),
                   {"defect": "not-serialisable", "shape": L.not_serialisable_shape(tree, d.get("json_err", ""))})
        # "runnable": the runner dereferences these pointers without a test (agent.setup: SMTP; reporter: ErrorMail / InfoMail
        # as soon as mailOn.failure / mailOn.success / a step's mailOnError asks for a mail)
        for fld in ("smtp", "errorMail", "infoMail"):
            if not d.get("ptrs", {}).get(fld, True):
                yield ("the DAG accepted by %s has a nil %s: the agent / its reporter dereference it when the DAG runs" % (ep, fld),
                       {"defect": "nil-runner-pointer", "field": fld})
        ept = d.get("endpoint") or ""
        if ept and ept != "200" and not ept.startswith("skip"):
            yield ("the live status endpoint of an agent for the DAG accepted by %s answered %r instead of 200" % (ep, ept),
                   {"defect": "status-endpoint", "shape": "panic" if ept.startswith("panic") else "not-200"})
        for cd in d.get("conds", []):
            if cd["cls"] == "panic":
                shape = "invalid-regexp-in-expected" if cd["expected"] in oracle.get("rebad", []) else "unexplained"
                yield ("EvalConditions on the accepted condition %s (expected %r) panicked at %s" % (cd["where"], cd["expected"], cd.get("at")),
                       {"defect": "condition-panic", "at": cd.get("at"), "shape": shape})


def defined_steps(tree):
    """(number of elements of `steps:`, sorted handler names defined) of a document whose root is a mapping"""
    if L.kind(tree) != "map":
        return None, None
    ss = L.get_fold(tree, "steps")
    n = len(ss) if L.kind(ss) == "list" else 0
    hs = []
    h = L.get_fold(tree, "handlerOn")
    if L.kind(h) == "map":
        for k, v in h["m"]:
            if isinstance(k, str) and v is not None and k.lower() in ("exit", "success", "failure", "cancel"):
                hs.append(k.lower())
    return n, sorted(hs)


def cross_entry(c):
    """The validating entry point against the loading ones, on the same bytes: what LoadYAML accepts (DAGStore.UpdateSpec
    saves it) must be accepted by LoadWithoutEval (the file is then viewed / scheduled through it)."""
    y, n = c["res"]["yaml"], c["res"]["noeval"]
    if y["cls"] == "ok" and n["cls"] != "ok":
        yield ("LoadYAML accepts a document (it passes validation on save) that LoadWithoutEval rejects: %s" % (n.get("err") or n.get("msg")),
               {"defect": "validation-weaker-than-load", "entry": "LoadYAML"})


def monitor_store(c):
    """The listing / viewing layer (DAGStore + client, ONE instance, every call made twice): each call answers with an
    error or a DAG - never neither, never a panic - and the same way both times, in agreement with the loader itself."""
    first = {}
    for sc in c.get("store") or []:
        base, _, n = sc["call"].partition("#")
        if sc["cls"] == "panic":
            yield ("%s panicked at %s: %s" % (sc["call"], sc.get("at"), sc.get("msg")), {"defect": "store-panic", "call": base})
            continue
        if sc["cls"] == "neither":
            yield ("%s answered with neither an error nor a DAG (%s)" % (sc["call"], sc.get("msg") or "nil, nil"),
                   {"defect": "store-neither", "call": base})
            continue
        want = c["res"]["noeval" if base == "GetDetails" else "meta"]["cls"]
        if want in ("ok", "err") and (sc["cls"] == "dag") != (want == "ok"):
            yield ("%s answered %s where the loader itself answers %s for the same file" % (sc["call"], sc["cls"], want),
                   {"defect": "store-disagrees-with-loader", "call": base})
        if base in first and first[base] != sc["cls"]:
            yield ("%s answered %s, the first call of the unchanged file answered %s" % (sc["call"], sc["cls"], first[base]),
                   {"defect": "store-not-repeatable", "call": base})
        first.setdefault(base, sc["cls"])


def monitor_raw(c):
    for e, r in c["res"].items():
        if r["cls"] in ("panic", "crash", "timeout", "oom"):
            at = r.get("at") or ""
            shape = L.panic_shape(at, c.get("tree"), None) if r["cls"] == "panic" else "process-" + r["cls"]
            yield ("raw document (%s, %d bytes): %s in %s at %s: %s" % (c["stream"], c["len"], r["cls"], e, at, (r.get("msg") or "")[:200]),
                   {"defect": "panic" if r["cls"] == "panic" else r["cls"], "at": at, "shape": shape})


def slim(c):
    """what is stored with a failure"""
    if c.get("kind") == "raw":
        return {k: c[k] for k in ("kind", "stream", "b64", "len", "res") if k in c}
    out = {k: c[k] for k in ("kind", "stream", "mut", "tree", "yaml") if k in c}
    out["res"] = {e: {k: v for k, v in r.items() if k in ("cls", "err", "at", "repo", "msg")} for e, r in c["res"].items()}
    if c.get("store"):
        out["store"] = [sc for sc in c["store"] if sc["cls"] in ("panic", "neither")] or "%d calls, all error-or-DAG" % len(c["store"])
    for e, r in c["res"].items():
        if r.get("dag") and r["dag"].get("endpoint"):
            out["res"][e]["endpoint"] = r["dag"]["endpoint"]
    for e, r in c["res"].items():
        if r.get("dag"):
            out["res"][e]["dag"] = {k: r["dag"][k] for k in ("name", "steps", "handlers", "sched", "ptrs", "json_ok", "json_err") if k in r["dag"]}
            bad = [x for x in r["dag"].get("conds", []) if x["cls"] == "panic"]
            if bad:
                out["res"][e]["conds"] = bad
    return out


def mk_term(c):
    exp = [(ep, L.digest_c13(c["res"][e], ep, c["tree"], c["fname"])) for e, ep in L.ENTRY.items()]
    return lambda I: L.coq_case(c["tree"], c["oracle"], {"VQ_BASE": "/vqbase"}, c["fname"], 0, exp, I)


def gen(ctx, tool, seed, tier, tag):
    p = os.path.join(ctx.scratch, "load-%s.jsonl" % tag)
    rc, out, dt = vlib.run_tool(tool, [p, tier, "c13"], env_extra={"VERIF_SEED": str(seed), "VERIF_REPO": vlib.REPO}, timeout=3000)
    if rc != 0:
        return None, out
    return vlib.read_jsonl(p), out


def all_monitors(c):
    if c["kind"] != "c13":
        return list(monitor_raw(c))
    return list(monitor_case(c)) + list(cross_entry(c)) + list(monitor_store(c))


def failing_keys(c):
    return sorted({json.dumps(cls, sort_keys=True) for _, cls in all_monitors(c)})


def run(ctx, replay_cases=None):
    L.refresh_known(ctx)
    ctx.proofs(extra=["Loader/Check.vo"])
    tool, out, _ = vlib.go_build("load", ctx.scratch)
    if tool is None:
        ctx.fail("correspondence", "harness does not build against /repo", {"log": out[-2000:]})
        return ctx.finish()
    if replay_cases is None:
        cases, out = gen(ctx, tool, ctx.seed, ctx.tier, "main")
        if cases is None:
            ctx.fail("correspondence", "load driver failed", {"log": out[-2000:]})
            return ctx.finish()
        corpus = os.path.join(vlib.VERIF, "corpus", "C13.jsonl")
        if os.path.exists(corpus) and os.path.getsize(corpus) > 0:
            p = os.path.join(ctx.scratch, "corpus-out.jsonl")
            rc, o2, _ = vlib.run_tool(tool, [p, "replay", corpus], env_extra={"VERIF_REPO": vlib.REPO})
            if rc == 0:
                cs = vlib.read_jsonl(p)
                for c in cs:
                    if "stream" in c:
                        c["stream"] = "corpus:" + c["stream"]
                cases = cs + cases
    else:
        cases = replay_cases
    trees = [c for c in cases if c.get("kind") == "c13"]
    raws = [c for c in cases if c.get("kind") == "raw"]
    infos = [c for c in cases if c.get("kind") == "info"]

    # ---- monitor: the property on what the implementation did ---------------------------------------
    n_unknown = 0
    shrunk = {}
    for c in trees:
        for what, cls in all_monitors(c):
            k = ctx.match_known(cls, "monitor")
            case = slim(c)
            if k is None:
                n_unknown += 1
                key = json.dumps(cls, sort_keys=True)
                if key not in shrunk and len(shrunk) < 2:       # shrink the first few unexplained failures
                    small = L.shrink_tree(tool, ctx, c, "c13", lambda x, key=key: key in failing_keys(x))
                    shrunk[key] = slim(small)
                case = shrunk.get(key, case)
            ctx.fail("monitor", what, case, cls=cls)
    for c in raws:
        for what, cls in monitor_raw(c):
            ctx.fail("monitor", what, slim(c), cls=cls)

    # ---- correspondence: the model on the same trees ---------------------------------------------------
    bad, err = L.model_mismatches(ctx, "c13", [mk_term(c) for c in trees])
    if err is not None:
        ctx.fail("correspondence", "the model could not be evaluated on a shard of cases (coqc failed)", {"log": err})
    for k, ep in bad[:40]:
        c = trees[k]
        e = [n for n, v in L.ENTRY.items() if v == ep][0]
        info = slim(c)
        info["entry"] = L.ENTRY_NAME[ep]
        info["impl_digest"] = L.show(L.digest_c13(c["res"][e], ep, c["tree"], c["fname"]))
        if len([1 for f in ctx.failures if f["kind"] == "correspondence"]) < 3:
            info["model_digest"] = L.show(L.model_digest(ctx, mk_term(c), ep))
        ctx.fail("correspondence", "model and implementation differ on %s (stream %s)" % (L.ENTRY_NAME[ep], c["stream"]), info,
                 cls={"defect": "correspondence"})
    if len(bad) > 40:
        ctx.notes.append("%d further correspondence mismatches not listed" % (len(bad) - 40))

    # ---- evidence -------------------------------------------------------------------------------------------
    streams, classes, mutkinds = {}, {}, {}
    distinct = set()
    reached = {"accepted-with-steps": 0, "schedule-map": 0, "executor-config": 0, "function-call": 0, "handlers": 0,
               "null-element": 0, "non-string-key": 0, "eval-effects": 0}
    for c in trees:
        streams[c["stream"]] = streams.get(c["stream"], 0) + 1
        for m in c.get("mut") or []:
            mutkinds[m] = mutkinds.get(m, 0) + 1
        for e, r in c["res"].items():
            key = "%s:%s" % (e, r["cls"])
            classes[key] = classes.get(key, 0) + 1
        if c["stream"] != "fixed":
            distinct.add(c["yaml"])
        t = c["tree"]
        y = c["res"]["yaml"]
        if y["cls"] == "ok" and y["dag"]["steps"]:
            reached["accepted-with-steps"] += 1
        if L.kind(t) == "map":
            if L.kind(L.get_fold(t, "schedule")) == "map":
                reached["schedule-map"] += 1
            if any(True for _ in L.cfg_values(t)):
                reached["executor-config"] += 1
            if any(L.kind(sd) == "map" and L.get_fold(sd, "call") is not None for _, sd in L.step_defs(t)):
                reached["function-call"] += 1
            if L.kind(L.get_fold(t, "handlerOn")) == "map":
                reached["handlers"] += 1
            if any(L.has_null_element(L.get_fold(t, f)) for f in ("steps", "functions", "preconditions")):
                reached["null-element"] += 1
            if L.nonstring_key_in_struct(t):
                reached["non-string-key"] += 1
        if c["res"]["load"].get("envset"):
            reached["eval-effects"] += 1
    rawstreams, rawcls = {}, {}
    for c in raws:
        rawstreams[c["stream"]] = rawstreams.get(c["stream"], 0) + 1
        for e, r in c["res"].items():
            rawcls[r["cls"]] = rawcls.get(r["cls"], 0) + 1
    ctx.cov["evaluations"] = 4 * len(trees) + sum(len(c["res"]) for c in raws)
    ctx.cov["traces_validated_against_impl"] = 4 * len(trees)
    ctx.cov["distinct_nontrivial"] = len(distinct)
    ctx.cov["rule"] = ("definition trees rendered to YAML and loaded by the real LoadYAML / LoadMetadata / LoadWithoutEval / Load, each "
                       "compared with the Coq model evaluated on the same tree (outcome class, projected DAG, environment difference, "
                       "status serialisable, per-condition crash class); distinct = distinct YAML documents, non-trivial = every stream "
                       "except the 7 fixed corner documents (grammar definitions, mutated definitions, a null / wrong kind in every "
                       "position, every `any` field over small untyped trees, random untyped trees)")
    ctx.cov["tree_streams"] = streams
    ctx.cov["mutation_kinds"] = mutkinds
    ctx.cov["impl_outcomes"] = classes
    ctx.cov["reached"] = reached
    ctx.cov["dropped_nondeterministic_inputs"] = infos[0].get("dropped") if infos else None
    ctx.cov["raw_bytes_stream"] = {"label": "robustness testing in support (no theorem covers the YAML library): crashes only",
                                   "documents": len(raws), "streams": rawstreams, "outcomes": rawcls}
    ctx.cov["model_mismatches"] = len(bad)
    sc_n, sc_cls = 0, {}
    for c in trees:
        for sc in c.get("store") or []:
            sc_n += 1
            sc_cls[sc["cls"]] = sc_cls.get(sc["cls"], 0) + 1
    ctx.cov["store_layer"] = {"what": "GetMetadata / List / ListPagination / TagList / GetDetails / client.GetAllStatus, each twice per file through one "
                                      "DAGStore + client instance (metadata cache included); required: error or DAG, repeatable, agreeing with the loader",
                              "cases": len([1 for c in trees if c.get("store")]), "calls": sc_n, "answers": sc_cls}
    ept = {}
    for c in trees:
        r = c["res"]["noeval"]
        if r["cls"] == "ok":
            k = (r["dag"].get("endpoint") or "not-driven").split(":")[0]
            ept[k] = ept.get(k, 0) + 1
    ctx.cov["agent_status_endpoint"] = {"GET /status on an agent set up for each DAG accepted by LoadWithoutEval": ept,
                                        "control (hand-built DAG whose status does not marshal: the modelled nil *httpError path)":
                                        (infos[0].get("endpoint_control") if infos else None)}
    for c in trees[700:702] + trees[-2:]:
        ctx.sample({"stream": c["stream"], "mut": c.get("mut"), "yaml": c["yaml"][:400],
                    "outcomes": {e: r["cls"] for e, r in c["res"].items()}})
    ctx.cov["trusted_base"] += [
        "yaml.v2 + mapstructure typing rules re-stated in coq/Loader/Decode.v (library behaviour; checked by the correspondence on every run)",
        "parameters of the model supplied per string by the harness: cron parse verdict (robfig parser with the loader's options), "
        "unix.SignalNum, regexp.Compile, the parameter tokenizer's regular expression (copy validated against DAG.Params); "
        "Cron.parse can replace the first",
        "ASCII-only re-statements of strings.ToLower / TrimSpace / Fields / EqualFold; os.Expand, strings.ReplaceAll/Split/Trim re-stated in coq/Loader/Str.v",
        "Go map iteration order: inputs whose result depends on it are dropped by the driver (counted); schedule maps are compared against every entry order",
    ]
    ctx.assumptions = ["the byte->tree stage (yaml.v2) is library code: not verified, exercised by the raw-bytes stream for crashes only",
                       "theorems about `build` hold for every decoded definition and every value of the library parameters; "
                       "hypotheses of the no-panic theorems: (1) the cron library panics only on a bare TZ= / CRON_TZ= prefix - proved "
                       "for the Cron model (coq/Loader/CronPlug.v); (2) a parameter value matched by the quoted alternative of the "
                       "tokenizer's regular expression holds its two quotes (the loader slices value[1:len-1]); `build` alone assumes "
                       "no_nil d, which decode guarantees (C13_decode_no_nil)"]
    cron_agreement(ctx, trees)
    if ctx.tier == "thorough":
        ctx.coqchk()

    def search():
        for i in range(1, 4):
            more, _ = gen(ctx, tool, ctx.seed + 7919 * i, "quick", "search%d" % i)
            for c in more or []:
                it = all_monitors(c) if c.get("kind") in ("c13", "raw") else []
                for what, cls in it:
                    if ctx.match_known(cls, "monitor") is None:
                        return {"what": what, "class": cls, "case": slim(c)}
        return None
    return ctx.finish(search=search)


def cron_agreement(ctx, trees):
    """Optional: the cron parameter of the model can be instantiated by Cron.parse (coq/Loader/CronPlug.v, built on
    the Cron family's model).  Here the two are compared on the schedule strings of this run; a disagreement is
    reported as a note (it concerns the Cron model, which C09 checks), never as a failure of C13."""
    verdicts = {}
    for c in trees:
        for s in L.schedule_strings(c["tree"]):
            if s in c["oracle"]["cron"]:
                verdicts[s] = c["oracle"]["cron"][s]
    try:
        ok, out, dt = vlib.coq_make(["Loader/CronPlug.vo"])
        if not ok:
            ctx.cov["cron_model_agreement"] = "Loader/CronPlug.vo does not build (Cron model unavailable)"
            return
        strs = sorted(verdicts)
        txt = (L.HEADER + "From BD.Loader Require Import CronPlug.\nDefinition VV := Eval vm_compute in map verdict_code %s.\nPrint VV.\n"
               % vlib.clist([L.cstring(s) for s in strs]))
        rc, out, dt = L.coq_eval(ctx.scratch, "cron_agree", txt)
        got = vlib.coq_list_result(out, "VV") if rc == 0 else None
        if got is None or len(got) != len(strs):
            ctx.cov["cron_model_agreement"] = "not evaluated"
            return
        diff = [(s, verdicts[s], g) for s, g in zip(strs, got) if verdicts[s] != g]
        ctx.cov["cron_model_agreement"] = {"strings": len(strs), "agree": len(strs) - len(diff),
                                           "differ": [{"spec": s, "robfig": a, "Cron.parse": b} for s, a, b in diff[:10]]}
    except Exception as e:  # never a failure of this check
        ctx.cov["cron_model_agreement"] = "skipped: %r" % (e,)


def replay(ctx, path):
    body = json.load(open(path))
    items = [f.get("case") for f in body.get("failures", [])]
    if isinstance(body.get("failing_input"), dict):
        items.append(body["failing_input"].get("case", body["failing_input"]))
    if isinstance(body.get("case"), dict):
        items.append(body["case"])
    items = [c for c in items if isinstance(c, dict) and c.get("kind") in ("c13", "raw")]
    tool, out, _ = vlib.go_build("load", ctx.scratch)
    if tool is None:
        ctx.fail("correspondence", "harness does not build against /repo", {"log": out[-2000:]})
        return ctx.finish()
    p_in = os.path.join(ctx.scratch, "replay-in.jsonl")
    with open(p_in, "w") as f:
        for c in items:
            f.write(json.dumps(c) + "\n")
    p = os.path.join(ctx.scratch, "replay-out.jsonl")
    rc, out, dt = vlib.run_tool(tool, [p, "replay", p_in], env_extra={"VERIF_REPO": vlib.REPO})
    if rc != 0:
        ctx.fail("correspondence", "load driver failed", {"log": out[-2000:]})
        return ctx.finish()
    return run(ctx, replay_cases=vlib.read_jsonl(p))
