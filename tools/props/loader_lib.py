"""Shared pieces of the C13 / C19 checks (Loader family): tree -> Coq term, digests of what the implementation
returned (the same canonical text coq/Loader/Check.v computes for the model), sharded evaluation, the shape
classifier that keys known findings, tree shrinking."""
import json
import os
from concurrent.futures import ThreadPoolExecutor

import vlib
from vlib import clist


def cstring(s):
    """Coq string literal.  Coq reads a literal byte-wise, so control characters and UTF-8 sequences can be
    written raw (only the double quote is doubled); this keeps the generated files small and quick to
    type-check.  NUL falls back to the explicit form of vlib."""
    if "\x00" in s:
        return vlib.cstring(s)
    return '"' + s.replace('"', '""') + '"'


def coq_eval(scratch, name, text, timeout=1800, mem_gb=12):
    p = os.path.join(scratch, name + ".v")
    with open(p, "w", encoding="utf-8") as f:
        f.write(text)
    cmd = "ulimit -v %d; exec coqc -R %s %s -w -notation-overridden %s" % (mem_gb * 1024 * 1024, vlib.COQ, vlib.NS, p)
    return vlib.sh(["bash", "-c", cmd], cwd=scratch, timeout=timeout)

S1, S2, S3, S4 = "\x1f", "\x1e", "\x1d", "\x1c"
ENTRY = {"yaml": 0, "meta": 1, "noeval": 2, "load": 3}
ENTRY_NAME = {0: "LoadYAML", 1: "LoadMetadata", 2: "LoadWithoutEval", 3: "Load"}
# C19 entry point -> the options it loads with (index of Check.opts_of)
C19_ENTRY = {"LoadYAML": 0, "LoadMetadata": 1, "LoadWithoutEval": 2, "DAGStore.UpdateSpec": 0, "DAGStore.GetDetails": 2,
             "DAGStore.GetMetadata": 1, "DAGStore.List": 1, "DAGStore.ListPagination": 1, "DAGStore.Grep": 1,
             "DAGStore.Find": 2, "DAGStore.TagList": 1, "entryReader": 1, "Load": 3,
             # the display path through the client / API: loads without evaluation, then builds an execution graph
             # (scheduler.NewExecutionGraph -> node.init) only to validate it
             "Client.GetStatus": 2, "Client.GetAllStatus": 1, "Client.GetAllStatusPagination": 1,
             "Client.GetStatusByRequestID": 2, "Client.GetRecentHistory": 2, "Client.GetDAGSpec": 1, "display-graph": 2,
             "API.GetDagDetails": 2, "API.ListDags": 1}
NON_EXECUTING = [e for e in C19_ENTRY if e != "Load"]


# ------------------------------------------------------------------------------------------
# tree helpers (JSON form written by harness/cmd/load/tree.go)
# ------------------------------------------------------------------------------------------

def kind(t):
    if t is None:
        return "null"
    if isinstance(t, bool):
        return "bool"
    if isinstance(t, str):
        return "str"
    if isinstance(t, list):
        return "list"
    if isinstance(t, dict):
        if "i" in t:
            return "int"
        if "f" in t:
            return "float"
        if "m" in t:
            return "map"
    raise ValueError("bad tree %r" % (t,))


def entries(t):
    return t["m"] if kind(t) == "map" else []


def get_fold(t, key):
    """value of the first entry whose string key equals `key` case-insensitively (None if absent)"""
    for k, v in entries(t):
        if isinstance(k, str) and k.lower() == key.lower():
            return v
    return None


def has_key_fold(t, key):
    return any(isinstance(k, str) and k.lower() == key.lower() for k, _ in entries(t))


def refresh_known(ctx):
    """known_findings.d/<property>.json is the authority for this property: the merged known_findings.json keeps an
    entry as it was first written (vlib.load_known prefers it), so an entry turned to state "fixed" in the fragment
    would otherwise go on suppressing."""
    frag = os.path.join(vlib.VERIF, "known_findings.d", ctx.pid + ".json")
    if os.path.exists(frag):
        ctx.known = [k for k in json.load(open(frag)) if k.get("property") == ctx.pid and k.get("state") == "known"]


class Interner:
    """Each distinct string of a cases file is defined once (Definition sN := "...") and referred to by name."""

    def __init__(self):
        self.ids = {}

    def __call__(self, s):
        i = self.ids.get(s)
        if i is None:
            i = self.ids[s] = len(self.ids)
        return "s%d" % i

    def definitions(self):
        return "".join("Definition s%d := %s.\n" % (i, cstring(s)) for s, i in self.ids.items())


def coq_yv(t, I=cstring):
    k = kind(t)
    if k == "null":
        return "VNull"
    if k == "bool":
        return "(VBool %s)" % ("true" if t else "false")
    if k == "int":
        return "(VInt (%d)%%Z)" % int(t["i"])
    if k == "float":
        fk = {"fin": "FFin", "nan": "FNaN", "inf": "FInf"}[t["k"]]
        return "(VFloat %s %s (%d)%%Z)" % (fk, I(t["f"]), int(t["t"]))
    if k == "str":
        return "(VStr %s)" % I(t)
    if k == "list":
        return "(VList %s)" % clist([coq_yv(x, I) for x in t])
    return "(VMap %s)" % clist(["(%s, %s)" % (coq_yv(a, I), coq_yv(b, I)) for a, b in t["m"]])


def schedule_strings(tree):
    sch = get_fold(tree, "schedule") if kind(tree) == "map" else None
    return set(strings_under(sch)) if sch is not None else set()


def coq_case(tree, oracle, env0, fname, mode, expect, I=cstring):
    """expect: list of (entry point, digest = list of atoms).  Only the oracle values the model can ask for are
    written: cron verdicts of the strings under `schedule` that are not plain errors."""
    sched = schedule_strings(tree)
    cron = clist(["(%s, %d)" % (I(s), v) for s, v in sorted(oracle.get("cron", {}).items()) if v != 1 and s in sched])
    sig = clist([I(s) for s in sorted(oracle.get("sig", {}))])
    rebad = clist([I(s) for s in oracle.get("rebad", [])])
    tok = clist(["(%s, %s)" % (I(s), clist(["(%s, %s)" % (I(a), I(b)) for a, b in toks]))
                 for s, toks in sorted(oracle.get("tok", {}).items())])
    env = clist(["(%s, %s)" % (I(k), I(v)) for k, v in sorted(env0.items())])
    exp = clist(["(%d, %s)" % (ep, clist([I(x) for x in d])) for ep, d in expect])
    return ("{| cc_tree := %s; cc_cron := %s; cc_sig := %s; cc_rebad := %s; cc_tok := %s; cc_env0 := %s; "
            "cc_fname := %s; cc_mode := %d; cc_expect := %s |}") % (coq_yv(tree, I), cron, sig, rebad, tok, env, I(fname), mode, exp)


# ------------------------------------------------------------------------------------------
# digests of the implementation's results (must equal Check.dres on the model side)
# ------------------------------------------------------------------------------------------

def bsorted(xs):
    return sorted(xs, key=lambda s: s.encode("utf-8"))


def dlist(xs):
    return [str(len(xs))] + list(xs)


def dstep(s, from_call):
    args = bsorted(s["args"]) if from_call else s["args"]
    return [s["name"], s["cmd"]] + dlist(args) + [s["cwa"], s["etype"], "1" if s["sub"] else "0", s["sig"], s["script"], str(s["nconds"])]


def step_from_call(tree, where):
    """does the definition of step i / handler h hold a non-null `call`?"""
    if isinstance(where, int):
        ss = get_fold(tree, "steps")
        if kind(ss) != "list" or where >= len(ss):
            return False
        sd = ss[where]
    else:
        sd = get_fold(get_fold(tree, "handlerOn") or {"m": []}, where)
    return sd is not None and kind(sd) == "map" and get_fold(sd, "call") is not None


def denv(envset):
    return dlist(bsorted(["%s=%s" % (k, v) for k, v in envset.items()]))


def digest_c13(res, ep, tree, fname):
    if res["cls"] == "panic":
        head = ["P"]
    elif res["cls"] == "err":
        head = ["E"]
    else:
        d = res["dag"]
        hs = []
        for h in ("exit", "success", "failure", "cancel"):
            st = d["handlers"].get(h)
            hs += ["-"] if st is None else ["+"] + dstep(st, step_from_call(tree, h))
        conds = "".join("p" if c["cls"] == "panic" else "n" for c in d["conds"]) if ep == 0 else ""
        steps = []
        for i, st in enumerate(d["steps"]):
            steps += dstep(st, step_from_call(tree, i))
        head = (["O", d["name"]] + dlist(d["tags"]) + dlist(d["sched"][0]) + dlist(d["sched"][1]) + dlist(d["sched"][2])
                + dlist(bsorted(d["env"])) + [d["logdir"], d["dparams"]] + dlist(d["params"])
                + [str(len(d["steps"]))] + steps + hs
                + ["1" if d["ptrs"][k] else "0" for k in ("smtp", "errorMail", "infoMail")]
                + [str(d["nconds"]), "1" if d["json_ok"] else "0", conds])
    return head + ["ENV"] + denv(res.get("envset") or {})


def digest_c19(obs, cdir):
    head = "P" if obs["cls"] == "panic" else "N"
    execs = bsorted(["touch %s/%s" % (cdir, c) for c in obs["canaries"]])
    return [head, "ENV"] + denv(obs.get("envset") or {}) + ["EXEC"] + dlist(execs)


# ------------------------------------------------------------------------------------------
# evaluation of the model on shards of cases
# ------------------------------------------------------------------------------------------

HEADER = ("From Coq Require Import List String Ascii ZArith.\nImport ListNotations.\nOpen Scope string_scope.\n"
          "From BD.Loader Require Import Str Model Decode Check.\n")


def eval_shard(ctx, name, mk_terms):
    I = Interner()
    terms = [mk(I) for mk in mk_terms]
    txt = HEADER + I.definitions() + "Definition cases : list ccase := [\n%s\n].\nDefinition MM := Eval vm_compute in mismatches cases.\nPrint MM.\n" % ";\n".join(terms)
    rc, out, dt = coq_eval(ctx.scratch, name, txt)
    if rc != 0:
        return None, out[-1500:]
    return vlib.coq_list_result(out, "MM"), None


def model_mismatches(ctx, tag, terms, shard=250):
    """terms: list of functions Interner -> Coq ccase term.  Returns (list of (case index, entry), error or None)."""
    shards = [(i, terms[i:i + shard]) for i in range(0, len(terms), shard)]
    with ThreadPoolExecutor(max_workers=14) as ex:
        results = list(ex.map(lambda t: eval_shard(ctx, "cases_%s_%d" % (tag, t[0]), t[1]), shards))
    bad, err = [], None
    for (base, _), (res, e) in zip(shards, results):
        if res is None:
            err = e
            continue
        for item in res:
            k, ep = item
            bad.append((base + k, ep))
    return bad, err


def model_digest(ctx, mk_term, ep):
    """diagnostics for one mismatching case: the model's digest text"""
    term = mk_term(cstring)
    txt = HEADER + "Definition c : ccase := %s.\nDefinition DD := Eval vm_compute in model_digest c %d.\nPrint DD.\n" % (term, ep)
    rc, out, dt = coq_eval(ctx.scratch, "digest_one", txt)
    if rc != 0:
        return "<coqc failed: %s>" % out[-300:]
    r = vlib.coq_list_result(out, "DD")
    if r is None:
        return "<unparsed>"
    return bytes(r).decode("utf-8", "replace")


def show(d):
    if isinstance(d, list):
        return " | ".join(d)
    return d.replace(S1, " | ")


# ------------------------------------------------------------------------------------------
# C13: shapes of the tree that key the known findings
# ------------------------------------------------------------------------------------------

def strings_under(t):
    k = kind(t)
    if k == "str":
        yield t
    elif k == "list":
        for x in t:
            yield from strings_under(x)
    elif k == "map":
        for a, b in t["m"]:
            yield from strings_under(a)
            yield from strings_under(b)


def step_defs(tree):
    """(where, definition tree) of every step and handler position holding a non-null value"""
    out = []
    ss = get_fold(tree, "steps")
    if kind(ss) == "list":
        for i, s in enumerate(ss):
            out.append((i, s))
    h = get_fold(tree, "handlerOn")
    if kind(h) == "map":
        for k, v in h["m"]:
            if isinstance(k, str):
                out.append((k.lower(), v))
    return out


def has_null_element(t):
    return kind(t) == "list" and any(x is None for x in t)


def nonstring_key_in_struct(tree):
    """a mapping in a struct position (not under an `any` field) with a non-string key"""
    def smap(t):
        return kind(t) == "map" and any(not isinstance(k, str) for k, _ in t["m"])

    def in_list(t, f):
        return kind(t) == "list" and any(f(x) for x in t)

    def cond(t):
        return smap(t)

    def step(t):
        if smap(t):
            return True
        if kind(t) != "map":
            return False
        for fld in ("continueOn", "retryPolicy", "repeatPolicy", "call"):
            if smap(get_fold(t, fld)):
                return True
        return in_list(get_fold(t, "preconditions"), cond)
    if kind(tree) != "map":
        return False
    for fld in ("smtp", "mailOn", "errorMail", "infoMail", "handlerOn"):
        if smap(get_fold(tree, fld)):
            return True
    h = get_fold(tree, "handlerOn")
    if kind(h) == "map" and any(step(v) for _, v in h["m"]):
        return True
    return (in_list(get_fold(tree, "steps"), step) or in_list(get_fold(tree, "functions"), smap)
            or in_list(get_fold(tree, "preconditions"), cond))


def schedule_shapes(tree, oracle):
    """shapes of the schedule field that make the pinned loader panic"""
    out = set()
    sch = get_fold(tree, "schedule") if kind(tree) == "map" else None
    cron = oracle.get("cron", {})
    if sch is None:
        return out
    if any(cron.get(s) == 2 for s in strings_under(sch)):
        out.add("schedule-tz-without-spec")
    if kind(sch) == "map":
        for k, v in sch["m"]:
            if isinstance(k, str) and k not in ("start", "stop", "restart"):
                if isinstance(v, str) or (kind(v) == "list" and len(v) > 0 and all(isinstance(x, str) for x in v)):
                    out.add("schedule-map-unknown-key")
    return out


def panic_shape(at, tree, oracle):
    """the input class that explains a panic raised at `at`, or 'unexplained'"""
    if tree is None:
        return "no-tree"
    if kind(tree) != "map":
        return "unexplained"
    sh = schedule_shapes(tree, oracle or {})
    if at == "dag.parseScheduleMap" and "schedule-map-unknown-key" in sh:
        return "schedule-map-unknown-key"
    if at.endswith("Parser.Parse") and (oracle is None or "schedule-tz-without-spec" in sh or _tz_like(tree)):
        return "schedule-tz-without-spec"
    if at.startswith("mapstructure.") and nonstring_key_in_struct(tree):
        return "nonstring-key-in-struct"
    if at == "dag.assertStepDef":
        if has_null_element(get_fold(tree, "steps")):
            return "null-in-steps"
        if has_null_element(get_fold(tree, "functions")):
            return "null-in-functions"
    if at == "dag.assertFunctions" and has_null_element(get_fold(tree, "functions")):
        return "null-in-functions"
    if at == "dag.parseFuncCall" and has_null_element(get_fold(tree, "functions")):
        return "null-in-functions"
    if at == "dag.buildConditions":
        if has_null_element(get_fold(tree, "preconditions")):
            return "null-in-preconditions"
        for _, sd in step_defs(tree):
            if kind(sd) == "map" and has_null_element(get_fold(sd, "preconditions")):
                return "null-in-preconditions"
    return "unexplained"


def _tz_like(tree):
    sch = get_fold(tree, "schedule")
    return sch is not None and any((s.startswith("TZ=") or s.startswith("CRON_TZ=")) and " " not in s for s in strings_under(sch))


def blank_command_list(v):
    return kind(v) == "list" and all(x == "" for x in v)


def exec_type_of(v):
    if isinstance(v, str):
        return v
    if kind(v) == "map":
        t = None
        for k, x in v["m"]:
            if k == "type":
                t = x
        return t if isinstance(t, str) else ""
    return ""


def not_executable_shape(tree, where):
    """why the definition of step `where` gives nothing to execute"""
    sd = dict(step_defs(tree)).get(where)
    if kind(sd) != "map":
        return "unexplained"
    cmd, ex, call, run = get_fold(sd, "command"), get_fold(sd, "executor"), get_fold(sd, "call"), get_fold(sd, "run")
    if run not in (None, ""):
        return "unexplained"
    if call is not None:
        return "call-function-command-only-parameters" if cmd is None or blank_command_list(cmd) else "unexplained"
    if cmd is not None and not blank_command_list(cmd):
        return "unexplained"
    if ex is not None and exec_type_of(ex) != "":
        return "unexplained"
    if cmd is not None:
        return "command-list-without-program"
    if ex is not None:
        return "executor-without-type"
    return "unexplained"


def cfg_values(tree):
    for _, sd in step_defs(tree):
        if kind(sd) != "map":
            continue
        ex = get_fold(sd, "executor")
        if kind(ex) == "map":
            for k, v in ex["m"]:
                if k == "config" and kind(v) == "map":
                    for _, x in v["m"]:
                        yield x


def _map_in_list(t, under_list=False):
    k = kind(t)
    if k == "map":
        return under_list or any(_map_in_list(v, False) for _, v in t["m"])
    if k == "list":
        return any(_map_in_list(x, True) for x in t)
    return False


def _nonfinite(t):
    k = kind(t)
    if k == "float":
        return t["k"] != "fin"
    if k == "list":
        return any(_nonfinite(x) for x in t)
    if k == "map":
        return any(_nonfinite(v) for _, v in t["m"])
    return False


def not_serialisable_shape(tree, json_err):
    vals = list(cfg_values(tree))
    if "map[interface" in json_err and any(_map_in_list(v) for v in vals):
        return "executor-config-map-in-list"
    if "unsupported value" in json_err and any(_nonfinite(v) for v in vals):
        return "executor-config-non-finite-float"
    return "unexplained"


# ------------------------------------------------------------------------------------------
# shrinking of trees: delete map entries / list elements while `still_fails(tree)` holds
# ------------------------------------------------------------------------------------------

def deletions(t):
    """all trees obtained by deleting one entry / element somewhere"""
    k = kind(t)
    if k == "list":
        for i in range(len(t)):
            yield t[:i] + t[i + 1:]
        for i, x in enumerate(t):
            for y in deletions(x):
                yield t[:i] + [y] + t[i + 1:]
    elif k == "map":
        m = t["m"]
        for i in range(len(m)):
            yield {"m": m[:i] + m[i + 1:]}
        for i, (a, b) in enumerate(m):
            for y in deletions(b):
                yield {"m": m[:i] + [[a, y]] + m[i + 1:]}


def tree_size(t):
    k = kind(t)
    if k == "list":
        return 1 + sum(tree_size(x) for x in t)
    if k == "map":
        return 1 + sum(tree_size(a) + tree_size(b) for a, b in t["m"])
    return 1


def replay_trees(tool, ctx, kindname, cases):
    """re-run cases (dicts with kind/tree/...) through the harness; returns the new cases"""
    p_in = os.path.join(ctx.scratch, "shr-in.jsonl")
    with open(p_in, "w") as f:
        for c in cases:
            f.write(json.dumps(c) + "\n")
    p = os.path.join(ctx.scratch, "shr-out.jsonl")
    rc, out, dt = vlib.run_tool(tool, [p, "replay", p_in], env_extra={"VERIF_REPO": vlib.REPO})
    if rc != 0:
        return []
    return [c for c in vlib.read_jsonl(p) if c.get("kind") == kindname]


def shrink_tree(tool, ctx, case, kindname, fails, rounds=15):
    """greedy deletion: keeps the smallest re-run case for which `fails(case)` still holds"""
    cur = case
    for _ in range(rounds):
        cands = []
        for t in deletions(cur["tree"]):
            c = {k: v for k, v in cur.items() if k in ("kind", "stream", "planted", "mut", "cdir")}
            c["tree"] = t
            cands.append(c)
            if len(cands) >= 150:
                break
        if not cands:
            break
        res = [c for c in replay_trees(tool, ctx, kindname, cands) if fails(c)]
        if not res:
            break
        best = min(res, key=lambda c: tree_size(c["tree"]))
        if tree_size(best["tree"]) >= tree_size(cur["tree"]):
            break
        cur = best
    return cur
