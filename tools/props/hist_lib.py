"""Shared pieces of the C06 / C07 checks (history store): harness JSON -> Coq cases, the abstract
specification of the store (a run map) evaluated in python on what the implementation answered (the MONITOR),
classification of failing cases into the input classes of the known findings."""
import hashlib
import json
import os
import re
from concurrent.futures import ThreadPoolExecutor

import vlib
from vlib import cstring, clist, cz

TS_RE = re.compile(r"2\d{7}.\d{2}:\d{2}:\d{2}")
META = set("*?[\\")


def md5hex(s):
    return hashlib.md5(s.encode()).hexdigest()


def prefix_of(d):
    b = os.path.basename(d)
    return b[: len(b) - len(os.path.splitext(b)[1])]


def add_yaml(f):
    """util.AddYamlExtension (fe0ec16): what jsondb.Rename applies to both names"""
    b = os.path.basename(f)
    e = b[b.rfind("."):] if "." in b else ""
    if e == ".yaml":
        return f
    if e == ".yml":
        return f[:-4] + ".yaml"
    return f + ".yaml"


def dirname_of(d):
    return prefix_of(d) + "-" + md5hex(d)


def trunc8(r):
    return r[:8]


def authoritative_known(ctx):
    """The per-property fragment known_findings.d/<pid>.json is authoritative for this property: the merged known_findings.json is
    derived from the fragments and may lag behind a state change (known -> fixed); a fixed entry must suppress nothing."""
    p = os.path.join(vlib.VERIF, "known_findings.d", ctx.pid + ".json")
    if os.path.exists(p):
        ctx.known = [k for k in json.load(open(p)) if k.get("property") == ctx.pid and k.get("state") == "known"]


# ------------------------------------------------------------------------------------------------
# Coq printers
# ------------------------------------------------------------------------------------------------

def coq_op(o):
    t = o["t"]
    if t == "open":
        return "OOpen %s %s %s %s" % (cstring(o["d"]), cstring(o["stamp"]), cstring(o["req"]), cz(o["now"]))
    if t == "write":
        return "OWrite %d %s %s" % (o["tag"], cz(o["size"]), cz(o["now"]))
    if t == "close":
        return "OClose %s" % cz(o["now"])
    if t == "update":
        return "OUpdate %s %s %d %s %s" % (cstring(o["d"]), cstring(o["req"]), o["tag"], cz(o["size"]), cz(o["now"]))
    if t == "rename":
        return "ORename %s %s" % (cstring(o["d"]), cstring(o["d2"]))
    if t == "removeold":
        return "ORemoveOld %s %s" % (cstring(o["d"]), cz(o["cutoff"]))
    if t == "tear":
        return "OClose 0"      # placeholder: an environment step, applied by Check.tear_state (see tears_of)
    if t == "touch":
        return "OTouch %s %s %s %s %s" % (cstring(o["d"]), cstring(o["stamp"]), cstring(o["r8"]), "true" if o.get("c") else "false", cz(o["now"]))
    raise ValueError(t)


def coq_ans(a):
    return "(%d, %s, %d)" % (a["c"], cstring(a.get("r", "")), a.get("t", 0))


def coq_fnd(a):
    return "(%d, %s, %s, %d)" % (a["c"], cstring(a.get("f", "")), cstring(a.get("r", "")), a.get("t", 0))


def coq_line(l, tail=False):
    if tail:
        k = {"n": 0, "p": 1, "f": 2}[l["k"]]
    else:
        k = {"r": 0, "j": 1}[l["k"]]
    return "(%d, %s, %d, %s)" % (k, cstring(l.get("r", "")), l.get("t", 0), cz(l.get("n", 0)))


def coq_file(f):
    return "(%s, %s, %s, %s, %s, %s)" % (cstring(f["dir"]), cstring(f["name"]), cz(f["size"]), cz(f["mtime"]),
                                         clist([coq_line(l) for l in f["lines"]]), coq_line(f["tail"], True))


def coq_per(p):
    return ("{| o_latW := %s; o_lat0 := %s; o_lat1 := %s; o_rec1 := %s; o_rec2 := %s; o_recN := %s; o_recW := %s; o_finds := %s |}"
            % (coq_ans(p["latW"]), coq_ans(p["lat0"]), coq_ans(p["lat1"]),
               clist([coq_ans(a) for a in p["rec1"]]), clist([coq_ans(a) for a in p["rec2"]]),
               clist([coq_ans(a) for a in p["recN"]]), clist([coq_ans(a) for a in p["recW"]]),
               clist([coq_fnd(a) for a in p["finds"]])))


def coq_step(s):
    return ("{| s_op := %s; s_reqs := %s; s_per := %s; s_dirs := %s; s_files := %s |}"
            % (coq_op(s["op"]), clist([cstring(r) for r in s["reqs"]]), clist([coq_per(p) for p in s["per"]]),
               clist([cstring(d) for d in s["dirs"]]), clist([coq_file(f) for f in s["files"]])))


def tears_of(h):
    """(step index, bytes, mtime) of the environment steps `tear` of an executed history"""
    return [(i, s["op"]["frag"], s["op"]["now"]) for i, s in enumerate(h["steps"]) if s["op"]["t"] == "tear"]


def coq_hcase(h):
    return ("{| h_loc := %s; h_today := %s; h_nrec := %d; h_names := %s;\n   h_steps := %s |}"
            % (cstring(h["loc"]), cstring(h["today"]), h["nrec"],
               clist(["(%s, %s)" % (cstring(n["d"]), cstring(n["h"])) for n in h["names"]]),
               clist(["\n    " + coq_step(s) for s in h["steps"]])))


HEADER = ("From Coq Require Import List String Ascii ZArith.\nImport ListNotations.\nOpen Scope string_scope.\n"
          "From BD.Hist Require Import GoMatch Model Check.\n")


def intern_strings(body):
    """Every distinct string literal becomes a constant (the literals of a history repeat at every step;
    parsing them once cuts the coqc front-end time of a cases file by an order of magnitude)."""
    table = {}

    def rep(m):
        lit = m.group(0)
        if len(lit) < 6:
            return lit
        if lit not in table:
            table[lit] = "s_%d" % len(table)
        return table[lit]
    body = re.sub(r'"[^"]*"', rep, body)
    defs = "".join("Definition %s := %s.\n" % (v, k) for k, v in table.items())
    return defs + body


def eval_shard(ctx, idx, hs, premises=True):
    """returns (mismatches, indices of the histories that satisfy every premise of the C06 theorems, error)"""
    hdr = HEADER + ("From BD.Hist Require Import CheckPrem.\n" if premises else "")
    txt = hdr + intern_strings("Definition cases : list hcase := [\n%s\n].\n" % ";\n".join(coq_hcase(h) for h in hs))
    if any(tears_of(h) for h in hs):
        # histories with environment steps (tear): outside the op language of the theorems - correspondence only, no premises
        premises = False
        txt += "Definition tears : list (list (nat * Z * Z)) := %s.\n" % clist(
            [clist(["(%d, %s, %s)" % (i, cz(n), cz(now)) for i, n, now in tears_of(h)]) for h in hs])
        txt += "Definition M := Eval vm_compute in mismatches_t (combine cases tears).\nPrint M.\n"
    else:
        txt += "Definition M := Eval vm_compute in mismatches cases.\nPrint M.\n"
    if premises:
        txt += "Definition P := Eval vm_compute in premises_hold cases.\nPrint P.\n"
    rc, out, dt = vlib.coq_eval(ctx.scratch, "cases_hist_%s" % idx, txt)
    if rc != 0:
        return None, None, out[-1500:]
    m = vlib.coq_list_result(out, "M")
    pr = vlib.coq_list_result(out[out.find("P ="):], "P") if premises and "P =" in out else []
    return m, pr, None


COMPONENT = {1: "latest (W)", 2: "latest (R0)", 3: "latest today (R1)", 4: "recent 1 (R0)", 5: "recent 2 (R1)", 6: "recent n (R0)",
             7: "recent 3 (W)", 8: "find", 9: "directory names", 10: "files", 20: "malformed", 21: "malformed"}


def model_check(ctx, hs, shard=6, workers=14, premises=True, tag=""):
    """Replays the histories on the Coq model; returns ([(history, step, name index, component)] of mismatches,
    [histories on which every premise of the C06 theorems holds])."""
    plain = [h for h in hs if not tears_of(h)]
    torn = [h for h in hs if tears_of(h)]
    shards = [plain[i:i + shard] for i in range(0, len(plain), shard)] + [torn[i:i + shard] for i in range(0, len(torn), shard)]
    bad, prem = [], []
    with ThreadPoolExecutor(max_workers=workers) as ex:
        results = list(ex.map(lambda t: eval_shard(ctx, "%s%d" % (tag, t[0]), t[1], premises), enumerate(shards)))
    for sh, (res, pr, err) in zip(shards, results):
        if res is None:
            ctx.fail("correspondence", "the model could not be evaluated on a shard of histories (coqc failed)", {"log": err})
            continue
        for it in res:
            (k, (stepi, namei, comp)) = (it[0], it[1:]) if len(it) == 4 else (it[0], it[1])
            bad.append((sh[k], stepi, namei, comp))
        for k in pr or []:
            prem.append(sh[k])
    return bad, prem


# ------------------------------------------------------------------------------------------------
# The abstract specification (run map), evaluated on the implementation's answers = the monitor
# ------------------------------------------------------------------------------------------------

class Run:
    __slots__ = ("d", "stamp", "req", "sts", "mtime")

    def __init__(self, d, stamp, req, mtime):
        self.d, self.stamp, self.req, self.sts, self.mtime = d, stamp, req, [], mtime


def name_class(d):
    p = prefix_of(d)
    if any(c in META for c in p):
        return "glob-meta"
    if TS_RE.search(p):
        return "stamp-like-name"
    return None


def spec_find(runs, d, rq):
    if rq == "":
        return {"c": 1}
    for r in runs:
        if r.d == d and r.req == rq and r.sts:
            return {"c": 0, "r": r.sts[-1][0], "t": r.sts[-1][1]}
    return {"c": 1}


def spec_sorted(runs, d, day=None):
    """the runs of d (of that day) that have a status, most recently started first (a run without status is not listed)"""
    rs = [r for r in runs if r.d == d and r.sts and (day is None or r.stamp[:8] == day)]
    return sorted(rs, key=lambda r: r.stamp, reverse=True)


def spec_latest(runs, d, day=None):
    rs = spec_sorted(runs, d, day)
    if not rs:
        return {"c": 1}
    r = rs[0]
    return {"c": 0, "r": r.sts[-1][0], "t": r.sts[-1][1]}


def spec_recent(runs, d, n):
    return [{"c": 0, "r": r.sts[-1][0], "t": r.sts[-1][1]} for r in spec_sorted(runs, d)[:n]]


def norm_ans(a):
    return (a["c"], a.get("r", ""), a.get("t", 0)) if a["c"] == 0 else (a["c"],)


def weak_ok(runs, d, got, n, day=None):
    """F6a class: is the implementation's answer a correct answer for SOME order of the runs that agrees with
    the start stamps cut at seconds (ties in any order)?  got = list of answers (latest: one element)."""
    rs = [r for r in runs if r.d == d and (day is None or r.stamp[:8] == day)]
    groups = {}
    for r in rs:
        groups.setdefault(r.stamp[:17], []).append(r)
    order = sorted(groups, reverse=True)
    # greedy: walk the groups; inside a group any order: the answer must pick, position by position, runs of the current group
    want = [norm_ans(a) for a in got]
    pos = 0          # position among the first n files
    gi = 0
    remaining = None
    out = []
    slots = []
    for g in order:
        for _ in groups[g]:
            slots.append(g)
    slots = slots[:n]
    used = set()
    wi = 0
    for g in slots:
        # candidates of group g not used yet
        cands = [r for r in groups[g] if id(r) not in used]
        # the implementation may have put an empty run (no status) in this slot: then nothing is listed for it
        if wi < len(want):
            hit = [r for r in cands if r.sts and (0, r.sts[-1][0], r.sts[-1][1]) == want[wi]]
        else:
            hit = []
        if hit:
            used.add(id(hit[0]))
            wi += 1
        else:
            empt = [r for r in cands if not r.sts]
            if not empt:
                return False
            used.add(id(empt[0]))
    return wi == len(want)


class Monitor:
    """Replays the operations of one executed history on the run map and compares every recorded answer.
    Returns a list of failures: dict(step, name, query, want, got, cls)."""

    def __init__(self, h):
        self.h = h
        self.runs = []
        self.cur = None
        self.upd_open = False
        self.taint = {}
        for n in h["names"]:
            c = name_class(n["d"])
            if c:
                self.taint[n["d"]] = c

    def same_second(self, d):
        secs = [r.stamp[:17] for r in self.runs if r.d == d]
        return len(secs) != len(set(secs))

    def same_ms(self, d):
        st = [r.stamp for r in self.runs if r.d == d]
        return len(st) != len(set(st))

    def apply(self, o):
        t = o["t"]
        if t == "open":
            ex = [r for r in self.runs if r.d == o["d"] and r.stamp == o["stamp"] and trunc8(r.req) == trunc8(o["req"])]
            if ex:
                self.cur = ex[0]
            else:
                self.cur = Run(o["d"], o["stamp"], o["req"], o["now"])
                self.runs.append(self.cur)
        elif t == "write":
            if self.cur is not None and self.cur in self.runs:
                self.cur.sts.append((self.cur.req, o["tag"]))
        elif t == "tear":
            # the recorder died in the middle of a line: the fragment is no status; the run keeps what it had and has no writer any more
            self.cur = None
        elif t == "close":
            self.cur = None
        elif t == "update":
            for r in self.runs:
                if r.d == o["d"] and r.req == o["req"] and r.sts:
                    r.sts.append((o["req"], o["tag"]))
                    if r is self.cur:
                        # the model's domain excludes a second descriptor appending to the file of the open run
                        self.upd_open = True
                        self.taint.setdefault(r.d, "update-during-run")
                    break
        elif t == "rename":
            d1, d2 = add_yaml(o["d"]), add_yaml(o["d2"])      # Rename addresses the DAGs by their .yaml paths
            if d1 in self.taint or d2 in self.taint:
                c = self.taint.get(d1) or self.taint.get(d2)
                self.taint.setdefault(d1, c)
                self.taint.setdefault(d2, c)
            for r in self.runs:
                if r.d == d1:
                    r.d = d2
        elif t == "removeold":
            self.runs = [r for r in self.runs if not (r.d == o["d"] and r.mtime < o["cutoff"])]

    def refresh_mtimes(self, step):
        """the run's age is the mtime of its file as the implementation left it (observed input)"""
        idx = {(f["dir"], f["name"]): f["mtime"] for f in step["files"]}
        for r in self.runs:
            dn, p = dirname_of(r.d), prefix_of(r.d)
            base = "%s.%s.%s" % (p, r.stamp, trunc8(r.req))
            ms = [idx[k] for k in ((dn, base + ".dat"), (dn, base + "_c.dat")) if k in idx]
            if ms:
                r.mtime = max(ms)

    def classify(self, d, query, got, n=None, day=None):
        if d in self.taint:
            return self.taint[d]
        if query in ("latest", "recent") and self.same_second(d) and not self.same_ms(d):
            if weak_ok(self.runs, d, got, n if n is not None else 1, day):
                return "same-second"
        return "other"

    def run(self):
        h = self.h
        fails = []
        prev_files = []
        for si, s in enumerate(h["steps"]):
            o = s["op"]
            # retention / isolation on the directory dump (observed), before the run map is updated
            fails += self.dir_monitor(si, o, prev_files, s["files"])
            self.apply(o)
            self.refresh_mtimes(s)
            for ni, nm in enumerate(h["names"]):
                d = nm["d"]
                per = s["per"][ni]

                def chk(query, want, got, cls_args):
                    w = [norm_ans(a) for a in want] if isinstance(want, list) else norm_ans(want)
                    g = [norm_ans(a) for a in got] if isinstance(got, list) else norm_ans(got)
                    if w != g:
                        gl = got if isinstance(got, list) else ([got] if got["c"] == 0 else [])
                        fails.append({"step": si, "name": d, "query": query[0], "which": query[1], "want": want, "got": got,
                                      "cls": self.classify(d, query[0], gl, *cls_args)})
                if not self.same_ms(d):
                    chk(("latest", "W"), spec_latest(self.runs, d), per["latW"], (1, None))
                    chk(("latest", "R0"), spec_latest(self.runs, d), per["lat0"], (1, None))
                    chk(("latest", "R1 today"), spec_latest(self.runs, d, h["today"]), per["lat1"], (1, h["today"]))
                    chk(("recent", "R0 n=1"), spec_recent(self.runs, d, 1), per["rec1"], (1, None))
                    chk(("recent", "R1 n=2"), spec_recent(self.runs, d, 2), per["rec2"], (2, None))
                    chk(("recent", "R0 n=%d" % h["nrec"]), spec_recent(self.runs, d, h["nrec"]), per["recN"], (h["nrec"], None))
                    chk(("recent", "W n=3"), spec_recent(self.runs, d, 3), per["recW"], (3, None))
                for ri, rq in enumerate(s["reqs"]):
                    w = spec_find(self.runs, d, rq)
                    g = per["finds"][ri]
                    if norm_ans(w) != norm_ans(g):
                        fails.append({"step": si, "name": d, "query": "find", "which": rq, "want": w, "got": g,
                                      "cls": self.classify(d, "find", [])})
            prev_files = s["files"]
        return fails

    def dir_monitor(self, si, o, prev, cur):
        """isolation: an operation changes only the directories of the DAG(s) it names; retention removes exactly
        the files of that DAG whose mtime is older than the cutoff."""
        fails = []
        t = o["t"]
        mine = set()
        if t in ("open", "update", "removeold", "touch"):
            mine.add(dirname_of(o["d"]))
        if t == "rename":
            mine.add(dirname_of(add_yaml(o["d"])))
            mine.add(dirname_of(add_yaml(o["d2"])))
        if t in ("write", "close", "tear") and self.cur is not None:
            mine.add(dirname_of(self.cur.d))

        def key(f):
            return (f["dir"], f["name"], f["size"], f["mtime"], json.dumps(f["lines"]), json.dumps(f["tail"]))
        involved = [o.get("d", ""), o.get("d2", "")] + ([self.cur.d] if self.cur is not None else [])
        tcls = next((self.taint[n] for n in involved if n in self.taint), "other")
        p = {key(f) for f in prev if f["dir"] not in mine}
        c = {key(f) for f in cur if f["dir"] not in mine}
        if p != c:
            fails.append({"step": si, "name": o.get("d", "") or (self.cur.d if self.cur is not None else ""), "query": "isolation", "which": t,
                          "want": "files of other DAGs unchanged", "got": sorted(x[:2] for x in p ^ c)[:6], "cls": tcls})
        if t == "removeold":
            dn = dirname_of(o["d"])
            before = {f["name"]: f for f in prev if f["dir"] == dn}
            after = {f["name"] for f in cur if f["dir"] == dn}
            want_gone = {n for n, f in before.items() if f["mtime"] < o["cutoff"]}
            gone = set(before) - after
            if gone != want_gone or (after - set(before)):
                fails.append({"step": si, "name": o["d"], "query": "retention", "which": "days=%d" % o.get("days", 0),
                              "want": sorted(want_gone), "got": sorted(gone), "cls": self.taint.get(o["d"], "other")})
        return fails


def nontrivial(h):
    """a history is non-trivial when some DAG has at least two runs and a mutation other than open/write/close occurs"""
    per = {}
    kinds = set()
    for s in h["steps"]:
        o = s["op"]
        kinds.add(o["t"])
        if o["t"] == "open":
            per[o["d"]] = per.get(o["d"], 0) + 1
    return max(per.values() or [0]) >= 2 and bool(kinds - {"open", "write", "close"})


def hist_key(h):
    return json.dumps([h["names"], [{k: v for k, v in s["op"].items() if k not in ("now", "cutoff")} for s in h["steps"]]], sort_keys=True)


def strip_exec(h):
    """the input part of a history (names + ops), for replay files"""
    ops = []
    for s in h.get("steps", []):
        ops.append({k: v for k, v in s["op"].items() if k not in ("now", "cutoff", "size", "err", "stamp", "r8")})
    if not h.get("steps"):
        ops = h["ops"]
    out = {"k": h.get("k", 0), "names": h["names"], "nrec": h.get("nrec", 3), "ops": ops}
    if h.get("tz"):
        out["tz"] = h["tz"]          # the zone the history is executed in (zone slice of C06)
    return out
