"""C10 - retry re-executes exactly the unfinished part of a recorded run (DESIGN.md section 5, C10)."""
import json
import os
from concurrent.futures import ThreadPoolExecutor

import vlib
from vlib import clist
from props import agent_lib
from props import paramslog_lib as pl
from props import C11 as c11

SHARD = 2500
OKST = (4, 5)          # finished, skipped


def coq_case(c):
    E = clist(["(%d, %d)" % (d, i) for i, ds in enumerate(c["deps"]) for d in ds])
    obs = clist([str(i) for i, b in enumerate(c["cleared"]) if b])
    return "(%d, %s, %s, %s)" % (c["n"], E, clist([str(x) for x in c["st"]]), obs)


def eval_shard(ctx, idx, cases):
    txt = ("From Coq Require Import List Arith.\nImport ListNotations.\n"
           "From BD.Graph Require Import Kahn Retry RetryCheck.\n"
           "Definition cases : list rcase := [\n%s\n].\n"
           "Definition M := Eval vm_compute in mismatches cases.\nPrint M.\n") % ";\n".join(coq_case(c) for c in cases)
    rc, out, dt = vlib.coq_eval(ctx.scratch, "cases_c10_%d" % idx, txt)
    if rc != 0:
        return None, out[-1500:]
    return vlib.coq_list_result(out, "M"), None


def descendants(n, deps, seeds):
    succ = [[] for _ in range(n)]
    for i, ds in enumerate(deps):
        for d in ds:
            succ[d].append(i)
    seen = set(seeds)
    todo = list(seeds)
    while todo:
        u = todo.pop()
        for v in succ[u]:
            if v not in seen:
                seen.add(v)
                todo.append(v)
    return seen


def monitor_run(c):
    """The property on one retry run.  Returns (list of complaints, class dict)."""
    n = c["n"]
    rec = c["rec"]
    cls = {"class": "recorded-running" if 1 in rec else "plain", "how": c["how"]}
    bad = []
    if c.get("sched_err", "").startswith("graph:"):
        return ["retry graph refused: " + c["sched_err"]], cls
    if not c["terminated"]:
        return ["the retry did not terminate (watchdog)"], cls
    R = descendants(n, c["deps"], [w for w in range(n) if rec[w] not in OKST])
    fin = c["fin"]
    for u in range(n):
        if u not in R:
            if c["exec2"][u] != 0:
                bad.append("step %d completed successfully in the recorded run and is not downstream of an unfinished step, but was executed again" % u)
            if fin[u] != rec[u] or c["fin_retry"][u] != c["rec_retry"][u] or not c["fin_log_kept"][u]:
                bad.append("step %d is outside the retried part but its recorded result changed" % u)
        else:
            blocked = any((fin[d] == 2 and not c["cof"][d]) or fin[d] == 3 or (fin[d] == 5 and not c["cos"][d]) for d in c["deps"][u])
            if blocked:
                if c["exec2"][u] != 0 or fin[u] not in (3, 5):
                    bad.append("step %d is blocked by a dependency's final state but was executed / not labelled canceled|skipped" % u)
            elif not c["pre"][u]:
                if c["exec2"][u] != 0 or fin[u] != 5:
                    bad.append("step %d has an unmet precondition but was not skipped" % u)
            else:
                if c["exec2"][u] != 1 or fin[u] != 4:
                    bad.append("step %d belongs to the unfinished part and is runnable but was executed %d times, final status %d"
                               % (u, c["exec2"][u], fin[u]))
    # dependency order of the re-executed steps
    for pos, u in enumerate(c["order"] or []):
        ended = set((c["end_order"] or [])[:c["ends"][pos]])
        for d in c["deps"][u]:
            if c["exec2"][d] > 0 and d not in ended:
                bad.append("step %d was started before its re-executed dependency %d had ended" % (u, d))
    return bad, cls


def run(ctx, replay_cases=None):
    ctx.proofs(extra=["Graph/RetryCheck.vo"] + list(agent_lib.EXTRA_VO))
    tool, out, _ = vlib.go_build("retry", ctx.scratch)
    if tool is None:
        ctx.fail("correspondence", "harness does not build against /repo", {"log": out[-2000:]})
        return ctx.finish()
    p = os.path.join(ctx.scratch, "retry.jsonl")
    rc, out, dt = vlib.run_tool(tool, [p, ctx.tier], env_extra={"VERIF_SEED": str(ctx.seed)}, timeout=3000)
    if rc != 0:
        ctx.fail("correspondence", "retry driver failed", {"log": out[-2000:]})
        return ctx.finish()
    cases = vlib.read_jsonl(p)
    reset = [c for c in cases if c["stream"].startswith("reset")]
    runs = [c for c in cases if c["stream"] == "run"]
    pcases = [c for c in cases if c["stream"] == "params"]
    # ---- correspondence: which nodes the real setupRetry cleared vs the model -------------------------
    for c in reset:
        if c.get("err"):
            ctx.fail("correspondence", "NewExecutionGraphForRetry refused an acyclic graph", c)
    reset_ok = [c for c in reset if not c.get("err")]
    for c in reset_ok:
        # a node is either kept exactly as recorded or reset to the zero state (status, log, times, retry and done counts):
        # a step that runs again with the retry budget of the recorded run already spent does not "run again" as a step does
        if c.get("partial"):
            ctx.fail("monitor", "NewExecutionGraphForRetry left node(s) %s neither as recorded nor in the zero state "
                     "(a re-executed step would carry the recorded run's retry/done counts or log)" % c["partial"], c)
    shards = [reset_ok[i:i + SHARD] for i in range(0, len(reset_ok), SHARD)]
    with ThreadPoolExecutor(max_workers=14) as ex:
        results = list(ex.map(lambda t: eval_shard(ctx, t[0], t[1]), enumerate(shards)))
    for sh, (res, err) in zip(shards, results):
        if res is None:
            ctx.fail("correspondence", "the model could not be evaluated on a shard of cases (coqc failed)", {"log": err})
            continue
        for k in res:
            ctx.fail("correspondence", "cleared set of the real setupRetry differs from the model's", sh[k])
    # ---- monitor: the property on real retry runs ------------------------------------------------------
    classes = {}
    nontrivial = set()
    for c in runs:
        bad, cls = monitor_run(c)
        key = "%s/%s" % (cls["class"], cls["how"])
        classes[key] = classes.get(key, 0) + 1
        if any(s not in OKST for s in c["rec"]) and any(c["deps"]):
            nontrivial.add(json.dumps([c["deps"], c["rec"], c["cof"], c["cos"], c["pre"]]))
        if bad:
            ctx.fail("monitor", "; ".join(bad[:3]), c, cls={"class": cls["class"]})
    # ---- monitor: the retry re-uses the parameter values of the recorded run --------------------------
    pdist = set()
    for c in pcases:
        if c.get("err"):
            ctx.fail("monitor", "loading the DAG with generated parameters failed: " + c["err"], c, cls={"class": "params-load"})
            continue
        if "VERIF_C10_E" in (c["default"] + c["given"]) or "=" in (c["given"] or c["default"]):
            pdist.add(json.dumps([c["default"], c["given"]]))
        if c["first"] != c["second"]:
            ctx.fail("monitor", "the retry does not see the parameter values of the recorded run: first run saw %s, recorded "
                     "Params %r, retry sees %s" % (json.dumps(c["first"], sort_keys=True), c["recorded"], json.dumps(c["second"], sort_keys=True)),
                     c, cls={"class": "params-reuse"})
    nontrivial |= pdist
    # ---- monitor: the retry is recorded as a new run and uses the steps of the recorded run (real agent) -------
    acases = agent_lib.run_cases(ctx, ["retry"], tag="retry")
    if acases is None:
        ctx.fail("correspondence", "agent driver (harness/cmd/agentrun) does not build or run against /repo", {})
        acases = []
    for c in acases:
        why = agent_lib.monitor_retry(c)
        if why:
            ctx.fail("monitor", "agent-level retry: " + why, c, cls={"class": "agent-retry", "sub": c.get("sub")})
        nontrivial.add(json.dumps(["agent-retry", c.get("sub"), c.get("steps")]))
    agent_lib.check_model(ctx, acases, tag="c10_agent")
    # ---- monitor: the real `retry --req <id>` command re-uses the recorded parameter values --------------------
    # (the `retrycmd` stream of the params driver of C11: real `start -p` in a process with $C11VAR=alpha on a DAG whose
    #  second step fails once, then the real `retry` command in a process with $C11VAR=beta)
    ptool, pout, _ = vlib.go_build("params", ctx.scratch)
    rcases = []
    if ptool is None:
        ctx.fail("correspondence", "params driver does not build against /repo", {"log": pout[-1500:]})
    else:
        lists = [[{"kind": "q", "value": "hello world"}],
                 [{"kind": "q", "value": "a b"}, {"kind": "w", "value": "c"}, {"kind": "q", "value": "d e"}],
                 [{"kind": "w", "value": "alpha"}, {"kind": "nw", "name": "DAY", "value": "${C11VAR}"}],
                 [{"kind": "nq", "name": "NAME", "value": "x y"}, {"kind": "w", "value": "z"}]]
        rin = [{"stream": "retrycmd", "gen": "c10", "s": "", "items": it} for it in lists]
        # an env: entry whose value differs when the retry loads the DAG file (env: RUNDIR: dir-${C11VAR}): the re-executed
        # steps must see the recorded value in their process environment
        rin += [{"stream": "retrycmd", "gen": "c10", "s": "", "items": [{"kind": "w", "value": "p1"}], "envdiff": True},
                {"stream": "retrycmd", "gen": "c10", "s": "", "items": [{"kind": "q", "value": "a b"}, {"kind": "nw", "name": "N", "value": "${C11VAR}"}], "envdiff": True}]
        rcases = pl.replay_cases(ptool, ctx, rin, tag="c10retry")
        if len(rcases) != len(rin):
            ctx.fail("correspondence", "the retry-command cases could not be run (params driver, replay mode)", {"got": len(rcases)})
        for c in rcases:
            r = c11.monitor_retrycmd(c)
            if r:
                what, cls = r
                if cls.get("class") in ("v0", "retry-values", "v1"):
                    ctx.fail("monitor", "retry command: " + what, c11.slim(c), cls={"class": "retry-command-params"})
            nontrivial.add(json.dumps(["retrycmd", c.get("items")]))
    for c in reset_ok:
        if any(s in (2, 3) for s in c["st"]) and any(c["deps"]):
            nontrivial.add(json.dumps([c["deps"], c["st"]]))
    ctx.cov["evaluations"] = len(cases) + len(acases) + len(rcases)
    ctx.cov["traces_validated_against_impl"] = len(reset_ok) + len(runs)
    ctx.cov["distinct_nontrivial"] = len(nontrivial)
    ctx.cov["rule"] = ("reset stream: every acyclic digraph on <=3 nodes x every recorded status vector in {none,running,failed,"
                       "canceled,finished,skipped}^n through the real NewExecutionGraphForRetry (exhaustive) + random DAGs of "
                       "4-8 nodes, cleared set compared with the Coq setup_retry; run stream: a first run of a random DAG on the "
                       "real scheduler (scripted executor; failures, retries, unmet preconditions, stop, mid-run snapshot = what "
                       "a killed process leaves), then the retry of the recorded table, monitored against the property "
                       "(executed set = unfinished part + downstream, others untouched, dependency order, termination); params "
                       "stream: dag.Load(file, given) -> recorded Params string (model.Params) -> dag.Load(file, recorded) in a "
                       "process whose environment changed meanwhile, values of $1..$n/$NAME compared (parameter values without "
                       "spaces or quotes; those are C11's subject); agent stream: a real agent run (failed or stopped), the record read back, "
                       "the definition changed on disk in 2 of 3 cases, then a real agent retry - the old history files must be "
                       "byte-identical, exactly one new file with the new request id and the same Params, finished steps not re-executed, "
                       "only steps of the record run. "
                       "non-trivial = at least one dependency edge and at least one recorded step that is not finished/skipped; "
                       "distinct by (graph, recorded vector, flags)")
    ctx.cov["streams"] = {"reset": len(reset), "run": len(runs), "params": len(pcases), "agent_retry": len(acases), "retry_command": len(rcases)}
    ctx.cov["run_classes"] = classes
    ctx.cov["exhaustive"] = False
    for c in reset_ok[300:301] + runs[:2] + pcases[:1]:
        ctx.sample(c)
    ctx.assumptions = ["retry runs use scripts in which every re-executed command succeeds",
                       "step names distinct; graph acyclic (admission is C14)",
                       "parameter re-use is monitored for values without white space or quotes (C11 covers the tokenizer and its known findings)"]
    if ctx.tier == "thorough":
        ctx.coqchk()
    return ctx.finish()


def replay(ctx, path):
    # the driver is deterministic in (seed, tier): re-run the whole check with the seed of the replay file
    body = json.load(open(path))
    ctx.seed = int(body.get("seed", ctx.seed))
    return run(ctx)
